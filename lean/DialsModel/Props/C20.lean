/-
C20 — Source wrappers are transparent for initial values and later updates.

Property theorems only (helper lemmas: Lemmas/Wrap.lean; models: Model/Wrap.lean).  The
transformer of a mangler list is abstract (`Xf`: any `translate`, any `reverse`), the inner
source / decoder / watcher is any function or call sequence, a Blank's history is any finite list
of `Value` / `Watch` / `SetSource` / `Done` operations.
-/
import DialsModel.Lemmas.Wrap

set_option linter.unusedSectionVars false

namespace Dials.C20
open Dials Dials.Wrap

/-- `res` is a Go error that carries the message `c` of the error it wraps (`Unwrap` chain) -/
def Carries {α : Type} (res : Outcome α) (c : String) : Prop := ∃ p, res = .err (p ++ c)

section
variable {Ty Ty' Val Val' : Type} [Inhabited Ty'] [Inhabited Val'] [Inhabited Val]

/-- Value transparency of a transforming SOURCE, any mangler list, any inner source, any requested
type: the wrapper's `Value` succeeds exactly when translating the type, the inner source's `Value` ON
THE TRANSLATED TYPE and reverse-translating its answer all succeed, and then returns exactly that
reverse-translated answer — no value is invented, altered or dropped. -/
theorem C20_value_transparent (X : Xf Ty Ty' Val Val') (inner : Ty' → Outcome Val') (T : Ty) (v : Val) :
    wrappedValue srcRules X inner T = .ok v ↔
      ∃ T' v', X.translate T = .ok T' ∧ inner T' = .ok v' ∧ X.reverse T v' = .ok v := by
  obtain ⟨p1, p2, p3, h1, h2, h3⟩ := srcRules_some
  rw [wrappedValue_eq_pipeline srcRules h1 h2 h3]
  unfold pipeline
  constructor
  · intro h
    cases ht : X.translate T with
    | ok T' =>
      rw [ht] at h; simp only at h
      cases hi : inner T' with
      | ok v' =>
        rw [hi] at h; simp only at h
        cases hr : X.reverse T v' with
        | ok w => rw [hr] at h; simp only at h; exact ⟨T', v', rfl, hi, by rw [hr]; exact h⟩
        | err c => rw [hr] at h; simp at h
        | panic c => rw [hr] at h; simp at h
      | err c => rw [hi] at h; simp at h
      | panic c => rw [hi] at h; simp at h
    | err c => rw [ht] at h; simp at h
    | panic c => rw [ht] at h; simp at h
  · rintro ⟨T', v', ht, hi, hr⟩
    simp [ht, hi, hr]

/-- Errors of a transforming source are propagated, none swallowed: whichever of the three steps
fails (type translation, the inner source's `Value`, reverse translation), the wrapper's `Value` returns
an error wrapping that step's error; a panic unwinds; and the wrapper returns no error of its own
making. -/
theorem C20_value_errors_propagated (X : Xf Ty Ty' Val Val') (inner : Ty' → Outcome Val') (T : Ty) :
    (∀ c, X.translate T = .err c → Carries (wrappedValue srcRules X inner T) c) ∧
    (∀ T' c, X.translate T = .ok T' → inner T' = .err c → Carries (wrappedValue srcRules X inner T) c) ∧
    (∀ T' v' c, X.translate T = .ok T' → inner T' = .ok v' → X.reverse T v' = .err c →
        Carries (wrappedValue srcRules X inner T) c) ∧
    (∀ T' c, X.translate T = .ok T' → inner T' = .panic c → wrappedValue srcRules X inner T = .panic c) ∧
    (∀ e, wrappedValue srcRules X inner T = .err e → ∃ c, Carries (Outcome.err e : Outcome Val) c ∧
        (X.translate T = .err c ∨ (∃ T', X.translate T = .ok T' ∧ inner T' = .err c) ∨
         (∃ T' v', X.translate T = .ok T' ∧ inner T' = .ok v' ∧ X.reverse T v' = .err c))) := by
  obtain ⟨p1, p2, p3, h1, h2, h3⟩ := srcRules_some
  rw [wrappedValue_eq_pipeline srcRules h1 h2 h3]
  unfold pipeline
  refine ⟨?_, ?_, ?_, ?_, ?_⟩
  · intro c ht; exact ⟨p1, by simp [ht]⟩
  · intro T' c ht hi; exact ⟨p2, by simp [ht, hi]⟩
  · intro T' v' c ht hi hr; exact ⟨p3, by simp [ht, hi, hr]⟩
  · intro T' c ht hi; simp [ht, hi]
  · intro e h
    cases ht : X.translate T with
    | ok T' =>
      rw [ht] at h; simp only at h
      cases hi : inner T' with
      | ok v' =>
        rw [hi] at h; simp only at h
        cases hr : X.reverse T v' with
        | ok w => rw [hr] at h; simp at h
        | err c =>
          rw [hr] at h; simp only [Outcome.err.injEq] at h
          exact ⟨c, ⟨p3, by rw [h]⟩, Or.inr (Or.inr ⟨T', v', rfl, hi, hr⟩)⟩
        | panic c => rw [hr] at h; simp at h
      | err c =>
        rw [hi] at h; simp only [Outcome.err.injEq] at h
        exact ⟨c, ⟨p2, by rw [h]⟩, Or.inr (Or.inl ⟨T', rfl, hi⟩)⟩
      | panic c => rw [hi] at h; simp at h
    | err c =>
      rw [ht] at h; simp only [Outcome.err.injEq] at h
      exact ⟨c, ⟨p1, by rw [h]⟩, Or.inl rfl⟩
    | panic c => rw [ht] at h; simp at h

/-- The same two statements for a transforming DECODER (`NewTransformingDecoder`; `dec` is the inner
decoder applied to the reader's bytes): `Decode` succeeds exactly when all three steps do, with the
reverse-translated value of the inner decoder's answer on the translated type … -/
theorem C20_decode_transparent (X : Xf Ty Ty' Val Val') (dec : Ty' → Outcome Val') (T : Ty) (v : Val) :
    wrappedValue decRules X dec T = .ok v ↔
      ∃ T' v', X.translate T = .ok T' ∧ dec T' = .ok v' ∧ X.reverse T v' = .ok v := by
  obtain ⟨p1, p2, p3, h1, h2, h3⟩ := decRules_some
  rw [wrappedValue_eq_pipeline decRules h1 h2 h3]
  unfold pipeline
  constructor
  · intro h
    cases ht : X.translate T with
    | ok T' =>
      rw [ht] at h; simp only at h
      cases hi : dec T' with
      | ok v' =>
        rw [hi] at h; simp only at h
        cases hr : X.reverse T v' with
        | ok w => rw [hr] at h; simp only at h; exact ⟨T', v', rfl, hi, by rw [hr]; exact h⟩
        | err c => rw [hr] at h; simp at h
        | panic c => rw [hr] at h; simp at h
      | err c => rw [hi] at h; simp at h
      | panic c => rw [hi] at h; simp at h
    | err c => rw [ht] at h; simp at h
    | panic c => rw [ht] at h; simp at h
  · rintro ⟨T', v', ht, hi, hr⟩
    simp [ht, hi, hr]

/-- … and every failing step's error comes back from `Decode`. -/
theorem C20_decode_errors_propagated (X : Xf Ty Ty' Val Val') (dec : Ty' → Outcome Val') (T : Ty) :
    (∀ c, X.translate T = .err c → Carries (wrappedValue decRules X dec T) c) ∧
    (∀ T' c, X.translate T = .ok T' → dec T' = .err c → Carries (wrappedValue decRules X dec T) c) ∧
    (∀ T' v' c, X.translate T = .ok T' → dec T' = .ok v' → X.reverse T v' = .err c →
        Carries (wrappedValue decRules X dec T) c) := by
  obtain ⟨p1, p2, p3, h1, h2, h3⟩ := decRules_some
  rw [wrappedValue_eq_pipeline decRules h1 h2 h3]
  unfold pipeline
  refine ⟨?_, ?_, ?_⟩
  · intro c ht; exact ⟨p1, by simp [ht]⟩
  · intro T' c ht hi; exact ⟨p2, by simp [ht, hi]⟩
  · intro T' v' c ht hi hr; exact ⟨p3, by simp [ht, hi, hr]⟩

/-- `Watch` of a transforming source around a watcher: it succeeds exactly when the type translates
and the inner watcher's `Watch` on the translated type succeeds; both errors are propagated; and the
wrapper is a `dials.Watcher` exactly when the inner source is one. -/
theorem C20_watch_transparent (X : Xf Ty Ty' Val Val') (innerWatch : Ty' → Outcome Unit) (T : Ty) :
    (wrappedWatch X innerWatch T = .ok () ↔ ∃ T', X.translate T = .ok T' ∧ innerWatch T' = .ok ()) ∧
    (∀ c, X.translate T = .err c → Carries (wrappedWatch X innerWatch T) c) ∧
    (∀ T' c, X.translate T = .ok T' → innerWatch T' = .err c → Carries (wrappedWatch X innerWatch T) c) ∧
    (∀ w, wrappedIsWatcher w = w) := by
  obtain ⟨p1, p2, hw⟩ := wrappedWatch_eq (Ty := Ty) (Ty' := Ty') (Val := Val) (Val' := Val')
  rw [hw X innerWatch T]
  refine ⟨?_, ?_, ?_, ?_⟩
  · constructor
    · intro h
      cases ht : X.translate T with
      | ok T' =>
        rw [ht] at h; simp only at h
        cases hi : innerWatch T' with
        | ok u => exact ⟨T', rfl, hi⟩
        | err c => rw [hi] at h; simp at h
        | panic c => rw [hi] at h; simp at h
      | err c => rw [ht] at h; simp at h
      | panic c => rw [ht] at h; simp at h
    · rintro ⟨T', ht, hi⟩
      simp [ht, hi]
  · intro c ht; exact ⟨p1, by simp [ht]⟩
  · intro T' c ht hi; exact ⟨p2, by simp [ht, hi]⟩
  · intro w; simp [wrappedIsWatcher, Facts.wrapKeepsWatcher]

/-- Update transparency, for every call sequence of the inner watcher on the `WatchArgs` it was
given (both `ReportNewValue` and `BlockingReportNewValue`, `Done`, `ReportError`, in any order and
number): the sequence of messages reaching dials through the wrapper IS the sequence a source
producing the requested type natively would have sent — every reported value arrives
reverse-translated, by the same method (blocking stays blocking), in order; `Done` and `ReportError`
pass through; a value that cannot be reverse-translated is not delivered (its error goes back to
the reporter: `C20_report_result`).  Depends on the regenerated method set of `wrappedWatchArgs`
(fact F16): it fails to check if either report method is no longer overridden. -/
theorem C20_updates_transparent (X : Xf Ty Ty' Val Val') (T : Ty) (under : Msg Val Val' → Outcome Unit)
    (calls : List (Call Val')) :
    delivered watchOverrides X T under calls = calls.filterMap (native X T) := by
  induction calls with
  | nil => rfl
  | cons c cs ih =>
    have hc := wrappedCall_fst X T under c
    unfold delivered at ih ⊢
    rw [List.flatMap_cons, ih, hc, List.filterMap_cons]
    cases native X T c <;> simp

/-- When every reported value reverse-translates, nothing is lost: `n` reports give exactly the `n`
reverse-translated values, each by the method it was reported with. -/
theorem C20_updates_all_arrive (X : Xf Ty Ty' Val Val') (T : Ty) (under : Msg Val Val' → Outcome Unit)
    (rs : List (Bool × Val' × Val)) (h : ∀ r ∈ rs, X.reverse T r.2.1 = .ok r.2.2) :
    delivered watchOverrides X T under (rs.map fun r => Call.report r.1 r.2.1) =
      rs.map fun r => Msg.value r.1 r.2.2 := by
  rw [C20_updates_transparent]
  induction rs with
  | nil => rfl
  | cons r rs ih =>
    have hr := h r (by simp)
    simp only [List.map_cons, List.filterMap_cons, native, hr]
    rw [ih (fun r' hr' => h r' (by simp [hr']))]

/-- What the inner watcher gets back from a report through the wrapper: dials' own answer for the
reverse-translated value, or the reverse-translation error (never nil for a value that was not
delivered). -/
theorem C20_report_result (X : Xf Ty Ty' Val Val') (T : Ty) (under : Msg Val Val' → Outcome Unit)
    (b : Bool) (v' : Val') :
    (∀ v, X.reverse T v' = .ok v → (wrappedCall watchOverrides X T under (.report b v')).2 = under (.value b v)) ∧
    (∀ c, X.reverse T v' = .err c → Carries (wrappedCall watchOverrides X T under (.report b v')).2 c) := by
  obtain ⟨p, hp⟩ := wrappedCall_report_snd X T under b v'
  constructor
  · intro v hv; rw [hp, hv]
  · intro c hc; exact ⟨p, by rw [hp, hc]⟩

/-- Consequently (the monitor is a function of the messages it receives — C04/C05): any observer of
dials, e.g. the sequence of `View()`s, cannot tell the wrapped watcher from a native one. -/
theorem C20_views_equal {α : Type} (dials : List (Msg Val Val') → α) (X : Xf Ty Ty' Val Val') (T : Ty)
    (under : Msg Val Val' → Outcome Unit) (calls : List (Call Val')) :
    dials (delivered watchOverrides X T under calls) = dials (calls.filterMap (native X T)) := by
  rw [C20_updates_transparent]

end

/-- The regenerated structural facts the models rely on without branching on them (tools/facts/wrap.go, F16b/d/e/f):
the wrappers call TranslateType, then the inner source / decoder / watcher WITH THE TRANSLATED TYPE, then
ReverseTranslate, in this order; `Watch` hands the inner watcher the wrapping args; and
`tagformat.ReformatDialsTagSource(inner, …)` is `NewTransformingSource(inner, <one tag-reformatting mangler>)`, so
everything above applies to it. -/
theorem C20_facts :
    Facts.wrapStepsInOrder = true ∧ Facts.wrapInnerGetsTranslatedType = true ∧
    Facts.wrapWatchPassesWrappedArgs = true ∧ Facts.reformatSourceIsTransforming = true ∧ Facts.missingFacts = [] := by
  decide

/-! ### Blank -/

/-- One `SetSource(s)` on a Blank in any state: the state afterwards.  Nothing changes when the
current inner source is a watcher or `s.Value` fails; in every other case — including a failing
report, a failing `Watch` of `s`, or a Blank that was never watched (panic) — `s` IS the inner
source afterwards (the code assigns `b.inner` before reporting). -/
theorem C20_blank_setSource_state (b : Blank) (s : Src) (rep : Bool) :
    (step code b (.setSource (some s) rep)).1 =
      if b.innerIsWatcher || !s.valueOk then b else { b with inner := some s } := by
  rw [step_setSource, setSourceSpec_state]

/-- `SetSource` returns nil only after the blocking report returned nil: it returns nil exactly when
the Blank holds no watcher, `s.Value` succeeded, `Watch` had been called, the BLOCKING report of
that value answered nil and (for a watcher) `s.Watch` succeeded; and then the calls were, in this
order: `s.Value`, `BlockingReportNewValue`, and for a watcher `s.Watch`. -/
theorem C20_blank_setSource_nil (b : Blank) (s : Src) (rep : Bool) :
    ((step code b (.setSource (some s) rep)).2.2 = .nil ↔
      (b.innerIsWatcher = false ∧ s.valueOk = true ∧ b.wa = true ∧ rep = true ∧ (s.watcher = true → s.watchOk = true))) ∧
    ((step code b (.setSource (some s) rep)).2.2 = .nil →
      (step code b (.setSource (some s) rep)).2.1 =
        [.innerValue s.id, .report s.id true] ++ (if s.watcher then [.innerWatch s.id] else [])) := by
  rw [step_setSource]
  unfold setSourceSpec
  cases b.innerIsWatcher <;> cases s.valueOk <;> cases b.wa <;> cases rep <;> cases s.watcher <;> cases s.watchOk <;> simp

/-- The same over whole histories: in any finite sequence of operations from any state, every
`SetSource` that returned nil had its blocking report answered nil. -/
theorem C20_blank_nil_only_after_report (b : Blank) (ops : List Op) :
    ∀ x ∈ ops.zip (run code b ops).2, ∀ s rep, x.1 = .setSource (some s) rep → x.2.2 = .nil →
      rep = true ∧ Ev.report s.id true ∈ x.2.1 := by
  induction ops generalizing b with
  | nil => intro x hx; simp at hx
  | cons op ops ih =>
    intro x hx s rep hop hnil
    rw [run_cons_snd, List.zip_cons_cons, List.mem_cons] at hx
    cases hx with
    | inl h =>
      subst h
      simp only at hop hnil
      subst hop
      have h1 := (C20_blank_setSource_nil b s rep).1.1 hnil
      have h2 := (C20_blank_setSource_nil b s rep).2 hnil
      refine ⟨h1.2.2.2.1, ?_⟩
      simp only; rw [h2]; simp
    | inr h => exact ih _ x h s rep hop hnil

/-- Blank delegates to the most recently set inner source, over ALL finite operation sequences on a
fresh Blank: with `candidates ops` the sources whose `Value` succeeded when handed to `SetSource`,
the inner source is the first watcher among them if there is one, else the most recent of them;
and `Value` returns exactly that source's `Value` (the zero value when there is none). -/
theorem C20_blank_delegates (ops : List Op) :
    (final code {} ops).inner = holder (candidates ops) ∧
    (step code (final code {} ops) .value).2 =
      (match holder (candidates ops) with
       | some s => ([.innerValue s.id], .innerResult s.id s.valueOk)
       | none => ([], .zeroValue)) := by
  have h := final_inner {} ops
  simp only [holderFrom] at h
  refine ⟨h, ?_⟩
  rw [step_value, h]
  cases holder (candidates ops) <;> rfl

/-- … so as long as no watcher was set it is the most recently set source … -/
theorem C20_blank_most_recent (ops : List Op) (h : (candidates ops).any (·.watcher) = false) :
    (final code {} ops).inner = (candidates ops).getLast? := by
  rw [(C20_blank_delegates ops).1]
  unfold holder
  have : (candidates ops).find? (·.watcher) = none := by
    rw [List.find?_eq_none]
    intro x hx hw
    have := List.any_eq_true.2 ⟨x, hx, hw⟩
    rw [h] at this; cases this
  rw [this]

/-- … and once a watcher `w` was set (`SetSource` got past its `Value`), it stays the inner source
whatever is done afterwards. -/
theorem C20_blank_watcher_stays (ops : List Op) (pre post : List Src) (w : Src)
    (hc : candidates ops = pre ++ w :: post) (hpre : pre.any (·.watcher) = false) (hw : w.watcher = true) :
    (final code {} ops).inner = some w := by
  rw [(C20_blank_delegates ops).1, hc]
  unfold holder
  have : (pre ++ w :: post).find? (·.watcher) = some w := by
    rw [List.find?_append]
    have : pre.find? (·.watcher) = none := by
      rw [List.find?_eq_none]
      intro x hx hxw
      have := List.any_eq_true.2 ⟨x, hx, hxw⟩
      rw [hpre] at this; cases this
    rw [this]; simp [List.find?, hw]
  rw [this]

/-- Blank refuses to replace a watching inner source and changes nothing then: in any state whose
inner source is a watcher, every `SetSource` (any source, nil included) fails, calls nothing (not even
the new source's `Value`) and leaves the state as it was … -/
theorem C20_blank_refuses (b : Blank) (hw : b.innerIsWatcher = true) (s : Option Src) (rep : Bool) :
    (step code b (.setSource s rep)).1 = b ∧ (step code b (.setSource s rep)).2.1 = [] ∧
      (step code b (.setSource s rep)).2.2 ≠ .nil := by
  cases s with
  | none => exact step_setSource_nil b rep
  | some s =>
    rw [step_setSource]
    simp [setSourceSpec, hw]

/-- … and this holds for the rest of the Blank's life: after ANY further finite sequence of
operations the inner source is still that watcher, every `SetSource` in the sequence failed without
calling anything, and no `Done` was forwarded. -/
theorem C20_blank_refuses_forever (b : Blank) (hw : b.innerIsWatcher = true) (ops : List Op) :
    (final code b ops).inner = b.inner ∧
    ∀ x ∈ ops.zip (run code b ops).2,
      (∀ s rep, x.1 = .setSource s rep → x.2.1 = [] ∧ x.2.2 ≠ .nil) ∧ (x.1 = .done → x.2.1 = []) := by
  induction ops generalizing b with
  | nil => exact ⟨rfl, by intro x hx; simp at hx⟩
  | cons op ops ih =>
    have hstep : (step code b op).1.inner = b.inner := by
      cases op with
      | value => rw [step_value]; cases hb : b.inner <;> simp [hb]
      | watch => rw [step_watch]; cases b.t <;> simp
      | done => rw [step_done]
      | setSource s rep => rw [(C20_blank_refuses b hw s rep).1]
    have hw' : (step code b op).1.innerIsWatcher = true := by
      unfold Blank.innerIsWatcher at hw ⊢
      rw [hstep]; exact hw
    obtain ⟨ih1, ih2⟩ := ih (step code b op).1 hw'
    refine ⟨by rw [final_cons, ih1, hstep], ?_⟩
    intro x hx
    rw [run_cons_snd, List.zip_cons_cons, List.mem_cons] at hx
    cases hx with
    | inl h =>
      subst h
      refine ⟨?_, ?_⟩
      · intro s rep hop
        simp only at hop
        subst hop
        exact (C20_blank_refuses b hw s rep).2
      · intro hop
        simp only at hop
        subst hop
        simp only
        rw [step_done]
        simp [hw]
    | inr h => exact ih2 x h

/-- `Done` is forwarded iff watch args are set and the inner source is not a watcher (any state);
it never changes the Blank and never fails. -/
theorem C20_blank_done (b : Blank) :
    step code b .done = (b, if b.wa && !b.innerIsWatcher then [.doneFwd] else [], .nil) :=
  step_done b

/-- Over histories: after ANY finite sequence of operations on a fresh Blank, a `Done` is forwarded
to dials exactly when `Watch` has been called and no watcher has been set so far — i.e. only while
the Blank still owns the watch slot. -/
theorem C20_blank_done_history (pre : List Op) :
    (step code (final code {} pre) .done).2.1 =
      if watched pre && !(candidates pre).any (·.watcher) then [.doneFwd] else [] := by
  rw [step_done]
  have hwa := final_wa {} pre rfl
  have hin := (C20_blank_delegates pre).1
  have hany := holder_any_watcher (candidates pre)
  simp only [Bool.false_or] at hwa
  have hiw : (final code {} pre).innerIsWatcher = (candidates pre).any (·.watcher) := by
    unfold Blank.innerIsWatcher
    rw [hin]; exact hany
  simp only [hwa, hiw]

/-- `Watch` can be called once; `wa` and `t` are set together, in every reachable state. -/
theorem C20_blank_watch_once (ops : List Op) :
    (final code {} ops).wa = (final code {} ops).t ∧ (final code {} ops).wa = watched ops ∧
    ((final code {} ops).t = true → (step code (final code {} ops) .watch).2.2 ≠ .nil ∧
        (step code (final code {} ops) .watch).1 = final code {} ops) := by
  refine ⟨final_wa_t {} ops rfl, by simpa using final_wa {} ops rfl, ?_⟩
  intro ht
  rw [step_watch]
  simp [ht]

/-! ### Non-vacuity -/

/-- a toy transformer: types are numbers (translation adds one), mangled values are strings,
reverse translation succeeds on non-empty strings -/
def toyX : Xf Nat Nat Nat String where
  translate := fun T => if T == 0 then .err "cannot translate" else .ok (T + 1)
  reverse := fun _ s => if s.length == 0 then .err "empty" else .ok s.length

example : wrappedValue srcRules toyX (fun T' => .ok (String.ofList (List.replicate T' 'x'))) 2 = .ok 3 := by decide
example : wrappedValue srcRules toyX (fun _ => .err "boom") 2 = .err "inner source failed: boom" := by decide
example : wrappedValue srcRules toyX (fun _ => .ok "") 2 = .err "unmangle failed: empty" := by decide
example : wrappedValue decRules toyX (fun _ => .ok "") 0 = .err "cannot translate" := by decide
example : delivered watchOverrides toyX 2 (fun _ => .ok ())
    [.report true "ab", .report false "", .done, .report false "abc", .reportError "e"] =
    [.value true 2, .done, .value false 3, .error "e"] := by decide

def srcA : Src := ⟨1, false, true, true⟩
def srcB : Src := ⟨2, false, true, true⟩
def srcW : Src := ⟨3, true, true, true⟩
def srcBad : Src := ⟨4, false, false, true⟩

example : (final code {} [.watch, .setSource (some srcA) true, .setSource (some srcBad) true, .setSource (some srcB) false]).inner
    = some srcB := by decide
example : (run code {} [.watch, .setSource (some srcW) true, .setSource (some srcA) true, .done, .value]).2 =
    [([], .nil), ([.innerValue 3, .report 3 true, .innerWatch 3], .nil),
     ([], .error "disallowed attempt to replace Watcher Source"), ([], .nil), ([.innerValue 3], .innerResult 3 true)] := by decide
example : (run code {} [.done, .watch, .setSource (some srcA) true, .done]).2 =
    [([], .nil), ([], .nil), ([.innerValue 1, .report 1 true], .nil), ([.doneFwd], .nil)] := by decide
example : (run code {} [.setSource (some srcA) true, .value]).2 =
    [([.innerValue 1], .panic "nil WatchArgs"), ([.innerValue 1], .innerResult 1 true)] := by decide

end Dials.C20
