/-
C04 — Only verified configs become visible; rejected updates change nothing.
-/
import DialsModel.Model.RuntimeSpec
import DialsModel.Lemmas.RuntimeInv

namespace Dials.C04
open Dials Dials.Runtime

/-- `Config` itself fails exactly when the initial stack does not stack, or does not verify while
initial verification is on. -/
theorem C04_initial (W : World) (P : Params) (sl : Slots) :
    (∃ v, configInit W P sl = .ok v) ↔
      (W.stackOk sl = true ∧ (Facts.initialVerify P.skipInitial P.delay = true → W.valid sl = true)) := by
  unfold configInit
  cases W.stackOk sl <;> cases W.valid sl <;> cases Facts.initialVerify P.skipInitial P.delay <;> simp

/-- F5o: when `Config` fails (`configInit = .err`), the model has no state at all - no monitor, no callback goroutine,
nothing that could receive a later report and install it on top of the refused stack.  The code agrees because the
initial verification is the statement BEFORE the one that starts the two goroutines (regenerated). -/
theorem C04_refused_initial_stack_starts_nothing : Facts.initialVerifyBeforeGoroutines = true := by
  decide

theorem C04_initial_version (W : World) (P : Params) (sl : Slots) (v : Version)
    (h : configInit W P sl = .ok v) : v = ⟨0, sl⟩ := by
  unfold configInit at h
  split at h
  · cases h
  · split at h
    · cases h
    · cases h; rfl

/-- The view changes only by the monitor's store step, and then to the next serial. -/
theorem C04_view_changes_only_by_store (W : World) (s s' : State) (l : Label)
    (h : step W s l = some s') (hne : s'.view ≠ s.view) :
    ∃ slots' reply ch, s.mon = .store slots' reply ∧ l = .runMon ch ∧
      s'.view = ⟨Facts.nextSerial s.view.serial, slots'⟩ := by
  by_cases hl : ∃ ch, l = .runMon ch
  · obtain ⟨ch, rfl⟩ := hl
    simp only [step] at h
    cases hm : s.mon <;> simp only [runMon, hm] at h
    case store sl r =>
      simp only [Option.some.injEq] at h; subst h; exact ⟨sl, r, ch, rfl, rfl, rfl⟩
    all_goals exfalso; apply hne; clear hne
    all_goals repeat' (first | contradiction | split at h)
    all_goals simp only [Option.some.injEq, Option.map_eq_some_iff] at h
    all_goals first | subst h | (obtain ⟨i, -, h⟩ := h; subst h)
    all_goals simp
  · exact absurd (frameA_step W [] s s' l h (fun ch e => hl ⟨ch, e⟩)).hview hne

/-- The monitor reaches its store step only with the stack of the latest values, which stacked, and
verified unless verification is (still) skipped. -/
theorem C04_store_after_verify {W : World} {P : Params} {sl : Slots} {w : List Bool} {s : State}
    (hr : Reachable W P sl w s) (slots' : Slots) (reply : Option Nat) (hm : s.mon = .store slots' reply) :
    slots' = s.slots ∧ W.stackOk slots' = true ∧ (s.skipVerify = false → W.valid slots' = true) := by
  have h := (InvA_reachable hr).monF
  rw [hm] at h
  exact h

/-- Every installed version stacked, and verified unless it was installed while verification was
skipped (delay in force). -/
theorem C04_installed_verified {W : World} {P : Params} {sl : Slots} {w : List Bool} {s : State}
    (hr : Reachable W P sl w s) (v : Version) (skip : Bool) (hin : Obs.install v skip ∈ s.log) :
    W.stackOk v.cfg = true ∧ (skip = false → W.valid v.cfg = true) :=
  (InvA_reachable hr).instOk v skip (mem_filter_rel_install.2 hin)

/-- Verification is skipped only in delay mode. -/
theorem C04_skip_only_delay {W : World} {P : Params} {sl : Slots} {w : List Bool} {s : State}
    (hr : Reachable W P sl w s) (hs : s.skipVerify = true) : Facts.initialSkipVerify P.delay = true :=
  (InvA_reachable hr).skipDelay hs

/-- Everything a program can observe (View/ViewVersion, Events, OnNewConfig, registered callbacks,
EnableVerification) is the initial version or an installed one. -/
theorem C04_observed_are_versions {W : World} {P : Params} {sl : Slots} {w : List Bool} {s : State}
    (hr : Reachable W P sl w s) :
    (∀ c v, Obs.seen c v ∈ s.log → v ∈ s.versions sl) ∧
    (∀ c v, Obs.evRecv c v ∈ s.log → v ∈ s.installs) ∧
    (∀ old new ser, Obs.enter (.onNew old new ser) ∈ s.log → (⟨ser, new⟩ : Version) ∈ s.installs) ∧
    (∀ h old new ser cu, Obs.enter (.user h old new ser cu) ∈ s.log → (⟨ser, new⟩ : Version) ∈ s.installs) ∧
    (∀ c v, Obs.ret c (.enableOk v) ∈ s.log → v ∈ s.versions sl) := by
  refine ⟨?_, ?_, ?_, ?_, ?_⟩
  · intro c v h; exact mem_versions (observed_ok hr h rfl)
  · intro c v h; exact mem_installs.2 (observed_ok hr h rfl)
  · intro old new ser h; exact mem_installs.2 (observed_ok hr h rfl)
  · intro hd old new ser cu h; exact mem_installs.2 (observed_ok hr h rfl)
  · intro c v h; exact mem_versions (observed_ok hr h rfl)

/-- What the rejected-update step carries: a stack error has no new config, a verify error has the
rejected (stacked but invalid) config. -/
theorem C04_reject_payload {W : World} {P : Params} {sl : Slots} {w : List Bool} {s : State}
    (hr : Reachable W P sl w s) (k : ErrK) (new : Option Slots) (reply : Option Nat)
    (hm : s.mon = .submitErr k new reply) :
    (k = .stack ∧ new = none ∧ W.stackOk s.slots = false) ∨
    (k = .verify ∧ new = some s.slots ∧ W.stackOk s.slots = true ∧ W.valid s.slots = false ∧ s.skipVerify = false) := by
  have h := (InvA_reachable hr).monF
  rw [hm] at h
  exact h

/-- A rejected update is not installed; OnWatchedError's event (error, current config, rejected
config) is queued unless the queue is full (or the Config context is done). -/
theorem C04_reject (W : World) (s s' : State) (ch : Nat) (k : ErrK) (new : Option Slots) (reply : Option Nat)
    (hm : s.mon = .submitErr k new reply) (h : step W s (.runMon ch) = some s') :
    s'.view = s.view ∧
    (match reply with | some c => s'.mon = .replyErr k c | none => s'.mon = .top) ∧
    (Obs.queued (.watchErr k s.view.cfg new) s.skipVerify ∈ s'.log ∨ Obs.dropped (.watchErr k s.view.cfg new) ∈ s'.log) ∧
    (cbRoom s = true → s.isCancelled 0 = false → Obs.queued (.watchErr k s.view.cfg new) s.skipVerify ∈ s'.log) := by
  simp only [step, runMon, hm] at h
  cases reply <;> simp only [Option.some.injEq] at h <;> subst h <;> simp [trySubmit] <;>
    (split <;> simp_all)

/-- … and the blocking reporter, if it is still waiting, gets that error; the view stays unchanged. -/
theorem C04_reply_err (W : World) (s s' : State) (ch : Nat) (k : ErrK) (c ctx : Nat)
    (hm : s.mon = .replyErr k c) (hc : getC s.clients c = .waitReply ctx) (h : step W s (.runMon ch) = some s') :
    s'.view = s.view ∧ getC s'.clients c = .returned (match k with | .stack => .errStack | _ => .errVerify) := by
  cases k <;> simp only [step, runMon, hm, Option.some.injEq] at h <;> subst h <;>
    simp [replyTo, hc, getC_setC_same]

end Dials.C04
