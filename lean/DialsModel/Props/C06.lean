/-
C06 — Callbacks: serialized, in order, never stale, none after unregister.
Serialization itself is structural in the model (one callback goroutine, `CbPc.calls` holds the one
call that is running) and is tied to the code by the correspondence check.
-/
import DialsModel.Model.RuntimeSpec
import DialsModel.Lemmas.RuntimeCb

namespace Dials.C06
open Dials Dials.Runtime

/-- The catch-up call is made exactly when the registration carried a config (a serial from
ViewVersion) and a newer version had already been announced when it was processed; its arguments are
the registration's config and the last announced version. -/
theorem C06_catchup_iff (hs : List (Nat × Nat)) (ls : Nat) (lv : Option Slots) (h ser : Nat) (cfg : Option Slots) :
    callsFor hs ls lv (.reg h ser cfg) =
      (match cfg with
       | some c => if ser < ls then [Call.user h c (lv.getD []) ls true] else []
       | none => []) := by
  cases cfg <;> simp [callsFor, Facts.catchUp]

/-- The calls made for a new-config event: the global callback unless withheld, then every
registered callback whose registration serial is older than the event, in registration order. -/
theorem C06_calls_for_new (hs : List (Nat × Nat)) (ls : Nat) (lv : Option Slots) (old : Slots) (new : Version) (supp : Bool) :
    callsFor hs ls lv (.newCfg old new supp) =
      (if supp then [] else [Call.onNew old new.cfg new.serial]) ++
        (hs.filter (fun h => decide (h.2 < new.serial))).map (fun h => Call.user h.1 old new.cfg new.serial false) := by
  have : (fun h : Nat × Nat => !(Facts.cbSkip h.2 new.serial)) = (fun h => decide (h.2 < new.serial)) := by
    funext h; simp only [Facts.cbSkip, ge_iff_le]; by_cases hh : h.2 < new.serial <;> simp [hh] <;> omega
  cases supp <;> simp [callsFor, Facts.globalGate, this]

/-- A registered callback never receives a version twice or out of order, and never one older than
or equal to the version it registered with. -/
theorem C06_no_stale_dup {W : World} {P : Params} {sl : Slots} {w : List Bool} {s : State} {ls : List Label}
    (hrun : run W (initState P sl w) ls = some s) (hu : RegsUnique ls) :
    (∀ h o1 n1 s1 c1 o2 n2 s2 c2,
        Before s.history (.enter (.user h o1 n1 s1 c1)) (.enter (.user h o2 n2 s2 c2)) → s1 < s2) ∧
    (∀ h o n sr cu c ser cfg ctx, Obs.enter (.user h o n sr cu) ∈ s.log →
        Label.begin c (.register h ser cfg) ctx ∈ ls → ser < sr) := by
  have hi := invReg hrun hu
  refine ⟨?_, ?_⟩
  · intro h o1 n1 s1 c1 o2 n2 s2 c2 hb
    obtain ⟨l1, l2, l3, hl⟩ := before_enters hb
    exact pairwise_of_split hi.s.pw hl rfl
  · intro h o n sr cu c ser cfg ctx hm hl
    obtain ⟨ser', ⟨c', cfg', ctx', hb⟩, hlt⟩ := hi.p.log h o n sr cu (mem_enters.2 hm)
    rw [regsUnique_ser hu hl hb]
    exact hlt

/-- OnNewConfig sees strictly increasing versions. -/
theorem C06_global_increasing {W : World} {P : Params} {sl : Slots} {w : List Bool} {s : State}
    (hr : Reachable W P sl w s) (o1 n1 : Slots) (s1 : Nat) (o2 n2 : Slots) (s2 : Nat)
    (h : Before s.history (.enter (.onNew o1 n1 s1)) (.enter (.onNew o2 n2 s2))) : s1 < s2 := by
  obtain ⟨l1, l2, l3, hl⟩ := before_enters h
  exact pairwise_of_split (inv4 hr).pw hl

/-- In every ordinary (non-catch-up) call the new config is installed version `ser` and the old config
is its immediate predecessor. -/
theorem C06_old_is_pred {W : World} {P : Params} {sl : Slots} {w : List Bool} {s : State}
    (hr : Reachable W P sl w s) :
    (∀ old new ser, Obs.enter (.onNew old new ser) ∈ s.log →
        1 ≤ ser ∧ (s.versions sl)[ser]? = some ⟨ser, new⟩ ∧ ((s.versions sl)[ser - 1]?).map (·.cfg) = some old) ∧
    (∀ h old new ser, Obs.enter (.user h old new ser false) ∈ s.log →
        1 ≤ ser ∧ (s.versions sl)[ser]? = some ⟨ser, new⟩ ∧ ((s.versions sl)[ser - 1]?).map (·.cfg) = some old) := by
  have h3 := inv3 hr
  exact ⟨fun old new ser h => h3.log _ h, fun h old new ser hh => h3.log _ hh⟩

/-- Once the callback goroutine has processed the unregistration of a handle, that callback is never
entered again; and an unregister function returns true only right after that processing. -/
theorem C06_none_after_unreg {W : World} {P : Params} {sl : Slots} {w : List Bool} {s : State} {ls : List Label}
    (hrun : run W (initState P sl w) ls = some s) (hu : RegsUnique ls) (ho : UnregOwned W P sl w ls) :
    (∀ h o n sr cu, ¬ Before s.history (.unregProcessed h) (.enter (.user h o n sr cu))) ∧
    (∀ c l1 l2, s.log = l1 ++ Obs.ret c .unregTrue :: l2 → ∃ h l3, l2 = Obs.unregProcessed h :: l3) := by
  refine ⟨?_, adjOK ⟨ls, hrun⟩⟩
  intro h o n sr cu hb
  obtain ⟨l1, l2, l3, hl⟩ := before_log hb
  have := pairwise_of_split (invUnreg hrun hu ho).g.pw hl
  exact this rfl

/-- As long as nothing was dropped, every installed version has been queued for the callbacks
(between updates). -/
theorem C06_no_skip_without_drop {W : World} {P : Params} {sl : Slots} {w : List Bool} {s : State}
    (hr : Reachable W P sl w s) (hnd : ∀ ev, Obs.dropped ev ∉ s.log) (hidle : s.mon.idle = true) :
    ∀ v ∈ s.installs, ∃ old supp skip, Obs.queued (.newCfg old v supp) skip ∈ s.log := by
  intro v hv
  rcases inv5 hr with ⟨ev, h⟩ | h
  · exact absurd h (hnd ev)
  · rcases h v hv with h | ⟨h, _⟩
    · exact h
    · cases hm : s.mon <;> simp [hm, MonPc.idle, monOld] at hidle h

/-- Events are handed to the callback goroutine in the order they were queued (FIFO), so callbacks run
in installation order: the new-config events it has dequeued so far have strictly increasing serials. -/
theorem C06_dequeue_in_order {W : World} {P : Params} {sl : Slots} {w : List Bool} {s : State}
    (hr : Reachable W P sl w s) :
    (∀ old new supp, s.cb = .got (.newCfg old new supp) → s.lastSerial < new.serial) ∧
    List.Pairwise (fun a b => match a, b with
      | .newCfg _ n1 _, .newCfg _ n2 _ => n1.serial < n2.serial
      | _, _ => True) s.cbch := by
  have h2 := inv2 hr
  refine ⟨fun old new supp h => (h2.q.2.2 _ h).1, h2.q.2.1.imp ?_⟩
  intro a b hab
  cases a <;> cases b <;> first | trivial | exact hab

end Dials.C06
