/-
C05 — Incremental re-stacking equals a fresh stack; serials count installs.
(A config is the slot snapshot it was stacked from; that compose is a function of defaults and
slots is C01/C02.)
-/
import DialsModel.Model.RuntimeSpec
import DialsModel.Lemmas.RuntimeInv

namespace Dials.C05
open Dials Dials.Runtime

/-- the i-th installed version has serial i+1: no gap, no repetition -/
theorem C05_serial_succ {W : World} {P : Params} {sl : Slots} {w : List Bool} {s : State}
    (hr : Reachable W P sl w s) (i : Nat) (hi : i < s.installs.length) : (s.installs[i]).serial = i + 1 := by
  have h := (InvA_reachable hr).serOk
  have e := installs_eq s
  have hi' : i < (instR s.rlog).reverse.length := e ▸ hi
  have := SerOk_getElem h i hi'
  simp only [e]
  exact this

/-- the current view is the last installed version (the initial one if there is none) -/
theorem C05_view_is_last {W : World} {P : Params} {sl : Slots} {w : List Bool} {s : State}
    (hr : Reachable W P sl w s) : s.view = (s.versions sl).getLast (by simp [State.versions]) := by
  have h := (InvA_reachable hr).viewLast
  simp only [State.versions, installs_eq]
  rw [getLast_versions]
  exact h.symm

theorem C05_view_serial {W : World} {P : Params} {sl : Slots} {w : List Bool} {s : State}
    (hr : Reachable W P sl w s) : s.view.serial = s.installs.length := by
  have h := (InvA_reachable hr).viewSer
  simp [installs_eq, h]

/-- the monitor's slots hold each source's most recently received value -/
theorem C05_slots_latest {W : World} {P : Params} {sl : Slots} {w : List Bool} {s : State}
    (hr : Reachable W P sl w s) :
    s.slots = s.history.foldl (fun acc o => match o with | .gotUpd src v _ => setSlot acc src v | _ => acc) sl := by
  have h := (InvA_reachable hr).slotsEq
  rw [State.rlog, slotsOf_filter_rel] at h
  rw [← h]
  exact (foldl_reverse_eq_slotsOf sl s.log).symm

/-- Between updates, whenever the stack of the latest values is good (stacks, and verifies unless
verification is skipped), the view IS that stack. -/
theorem C05_fresh_when_good {W : World} {P : Params} {sl : Slots} {w : List Bool} {s : State}
    (hr : Reachable W P sl w s) (hidle : s.mon.idle = true) (hs : W.stackOk s.slots = true)
    (hv : s.skipVerify = true ∨ W.valid s.slots = true) : s.view.cfg = s.slots := by
  have h := (InvA_reachable hr).monF
  have hp : s.mon.plain = true := by
    cases hm : s.mon <;> simp [hm, MonPc.idle] at hidle <;> rfl
  exact (MonFacts_plain hp).1 h hs hv

/-- A value that was REJECTED when it was reported (its stack did not verify then) is not forgotten: it is that
source's latest value, and as soon as the stack of the latest values of all sources is good again - because another
source changed - the view is the stack that contains it.  (Two watched files under a Verify that relates them, C17's
`two` mode: the file whose final content was rejected converges once the other file makes the whole valid.) -/
theorem C05_rejected_value_stays_in_the_stack {W : World} {P : Params} {sl : Slots} {w : List Bool} {s : State}
    (hr : Reachable W P sl w s) (hidle : s.mon.idle = true) (hs : W.stackOk s.slots = true)
    (hv : s.skipVerify = true ∨ W.valid s.slots = true) :
    s.view.cfg = s.history.foldl (fun acc o => match o with | .gotUpd src v _ => setSlot acc src v | _ => acc) sl := by
  rw [C05_fresh_when_good hr hidle hs hv]
  exact C05_slots_latest hr

/-- a config and serial read together belong together -/
theorem C05_pair_atomic {W : World} {P : Params} {sl : Slots} {w : List Bool} {s : State}
    (hr : Reachable W P sl w s) (c : Nat) (v : Version) (h : Obs.seen c v ∈ s.log) : v ∈ s.versions sl :=
  mem_versions (observed_ok hr h rfl)

/-- no reader sees the serial go backwards (not even across different readers) -/
theorem C05_reader_monotone {W : World} {P : Params} {sl : Slots} {w : List Bool} {s : State}
    (hr : Reachable W P sl w s) (c1 c2 : Nat) (v1 v2 : Version)
    (h : Before s.history (.seen c1 v1) (.seen c2 v2)) : v1.serial ≤ v2.serial :=
  ordOk_of_before (InvC_reachable hr).sorted rfl rfl h

/-- the Events stream is a strictly increasing sequence of installed versions -/
theorem C05_events_increasing {W : World} {P : Params} {sl : Slots} {w : List Bool} {s : State}
    (hr : Reachable W P sl w s) (c1 c2 : Nat) (v1 v2 : Version)
    (h : Before s.history (.evRecv c1 v1) (.evRecv c2 v2)) : v1.serial < v2.serial :=
  ordOk_of_before (InvC_reachable hr).sorted rfl rfl h

theorem C05_events_are_installs {W : World} {P : Params} {sl : Slots} {w : List Bool} {s : State}
    (hr : Reachable W P sl w s) (c : Nat) (v : Version) (h : Obs.evRecv c v ∈ s.log) : v ∈ s.installs :=
  mem_installs.2 (observed_ok hr h rfl)

/-- regenerated facts: the stored serial is the successor, and the event carries the stored serial -/
theorem C05_serial_facts : (∀ n, Facts.nextSerial n = n + 1) ∧ (∀ n, Facts.eventSerial n = Facts.nextSerial n) :=
  ⟨fun _ => rfl, fun _ => rfl⟩

/-- regenerated fact F4v: the model's view step reads the pair (serial, config) in ONE atomic step (`C05_pair_atomic`);
ViewVersion does that with exactly one atomic load of the versioned pointer and no other call -/
theorem C05_view_version_is_one_load : Facts.viewVersionLoads = 1 ∧ Facts.viewVersionOtherCalls = 0 := ⟨rfl, rfl⟩

end Dials.C05
