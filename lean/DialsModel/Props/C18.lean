/-
C18 — ez: defaults < file < environment < flags, verified once on the full stack.

The ez entry points are the script `Facts.ezMainOps` (regenerated from ez/ez.go) executed on the
runtime model (Model/Ez.lean); a config is the slot snapshot it was stacked from, so the stack
"defaults overlaid by file, then environment, then flags" is the snapshot `fullCfg E v = [v, envV, flagV]`
(leaf-wise precedence of a snapshot: C01) and the file-less intermediate is `baseCfg E = [blank, envV, flagV]`.
All theorems hold for every environment `E` (which snapshots stack / verify, what ConfigPath and
the file yield) and every schedule of the family `Sched` (Model/Ez.lean); theorems that take a
`Reachable` hypothesis hold for every interleaving of the runtime model.

Property theorems only (symbolic execution and helper lemmas: Lemmas/Ez*.lean).
-/
import DialsModel.Lemmas.Ez
import DialsModel.Props.C05

namespace Dials.C18
open Dials Dials.Runtime Dials.Ez

/-- F22: the environment layer of ez is the env source's exact-name `os.LookupEnv` (values reach the stack byte for
byte, `=` inside a value included). -/
theorem C18_environment_is_a_lookup : 1 ≤ Facts.envLookupCalls ∧ Facts.envOtherReads = 0 := by
  decide

/-- Regenerated facts of ez.go: the `dials.Params` literal delays verification and withholds the
global callbacks, does not skip verification for good, passes both callbacks through; the sources
are handed to Config in the order blank, env, flag; the file source goes into the Blank; the calls
of the main path and of the no-file branch come in this order; every fallible call's error is
returned at once. -/
theorem C18_script_facts :
    ezParams = { skipInitial := false, delay := true, suppress := true } ∧
    Facts.ezPassOnNew = true ∧ Facts.ezPassOnErr = true ∧
    Facts.ezSources = [.blank, .env, .flag] ∧ Facts.ezSetSourceOn = .blank ∧ fileSlot = 0 ∧
    Facts.ezMainOps = [.config, .deferDone, .view, .configPath, .decoder, .fileSource, .setSource, .enable, .drain] ∧
    Facts.ezNoFileOps = [.enable] ∧
    (∀ t ∈ [Facts.EzTok.config, .decoder, .setSource, .enable], t ∈ Facts.ezChecked) ∧
    Facts.EzTok.enable ∈ Facts.ezNoFileChecked := by
  refine ⟨rfl, rfl, rfl, rfl, rfl, fileSlot_eq, rfl, rfl, ?_, ?_⟩ <;> decide

/-- Config stacks the file-less sources: blank, environment, flags - and only the Blank watches. -/
theorem C18_initial_stack (E : Env) :
    slots₀ E = baseCfg E ∧ watching₀ = [true, false, false] := by
  constructor <;> rfl

/-- The first visible config: when the file named by ConfigPath is read, stacks and verifies, ez
returns without error and the view is the stack of [file, environment, flags] - the file in the
lowest slot above the defaults, below environment and flags (with C01: defaults < file < environment
< flags leaf by leaf) - as version 1. -/
theorem C18_first_view (E : Env) (sch : Sched) (p v : Nat)
    (h0 : E.W.stackOk (baseCfg E) = true) (hp : E.path (baseCfg E) = some p) (hd : E.decoder p = true)
    (hf : E.file p = some v) (h1 : E.W.stackOk (fullCfg E v) = true) (h2 : E.W.valid (fullCfg E v) = true) :
    (ezRun E sch).err = none ∧
    ∃ s, (ezRun E sch).st = some s ∧ s.view = ⟨1, [v, E.envV, E.flagV]⟩ ∧ s.slots = [v, E.envV, E.flagV] := by
  have h := ezRun_ok E sch p v h0 hp hd hf h1 h2
  have he := congrArg Summary.err h
  have hv := congrArg Summary.view h
  have hs := congrArg Summary.slots h
  simp only [summary] at he hv hs
  refine ⟨he, ?_⟩
  cases hst : (ezRun E sch).st with
  | none => simp [hst] at hv
  | some s =>
    simp only [hst, Option.map_some, Option.some.injEq] at hv hs
    exact ⟨s, rfl, hv, hs⟩

/-- The file that is read is the one ConfigPath names on the FILE-LESS stack (defaults, environment,
flags): whatever path the file itself might set is not consulted. -/
theorem C18_path (E : Env) (sch : Sched) (h0 : E.W.stackOk (baseCfg E) = true) :
    (ezRun E sch).path = E.path (baseCfg E) :=
  (ezRun_verifies E sch h0).2.2.2.2.1

/-- Verify is called exactly once, on the full stack (`fullStack E`: the stack including the file
ConfigPath named, or the file-less stack when it named none), and not at all when ez fails before
such a stack exists (no decoder, unreadable file, the file does not stack). -/
theorem C18_verify_once (E : Env) (sch : Sched) (h0 : E.W.stackOk (baseCfg E) = true) (s : State)
    (hs : (ezRun E sch).st = some s) :
    verifyCalls s = (match fullStack E with | some c => [(c, E.W.valid c)] | none => []) := by
  have h := (ezRun_verifies E sch h0).1
  simp only [summary, hs, Option.map_some, Option.getD_some] at h
  exact h

/-- Verify never sees the file-less intermediate: when a file is named and its value changes the
stack, no Verify call has the file-less config as its receiver. -/
theorem C18_never_on_intermediate (E : Env) (sch : Sched) (p : Nat) (h0 : E.W.stackOk (baseCfg E) = true)
    (hp : E.path (baseCfg E) = some p) (hne : ∀ v, E.file p = some v → fullCfg E v ≠ baseCfg E)
    (s : State) (hs : (ezRun E sch).st = some s) (b : Bool) : (baseCfg E, b) ∉ verifyCalls s := by
  rw [C18_verify_once E sch h0 s hs]
  cases hfs : fullStack E with
  | none => simp
  | some c =>
    simp only [List.mem_singleton, Prod.mk.injEq, not_and]
    intro hc
    exfalso
    subst hc
    unfold fullStack at hfs
    simp only [hp] at hfs
    split at hfs
    · cases hf : E.file p with
      | none => simp [hf] at hfs
      | some v =>
        simp only [hf] at hfs
        split at hfs
        · exact hne v hf (Option.some.inj hfs)
        · cases hfs
    · cases hfs

/-- The outcome of that one Verify call is ez's result: ez returns without error exactly when the
full stack exists and verifies, and a failing Verify makes ez return the verification error. -/
theorem C18_verify_failure_is_error (E : Env) (sch : Sched) (h0 : E.W.stackOk (baseCfg E) = true) :
    ((ezRun E sch).err = none ↔ ∃ c, fullStack E = some c ∧ E.W.valid c = true) ∧
    (∀ c, fullStack E = some c → E.W.valid c = false → (ezRun E sch).err = some .verify) :=
  ⟨(ezRun_verifies E sch h0).2.1, (ezRun_verifies E sch h0).2.2.1⟩

/-- Nothing exposes the intermediate config.  When ez returns a Dials (no error): the Events channel
is empty; the only value ez itself took from it is the full stack's version 1 (nothing, without a
file); no global callback (OnNewConfig / OnWatchedError) was entered, and none is entered when the
callback goroutine later works off what is still queued. -/
theorem C18_hidden_intermediate (E : Env) (sch : Sched) (h0 : E.W.stackOk (baseCfg E) = true)
    (he : (ezRun E sch).err = none) :
    ∃ s, (ezRun E sch).st = some s ∧ s.events = none ∧ globalCalls s = [] ∧
      globalCalls (cbQuiesce E.W 4 s) = [] ∧
      (∀ ver ∈ eventsReceived s, ∃ v, ver = ⟨1, fullCfg E v⟩ ∧ fullStack E = some (fullCfg E v)) := by
  have hsum : ∀ S : Summary, summary E.W (ezRun E sch) = S → S.err = none → S.events = some none → S.globals = [] →
      S.later = [] → (∀ ver ∈ S.received, ∃ v, ver = ⟨1, fullCfg E v⟩ ∧ fullStack E = some (fullCfg E v)) →
      ∃ s, (ezRun E sch).st = some s ∧ s.events = none ∧ globalCalls s = [] ∧
        globalCalls (cbQuiesce E.W 4 s) = [] ∧
        (∀ ver ∈ eventsReceived s, ∃ v, ver = ⟨1, fullCfg E v⟩ ∧ fullStack E = some (fullCfg E v)) := by
    intro S hS _ hev hg hl hr
    subst hS
    simp only [summary] at hev hg hl hr
    cases hst : (ezRun E sch).st with
    | none => simp [hst] at hev
    | some s =>
      simp only [hst, Option.map_some, Option.getD_some, Option.some.injEq] at hev hg hl hr
      exact ⟨s, rfl, hev, hg, hl, hr⟩
  cases hp : E.path (baseCfg E) with
  | none =>
    refine hsum _ (ezRun_nopath E sch h0 hp) ?_ rfl rfl rfl (by simp)
    have := congrArg Summary.err (ezRun_nopath E sch h0 hp)
    simp only [summary] at this
    rw [he] at this
    exact this.symm
  | some p =>
    rcases Bool.eq_false_or_eq_true (E.decoder p) with hd | hd
    · cases hf : E.file p with
      | none =>
        have := congrArg Summary.err (ezRun_fileErr E sch p h0 hp hd hf)
        simp [summary, he] at this
      | some v =>
        rcases Bool.eq_false_or_eq_true (E.W.stackOk (fullCfg E v)) with h1 | h1
        · rcases Bool.eq_false_or_eq_true (E.W.valid (fullCfg E v)) with h2 | h2
          · refine hsum _ (ezRun_ok E sch p v h0 hp hd hf h1 h2) rfl rfl rfl rfl ?_
            intro ver hver
            simp only [List.mem_singleton] at hver
            exact ⟨v, hver, by simp [fullStack, hp, hd, hf, h1]⟩
          · have := congrArg Summary.err (ezRun_vf E sch p v h0 hp hd hf h1 h2)
            simp [summary, he] at this
        · have := congrArg Summary.err (ezRun_stackErr E sch p v h0 hp hd hf h1)
          simp [summary, he] at this
    · have := congrArg Summary.err (ezRun_noDecoder E sch p h0 hp hd)
      simp [summary, he] at this

/-- In every exit - error exits included - no global callback is entered while ez runs; in every exit
but one nothing is delivered afterwards either. -/
theorem C18_no_global_callback_during_ez (E : Env) (sch : Sched) (h0 : E.W.stackOk (baseCfg E) = true)
    (s : State) (hs : (ezRun E sch).st = some s) :
    globalCalls s = [] ∧
    ((ezRun E sch).err ≠ some (.integrate .errStack) → globalCalls (cbQuiesce E.W 4 s) = []) := by
  have h := ezRun_verifies E sch h0
  refine ⟨by simpa [summary, hs] using h.2.2.2.2.2.1, ?_⟩
  intro hne
  simpa [summary, hs] using h.2.2.2.2.2.2 hne

/-- The one exception (model level; it needs a file value that does not stack on the other sources,
which the typed decoders cannot produce): SetSource's stacking error is queued for OnWatchedError
un-withheld, so after ez has returned its error the callback goroutine calls OnWatchedError with
the file-less config as `oldConfig`. -/
theorem C18_stack_error_reaches_OnWatchedError (E : Env) (sch : Sched) (p v : Nat)
    (h0 : E.W.stackOk (baseCfg E) = true) (hp : E.path (baseCfg E) = some p) (hd : E.decoder p = true)
    (hf : E.file p = some v) (h1 : E.W.stackOk (fullCfg E v) = false) :
    (ezRun E sch).err = some (.integrate .errStack) ∧
    ∃ s, (ezRun E sch).st = some s ∧ s.view = ⟨0, baseCfg E⟩ ∧
      globalCalls (cbQuiesce E.W 4 s) = [.onErr .stack (baseCfg E) none] := by
  have h := ezRun_stackErr E sch p v h0 hp hd hf h1
  have he := congrArg Summary.err h
  have hv := congrArg Summary.view h
  have hl := congrArg Summary.later h
  simp only [summary] at he hv hl
  refine ⟨he, ?_⟩
  cases hst : (ezRun E sch).st with
  | none => simp [hst] at hv
  | some s =>
    simp only [hst, Option.map_some, Option.getD_some, Option.some.injEq] at hv hl
    exact ⟨s, rfl, hv, hl⟩

/-- ez never hangs: every call of the script is enabled when it is reached - in particular the
receive from Events() finds the event of the file's install. -/
theorem C18_no_hang (E : Env) (sch : Sched) (h0 : E.W.stackOk (baseCfg E) = true) :
    (ezRun E sch).err ≠ some .stuck :=
  (ezRun_verifies E sch h0).2.2.2.1

/-- When Config itself fails (the file-less sources do not stack) ez returns that error and nothing
was started. -/
theorem C18_config_error (E : Env) (sch : Sched) (h0 : E.W.stackOk (baseCfg E) = false) :
    (ezRun E sch).err = some .config ∧ (ezRun E sch).st = none := by
  have h := ezRun_configErr E sch h0
  have he := congrArg Summary.err h
  have hv := congrArg Summary.view h
  simp only [summary] at he hv
  refine ⟨he, ?_⟩
  cases hst : (ezRun E sch).st with
  | none => rfl
  | some s => simp [hst] at hv

/-- Later file changes (watching on) re-stack under the same precedence: from the state in which ez
returned, a report of the file source with value v' makes the monitor stack [v', environment,
flags] - the new file value in the file's slot, environment and flags on top as before - VERIFY it
(verification is on now), and install it as the next version with an un-withheld OnNewConfig event;
a stack that does not verify (or stack) leaves the view unchanged and queues OnWatchedError. -/
theorem C18_later_updates (E : Env) (sch : Sched) (p v v' : Nat) (hw : E.watch = true)
    (h0 : E.W.stackOk (baseCfg E) = true) (hp : E.path (baseCfg E) = some p) (hd : E.decoder p = true)
    (hf : E.file p = some v) (h1 : E.W.stackOk (fullCfg E v) = true) (h2 : E.W.valid (fullCfg E v) = true) :
    ∃ s s', (ezRun E sch).st = some s ∧ laterReport E.W s v' = some s' ∧ s'.slots = fullCfg E v' ∧
      (E.W.stackOk (fullCfg E v') = true → E.W.valid (fullCfg E v') = true →
        s'.view = ⟨2, fullCfg E v'⟩ ∧
        verifyCalls s' = [(fullCfg E v, true), (fullCfg E v', true)] ∧
        Obs.queued (.newCfg (fullCfg E v) ⟨2, fullCfg E v'⟩ false) false ∈ s'.log) ∧
      (E.W.stackOk (fullCfg E v') = true → E.W.valid (fullCfg E v') = false →
        s'.view = ⟨1, fullCfg E v⟩ ∧
        Obs.queued (.watchErr .verify (fullCfg E v) (some (fullCfg E v'))) false ∈ s'.log) ∧
      (E.W.stackOk (fullCfg E v') = false →
        s'.view = ⟨1, fullCfg E v⟩ ∧ Obs.queued (.watchErr .stack (fullCfg E v) none) false ∈ s'.log) := by
  have h := ezRun_ok E sch p v h0 hp hd hf h1 h2
  have hv := congrArg Summary.view h
  have hsl := congrArg Summary.slots h
  have hid := congrArg Summary.idle h
  have hq := congrArg Summary.quiet h
  have hrm := congrArg Summary.room h
  have hsk := congrArg Summary.skip h
  have hev := congrArg Summary.events h
  have hvf := congrArg Summary.verifies h
  simp only [summary] at hv hsl hid hq hrm hsk hev hvf
  cases hst : (ezRun E sch).st with
  | none => simp [hst] at hv
  | some s =>
    simp only [hst, Option.map_some, Option.getD_some, Option.some.injEq, hw] at hv hsl hid hq hrm hsk hev hvf
    obtain ⟨s', hl, hslots, -, hok, hvfail, hsfail⟩ := laterReport_spec E.W s v' hid hq hsk hrm hev
    have hset : setSlot s.slots 0 v' = fullCfg E v' := by rw [hsl]; rfl
    rw [hset] at hslots hok hvfail hsfail
    rw [hv] at hok hvfail hsfail
    refine ⟨s, s', rfl, hl, hslots, ?_, ?_, ?_⟩
    · intro a b
      obtain ⟨x, y, z⟩ := hok a b
      refine ⟨x, ?_, z⟩
      rw [y, hvf]; rfl
    · intro a b
      obtain ⟨x, -, z⟩ := hvfail a b
      exact ⟨x, z⟩
    · intro a
      obtain ⟨x, -, z⟩ := hsfail a
      exact ⟨x, z⟩

/-- The state in which ez returns is a reachable state of the runtime model started by Config with
ez's parameters and sources: everything proved for all interleavings in C04–C09 applies to it and
to everything that happens afterwards (e.g. C09_never_early: no Verify before EnableVerification is
called; C09_suppression_exact: installs made while verification is off are announced with the global
callbacks withheld; those two live over Lemmas/RuntimeEnable, which cannot be imported together with
Lemmas/RuntimeInv used below). -/
theorem C18_reachable (E : Env) (sch : Sched) (s : State) (hs : (ezRun E sch).st = some s) :
    Reachable E.W ezParams (baseCfg E) [true, false, false] s :=
  ezRun_reachable E sch s hs

/-- For EVERY interleaving and any number of later file reports: as long as only the file's slot is
ever reported (environment and flag sources are not watchers), whenever the monitor is between two
updates and the stack of the latest values is good, the visible config is [latest file value,
environment, flags]: the file stays in the lowest slot, environment and flags keep their values. -/
theorem C18_restack_any_schedule (E : Env) (s : State)
    (hr : Reachable E.W ezParams (baseCfg E) [true, false, false] s)
    (honly : ∀ src v r, Obs.gotUpd src v r ∈ s.log → src = 0)
    (hidle : s.mon.idle = true) (hstk : E.W.stackOk s.slots = true)
    (hval : s.skipVerify = true ∨ E.W.valid s.slots = true) :
    ∃ x, s.view.cfg = [x, E.envV, E.flagV] ∧ (x = blankV ∨ ∃ r, Obs.gotUpd 0 x r ∈ s.log) := by
  have hview := C05.C05_fresh_when_good hr hidle hstk hval
  have hslots := C05.C05_slots_latest hr
  have honly' : ∀ src v r, Obs.gotUpd src v r ∈ s.history → src = 0 := by
    intro src v r hm
    exact honly src v r (by simpa [State.history] using hm)
  obtain ⟨x, hx, hor⟩ := foldl_file_only E.envV E.flagV s.history honly' blankV
  refine ⟨x, ?_, ?_⟩
  · rw [hview, hslots]; exact hx
  · rcases hor with h | ⟨r, hr'⟩
    · exact Or.inl h
    · exact Or.inr ⟨r, by simpa [State.history] using hr'⟩

/-! ### non-vacuity: a concrete environment exercising every exit -/

/-- slot values: a snapshot is unstackable when it contains 2; it is valid only when the file
contributed something (first slot not blank) and no slot holds 1 -/
def exWorld : World :=
  { stackOk := fun sl => sl.all (fun v => v != 2)
    valid := fun sl => sl.all (fun v => v != 1) && sl.head? != some 0 }

def exEnv (fileV : Option Nat) (watch : Bool) : Env :=
  { W := exWorld, envV := 4, flagV := 8
    path := fun b => if b = [0, 4, 8] then some 7 else some 99      -- a path set by the file itself is not consulted
    decoder := fun _ => true
    file := fun p => if p = 7 then fileV else none
    watch := watch }

/-- the config is valid ONLY with the file included, and ez succeeds -/
example : exWorld.valid (baseCfg (exEnv (some 12) true)) = false ∧ exWorld.valid [12, 4, 8] = true := by decide
example : fullStack (exEnv (some 12) true) = some [12, 4, 8] := by decide
example : (ezRun (exEnv (some 12) true) {}).err = none := by decide
example : ((ezRun (exEnv (some 12) false) { race := .queuedBefore, cbWhen := .early }).st.map (·.view)) =
    some ⟨1, [12, 4, 8]⟩ := by decide
example : ((ezRun (exEnv (some 12) true) {}).st.map verifyCalls) = some [([12, 4, 8], true)] := by decide
example : (ezRun (exEnv (some 1) true) {}).err = some .verify := by decide
example : (ezRun (exEnv (some 2) true) {}).err = some (.integrate .errStack) := by decide
example : (ezRun (exEnv none true) {}).err = some .fileValue := by decide
example : (((ezRun (exEnv (some 12) true) {}).st.bind (laterReport exWorld · 16)).map (·.view)) =
    some ⟨2, [16, 4, 8]⟩ := by decide

end Dials.C18
