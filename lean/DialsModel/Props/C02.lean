/-
C02 — Config versions are isolated snapshots; inputs are never modified.

Heap-level statement about the copy structure of `compose` (regenerated facts F8): the defaults
and every source value are deep-copied before the overlay touches them.  The deep copier is proved
(C03); the overlay step's locality is the stated hypothesis `OverlayLocal` (inhabited by
`simpleOverlay`), sampled on the real overlay.go by the harness's alias oracle.
-/
import DialsModel.Model.HeapSpec
import DialsModel.Lemmas.HeapCopy
import DialsModel.Lemmas.HeapCompose

namespace Dials.C02
open Dials Dials.Heap

/-- regenerated facts F8: compose and Config copy before they overlay -/
theorem C02_facts : Facts.composeCopiesDefaults = true ∧ Facts.composeCopiesSources = true ∧
    Facts.composeFreshCopier = true ∧ Facts.configCopiesDefaults = true := by
  decide

/- NOT PROVED — the statement is FALSE (refuted: `Dials.Heap.simpleOverlay_not_local` in
Lemmas/HeapCompose.lean proves `¬ OverlayLocal simpleOverlay`).  `mergeFs` keeps the base's exported
flag and ignores the overlay's, so it promotes an unexported overlay field into an exported position
and the `reach` law fails: h = [.val .nil], mark = 1, b = .st (.cons true .nil .nil),
o = .st (.cons false (.ptr 0) .nil); neither reaches anything through exported fields, yet
mergeV b o = .st (.cons true (.ptr 0) .nil) reaches address 0 < mark.  (`grows`, `frame`, `wf` do
hold: `simpleOverlay_partial`.)  The hypothesis itself is satisfiable: see `C02_overlay_local_satisfiable`.

/-- The hypothesis is satisfiable. -/
theorem C02_overlay_local_inhabited : OverlayLocal simpleOverlay := by
  (no proof exists: refuted)
-/

/-- The hypothesis `OverlayLocal` is satisfiable: by the field-wise merge that merges a field only when
base and overlay agree on its exported flag (`simpleOverlay'`, Lemmas/HeapCompose.lean), and
trivially by the overlay that keeps the base. -/
theorem C02_overlay_local_satisfiable :
    OverlayLocal simpleOverlay' ∧ OverlayLocal (fun h b _ => (h, b)) ∧ ¬ OverlayLocal simpleOverlay :=
  ⟨overlayLocal_simpleOverlay', overlayLocal_keepBase, simpleOverlay_not_local⟩

/-- A stacked config shares no memory (reachable through exported fields) with the defaults or with any
source value — everything it reaches was allocated by this compose — and compose never modifies
a cell that existed before: the caller's defaults and the sources' values are untouched. -/
theorem C02_fresh_and_frozen (ov : Heap → HV → HV → Heap × HV) (hov : OverlayLocal ov) (f : Nat)
    (h : Heap) (d : HV) (vs : List HV) (hh : HeapOK h = true) (hd : okV h d = true)
    (hvs : ∀ v ∈ vs, okV h v = true) (h' : Heap) (r : HV)
    (hc : composeH ov f h d vs = some (h', r)) :
    (∀ a, ReachV h' r a → h.length ≤ a) ∧ h.length ≤ h'.length ∧ (∀ a, a < h.length → h'[a]? = h[a]?) := by
  have I := compose_inv hov hh hd hvs hc
  exact ⟨I.fresh, I.len, I.frozen⟩

/-- Stacking the same inputs twice (or re-stacking later, after any amount of further allocation by
sources and readers: the heap `h2` extends `h1`) yields results that are disjoint from one
another: no address is reachable from both. -/
theorem C02_versions_disjoint (ov : Heap → HV → HV → Heap × HV) (hov : OverlayLocal ov) (f1 f2 : Nat)
    (h0 h1 h2 h3 : Heap) (d : HV) (vs1 vs2 : List HV) (r1 r2 : HV)
    (hh0 : HeapOK h0 = true) (hd0 : okV h0 d = true) (hvs1 : ∀ v ∈ vs1, okV h0 v = true)
    (hc1 : composeH ov f1 h0 d vs1 = some (h1, r1))
    (hext : h1.length ≤ h2.length ∧ ∀ a, a < h1.length → h2[a]? = h1[a]?)
    (hh2 : HeapOK h2 = true) (hd2 : okV h2 d = true) (hvs2 : ∀ v ∈ vs2, okV h2 v = true)
    (hc2 : composeH ov f2 h2 d vs2 = some (h3, r2)) :
    ∀ a, ReachV h3 r2 a → h2.length ≤ a ∧ (∀ b, ReachV h1 r1 b → b < h1.length → a ≠ b) := by
  have _ := And.intro hh0 (And.intro hd0 (And.intro hvs1 hc1))  -- not needed: `b < h1.length ≤ h2.length ≤ a`
  intro a ha
  have hge : h2.length ≤ a := (C02_fresh_and_frozen ov hov f2 h2 d vs2 hh2 hd2 hvs2 h3 r2 hc2).1 a ha
  refine ⟨hge, fun b _ hb => ?_⟩
  have := hext.1
  omega

/-- … and the earlier version is still exactly what it was: re-stacking never writes into an
existing version. -/
theorem C02_old_version_untouched (ov : Heap → HV → HV → Heap × HV) (hov : OverlayLocal ov) (f : Nat)
    (h2 h3 : Heap) (d : HV) (vs : List HV) (r2 : HV)
    (hh2 : HeapOK h2 = true) (hd2 : okV h2 d = true) (hvs2 : ∀ v ∈ vs, okV h2 v = true)
    (hc2 : composeH ov f h2 d vs = some (h3, r2)) :
    ∀ a, a < h2.length → h3[a]? = h2[a]? :=
  (C02_fresh_and_frozen ov hov f h2 d vs hh2 hd2 hvs2 h3 r2 hc2).2.2

end Dials.C02
