/-
C02 — Config versions are isolated snapshots; inputs are never modified.

Heap-level statement about `compose` (regenerated facts F8: the defaults and every source value are
deep-copied, each with its own copier, before the overlay touches them).

Two layers of theorems:
 * the `_real` theorems are about `composeR` (Model/HeapOverlay.lean): the proved deep copier (C03)
   followed, per source, by the heap-level executable model of overlay.go (`overlayStructH` /
   `overlayFieldH`: every branch of overlayField, in-place writes through base pointers, reference
   assignment of pointers / maps / slices, allocation of fresh pointees, the error and panic exits) —
   no hypothesis about the overlay step is left.  The model is tied to the real overlay.go and compose
   by the harness streams C and D (model == implementation on result graph with sharing, on the set and
   contents of modified pre-existing cells, on freshness).
 * the original abstract theorems take the overlay step as a parameter `ov` with the hypothesis
   `OverlayLocal ov`; `C02_overlay_local_real` shows that the real overlay satisfies these laws on
   well-formed heaps (`OverlayLocalWF`), and `C02_fresh_and_frozen_abstract_wf` that the weaker laws
   suffice.
-/
import DialsModel.Model.HeapSpec
import DialsModel.Lemmas.HeapCopy
import DialsModel.Lemmas.HeapCompose
import DialsModel.Model.HeapOverlay
import DialsModel.Lemmas.HeapOverlay

namespace Dials.C02
open Dials Dials.Heap
open Dials.Overlay (Ty Fields FieldKind)

/-- regenerated facts F8: compose and Config copy before they overlay -/
theorem C02_facts : Facts.composeCopiesDefaults = true ∧ Facts.composeCopiesSources = true ∧
    Facts.composeFreshCopier = true ∧ Facts.configCopiesDefaults = true := by
  decide

/- NOT PROVED — the statement is FALSE (refuted: `Dials.Heap.simpleOverlay_not_local` in
Lemmas/HeapCompose.lean proves `¬ OverlayLocal simpleOverlay`).  `mergeFs` keeps the base's exported
flag and ignores the overlay's, so it promotes an unexported overlay field into an exported position
and the `reach` law fails: h = [.val .nil], mark = 1, b = .st (.cons true .nil .nil),
o = .st (.cons false (.ptr 0) .nil); neither reaches anything through exported fields, yet
mergeV b o = .st (.cons true (.ptr 0) .nil) reaches address 0 < mark.  (`grows`, `frame`, `wf` do
hold: `simpleOverlay_partial`.)  The hypothesis itself is satisfiable: see `C02_overlay_local_satisfiable`.

/-- The hypothesis is satisfiable. -/
theorem C02_overlay_local_inhabited : OverlayLocal simpleOverlay := by
  (no proof exists: refuted)
-/

/-- The hypothesis `OverlayLocal` is satisfiable: by the field-wise merge that merges a field only when
base and overlay agree on its exported flag (`simpleOverlay'`, Lemmas/HeapCompose.lean), and
trivially by the overlay that keeps the base. -/
theorem C02_overlay_local_satisfiable :
    OverlayLocal simpleOverlay' ∧ OverlayLocal (fun h b _ => (h, b)) ∧ ¬ OverlayLocal simpleOverlay :=
  ⟨overlayLocal_simpleOverlay', overlayLocal_keepBase, simpleOverlay_not_local⟩

/-- A stacked config shares no memory (reachable through exported fields) with the defaults or with any
source value — everything it reaches was allocated by this compose — and compose never modifies
a cell that existed before: the caller's defaults and the sources' values are untouched. -/
theorem C02_fresh_and_frozen (ov : Heap → HV → HV → Heap × HV) (hov : OverlayLocal ov) (f : Nat)
    (h : Heap) (d : HV) (vs : List HV) (hh : HeapOK h = true) (hd : okV h d = true)
    (hvs : ∀ v ∈ vs, okV h v = true) (h' : Heap) (r : HV)
    (hc : composeH ov f h d vs = some (h', r)) :
    (∀ a, ReachV h' r a → h.length ≤ a) ∧ h.length ≤ h'.length ∧ (∀ a, a < h.length → h'[a]? = h[a]?) := by
  have I := compose_inv hov hh hd hvs hc
  exact ⟨I.fresh, I.len, I.frozen⟩

/-- Stacking the same inputs twice (or re-stacking later, after any amount of further allocation by
sources and readers: the heap `h2` extends `h1`) yields results that are disjoint from one
another: no address is reachable from both. -/
theorem C02_versions_disjoint (ov : Heap → HV → HV → Heap × HV) (hov : OverlayLocal ov) (f1 f2 : Nat)
    (h0 h1 h2 h3 : Heap) (d : HV) (vs1 vs2 : List HV) (r1 r2 : HV)
    (hh0 : HeapOK h0 = true) (hd0 : okV h0 d = true) (hvs1 : ∀ v ∈ vs1, okV h0 v = true)
    (hc1 : composeH ov f1 h0 d vs1 = some (h1, r1))
    (hext : h1.length ≤ h2.length ∧ ∀ a, a < h1.length → h2[a]? = h1[a]?)
    (hh2 : HeapOK h2 = true) (hd2 : okV h2 d = true) (hvs2 : ∀ v ∈ vs2, okV h2 v = true)
    (hc2 : composeH ov f2 h2 d vs2 = some (h3, r2)) :
    ∀ a, ReachV h3 r2 a → h2.length ≤ a ∧ (∀ b, ReachV h1 r1 b → b < h1.length → a ≠ b) := by
  have _ := And.intro hh0 (And.intro hd0 (And.intro hvs1 hc1))  -- not needed: `b < h1.length ≤ h2.length ≤ a`
  intro a ha
  have hge : h2.length ≤ a := (C02_fresh_and_frozen ov hov f2 h2 d vs2 hh2 hd2 hvs2 h3 r2 hc2).1 a ha
  refine ⟨hge, fun b _ hb => ?_⟩
  have := hext.1
  omega

/-- … and the earlier version is still exactly what it was: re-stacking never writes into an
existing version. -/
theorem C02_old_version_untouched (ov : Heap → HV → HV → Heap × HV) (hov : OverlayLocal ov) (f : Nat)
    (h2 h3 : Heap) (d : HV) (vs : List HV) (r2 : HV)
    (hh2 : HeapOK h2 = true) (hd2 : okV h2 d = true) (hvs2 : ∀ v ∈ vs, okV h2 v = true)
    (hc2 : composeH ov f h2 d vs = some (h3, r2)) :
    ∀ a, a < h2.length → h3[a]? = h2[a]? :=
  (C02_fresh_and_frozen ov hov f h2 d vs hh2 hd2 hvs2 h3 r2 hc2).2.2

/-! ## the real overlay: no hypothesis left -/

/-- The heap-level model of overlay.go is local, for every pair of types, every heap, every pair of
locations and EVERY exit (ok, error, panic, stuck): for any set `P` of addresses that is closed under
references through exported fields and contains all addresses not yet allocated, if the base location
and the overlay location lie in `P` then overlayStruct writes only into cells of `P`, never shrinks the
heap, keeps every cell's kind, and leaves `P` closed and the heap well-formed.  (With `P` = "allocated
by this compose" this is what the loop of compose needs; with `P` = "reachable from base or overlay, or
new" it is `OverlayLocal`.) -/
theorem C02_overlay_local_core (P : Nat → Prop) (z : Zeros) (bfs ofs : Fields) (h : Heap) (bl ol : Loc) (i j : Nat)
    (I : OvInv P h) (hb : P bl.addr) (ho : P ol.addr) :
    OvInv P (overlayStructH z bfs ofs h bl ol i j).1 ∧ OvExt P h (overlayStructH z bfs ofs h bl ol i j).1 :=
  overlayStructH_sound P z bfs ofs h bl ol i j I hb ho

/-- The laws of `OverlayLocal` hold of the real overlay (`ovReal` = overlayStruct of the struct the base
pointer designates with the struct the copied source pointer designates), with `frame` and `reach`
stated for well-formed heaps and values (`OverlayLocalWF`).  This weakening is what is true without
further ado (on an ill-kinded heap reachability is not transitive) and it is still sufficient:
`C02_fresh_and_frozen_abstract_wf`. -/
theorem C02_overlay_local_real (z : Zeros) (bfs ofs : Fields) : OverlayLocalWF (ovReal z bfs ofs) :=
  overlayLocalWF_ovReal z bfs ofs

/-- The abstract theorem needs only the well-formed form of the laws. -/
theorem C02_fresh_and_frozen_abstract_wf (ov : Heap → HV → HV → Heap × HV) (hov : OverlayLocalWF ov) (f : Nat)
    (h : Heap) (d : HV) (vs : List HV) (hh : HeapOK h = true) (hd : okV h d = true)
    (hvs : ∀ v ∈ vs, okV h v = true) (h' : Heap) (r : HV)
    (hc : composeH ov f h d vs = some (h', r)) :
    (∀ a, ReachV h' r a → h.length ≤ a) ∧ h.length ≤ h'.length ∧ (∀ a, a < h.length → h'[a]? = h[a]?) := by
  have I := compose_inv_wf hov hh hd hvs hc
  exact ⟨I.fresh, I.len, I.frozen⟩

/-- `compose` with the real overlay (`composeR`: defaults copy, then per source value its own deep copy
and overlayStruct in place onto the copy of the defaults; source values of any pointerified types
`ofs`): whatever the outcome `st` (ok, an overlay error, a panic inside reflect), everything the
returned pointer reaches through exported fields was allocated by this compose — the stacked config
shares no memory with the defaults, with any source value, or with anything else that existed — and
no cell that existed before is modified: the caller's defaults and the sources' values are untouched,
also on the error and panic exits. -/
theorem C02_fresh_and_frozen_real (z : Zeros) (f : Nat) (bfs : Fields) (h : Heap) (d : HV)
    (vs : List (Fields × HV)) (hh : HeapOK h = true) (hd : okV h d = true)
    (hvs : ∀ p ∈ vs, okV h p.2 = true) (h' : Heap) (st : St) (r : HV)
    (hc : composeR z f bfs h d vs = some (h', st, r)) :
    (∀ a, ReachV h' r a → h.length ≤ a) ∧ h.length ≤ h'.length ∧ (∀ a, a < h.length → h'[a]? = h[a]?) := by
  have I := composeR_inv hh hd hvs hc
  exact ⟨I.fresh, I.len, I.frozen⟩

/-- Stacking twice with the real overlay (the same inputs again, or a re-stack later, after any amount
of further allocation: `h2` extends `h1`; possibly other source values of other types) yields
results that share no address. -/
theorem C02_versions_disjoint_real (z : Zeros) (f1 f2 : Nat) (bfs : Fields) (h0 h1 h2 h3 : Heap) (d : HV)
    (vs1 vs2 : List (Fields × HV)) (st1 st2 : St) (r1 r2 : HV)
    (hc1 : composeR z f1 bfs h0 d vs1 = some (h1, st1, r1))
    (hext : h1.length ≤ h2.length ∧ ∀ a, a < h1.length → h2[a]? = h1[a]?)
    (hh2 : HeapOK h2 = true) (hd2 : okV h2 d = true) (hvs2 : ∀ p ∈ vs2, okV h2 p.2 = true)
    (hc2 : composeR z f2 bfs h2 d vs2 = some (h3, st2, r2)) :
    ∀ a, ReachV h3 r2 a → h2.length ≤ a ∧ (∀ b, ReachV h1 r1 b → b < h1.length → a ≠ b) := by
  have _ := hc1  -- the first run only fixes `h1`, `r1`: `b < h1.length ≤ h2.length ≤ a`
  intro a ha
  have hge : h2.length ≤ a := (C02_fresh_and_frozen_real z f2 bfs h2 d vs2 hh2 hd2 hvs2 h3 st2 r2 hc2).1 a ha
  refine ⟨hge, fun b _ hb => ?_⟩
  have := hext.1
  omega

/-- … and re-stacking with the real overlay never writes into an existing version (nor into anything
else that existed), whatever its outcome. -/
theorem C02_old_version_untouched_real (z : Zeros) (f : Nat) (bfs : Fields) (h2 h3 : Heap) (d : HV)
    (vs : List (Fields × HV)) (st : St) (r2 : HV)
    (hh2 : HeapOK h2 = true) (hd2 : okV h2 d = true) (hvs2 : ∀ p ∈ vs, okV h2 p.2 = true)
    (hc2 : composeR z f bfs h2 d vs = some (h3, st, r2)) :
    ∀ a, a < h2.length → h3[a]? = h2[a]? :=
  (C02_fresh_and_frozen_real z f bfs h2 d vs hh2 hd2 hvs2 h3 st r2 hc2).2.2

/-- One source on an arbitrary base cell (what `dials.VerifOverlay` does and harness stream C compares):
relative to any mark `m` below which nothing the base cell reaches lies, the copy-then-overlay step
leaves every cell below `m` alone and keeps the heap fresh above `m`, whatever its outcome. -/
theorem C02_overlay_step_real (z : Zeros) (f : Nat) (bfs ofs : Fields) (m b : Nat) (hi h' : Heap) (v : HV) (st : St)
    (I : LInv m b hi) (hv : okV hi v = true) (hc : verifOverlayH z f bfs ofs hi b v = some (h', st)) :
    LInv m b h' ∧ LExt m hi h' :=
  verifOverlayH_inv I hv hc

/-! ### non-vacuity: the real model merges in place, moves references, allocates -/

section examples
/-- `struct { P *int; Q *struct{ X *int } }` (already pointerified: it is its own pointerified type) -/
def exTy : Fields :=
  .cons .normal (.ptr (.scalar 1)) (.cons .normal (.ptr (.struct (.cons .normal (.ptr (.scalar 1)) .nil))) .nil)
/-- cell 0: defaults `{P: nil, Q: &cell1}`, cell 1: `{X: nil}`; a source's value in cell 2: `{P: &cell3, Q: &cell4}`,
cell 3: `7`, cell 4: `{X: &cell3}` -/
def exHeap : Heap :=
  [.val (.st (.cons true .nil (.cons true (.ptr 1) .nil))), .val (.st (.cons true .nil .nil)),
   .val (.st (.cons true (.ptr 3) (.cons true (.ptr 4) .nil))), .val (.sc 7), .val (.st (.cons true (.ptr 3) .nil))]

/-- compose succeeds on it, returns a pointer to a cell allocated by the run, and allocates
2 cells for the defaults copy + 3 for the copy of the source value -/
example : (composeR [] 20 exTy exHeap (.ptr 0) [(exTy, .ptr 2)]).map (fun x => (x.1.length, x.2.1, x.2.2))
    = some (10, .ok, .ptr 5) := by rfl

/-- the overlay step alone, on the un-copied cells: the base struct (cell 0) gets `P` by reference, the
pointee of `Q` (cell 1) is written in place -/
example : (overlayStructH [] exTy exTy exHeap ⟨0, []⟩ ⟨2, []⟩ 0 0)
    = ([.val (.st (.cons true (.ptr 3) (.cons true (.ptr 1) .nil))), .val (.st (.cons true (.ptr 3) .nil)),
        .val (.st (.cons true (.ptr 3) (.cons true (.ptr 4) .nil))), .val (.sc 7), .val (.st (.cons true (.ptr 3) .nil))], .ok) := by
  rfl

/-- a nil pointer to a struct of a different (not yet pointerified) type is given a freshly allocated pointee -/
example : (overlayStructH [] (.cons .normal (.ptr (.struct (.cons .normal (.scalar 1) .nil))) .nil)
      (.cons .normal (.ptr (.struct (.cons .normal (.ptr (.scalar 1)) .nil))) .nil)
      [.val (.st (.cons true .nil .nil)), .val (.st (.cons true (.ptr 2) .nil)), .val (.st (.cons true (.ptr 3) .nil)), .val (.sc 9)]
      ⟨0, []⟩ ⟨1, []⟩ 0 0)
    = ([.val (.st (.cons true (.ptr 4) .nil)), .val (.st (.cons true (.ptr 2) .nil)), .val (.st (.cons true (.ptr 3) .nil)), .val (.sc 9),
        .val (.st (.cons true (.sc 9) .nil))], .ok) := by
  rfl
end examples

end Dials.C02
