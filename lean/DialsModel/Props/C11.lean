/-
C11 — Environment source: documented names, exact values, nothing else touched.

Property theorems only (helper lemmas live in Lemmas/EnvAlias.lean).
-/
import DialsModel.Model.TfSpec
import DialsModel.Lemmas.CaseConv
import DialsModel.Lemmas.GoIdent
import DialsModel.Lemmas.EnvAlias
import DialsModel.Lemmas.EnvValue
import DialsModel.Props.C19

namespace Dials.C11
open Dials Dials.Tf

/-- F22: the environment is a partial map from exact names to values, as the theorems below take it: the source
consults it through `os.LookupEnv(name)` only (one exact-name lookup per field; the value is the variable's bytes as they
are, an empty variable is present), never through a hand-split snapshot of `os.Environ()` or `os.Getenv`. -/
theorem C11_environment_is_a_lookup : 1 ≤ Facts.envLookupCalls ∧ Facts.envOtherReads = 0 := by
  decide

/-- The variable consulted for a translated field is its `dialsenv` tag, after the optional prefix
and an underscore. -/
theorem C11_prefix (fuel : Nat) (chain : List Mangler) (pfx : String) (fs tfs : List FT)
    (ht : translate fuel chain fs = .ok tfs) :
    envNames fuel chain pfx fs = .ok (tfs.map fun f =>
      if pfx == "" then (tagGet f.1.tags "dialsenv").getD "" else pfx ++ "_" ++ (tagGet f.1.tags "dialsenv").getD "") := by
  unfold envNames
  rw [ht]

/-- Nothing else in the environment matters: two environments that agree on the consulted names give
the same result (value or error). -/
theorem C11_nothing_else (fuel : Nat) (chain : List Mangler) (pfx : String) (fs : List FT)
    (env1 env2 : String → Option String) (names : List String)
    (hn : envNames fuel chain pfx fs = .ok names) (hagree : ∀ n ∈ names, env1 n = env2 n) :
    envValue fuel chain pfx fs env1 = envValue fuel chain pfx fs env2 := by
  rw [envNames_eq] at hn
  rw [envValue_eq, envValue_eq]
  cases htr : translate fuel chain fs with
  | err c => rfl
  | panic c => rfl
  | ok tfs =>
    rw [htr] at hn
    injection hn with hn
    subst hn
    simp only
    rw [mapM'_congr (envField pfx env1) (envField pfx env2) tfs
      (fun f hf => envField_congr pfx env1 env2 f (hagree _ (List.mem_map_of_mem hf)))]

/-- With none of the consulted variables present the translated value handed to ReverseTranslate is
entirely unset. -/
theorem C11_absent (fuel : Nat) (chain : List Mangler) (pfx : String) (fs tfs : List FT)
    (ht : translate fuel chain fs = .ok tfs) (env : String → Option String)
    (hnone : ∀ f ∈ tfs, ∀ name, tagGet f.1.tags "dialsenv" = some name → name ≠ "" →
        env (if pfx == "" then name else pfx ++ "_" ++ name) = none)
    (htags : ∀ f ∈ tfs, ∃ name, tagGet f.1.tags "dialsenv" = some name ∧ name ≠ "") :
    envValue fuel chain pfx fs env = reverse fuel chain fs (nils tfs.length) := by
  rw [envValue_eq, ht]
  simp only
  rw [mapM'_const (envField pfx env) Val.nilv tfs (fun f hf => by
    obtain ⟨name, hg, hne⟩ := htags f hf
    exact envField_absent pfx env f name hg hne (hnone f hf name hg hne))]
  rfl

/-
ORIGINAL STATEMENT (FALSE as written; kept verbatim):

theorem C11_name_join (segs : List (List Char)) (hne : ∀ s ∈ segs, s ≠ [])
    (hsep : ∀ s ∈ segs, ∀ c ∈ s, c ≠ '_' ∧ c ≠ '-') :
    CaseConv.decodeGoTags (CaseConv.joinWith '_' segs) =
      some (segs.flatMap fun s => (CaseConv.decodeGoTags s).getD [])

Counterexamples (machine-checked: `C11_name_join_counterexamples`, `C11_name_join_original_false`):
`goLoop` looks ahead two characters (`firstAfterInitialism`) and treats the end of the string
specially, so a NON-FINAL segment is decoded as if it were followed by a separator, which is not
always how it is decoded on its own:

  segs = ["URLs", "abc"]   joined "URLs_abc"  ↦ ["ur", "ls", "abc"]   but  "URLs"  ↦ ["urls"]
  segs = ["HTTPa", "abc"]  joined "HTTPa_abc" ↦ ["htt", "pa", "abc"]  but  "HTTPa" ↦ ["httpa"]
  segs = ["x9Y", "abc"]    joined "x9Y_abc"   ↦ ["x9y", "abc"]        but  "x9Y"   ↦ ["y"]   (the end-of-string
                                                                      branch drops "x9", as the code does)
  segs = ["ID1", "abc"]    joined "ID1_abc"   ↦ ["id", "1", "abc"]    but  "ID1"   ↦ ["id1"]

(the word boundary BETWEEN segments is never lost in any of these; what differs is the decoding of
the segment itself).  What is true:

  * `C11_name_join_general` (no hypothesis at all): every segment but the last is decoded as if
    followed by a separator, the last one on its own;
  * `C11_name_join_partial`: the original equation for separator-stable segments
    (`CaseConv.SepStable s`: `decodeGoTags (s ++ "_") = decodeGoTags s`, decidable);
  * separator-stable are (`C11_sep_stable_classes`): lower-case words `[a-z][a-z0-9]*` — more generally
    segments without upper-case characters and separators containing a lower-case letter —, non-empty
    all-upper-case segments, and capitalised segments `[A-Z][a-z]` followed by non-upper-case
    characters;
  * `C11_name_join_words`: for lower-case words (what `DecodeGoCamelCase` of field names produces)
    the join decodes to exactly the words.
-/

/-- Decoding the case-preserving-snake join of ANY segments: every segment but the last is decoded
as if followed by a separator, the last one on its own; in particular the boundary between two path
elements is never lost.  (No hypotheses: empty segments and segments containing separators
included.) -/
theorem C11_name_join_general (segs : List (List Char)) (last : List Char) :
    CaseConv.decodeGoTags (CaseConv.joinWith '_' (segs ++ [last])) =
      some ((segs.flatMap fun s => (CaseConv.decodeGoTags (s ++ ['_'])).getD []) ++
        (CaseConv.decodeGoTags last).getD []) := by
  simp only [CaseConv.decodeGoTags_eq, Option.getD_some]
  unfold CaseConv.goTagWords
  rw [CaseConv.goLoop_join]
  simp [CaseConv.goTagWords]

/-- Word boundaries survive the join: the original `C11_name_join` equation under the hypothesis
`hstable` that every segment is separator-stable (`CaseConv.SepStable`: a following separator does
not change how the segment is decoded).  The original hypotheses `hne`, `hsep` are not needed.  The
original statement without `hstable` is false (see the comment above). -/
theorem C11_name_join_partial (segs : List (List Char)) (hstable : ∀ s ∈ segs, CaseConv.SepStable s) :
    CaseConv.decodeGoTags (CaseConv.joinWith '_' segs) =
      some (segs.flatMap fun s => (CaseConv.decodeGoTags s).getD []) := by
  rcases List.eq_nil_or_concat segs with rfl | ⟨init, last, rfl⟩
  · rfl
  · rw [List.concat_eq_append] at hstable ⊢
    rw [C11_name_join_general, List.flatMap_append]
    have : (init.flatMap fun s => (CaseConv.decodeGoTags (s ++ ['_'])).getD []) =
        init.flatMap fun s => (CaseConv.decodeGoTags s).getD [] := by
      apply flatMap_congr_mem
      intro s hs
      have := hstable s (List.mem_append_left _ hs)
      unfold CaseConv.SepStable at this
      rw [this]
    rw [this]
    simp

/-- syntactic classes of separator-stable segments -/
theorem C11_sep_stable_classes (s : List Char) :
    (CaseConv.isWord s = true → CaseConv.SepStable s) ∧
    ((∀ c ∈ s, isUpperA c = false ∧ c ≠ '_' ∧ c ≠ '-') → (∃ c ∈ s, isLowerA c = true) → CaseConv.SepStable s) ∧
    (s ≠ [] → s.all isUpperA = true → CaseConv.SepStable s) ∧
    (∀ c d tl, s = c :: d :: tl → isUpperA c = true → isLowerA d = true →
      (∀ x ∈ tl, isUpperA x = false ∧ x ≠ '_' ∧ x ≠ '-') → CaseConv.SepStable s) := by
  refine ⟨CaseConv.sepStable_word, ?_, CaseConv.sepStable_upper s, ?_⟩
  · intro h hl
    exact CaseConv.sepStable_plain s (fun c hc => ⟨(h c hc).1, by simp [(h c hc).2.1, (h c hc).2.2]⟩) hl
  · rintro c d tl rfl hc hd htl
    exact (CaseConv.sepStable_cap c d tl hc hd
      (fun x hx => ⟨(htl x hx).1, by simp [(htl x hx).2.1, (htl x hx).2.2]⟩)).1

/-- The env chain's main case: joining lower-case words `[a-z][a-z0-9]*` (what `DecodeGoCamelCase`
produces from field names) and decoding the join gives back exactly the words. -/
theorem C11_name_join_words (ws : List (List Char)) (h : ∀ w ∈ ws, CaseConv.isWord w = true) :
    CaseConv.decodeGoTags (CaseConv.joinWith '_' ws) = some ws := by
  rw [C11_name_join_partial ws (fun w hw => CaseConv.sepStable_word (h w hw))]
  congr 1
  induction ws with
  | nil => rfl
  | cons w ws ih =>
    rw [List.flatMap_cons, ih (fun v hv => h v (List.mem_cons_of_mem _ hv)), CaseConv.decodeGoTags_eq,
      CaseConv.goTagWords_word (h w List.mem_cons_self)]
    rfl

/-- the counterexamples to the original `C11_name_join` (hypotheses `hne`, `hsep` hold for them) -/
theorem C11_name_join_counterexamples :
    CaseConv.decodeGoTags "URLs_abc".toList = some ["ur".toList, "ls".toList, "abc".toList] ∧
    CaseConv.decodeGoTags "URLs".toList = some ["urls".toList] ∧
    CaseConv.decodeGoTags "HTTPa_abc".toList = some ["htt".toList, "pa".toList, "abc".toList] ∧
    CaseConv.decodeGoTags "HTTPa".toList = some ["httpa".toList] ∧
    CaseConv.decodeGoTags "x9Y_abc".toList = some ["x9y".toList, "abc".toList] ∧
    CaseConv.decodeGoTags "x9Y".toList = some ["y".toList] ∧
    CaseConv.decodeGoTags "ID1_abc".toList = some ["id".toList, "1".toList, "abc".toList] ∧
    CaseConv.decodeGoTags "ID1".toList = some ["id1".toList] ∧
    CaseConv.decodeGoTags "abc".toList = some ["abc".toList] := by
  decide

/-- the original `C11_name_join` is refuted by `["URLs", "abc"]` -/
theorem C11_name_join_original_false :
    ¬ (∀ (segs : List (List Char)) (_ : ∀ s ∈ segs, s ≠ [])
        (_ : ∀ s ∈ segs, ∀ c ∈ s, c ≠ '_' ∧ c ≠ '-'),
        CaseConv.decodeGoTags (CaseConv.joinWith '_' segs) =
          some (segs.flatMap fun s => (CaseConv.decodeGoTags s).getD [])) := by
  intro H
  have := H ["URLs".toList, "abc".toList] (by decide) (by decide)
  revert this
  decide

/-- The UPPER_SNAKE encoding of non-empty words contains exactly one underscore between consecutive
words, and decodes back to them (so distinct word lists give distinct variable names). -/
theorem C11_upper_snake_injective (ws1 ws2 : CaseConv.Words)
    (h1 : ws1 ≠ [] ∧ ∀ w ∈ ws1, CaseConv.isWord w = true) (h2 : ws2 ≠ [] ∧ ∀ w ∈ ws2, CaseConv.isWord w = true)
    (heq : CaseConv.encodeUpperSnake ws1 = CaseConv.encodeUpperSnake ws2) : ws1 = ws2 := by
  have r1 := C19.C19_roundtrip CaseConv.Scheme.upperSnake ws1 h1.1 h1.2
  have r2 := C19.C19_roundtrip CaseConv.Scheme.upperSnake ws2 h2.1 h2.2
  simp only [CaseConv.Scheme.encode, CaseConv.Scheme.decode] at r1 r2
  rw [heq, r2] at r1
  injection r1 with r1
  exact r1.symm

/-- regenerated chain (F12a) of the env source -/
theorem C11_chain_fact : Facts.chainEnv =
    [["alias", "dials", "dialsenv"], ["flatten", "dials", "EncodeUpperCamelCase", "EncodeCasePreservingSnakeCase"],
     ["reformat", "dials", "DecodeGoTags", "EncodeUpperSnakeCase"], ["copy", "dials", "dialsenv"], ["stringcast"]] := by
  rfl

/-! ## The end-to-end value statement: what `envValue` returns for an ARBITRARY environment

Vocabulary (Lemmas/EnvValue.lean): `envChain` — the env source's chain `[alias, flatten, tag reformat,
tag copy, string cast]` (`C10_env_chain_is_shipped`: the shipped one); `EnvLayers … fs fs1 fs2 fs3 fs4 tfs`
— the field lists between its layers (`fs1` after alias, `fs2` the flattened leaves, `fs4` the fields
entering string cast: the leaves with their final tags, `tfs` the translated fields; they exist
whenever TranslateType succeeds: `EnvLayers.of_translate`); `envKey pfx f` — the variable consulted for
a field (`C11_prefix`); `envFill` — pointer to the variable's text, or unset; `envLeaf` — the parsed
leaf value or the parse failure; `EnvTy tags t` — the condition on a config field's type: below it
(through pointers and struct fields) no field carries an alias tag, no leaf is a slice / array of
structs (such leaves are not string-castable; tag reformat / tag copy would recurse into them), every
struct sits behind a pointer (Pointerify); `aliasPick` — `aliasUnmangle` on the values. -/

/-- The translated value handed to ReverseTranslate is, field by field, a pointer to the text of the
field's variable if it is present and unset otherwise (every translated field having a non-empty
`dialsenv` tag). -/
theorem C11_env_fill (fuel : Nat) (chain : List Mangler) (pfx : String) (fs tfs : List FT)
    (lookup : String → Option String) (ht : translate fuel chain fs = .ok tfs)
    (htags : ∀ f ∈ tfs, ∃ name, tagGet f.1.tags "dialsenv" = some name ∧ name ≠ "") :
    envValue fuel chain pfx fs lookup = reverse fuel chain fs (envFill pfx lookup tfs) := by
  rw [envValue_eq, ht]
  simp only
  rw [mapM'_ok_of_forall (envField pfx lookup) (envFillOne pfx lookup) tfs
    (fun f hf => envField_ok pfx lookup f (htags f hf))]
  rfl

/-- `envFill`, spelled out: present with text `txt` ↦ `.ptr (.s txt)`, absent ↦ `.nilv` -/
theorem C11_env_fill_spec (pfx : String) (lookup : String → Option String) (f : FT) :
    (∀ txt, lookup (envKey pfx f) = some txt → envFillOne pfx lookup f = .ptr (.s txt)) ∧
    (lookup (envKey pfx f) = none → envFillOne pfx lookup f = .nilv) := by
  constructor
  · intro txt h; simp only [envFillOne, h]
  · intro h; simp only [envFillOne, h]

/-- the value of a leaf: unset if its variable is absent, else what `parse` makes of the variable's
text at the leaf's cast type (boxed for a pointer-to-collection leaf); total version of `envLeaf` for
stating the success case -/
def leafVal (pfx : String) (lookup : String → Option String) (parse : String → Ty → Outcome Val) (f : FT) : Val :=
  match envLeaf pfx lookup parse f with
  | .ok v => v
  | _ => .nilv

theorem C11_leafVal_spec (pfx : String) (lookup : String → Option String) (parse : String → Ty → Outcome Val)
    (f : FT) :
    (lookup (envKey pfx f) = none → leafVal pfx lookup parse f = .nilv) ∧
    (∀ txt u, lookup (envKey pfx f) = some txt → parse txt (scCastTo f.2) = .ok u →
      leafVal pfx lookup parse f = if scBoxed f.2 then .ptr u else u) := by
  constructor
  · intro h; simp only [leafVal, envLeaf, h]
  · intro txt u h hp; simp only [leafVal, envLeaf, h, hp]

/-- if every present variable parses, the leaf values are `leafVal` -/
theorem leaves_ok (pfx : String) (lookup : String → Option String) (parse : String → Ty → Outcome Val)
    (fs4 : List FT)
    (hparse : ∀ f ∈ fs4, ∀ txt, lookup (envKey pfx f) = some txt → ∃ u, parse txt (scCastTo f.2) = .ok u) :
    mapM' (envLeaf pfx lookup parse) fs4 = .ok (fs4.map (leafVal pfx lookup parse)) := by
  apply mapM'_ok_of_forall
  intro f hf
  simp only [leafVal, envLeaf]
  cases hl : lookup (envKey pfx f) with
  | none => rfl
  | some txt =>
    obtain ⟨u, hu⟩ := hparse f hf txt hl
    simp only [hu]

/-- GENERAL FORM (top-level aliases allowed; Tier 2 for top-level fields).  For field types satisfying
`EnvTy` (nothing aliased below the top level), enough flatten fuel, leaves with an element type and
non-empty `dialsenv` tags: the result of the environment source is determined by the leaf values
`envLeaf` — each leaf's OWN variable, parsed at the leaf's cast type:
* if a leaf fails (`.err` / `.panic` of `parse` on a present variable; the first one in field order),
  that failure is the result: never a zero or truncated value;
* otherwise flatten populates every field of `fs1` from its own group of leaves — `w1`, whose leaves read
  back (`flatLeaves`) are exactly the leaf values, a struct being allocated exactly when one of its
  leaves is set — and every top-level field gets the value of its translated field, or, if it carries
  an alias tag, `aliasPick` of the values of its primary and alias copies (`C11_alias_pick`). -/
theorem C11_env_values_general (tags : List String) (cfg : FlattenCfg) (fuelF fuel : Nat) (tag : String)
    (dec : List Char → Option (List (List Char))) (enc : CaseConv.Scheme) (src new : String)
    (parse : String → Ty → Outcome Val) (pfx : String) (lookup : String → Option String)
    (fs fs1 fs2 fs3 fs4 tfs : List FT)
    (L : EnvLayers tags cfg fuelF fuel tag dec enc src new parse fs fs1 fs2 fs3 fs4 tfs)
    (hty : ∀ f ∈ fs, EnvTy tags f.2) (hsz : ∀ f ∈ fs, tySize f.2 < fuelF)
    (hel : ∀ f ∈ fs2, hasElemTy f.2 = true)
    (htags : ∀ f ∈ tfs, ∃ name, tagGet f.1.tags "dialsenv" = some name ∧ name ≠ "") :
    (∀ c, mapM' (envLeaf pfx lookup parse) fs4 = .err c →
      envValue fuel (envChain tags cfg fuelF tag dec enc src new parse) pfx fs lookup = .err c) ∧
    (∀ c, mapM' (envLeaf pfx lookup parse) fs4 = .panic c →
      envValue fuel (envChain tags cfg fuelF tag dec enc src new parse) pfx fs lookup = .panic c) ∧
    (∀ lv, mapM' (envLeaf pfx lookup parse) fs4 = .ok lv →
      ∃ w1, ((fs1.zip w1).map fun p => flatLeaves fuelF p.1.2 p.2).flatten = lv ∧
        All2 (fun o w => (flatLeaves fuelF o.2 w).length = leafN o.2 ∧
          ((∀ x ∈ flatLeaves fuelF o.2 w, x = Val.nilv) ↔ w = .nilv)) fs1 w1 ∧
        envValue fuel (envChain tags cfg fuelF tag dec enc src new parse) pfx fs lookup =
          mapM' (fun (p : FT × List Val) => aliasPick p.1.1 p.1.2 p.2)
            (fs.zip (splitCounts (fs.map (aliasCount tags)) w1))) := by
  obtain ⟨hf1, _, _, _, e5, _, hty4⟩ := L.facts hty hsz
  have hel4 : ∀ f ∈ fs4, hasElemTy f.2 = true := by
    intro f hf
    have : f.2 ∈ fs4.map (·.2) := List.mem_map_of_mem hf
    rw [hty4] at this
    obtain ⟨g, hg, e⟩ := List.mem_map.1 this
    rw [← e]
    exact hel g hg
  rw [C11_env_fill fuel _ pfx fs tfs lookup L.translate htags]
  obtain ⟨he, hp, hk⟩ := reverse_envChain L hty hsz (envFill pfx lookup tfs) (by simp [envFill])
  have hsc := scUn_envFill pfx lookup parse fs4 hel4
  rw [← e5] at hsc
  rw [hsc] at he hp hk
  refine ⟨he, hp, fun lv hlv => ?_⟩
  obtain ⟨w1, hfl, hg, hr⟩ := hk lv hlv
  refine ⟨w1, hfl, ?_, hr⟩
  apply All2.of_mem (All2.length hg)
  intro o w hmem
  have ho := (hf1 o (List.of_mem_zip hmem).1).1
  exact flattenGood_spec ho (All2.mem hg o w hmem)

/-- `aliasPick` on a nil-able (pointerified) field: a single translated field passes its value; of
primary and alias, the set one wins; both set is the error "both alias and original set". -/
theorem C11_alias_pick (h : Hdr) (t : Ty) (ht : isNilableTy t = true) (v vp va : Val) :
    aliasPick h t [v] = .ok v ∧
    (vp.isNil = false → va.isNil = true → aliasPick h t [vp, va] = .ok vp) ∧
    (vp.isNil = true → va.isNil = false → aliasPick h t [vp, va] = .ok va) ∧
    (vp.isNil = true → va.isNil = true → aliasPick h t [vp, va] = .ok vp) ∧
    (vp.isNil = false → va.isNil = false →
      aliasPick h t [vp, va] = .err ("both alias and original set for field " ++ h.name)) := by
  have hu : ∀ v, isUnsetAt t v = v.isNil := by
    intro v
    cases t with
    | ptr e => exact isUnsetAt_ptr e v
    | slice e => exact isUnsetAt_slice e v
    | map k e => exact isUnsetAt_map k e v
    | set k => exact isUnsetAt_set k v
    | _ => simp [isNilableTy] at ht
  refine ⟨rfl, ?_, ?_, ?_, ?_⟩ <;> intro h1 h2 <;> simp [aliasPick, hu, h1, h2]

/-- "carries no alias tag" in terms of the tags: no `<tag>alias` key for any tag of the alias mangler -/
theorem C11_not_aliased_iff (tags : List String) (h : Hdr) :
    isAliased tags h = false ↔ ∀ tag ∈ tags, tagGet h.tags (tag ++ "alias") = none := by
  simp only [isAliased, Bool.not_eq_false', List.isEmpty_iff, List.filterMap_eq_nil_iff, Option.map_eq_none_iff]

/-- ERROR CHARACTERISATION.  If some present variable's text does not parse at its leaf's cast type
(`parse txt (scCastTo t) = .err c`), the environment source never returns a value (no zero or truncated
value is stored); it returns an error, provided `parse` panics on no present variable (if it does, the
first failure in field order decides between `.err` and `.panic`: `C11_env_values_general`). -/
theorem C11_env_error (tags : List String) (cfg : FlattenCfg) (fuelF fuel : Nat) (tag : String)
    (dec : List Char → Option (List (List Char))) (enc : CaseConv.Scheme) (src new : String)
    (parse : String → Ty → Outcome Val) (pfx : String) (lookup : String → Option String)
    (fs fs1 fs2 fs3 fs4 tfs : List FT)
    (L : EnvLayers tags cfg fuelF fuel tag dec enc src new parse fs fs1 fs2 fs3 fs4 tfs)
    (hty : ∀ f ∈ fs, EnvTy tags f.2) (hsz : ∀ f ∈ fs, tySize f.2 < fuelF)
    (hel : ∀ f ∈ fs2, hasElemTy f.2 = true)
    (htags : ∀ f ∈ tfs, ∃ name, tagGet f.1.tags "dialsenv" = some name ∧ name ≠ "")
    (hbad : ∃ f ∈ fs4, ∃ txt c, lookup (envKey pfx f) = some txt ∧ parse txt (scCastTo f.2) = .err c) :
    (∀ vs, envValue fuel (envChain tags cfg fuelF tag dec enc src new parse) pfx fs lookup ≠ .ok vs) ∧
    ((∀ f ∈ fs4, ∀ txt c, lookup (envKey pfx f) = some txt → parse txt (scCastTo f.2) ≠ .panic c) →
      ∃ c, envValue fuel (envChain tags cfg fuelF tag dec enc src new parse) pfx fs lookup = .err c) := by
  obtain ⟨he, hp, _⟩ := C11_env_values_general tags cfg fuelF fuel tag dec enc src new parse pfx lookup
    fs fs1 fs2 fs3 fs4 tfs L hty hsz hel htags
  obtain ⟨f, hf, txt, c, hl, hpe⟩ := hbad
  have hfe : envLeaf pfx lookup parse f = .err c := by simp only [envLeaf, hl, hpe]
  constructor
  · intro vs hvs
    cases hm : mapM' (envLeaf pfx lookup parse) fs4 with
    | ok lv => exact mapM'_not_ok hf (fun b hb => by rw [hfe] at hb; cases hb) lv hm
    | err c' => rw [he c' hm] at hvs; cases hvs
    | panic c' => rw [hp c' hm] at hvs; cases hvs
  · intro hnp
    have hnp' : ∀ g ∈ fs4, ∀ c', envLeaf pfx lookup parse g ≠ .panic c' := by
      intro g hg c' hc'
      simp only [envLeaf] at hc'
      cases hlg : lookup (envKey pfx g) with
      | none => rw [hlg] at hc'; cases hc'
      | some t' =>
        rw [hlg] at hc'
        simp only at hc'
        cases hpg : parse t' (scCastTo g.2) with
        | ok u => rw [hpg] at hc'; cases hc'
        | err c'' => rw [hpg] at hc'; cases hc'
        | panic c'' => exact hnp g hg t' c'' hlg hpg
    obtain ⟨c', hc'⟩ := mapM'_err hnp' ⟨f, hf, c, hfe⟩
    exact ⟨c', he c' hc'⟩

/-- SUCCESS CHARACTERISATION WITH TOP-LEVEL ALIASES (Tier 2 for top-level fields: a top-level field of
any `EnvTy` type — leaf or nested struct — may carry an alias tag; nothing below the top level does).
If every present variable parses, then with the leaf values `leafVal` (absent ↦ unset, present ↦ the
parsed value of the leaf's own variable) there are values `w1` of the alias-translated fields `fs1` —
each populated from its own leaves, allocated exactly when one of them is set — such that every
top-level field gets its translated field's value or, if aliased, `aliasPick` of its primary's and its
alias copy's values: the set one, the primary's if neither is, and the error "both alias and original
set" if both are (`C11_alias_pick`). -/
theorem C11_env_values_alias (tags : List String) (cfg : FlattenCfg) (fuelF fuel : Nat) (tag : String)
    (dec : List Char → Option (List (List Char))) (enc : CaseConv.Scheme) (src new : String)
    (parse : String → Ty → Outcome Val) (pfx : String) (lookup : String → Option String)
    (fs fs1 fs2 fs3 fs4 tfs : List FT)
    (L : EnvLayers tags cfg fuelF fuel tag dec enc src new parse fs fs1 fs2 fs3 fs4 tfs)
    (hty : ∀ f ∈ fs, EnvTy tags f.2) (hsz : ∀ f ∈ fs, tySize f.2 < fuelF)
    (hel : ∀ f ∈ fs2, hasElemTy f.2 = true)
    (htags : ∀ f ∈ tfs, ∃ name, tagGet f.1.tags "dialsenv" = some name ∧ name ≠ "")
    (hparse : ∀ f ∈ fs4, ∀ txt, lookup (envKey pfx f) = some txt → ∃ u, parse txt (scCastTo f.2) = .ok u) :
    ∃ w1, ((fs1.zip w1).map fun p => flatLeaves fuelF p.1.2 p.2).flatten = fs4.map (leafVal pfx lookup parse) ∧
      All2 (fun o w => (flatLeaves fuelF o.2 w).length = leafN o.2 ∧
        ((∀ x ∈ flatLeaves fuelF o.2 w, x = Val.nilv) ↔ w = .nilv)) fs1 w1 ∧
      envValue fuel (envChain tags cfg fuelF tag dec enc src new parse) pfx fs lookup =
        mapM' (fun (p : FT × List Val) => aliasPick p.1.1 p.1.2 p.2)
          (fs.zip (splitCounts (fs.map (aliasCount tags)) w1)) :=
  (C11_env_values_general tags cfg fuelF fuel tag dec enc src new parse pfx lookup
    fs fs1 fs2 fs3 fs4 tfs L hty hsz hel htags).2.2 _ (leaves_ok pfx lookup parse fs4 hparse)

/-- MAIN THEOREM (Tier 1: no alias tags, at any depth — `hna` for the top-level fields, `EnvTy` below
them; the alias layer is then the identity: `fs1 = fs`).  For config field types with every struct
behind a pointer (`EnvTy`), enough flatten fuel (`hsz`), leaves with an element type (`hel`: what
Pointerify produces) and non-empty `dialsenv` tags on the translated fields (`htags`): if every PRESENT
variable parses at its leaf's cast type, the environment source succeeds with values `vs` whose
flattened leaves, field by field in flatten order, are exactly the leaf values `leafVal` — each leaf
holds the parsed value of ITS OWN variable (boxed for a pointer-to-collection leaf), every leaf whose
variable is absent is unset, whatever else is in the environment —, and a top-level value (hence, by
`flatLeaves`, every intermediate struct) is allocated exactly when one of its leaves is set. -/
theorem C11_env_values (tags : List String) (cfg : FlattenCfg) (fuelF fuel : Nat) (tag : String)
    (dec : List Char → Option (List (List Char))) (enc : CaseConv.Scheme) (src new : String)
    (parse : String → Ty → Outcome Val) (pfx : String) (lookup : String → Option String)
    (fs fs1 fs2 fs3 fs4 tfs : List FT)
    (L : EnvLayers tags cfg fuelF fuel tag dec enc src new parse fs fs1 fs2 fs3 fs4 tfs)
    (hna : ∀ f ∈ fs, isAliased tags f.1 = false)
    (hty : ∀ f ∈ fs, EnvTy tags f.2) (hsz : ∀ f ∈ fs, tySize f.2 < fuelF)
    (hel : ∀ f ∈ fs2, hasElemTy f.2 = true)
    (htags : ∀ f ∈ tfs, ∃ name, tagGet f.1.tags "dialsenv" = some name ∧ name ≠ "")
    (hparse : ∀ f ∈ fs4, ∀ txt, lookup (envKey pfx f) = some txt → ∃ u, parse txt (scCastTo f.2) = .ok u) :
    fs1 = fs ∧
    ∃ vs, envValue fuel (envChain tags cfg fuelF tag dec enc src new parse) pfx fs lookup = .ok vs ∧
      ((fs.zip vs).map fun p => flatLeaves fuelF p.1.2 p.2).flatten = fs4.map (leafVal pfx lookup parse) ∧
      All2 (fun f v => (flatLeaves fuelF f.2 v).length = leafN f.2 ∧
        ((∀ x ∈ flatLeaves fuelF f.2 v, x = Val.nilv) ↔ v = .nilv)) fs vs := by
  have e1 : fs1 = fs := (alias_rec_id tags fuel).1 fs fs1 L.h1 (fun f hf => ⟨hna f hf, hty f hf⟩)
  obtain ⟨w1, hfl, hall, hr⟩ := C11_env_values_alias tags cfg fuelF fuel tag dec enc src new parse pfx lookup
    fs fs1 fs2 fs3 fs4 tfs L hty hsz hel htags hparse
  subst e1
  refine ⟨rfl, w1, ?_, hfl, hall⟩
  rw [hr]
  have hc : fs1.map (aliasCount tags) = List.replicate fs1.length 1 := by
    rw [List.eq_replicate_iff]
    refine ⟨by simp, ?_⟩
    intro b hb
    obtain ⟨f, hf, rfl⟩ := List.mem_map.1 hb
    simp [aliasCount, hna f hf]
  rw [hc, splitCounts_ones fs1.length w1 (All2.length hall), List.zip_map_right, mapM'_map]
  have := mapM'_ok_of_forall (fun (x : FT × Val) => aliasPick (Prod.map id (fun v => [v]) x).1.1
    (Prod.map id (fun v => [v]) x).1.2 (Prod.map id (fun v => [v]) x).2) (·.2) (fs1.zip w1) (fun p _ => rfl)
  rw [this, map_snd_zip_eq fs1 w1 (All2.length hall)]

/-! ### Non-vacuity: a concrete nested type, concrete environments, concrete results -/
namespace Ex
def tInt : Ty := .ptr (.basic (.int .int) false)
def tStr : Ty := .ptr (.basic .str false)
/-- `struct { Srv *struct { Port *int; Name *string }; Dbg *string }` (pointerified) -/
def inner : Fields := .cons "Port" [] false tInt (.cons "Name" [] false tStr .nil)
def fs : List FT := [(⟨"Srv", [], false⟩, .ptr (.struct inner)), (⟨"Dbg", [], false⟩, tStr)]
/-- the same with an env alias on the top-level field `Dbg` -/
def fsA : List FT :=
  [(⟨"Srv", [], false⟩, .ptr (.struct inner)), (⟨"Dbg", [("dialsenvalias", "VERBOSE")], false⟩, tStr)]
/-- parse.String (model) without scanner tokens: scalars only -/
def parse : String → Ty → Outcome Val := parseString (fun _ => ([], []))
def getOk (o : Outcome (List FT)) : List FT := match o with | .ok l => l | _ => []
def tags : List String := ["dials", "dialsenv"]
def cfg : FlattenCfg := ⟨"dials", .upperCamel, .casePreservingSnake⟩
abbrev m1 := aliasMangler tags
abbrev m2 := flattenMangler cfg 20
abbrev m3 := tagReformatMangler "dials" CaseConv.decodeGoTags .upperSnake
abbrev m4 := tagCopyMangler "dials" "dialsenv"
abbrev m5 := stringCastMangler parse
/-- the shipped env chain (`C10_env_chain_is_shipped`) -/
def chain : List Mangler :=
  envChain tags cfg 20 "dials" CaseConv.decodeGoTags .upperSnake "dials" "dialsenv" parse
def fs1 := getOk (mangleLayer 10 m1 fs)
def fs2 := getOk (mangleLayer 10 m2 fs1)
def fs3 := getOk (mangleLayer 10 m3 fs2)
def fs4 := getOk (mangleLayer 10 m4 fs3)
def tfs := getOk (mangleLayer 10 m5 fs4)
theorem layers : EnvLayers tags cfg 20 10 "dials" CaseConv.decodeGoTags .upperSnake "dials" "dialsenv" parse
    fs fs1 fs2 fs3 fs4 tfs := ⟨rfl, rfl, rfl, rfl, rfl⟩
/-- one variable present, the others absent -/
def env1 : String → Option String := fun n => if n = "APP_SRV_PORT" then some "8080" else none
/-- an unparsable value -/
def env2 : String → Option String := fun n => if n = "APP_SRV_PORT" then some "80x" else none

/-- the variables consulted -/
example : envNames 10 chain "APP" fs = .ok ["APP_SRV_PORT", "APP_SRV_NAME", "APP_DBG"] := by decide

/-- the flatten stage of the example: every field is populated from its own group of leaf values
(by the generic layer lemma; `populate` is defined by well-founded recursion and does not reduce by `rfl`) -/
theorem flattenStage (gs : List FT) (gs2 : List FT) (outss : List (List FT)) (vals : List Val)
    (hm : mangleLayer 10 m2 gs = .ok gs2)
    (ho : mapM' (fun (f : FT) => m2.mangle f.1 f.2) gs = .ok outss) (hl : vals.length = outss.flatten.length) :
    unmangleLayer 10 m2 gs vals =
      mapM' (fun (p : FT × List Val) => popUn 20 p.1.1 p.1.2 p.2)
        (gs.zip (splitCounts (outss.map List.length) vals)) :=
  unmangleLayer_vals (flatten_unmangle_eq cfg 20) 9 gs gs2 outss vals hm ho
    (All2.of_mem hl (fun _ w _ _ ho' => recurseVal_noRec w (Or.inl rfl) ho'))

def outss : List (List FT) := [fs2.take 2, fs2.drop 2]

/-- CONCRETE RESULT, success: `APP_SRV_PORT=8080` and nothing else ⇒ `Srv = &{Port: &8080, Name: nil}`,
`Dbg = nil` -/
theorem ex_ok : envValue 10 chain "APP" fs env1 = .ok [.ptr (.struct [.ptr (.i 8080), .nilv]), .nilv] := by
  have hfill : envValue 10 chain "APP" fs env1 = reverse 10 chain fs [.ptr (.s "8080"), .nilv, .nilv] := rfl
  rw [hfill]
  show reverse 10 [m1, m2, m3, m4, m5] fs _ = _
  rw [reverse_cons_eq _ layers.h1, reverse_cons_eq _ layers.h2, reverse_cons_eq _ layers.h3,
    reverse_cons_eq _ layers.h4, reverse_cons_eq _ layers.h5, reverse_nil]
  have u5 : unmangleLayer 10 m5 fs4 [.ptr (.s "8080"), .nilv, .nilv] = .ok [.ptr (.i 8080), .nilv, .nilv] := rfl
  have u4 : unmangleLayer 10 m4 fs3 [.ptr (.i 8080), .nilv, .nilv] = .ok [.ptr (.i 8080), .nilv, .nilv] := rfl
  have u3 : unmangleLayer 10 m3 fs2 [.ptr (.i 8080), .nilv, .nilv] = .ok [.ptr (.i 8080), .nilv, .nilv] := rfl
  have u2 : unmangleLayer 10 m2 fs1 [.ptr (.i 8080), .nilv, .nilv] =
      .ok [.ptr (.struct [.ptr (.i 8080), .nilv]), .nilv] := by
    rw [flattenStage fs1 fs2 outss _ rfl rfl rfl]
    show mapM' (fun (p : FT × List Val) => popUn 20 p.1.1 p.1.2 p.2)
      [((⟨"Srv", [], false⟩, Ty.ptr (.struct inner)), [Val.ptr (.i 8080), Val.nilv]),
        ((⟨"Dbg", [], false⟩, tStr), [Val.nilv])] = _
    simp [mapM', popUn, populate, populate.fields, stripPtrs, ptrDepth, Fields.toList, Val.isNil, wrapPtrs,
      inner, tInt, tStr]
  have u1 : unmangleLayer 10 m1 fs [.ptr (.struct [.ptr (.i 8080), .nilv]), .nilv] =
      .ok [.ptr (.struct [.ptr (.i 8080), .nilv]), .nilv] := rfl
  simp only [u5, u4, u3, u2, u1]

/-- CONCRETE RESULT, error: `APP_SRV_PORT=80x` is an error (strconv's syntax error), not a zero value -/
theorem ex_err : envValue 10 chain "APP" fs env2 = .err "number" := by
  have hfill : envValue 10 chain "APP" fs env2 = reverse 10 chain fs [.ptr (.s "80x"), .nilv, .nilv] := rfl
  rw [hfill]
  show reverse 10 [m1, m2, m3, m4, m5] fs _ = _
  rw [reverse_cons_eq _ layers.h1, reverse_cons_eq _ layers.h2, reverse_cons_eq _ layers.h3,
    reverse_cons_eq _ layers.h4, reverse_cons_eq _ layers.h5, reverse_nil]
  have u5 : unmangleLayer 10 m5 fs4 [.ptr (.s "80x"), .nilv, .nilv] = .err "number" := rfl
  simp only [u5]

/-! the hypotheses of `C11_env_values` / `C11_env_error` hold for this type -/
theorem hna : ∀ f ∈ fs, isAliased tags f.1 = false := by decide
theorem hty : ∀ f ∈ fs, EnvTy tags f.2 := by
  intro f hf
  simp only [fs, List.mem_cons, List.not_mem_nil, or_false] at hf
  rcases hf with rfl | rfl <;> exact ⟨by decide, by decide⟩
theorem hsz : ∀ f ∈ fs, tySize f.2 < 20 := by decide
theorem hel : ∀ f ∈ fs2, hasElemTy f.2 = true := by decide
theorem htags : ∀ f ∈ tfs, ∃ name, tagGet f.1.tags "dialsenv" = some name ∧ name ≠ "" := by
  have h : ∀ f ∈ tfs, (match tagGet f.1.tags "dialsenv" with | some n => n != "" | none => false) = true := by
    decide
  intro f hf
  have := h f hf
  split at this
  · rename_i n hn
    exact ⟨n, hn, by simpa using this⟩
  · cases this

/-- the leaves: variable looked up, leaf type -/
theorem leaves1 : fs4.map (fun f => (env1 (envKey "APP" f), f.2)) =
    [(some "8080", tInt), (none, tStr), (none, tStr)] := rfl
theorem leaves2 : fs4.map (fun f => (env2 (envKey "APP" f), f.2)) =
    [(some "80x", tInt), (none, tStr), (none, tStr)] := rfl

theorem hparse1 : ∀ f ∈ fs4, ∀ txt, env1 (envKey "APP" f) = some txt → ∃ u, parse txt (scCastTo f.2) = .ok u := by
  intro f hf txt hl
  have hm : (env1 (envKey "APP" f), f.2) ∈ fs4.map (fun f => (env1 (envKey "APP" f), f.2)) :=
    List.mem_map_of_mem (f := fun f => (env1 (envKey "APP" f), f.2)) hf
  rw [leaves1, hl] at hm
  simp only [List.mem_cons, Prod.mk.injEq, List.not_mem_nil, or_false] at hm
  rcases hm with ⟨h1, h2⟩ | ⟨h1, _⟩ | ⟨h1, _⟩
  · injection h1 with h1
    subst h1
    rw [h2]
    exact ⟨.ptr (.i 8080), rfl⟩
  · cases h1
  · cases h1

/-- `C11_env_values` applies: all its hypotheses hold here (and its conclusion agrees with `ex_ok`) -/
example : ∃ vs, envValue 10 chain "APP" fs env1 = .ok vs ∧
    ((fs.zip vs).map fun p => flatLeaves 20 p.1.2 p.2).flatten = fs4.map (leafVal "APP" env1 parse) ∧
    fs4.map (leafVal "APP" env1 parse) = [.ptr (.i 8080), .nilv, .nilv] := by
  obtain ⟨_, vs, h1, h2, _⟩ := C11_env_values tags cfg 20 10 "dials" CaseConv.decodeGoTags .upperSnake "dials" "dialsenv"
    parse "APP" env1 fs fs1 fs2 fs3 fs4 tfs layers hna hty hsz hel htags hparse1
  exact ⟨vs, h1, h2, rfl⟩

/-- `C11_env_error` applies to the unparsable value -/
example : ∃ c, envValue 10 chain "APP" fs env2 = .err c := by
  have hbad : ∃ f ∈ fs4, ∃ txt c, env2 (envKey "APP" f) = some txt ∧ parse txt (scCastTo f.2) = .err c :=
    ⟨fs4[0], List.getElem_mem _, "80x", "number", rfl, rfl⟩
  refine (C11_env_error tags cfg 20 10 "dials" CaseConv.decodeGoTags .upperSnake "dials" "dialsenv"
    parse "APP" env2 fs fs1 fs2 fs3 fs4 tfs layers hty hsz hel htags hbad).2 ?_
  intro f hf txt c hl hp
  have hm : (env2 (envKey "APP" f), f.2) ∈ fs4.map (fun f => (env2 (envKey "APP" f), f.2)) :=
    List.mem_map_of_mem (f := fun f => (env2 (envKey "APP" f), f.2)) hf
  rw [leaves2, hl] at hm
  simp only [List.mem_cons, Prod.mk.injEq, List.not_mem_nil, or_false] at hm
  rcases hm with ⟨h1, h2⟩ | ⟨h1, _⟩ | ⟨h1, _⟩
  · injection h1 with h1
    subst h1
    rw [h2] at hp
    cases hp
  · cases h1
  · cases h1

/-! #### a top-level alias: `Dbg *string` with `dialsenvalias:"VERBOSE"` -/
def fsA1 := getOk (mangleLayer 10 m1 fsA)
def fsA2 := getOk (mangleLayer 10 m2 fsA1)
def fsA3 := getOk (mangleLayer 10 m3 fsA2)
def fsA4 := getOk (mangleLayer 10 m4 fsA3)
def tfsA := getOk (mangleLayer 10 m5 fsA4)
theorem layersA : EnvLayers tags cfg 20 10 "dials" CaseConv.decodeGoTags .upperSnake "dials" "dialsenv" parse
    fsA fsA1 fsA2 fsA3 fsA4 tfsA := ⟨rfl, rfl, rfl, rfl, rfl⟩
def outssA : List (List FT) :=
  match mapM' (fun (f : FT) => m2.mangle f.1 f.2) fsA1 with | .ok l => l | _ => []

/-- the alias copy answers to the alias name only -/
example : envNames 10 chain "APP" fsA = .ok ["APP_SRV_PORT", "APP_SRV_NAME", "APP_DBG", "APP_VERBOSE"] := by decide

/-- only the alias variable is present -/
def envA1 : String → Option String := fun n => if n = "APP_VERBOSE" then some "yes" else none
/-- primary and alias variable are both present -/
def envA2 : String → Option String := fun n => if n = "APP_VERBOSE" ∨ n = "APP_DBG" then some "yes" else none

theorem popStage (l : List (FT × List Val)) :
    mapM' (fun (p : FT × List Val) => popUn 20 p.1.1 p.1.2 p.2) l =
      mapM' (fun (q : Ty × List Val) => popUn 20 ⟨"", [], false⟩ q.1 q.2) (l.map fun p => (p.1.2, p.2)) := by
  rw [mapM'_map]; rfl

/-- the flatten stage on the alias-translated fields `Srv`, `Dbg`, `Dbg_alias…` -/
theorem flattenStageA (c d : Val) :
    unmangleLayer 10 m2 fsA1 [.nilv, .nilv, c, d] = .ok [.nilv, c, d] := by
  rw [flattenStage fsA1 fsA2 outssA _ rfl rfl rfl, popStage]
  show mapM' (fun (q : Ty × List Val) => popUn 20 ⟨"", [], false⟩ q.1 q.2)
    [(Ty.ptr (.struct inner), [Val.nilv, Val.nilv]), (tStr, [c]), (tStr, [d])] = _
  simp [mapM', popUn, populate, populate.fields, stripPtrs, Fields.toList, Val.isNil, inner, tInt, tStr]

/-- CONCRETE RESULT: the alias variable alone sets the field -/
theorem exA_alias_only : envValue 10 chain "APP" fsA envA1 = .ok [.nilv, .ptr (.s "yes")] := by
  have hfill : envValue 10 chain "APP" fsA envA1 = reverse 10 chain fsA [.nilv, .nilv, .nilv, .ptr (.s "yes")] := rfl
  rw [hfill]
  show reverse 10 [m1, m2, m3, m4, m5] fsA _ = _
  rw [reverse_cons_eq _ layersA.h1, reverse_cons_eq _ layersA.h2, reverse_cons_eq _ layersA.h3,
    reverse_cons_eq _ layersA.h4, reverse_cons_eq _ layersA.h5, reverse_nil]
  have u5 : unmangleLayer 10 m5 fsA4 [.nilv, .nilv, .nilv, .ptr (.s "yes")] =
      .ok [.nilv, .nilv, .nilv, .ptr (.s "yes")] := rfl
  have u4 : unmangleLayer 10 m4 fsA3 [.nilv, .nilv, .nilv, .ptr (.s "yes")] =
      .ok [.nilv, .nilv, .nilv, .ptr (.s "yes")] := rfl
  have u3 : unmangleLayer 10 m3 fsA2 [.nilv, .nilv, .nilv, .ptr (.s "yes")] =
      .ok [.nilv, .nilv, .nilv, .ptr (.s "yes")] := rfl
  have u2 := flattenStageA .nilv (.ptr (.s "yes"))
  have u1 : unmangleLayer 10 m1 fsA [.nilv, .nilv, .ptr (.s "yes")] = .ok [.nilv, .ptr (.s "yes")] := rfl
  simp only [u5, u4, u3, u2, u1]

/-- CONCRETE RESULT: primary and alias variable both present is an error -/
theorem exA_both : envValue 10 chain "APP" fsA envA2 = .err "both alias and original set for field Dbg" := by
  have hfill : envValue 10 chain "APP" fsA envA2 =
      reverse 10 chain fsA [.nilv, .nilv, .ptr (.s "yes"), .ptr (.s "yes")] := rfl
  rw [hfill]
  show reverse 10 [m1, m2, m3, m4, m5] fsA _ = _
  rw [reverse_cons_eq _ layersA.h1, reverse_cons_eq _ layersA.h2, reverse_cons_eq _ layersA.h3,
    reverse_cons_eq _ layersA.h4, reverse_cons_eq _ layersA.h5, reverse_nil]
  have u5 : unmangleLayer 10 m5 fsA4 [.nilv, .nilv, .ptr (.s "yes"), .ptr (.s "yes")] =
      .ok [.nilv, .nilv, .ptr (.s "yes"), .ptr (.s "yes")] := rfl
  have u4 : unmangleLayer 10 m4 fsA3 [.nilv, .nilv, .ptr (.s "yes"), .ptr (.s "yes")] =
      .ok [.nilv, .nilv, .ptr (.s "yes"), .ptr (.s "yes")] := rfl
  have u3 : unmangleLayer 10 m3 fsA2 [.nilv, .nilv, .ptr (.s "yes"), .ptr (.s "yes")] =
      .ok [.nilv, .nilv, .ptr (.s "yes"), .ptr (.s "yes")] := rfl
  have u2 := flattenStageA (.ptr (.s "yes")) (.ptr (.s "yes"))
  have u1 : unmangleLayer 10 m1 fsA [.nilv, .ptr (.s "yes"), .ptr (.s "yes")] =
      .err "both alias and original set for field Dbg" := rfl
  simp only [u5, u4, u3, u2, u1]

/-- the type hypotheses of `C11_env_values_alias` / `C11_env_values_general` hold for the aliased type -/
theorem htyA : ∀ f ∈ fsA, EnvTy tags f.2 := by
  intro f hf
  simp only [fsA, List.mem_cons, List.not_mem_nil, or_false] at hf
  rcases hf with rfl | rfl <;> exact ⟨by decide, by decide⟩
theorem hszA : ∀ f ∈ fsA, tySize f.2 < 20 := by decide
theorem helA : ∀ f ∈ fsA2, hasElemTy f.2 = true := by decide
theorem htagsA : ∀ f ∈ tfsA, ∃ name, tagGet f.1.tags "dialsenv" = some name ∧ name ≠ "" := by
  have h : ∀ f ∈ tfsA, (match tagGet f.1.tags "dialsenv" with | some n => n != "" | none => false) = true := by
    decide
  intro f hf
  have := h f hf
  split at this
  · rename_i n hn
    exact ⟨n, hn, by simpa using this⟩
  · cases this

/-- `C11_env_values_general` applies to the aliased type (any environment): a result is never `.ok`
unless every present variable parses -/
example (lookup : String → Option String) (c : String)
    (h : mapM' (envLeaf "APP" lookup parse) fsA4 = .err c) : envValue 10 chain "APP" fsA lookup = .err c :=
  (C11_env_values_general tags cfg 20 10 "dials" CaseConv.decodeGoTags .upperSnake "dials" "dialsenv"
    parse "APP" lookup fsA fsA1 fsA2 fsA3 fsA4 tfsA layersA htyA hszA helA htagsA).1 c h
end Ex
end Dials.C11
