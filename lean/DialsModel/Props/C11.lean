/-
C11 — Environment source: documented names, exact values, nothing else touched.

Property theorems only (helper lemmas live in Lemmas/EnvAlias.lean).
-/
import DialsModel.Model.TfSpec
import DialsModel.Lemmas.CaseConv
import DialsModel.Lemmas.GoIdent
import DialsModel.Lemmas.EnvAlias
import DialsModel.Props.C19

namespace Dials.C11
open Dials Dials.Tf

/-- The variable consulted for a translated field is its `dialsenv` tag, after the optional prefix
and an underscore. -/
theorem C11_prefix (fuel : Nat) (chain : List Mangler) (pfx : String) (fs tfs : List FT)
    (ht : translate fuel chain fs = .ok tfs) :
    envNames fuel chain pfx fs = .ok (tfs.map fun f =>
      if pfx == "" then (tagGet f.1.tags "dialsenv").getD "" else pfx ++ "_" ++ (tagGet f.1.tags "dialsenv").getD "") := by
  unfold envNames
  rw [ht]

/-- Nothing else in the environment matters: two environments that agree on the consulted names give
the same result (value or error). -/
theorem C11_nothing_else (fuel : Nat) (chain : List Mangler) (pfx : String) (fs : List FT)
    (env1 env2 : String → Option String) (names : List String)
    (hn : envNames fuel chain pfx fs = .ok names) (hagree : ∀ n ∈ names, env1 n = env2 n) :
    envValue fuel chain pfx fs env1 = envValue fuel chain pfx fs env2 := by
  rw [envNames_eq] at hn
  rw [envValue_eq, envValue_eq]
  cases htr : translate fuel chain fs with
  | err c => rfl
  | panic c => rfl
  | ok tfs =>
    rw [htr] at hn
    injection hn with hn
    subst hn
    simp only
    rw [mapM'_congr (envField pfx env1) (envField pfx env2) tfs
      (fun f hf => envField_congr pfx env1 env2 f (hagree _ (List.mem_map_of_mem hf)))]

/-- With none of the consulted variables present the translated value handed to ReverseTranslate is
entirely unset. -/
theorem C11_absent (fuel : Nat) (chain : List Mangler) (pfx : String) (fs tfs : List FT)
    (ht : translate fuel chain fs = .ok tfs) (env : String → Option String)
    (hnone : ∀ f ∈ tfs, ∀ name, tagGet f.1.tags "dialsenv" = some name → name ≠ "" →
        env (if pfx == "" then name else pfx ++ "_" ++ name) = none)
    (htags : ∀ f ∈ tfs, ∃ name, tagGet f.1.tags "dialsenv" = some name ∧ name ≠ "") :
    envValue fuel chain pfx fs env = reverse fuel chain fs (nils tfs.length) := by
  rw [envValue_eq, ht]
  simp only
  rw [mapM'_const (envField pfx env) Val.nilv tfs (fun f hf => by
    obtain ⟨name, hg, hne⟩ := htags f hf
    exact envField_absent pfx env f name hg hne (hnone f hf name hg hne))]
  rfl

/-
ORIGINAL STATEMENT (FALSE as written; kept verbatim):

theorem C11_name_join (segs : List (List Char)) (hne : ∀ s ∈ segs, s ≠ [])
    (hsep : ∀ s ∈ segs, ∀ c ∈ s, c ≠ '_' ∧ c ≠ '-') :
    CaseConv.decodeGoTags (CaseConv.joinWith '_' segs) =
      some (segs.flatMap fun s => (CaseConv.decodeGoTags s).getD [])

Counterexamples (machine-checked: `C11_name_join_counterexamples`, `C11_name_join_original_false`):
`goLoop` looks ahead two characters (`firstAfterInitialism`) and treats the end of the string
specially, so a NON-FINAL segment is decoded as if it were followed by a separator, which is not
always how it is decoded on its own:

  segs = ["URLs", "abc"]   joined "URLs_abc"  ↦ ["ur", "ls", "abc"]   but  "URLs"  ↦ ["urls"]
  segs = ["HTTPa", "abc"]  joined "HTTPa_abc" ↦ ["htt", "pa", "abc"]  but  "HTTPa" ↦ ["httpa"]
  segs = ["x9Y", "abc"]    joined "x9Y_abc"   ↦ ["x9y", "abc"]        but  "x9Y"   ↦ ["y"]   (the end-of-string
                                                                      branch drops "x9", as the code does)
  segs = ["ID1", "abc"]    joined "ID1_abc"   ↦ ["id", "1", "abc"]    but  "ID1"   ↦ ["id1"]

(the word boundary BETWEEN segments is never lost in any of these; what differs is the decoding of
the segment itself).  What is true:

  * `C11_name_join_general` (no hypothesis at all): every segment but the last is decoded as if
    followed by a separator, the last one on its own;
  * `C11_name_join_partial`: the original equation for separator-stable segments
    (`CaseConv.SepStable s`: `decodeGoTags (s ++ "_") = decodeGoTags s`, decidable);
  * separator-stable are (`C11_sep_stable_classes`): lower-case words `[a-z][a-z0-9]*` — more generally
    segments without upper-case characters and separators containing a lower-case letter —, non-empty
    all-upper-case segments, and capitalised segments `[A-Z][a-z]` followed by non-upper-case
    characters;
  * `C11_name_join_words`: for lower-case words (what `DecodeGoCamelCase` of field names produces)
    the join decodes to exactly the words.
-/

/-- Decoding the case-preserving-snake join of ANY segments: every segment but the last is decoded
as if followed by a separator, the last one on its own; in particular the boundary between two path
elements is never lost.  (No hypotheses: empty segments and segments containing separators
included.) -/
theorem C11_name_join_general (segs : List (List Char)) (last : List Char) :
    CaseConv.decodeGoTags (CaseConv.joinWith '_' (segs ++ [last])) =
      some ((segs.flatMap fun s => (CaseConv.decodeGoTags (s ++ ['_'])).getD []) ++
        (CaseConv.decodeGoTags last).getD []) := by
  simp only [CaseConv.decodeGoTags_eq, Option.getD_some]
  unfold CaseConv.goTagWords
  rw [CaseConv.goLoop_join]
  simp [CaseConv.goTagWords]

/-- Word boundaries survive the join: the original `C11_name_join` equation under the hypothesis
`hstable` that every segment is separator-stable (`CaseConv.SepStable`: a following separator does
not change how the segment is decoded).  The original hypotheses `hne`, `hsep` are not needed.  The
original statement without `hstable` is false (see the comment above). -/
theorem C11_name_join_partial (segs : List (List Char)) (hstable : ∀ s ∈ segs, CaseConv.SepStable s) :
    CaseConv.decodeGoTags (CaseConv.joinWith '_' segs) =
      some (segs.flatMap fun s => (CaseConv.decodeGoTags s).getD []) := by
  rcases List.eq_nil_or_concat segs with rfl | ⟨init, last, rfl⟩
  · rfl
  · rw [List.concat_eq_append] at hstable ⊢
    rw [C11_name_join_general, List.flatMap_append]
    have : (init.flatMap fun s => (CaseConv.decodeGoTags (s ++ ['_'])).getD []) =
        init.flatMap fun s => (CaseConv.decodeGoTags s).getD [] := by
      apply flatMap_congr_mem
      intro s hs
      have := hstable s (List.mem_append_left _ hs)
      unfold CaseConv.SepStable at this
      rw [this]
    rw [this]
    simp

/-- syntactic classes of separator-stable segments -/
theorem C11_sep_stable_classes (s : List Char) :
    (CaseConv.isWord s = true → CaseConv.SepStable s) ∧
    ((∀ c ∈ s, isUpperA c = false ∧ c ≠ '_' ∧ c ≠ '-') → (∃ c ∈ s, isLowerA c = true) → CaseConv.SepStable s) ∧
    (s ≠ [] → s.all isUpperA = true → CaseConv.SepStable s) ∧
    (∀ c d tl, s = c :: d :: tl → isUpperA c = true → isLowerA d = true →
      (∀ x ∈ tl, isUpperA x = false ∧ x ≠ '_' ∧ x ≠ '-') → CaseConv.SepStable s) := by
  refine ⟨CaseConv.sepStable_word, ?_, CaseConv.sepStable_upper s, ?_⟩
  · intro h hl
    exact CaseConv.sepStable_plain s (fun c hc => ⟨(h c hc).1, by simp [(h c hc).2.1, (h c hc).2.2]⟩) hl
  · rintro c d tl rfl hc hd htl
    exact (CaseConv.sepStable_cap c d tl hc hd
      (fun x hx => ⟨(htl x hx).1, by simp [(htl x hx).2.1, (htl x hx).2.2]⟩)).1

/-- The env chain's main case: joining lower-case words `[a-z][a-z0-9]*` (what `DecodeGoCamelCase`
produces from field names) and decoding the join gives back exactly the words. -/
theorem C11_name_join_words (ws : List (List Char)) (h : ∀ w ∈ ws, CaseConv.isWord w = true) :
    CaseConv.decodeGoTags (CaseConv.joinWith '_' ws) = some ws := by
  rw [C11_name_join_partial ws (fun w hw => CaseConv.sepStable_word (h w hw))]
  congr 1
  induction ws with
  | nil => rfl
  | cons w ws ih =>
    rw [List.flatMap_cons, ih (fun v hv => h v (List.mem_cons_of_mem _ hv)), CaseConv.decodeGoTags_eq,
      CaseConv.goTagWords_word (h w List.mem_cons_self)]
    rfl

/-- the counterexamples to the original `C11_name_join` (hypotheses `hne`, `hsep` hold for them) -/
theorem C11_name_join_counterexamples :
    CaseConv.decodeGoTags "URLs_abc".toList = some ["ur".toList, "ls".toList, "abc".toList] ∧
    CaseConv.decodeGoTags "URLs".toList = some ["urls".toList] ∧
    CaseConv.decodeGoTags "HTTPa_abc".toList = some ["htt".toList, "pa".toList, "abc".toList] ∧
    CaseConv.decodeGoTags "HTTPa".toList = some ["httpa".toList] ∧
    CaseConv.decodeGoTags "x9Y_abc".toList = some ["x9y".toList, "abc".toList] ∧
    CaseConv.decodeGoTags "x9Y".toList = some ["y".toList] ∧
    CaseConv.decodeGoTags "ID1_abc".toList = some ["id".toList, "1".toList, "abc".toList] ∧
    CaseConv.decodeGoTags "ID1".toList = some ["id1".toList] ∧
    CaseConv.decodeGoTags "abc".toList = some ["abc".toList] := by
  decide

/-- the original `C11_name_join` is refuted by `["URLs", "abc"]` -/
theorem C11_name_join_original_false :
    ¬ (∀ (segs : List (List Char)) (_ : ∀ s ∈ segs, s ≠ [])
        (_ : ∀ s ∈ segs, ∀ c ∈ s, c ≠ '_' ∧ c ≠ '-'),
        CaseConv.decodeGoTags (CaseConv.joinWith '_' segs) =
          some (segs.flatMap fun s => (CaseConv.decodeGoTags s).getD [])) := by
  intro H
  have := H ["URLs".toList, "abc".toList] (by decide) (by decide)
  revert this
  decide

/-- The UPPER_SNAKE encoding of non-empty words contains exactly one underscore between consecutive
words, and decodes back to them (so distinct word lists give distinct variable names). -/
theorem C11_upper_snake_injective (ws1 ws2 : CaseConv.Words)
    (h1 : ws1 ≠ [] ∧ ∀ w ∈ ws1, CaseConv.isWord w = true) (h2 : ws2 ≠ [] ∧ ∀ w ∈ ws2, CaseConv.isWord w = true)
    (heq : CaseConv.encodeUpperSnake ws1 = CaseConv.encodeUpperSnake ws2) : ws1 = ws2 := by
  have r1 := C19.C19_roundtrip CaseConv.Scheme.upperSnake ws1 h1.1 h1.2
  have r2 := C19.C19_roundtrip CaseConv.Scheme.upperSnake ws2 h2.1 h2.2
  simp only [CaseConv.Scheme.encode, CaseConv.Scheme.decode] at r1 r2
  rw [heq, r2] at r1
  injection r1 with r1
  exact r1.symm

/-- regenerated chain (F12a) of the env source -/
theorem C11_chain_fact : Facts.chainEnv =
    [["alias", "dials", "dialsenv"], ["flatten", "dials", "EncodeUpperCamelCase", "EncodeCasePreservingSnakeCase"],
     ["reformat", "dials", "DecodeGoTags", "EncodeUpperSnakeCase"], ["copy", "dials", "dialsenv"], ["stringcast"]] := by
  rfl

end Dials.C11
