/-
C01 — Layer precedence: the last source that sets a leaf wins, else the default.
-/
import DialsModel.Model.OverlaySpec
import DialsModel.Lemmas.Overlay

namespace Dials.C01
open Dials Dials.Overlay

/-- For every config struct type in the model's universe (scalars/arrays/strings/durations,
text-unmarshalable types, slices, maps, user-declared pointers, nested / pointer structs, skipped fields
in any position), every well-typed default and every list of well-typed layers, `compose` succeeds
and every configuration leaf holds the value from the last layer that set it, or else the default. -/
theorem C01_precedence (fs : Fields) (d : Val) (hd : d.HasTy (.struct fs) = true)
    (ls : List Val) (hls : ∀ l ∈ ls, IsLayer fs l = true) :
    ∃ r, compose d ls = .ok r ∧ r.HasTy (.struct fs) = true ∧
      ∀ p, LeafPath (.struct fs) p = true →
        readB (.struct fs) r p =
          (match ls.reverse.findSome? (fun l => readO (.struct fs) l p) with
           | some x => some x
           | none => readB (.struct fs) d p) := by
  obtain ⟨r, h1, h2, h3, _, _⟩ := compose_spec fs ls d hd hls
  exact ⟨r, h1, h2, h3⟩

/-- Skipped fields (unexported, `dials:"-"`, channels, functions) keep their default. -/
theorem C01_skipped_fixed (fs : Fields) (d : Val) (hd : d.HasTy (.struct fs) = true)
    (ls : List Val) (hls : ∀ l ∈ ls, IsLayer fs l = true) (r : Val) (hr : compose d ls = .ok r)
    (p : List Nat) (hp : SkippedPath (.struct fs) p = true) :
    readB (.struct fs) r p = readB (.struct fs) d p := by
  obtain ⟨r', h1, _, _, h4, _⟩ := compose_spec fs ls d hd hls
  rw [h1] at hr
  cases hr
  exact h4 p hp

/-- A pointer-to-struct is non-nil in the result exactly when it is non-nil in the default or some
layer has it present. -/
theorem C01_struct_ptr_nil_iff (fs : Fields) (d : Val) (hd : d.HasTy (.struct fs) = true)
    (ls : List Val) (hls : ∀ l ∈ ls, IsLayer fs l = true) (r : Val) (hr : compose d ls = .ok r)
    (p : List Nat) (hp : StructPtrPath (.struct fs) p = true) :
    presentB (.struct fs) r p = (presentB (.struct fs) d p || ls.any (fun l => presentO (.struct fs) l p)) := by
  obtain ⟨r', h1, _, _, _, h5⟩ := compose_spec fs ls d hd hls
  rw [h1] at hr
  cases hr
  exact h5 p hp

/-- A source that sets nothing changes nothing. -/
theorem C01_unset_noop (fs : Fields) (b : Val) (hb : b.HasTy (.struct fs) = true) :
    overlayLayer b (zero (ptrify (.struct fs))) = .ok b := by
  exact overlayLayer_zero_noop fs b hb

/-- The two omission rules (Pointerify's and overlayStruct's) stay aligned: the pointerified struct
has exactly one field per kept base field. -/
theorem C01_alignment (fs : Fields) (i : Nat) (k : FieldKind) (t : Ty) (h : fs.get? i = some (k, t))
    (hk : skippedField k t = false) :
    ∃ t', ptrifyField t = some t' ∧ (ptrifyFields fs).get? (ovIndex fs i) = some (k, t') := by
  exact alignment fs i k t h hk

/-- regenerated facts F9/F10 the model is parameterised by -/
theorem C01_facts : Facts.omitUnexported = true ∧ Facts.omitDash = true ∧ Facts.ptrifyDropsChanFunc = true ∧
    Facts.overlayUsesOmitField = true ∧ Facts.overlaySkipsChanFunc = true ∧ Facts.overlayReplacesNonStructPtr = true := by
  decide

end Dials.C01
