/-
C15 — Text parsing inverts formatting and never wraps out-of-range numbers.

Integer part: executable models of strconv.ParseInt/ParseUint (base 0) and FormatInt, parseNumber,
the integral-slice parsers.  Collection part: token-level models of splitStringsSlice / splitMap
(`C15_*_tokens`), and - for ASCII strings - a character-level model of strconv.Quote, of text/scanner as the
two split functions configure it and of strconv.Unquote (Model/Scan.lean, tied to the real token stream by the
correspondence), so that the `C15_*_text` theorems go from the printed TEXT to the value.  For non-ASCII
strings the token stream of the printed text remains an assumption; floats, complex numbers, durations and
bools rest on strconv / time (sampled by the correspondence).
-/
import DialsModel.Model.ParseInt
import DialsModel.Model.Split
import DialsModel.Lemmas.Parse
import DialsModel.Lemmas.Scan
import DialsModel.Lemmas.Duration
import DialsModel.Lemmas.ScanWords
import DialsModel.Lemmas.ScanTable
import DialsModel.Lemmas.QuoteItems

namespace Dials.C15
open Dials Dials.Parse

/-- Parsing the canonical text of any in-range integer returns exactly that integer, for every
integer kind (all widths, signed and unsigned). -/
theorem C15_int_roundtrip (k : IntKind) (hk : k ≠ .uintptr) (v : Int) (hv : k.inRange v = true) :
    parseNumber k (formatInt v) = .ok v := by
  have _ := hk  -- the statement excludes uintptr; the proof does not need it
  cases hs : k.signed with
  | true =>
    rw [parseNumber_signed_some hs (parseInt_formatInt _ v (inRange_signed_64 hs hv)), hv]
    rfl
  | false =>
    have ⟨h0, h64⟩ := inRange_unsigned_64 hs hv
    have hn : Int.ofNat v.natAbs = v := by
      show (v.natAbs : Int) = v
      omega
    rw [parseNumber_unsigned_some hs (parseUint_formatInt _ v h0 h64), hn, hv]
    rfl

/-- A result is never wrapped, truncated or saturated: whenever parseNumber succeeds the result is the
mathematical value of the literal and lies in the target type's range. -/
theorem C15_int_sound (k : IntKind) (s : Str) (v : Int) (h : parseNumber k s = .ok v) :
    k.inRange v = true ∧ parseIntLit s = some v := by
  cases hs : k.signed with
  | true =>
    cases hp : parseInt Facts.parseNumberBits s with
    | none => rw [parseNumber_signed_none hs hp] at h; cases h
    | some w =>
      rw [parseNumber_signed_some hs hp] at h
      cases hr : k.inRange w with
      | false => rw [hr] at h; cases h
      | true =>
        rw [hr] at h
        cases h
        exact ⟨hr, (parseInt_eq_some hp).1⟩
  | false =>
    cases hp : parseUint Facts.parseNumberBits s with
    | none => rw [parseNumber_unsigned_none hs hp] at h; cases h
    | some n =>
      rw [parseNumber_unsigned_some hs hp] at h
      cases hr : k.inRange (Int.ofNat n) with
      | false => rw [hr] at h; cases h
      | true =>
        rw [hr] at h
        cases h
        exact ⟨hr, parseIntLit_of_parseUintLit (parseUint_eq_some hp).1⟩

/-- A literal whose value is outside the target type's range is rejected with an error. -/
theorem C15_int_range (k : IntKind) (s : Str) (v : Int) (hl : parseIntLit s = some v)
    (hr : k.inRange v = false) : ∃ e, parseNumber k s = .err e := by
  cases hs : k.signed with
  | true =>
    cases hp : parseInt Facts.parseNumberBits s with
    | none => exact ⟨_, parseNumber_signed_none hs hp⟩
    | some w =>
      have := (parseInt_eq_some hp).1
      rw [hl] at this
      cases this
      rw [parseNumber_signed_some hs hp, hr]
      exact ⟨_, rfl⟩
  | false =>
    cases hp : parseUint Facts.parseNumberBits s with
    | none => exact ⟨_, parseNumber_unsigned_none hs hp⟩
    | some n =>
      have := parseIntLit_of_parseUintLit (parseUint_eq_some hp).1
      rw [hl] at this
      cases this
      rw [parseNumber_unsigned_some hs hp, hr]
      exact ⟨_, rfl⟩

/-- … and so is every text that is not an integer literal. -/
theorem C15_int_syntax (k : IntKind) (s : Str) (hl : parseIntLit s = none) : ∃ e, parseNumber k s = .err e := by
  cases hs : k.signed with
  | true =>
    cases hp : parseInt Facts.parseNumberBits s with
    | none => exact ⟨_, parseNumber_signed_none hs hp⟩
    | some w =>
      have := (parseInt_eq_some hp).1
      rw [hl] at this
      cases this
  | false =>
    cases hp : parseUint Facts.parseNumberBits s with
    | none => exact ⟨_, parseNumber_unsigned_none hs hp⟩
    | some n =>
      have := parseIntLit_of_parseUintLit (parseUint_eq_some hp).1
      rw [hl] at this
      cases this

/-- Integer slices: parsing the printed form (decimal elements joined by commas; the empty string for
the empty slice) returns the slice, for every element kind. -/
theorem C15_int_slice_roundtrip (k : IntKind) (vs : List Int) (hv : ∀ v ∈ vs, k.inRange v = true) :
    parseIntSlice k (joinComma (vs.map formatInt)) = .ok vs := by
  cases vs with
  | nil => rfl
  | cons v vs =>
    have hne : joinComma ((v :: vs).map formatInt) ≠ [] := joinComma_ne_nil _ _ (formatInt_ne_nil v)
    rw [parseIntSlice_nonempty k _ hne, splitComma_join _ (by simp)]
    · exact foldr_sliceStep_format k _ hv
    · intro w hw c hc
      rw [List.mem_map] at hw
      obtain ⟨u, _, rfl⟩ := hw
      exact intChar_ne_comma (formatInt_chars u c hc)

/-- Elements may be surrounded by blanks. -/
theorem C15_int_slice_blanks (k : IntKind) (v : Int) (hv : k.inRange v = true) (pre post : Str)
    (hpre : pre.all isSpaceA = true) (hpost : post.all isSpaceA = true) :
    parseIntSlice k (pre ++ formatInt v ++ post) = .ok [v] := by
  have hne : pre ++ formatInt v ++ post ≠ [] := by
    have := formatInt_ne_nil v
    intro h
    have h1 := List.append_eq_nil_iff.1 h
    have h2 := List.append_eq_nil_iff.1 h1.1
    exact this h2.2
  have hsp : ∀ s : Str, s.all isSpaceA = true → ∀ c ∈ s, c ≠ ',' := by
    intro s hs c hc hcomma
    subst hcomma
    have := (List.all_eq_true.1 hs) _ hc
    revert this
    decide
  rw [parseIntSlice_nonempty k _ hne, splitComma_single]
  · simp only [List.foldr_cons, List.foldr_nil]
    exact sliceStep_elem k v hv _ _ (trimSpace_formatInt_pad v pre post hpre hpost)
  · intro c hc
    simp only [List.mem_append] at hc
    rcases hc with (hc | hc) | hc
    · exact hsp pre hpre c hc
    · exact intChar_ne_comma (formatInt_chars v c hc)
    · exact hsp post hpost c hc

/-- The element width is enforced per element: an element outside the element type's range makes the
whole parse fail (never a wrapped element). -/
theorem C15_int_slice_sound (k : IntKind) (s : Str) (vs : List Int) (h : parseIntSlice k s = .ok vs) :
    ∀ v ∈ vs, k.inRange v = true := by
  rw [parseIntSlice_eq] at h
  split at h
  · cases h; simp
  · exact foldr_sliceStep_sound k _ vs h

/-- Go base prefixes and digit separators are accepted with their meaning (examples at the edges of
the ranges, evaluated by the kernel). -/
theorem C15_prefix_examples :
    parseNumber .i8 "0x7f".toList = .ok 127 ∧ parseNumber .i8 "-0x80".toList = .ok (-128) ∧
    (∃ e, parseNumber .i8 "0x80".toList = .err e) ∧ (∃ e, parseNumber .i8 "-129".toList = .err e) ∧
    parseNumber .u16 "0b1111_1111_1111_1111".toList = .ok 65535 ∧ (∃ e, parseNumber .u16 "65536".toList = .err e) ∧
    parseNumber .i64 "-9223372036854775808".toList = .ok (-9223372036854775808) ∧
    (∃ e, parseNumber .i64 "9223372036854775808".toList = .err e) ∧
    parseNumber .u64 "18446744073709551615".toList = .ok 18446744073709551615 ∧
    (∃ e, parseNumber .u64 "18446744073709551616".toList = .err e) ∧
    parseNumber .int "0o17".toList = .ok 15 ∧ parseNumber .int "017".toList = .ok 15 ∧ parseNumber .int "1_000".toList = .ok 1000 ∧
    (∃ e, parseNumber .int "1__0".toList = .err e) ∧ (∃ e, parseNumber .int "_1".toList = .err e) ∧ (∃ e, parseNumber .uint "-1".toList = .err e) := by
  refine ⟨by decide, by decide, ⟨"overflow", by decide⟩, ⟨"overflow", by decide⟩, by decide,
    ⟨"overflow", by decide⟩, by decide, ⟨"number", by decide⟩, by decide, ⟨"number", by decide⟩,
    by decide, by decide, by decide, ⟨"number", by decide⟩, ⟨"number", by decide⟩, ⟨"number", by decide⟩⟩

/-- String slices: the canonical token stream of any list of strings parses back to that list. -/
theorem C15_slice_tokens (zs : List S) : splitSlice (canonSlice zs) true [] = .ok zs := by
  simpa using splitSlice_canon zs []

/-- String sets: the canonical token stream of any duplicate-free list parses back to it; a repeated
element is rejected. -/
theorem C15_set_tokens (zs : List S) (hnd : zs.Nodup) : splitSet (canonSlice zs) true [] = .ok zs := by
  simpa using splitSet_canon zs [] hnd (by simp)

theorem C15_set_rejects_duplicates (x : S) (pre post : List S) :
    ∃ e, splitSet (canonSlice (pre ++ x :: post ++ [x])) true [] = .err e := by
  apply splitSet_canon_reject
  intro ⟨hnd, _⟩
  exact (List.nodup_append.1 hnd).2.2 x (by simp) x (by simp) rfl

/-- String maps: the canonical token stream of any list of pairs with distinct, non-empty keys parses
back to it (values may be empty). -/
theorem C15_map_tokens (kvs : List (S × S)) (hk : (kvs.map (·.1)).Nodup) (hne : ∀ p ∈ kvs, p.1 ≠ []) :
    mapStringString (canonMap kvs) = .ok kvs := by
  have := splitMap_unique kvs [] hk hne (by simp)
  simpa [mapStringString, st0_nil] using this

/-- String-to-string-slice maps: every printed pair (non-empty key) comes back, in order. -/
theorem C15_multimap_tokens (kvs : List (S × S)) (hne : ∀ p ∈ kvs, p.1 ≠ []) :
    mapStringStringSlice (canonMap kvs) = .ok kvs := by
  have := splitMap_multi kvs [] hne
  simpa [mapStringStringSlice, st0_nil] using this

/-- finding D13b: the empty string cannot be a map key in the text format -/
theorem C15_empty_key_counterexample (v : S) :
    mapStringString (canonMap [([], v)]) = .err "unexpected colon" := by
  simp [mapStringString, canonMap, splitMapWith]

/-! ### from the printed text (ASCII strings: every control character, quote, backslash, comma, colon) -/

/-- strconv.Unquote after the scanner inverts strconv.Quote: the quoted form of any ASCII string, followed by
anything, is scanned as ONE string token - the scanner stops at the quote that Quote wrote - whose value is the
string. -/
theorem C15_quote_scans_back (m : Bool) (z : S) (hz : z.all isAscii = true) (rest : List Char) :
    ∃ cs, quote z ++ rest = '"' :: cs ∧ scanTok m '"' cs = .tok (.str (some z)) rest := by
  refine ⟨quoteBody z ++ '"' :: rest, by simp [quote], ?_⟩
  simp [scanTok, identRune_quote, scanStrBody_quoteBody z hz, unqBody_quoteBody z hz]

/-- The printed text of a string slice is scanned as the canonical token stream. -/
theorem C15_slice_text_scans (zs : List S) (hz : ∀ z ∈ zs, z.all isAscii = true) :
    scanText false (printSlice zs) = some (canonSlice zs) := by
  rw [printSlice_render, canonSlice_pieces]
  exact scanText_render false _ (slicePieces_ok false zs hz)

/-- String slices, from the text: what StringSliceFlag.String prints for any list of ASCII strings (any length,
any characters) parses back to exactly that list. -/
theorem C15_slice_text (zs : List S) (hz : ∀ z ∈ zs, z.all isAscii = true) :
    sliceText (printSlice zs) = some (.ok zs) := by
  cases zs with
  | nil => simp [sliceText, printSlice]
  | cons x xs =>
    have hne : (printSlice (x :: xs)).isEmpty = false := by
      cases xs <;> simp [printSlice, quote]
    simp only [sliceText, hne, C15_slice_text_scans _ hz, Option.map_some, stringSlice]
    simpa using C15_slice_tokens (x :: xs)

/-- String sets, from the text (elements in the order printed, no repetition). -/
theorem C15_set_text (zs : List S) (hz : ∀ z ∈ zs, z.all isAscii = true) (hnd : zs.Nodup) :
    setText (printSlice zs) = some (.ok zs) := by
  cases zs with
  | nil => simp [setText, printSlice]
  | cons x xs =>
    have hne : (printSlice (x :: xs)).isEmpty = false := by
      cases xs <;> simp [printSlice, quote]
    simp only [setText, hne, C15_slice_text_scans _ hz, Option.map_some, stringSet]
    simpa using C15_set_tokens (x :: xs) hnd

/-- The printed text of a map is scanned as the canonical token stream (splitMap's scanner: the colon is a token). -/
theorem C15_map_text_scans (kvs : List (S × S)) (hz : ∀ p ∈ kvs, p.1.all isAscii = true ∧ p.2.all isAscii = true) :
    scanText true (printMap kvs) = some (canonMap kvs) := by
  rw [printMap_render, canonMap_pieces]
  exact scanText_render true _ (mapPieces_ok kvs hz)

/-- String maps, from the text: distinct non-empty ASCII keys, any ASCII values. -/
theorem C15_map_text (kvs : List (S × S)) (hz : ∀ p ∈ kvs, p.1.all isAscii = true ∧ p.2.all isAscii = true)
    (hk : (kvs.map (·.1)).Nodup) (hne : ∀ p ∈ kvs, p.1 ≠ []) :
    mapText (printMap kvs) = some (.ok kvs) := by
  simp only [mapText, C15_map_text_scans kvs hz, Option.map_some, C15_map_tokens kvs hk hne]

/-- String-to-string-slice maps, from the text: every printed pair comes back, in order. -/
theorem C15_multimap_text (kvs : List (S × S)) (hz : ∀ p ∈ kvs, p.1.all isAscii = true ∧ p.2.all isAscii = true)
    (hne : ∀ p ∈ kvs, p.1 ≠ []) :
    multiMapText (printMap kvs) = some (.ok kvs) := by
  simp only [multiMapText, C15_map_text_scans kvs hz, Option.map_some, C15_multimap_tokens kvs hne]

/-- The text form is unambiguous: two lists of ASCII strings with the same printed text are the same list (so a set or
slice can never be confused with another one after a round trip through a flag's text). -/
theorem C15_print_slice_injective (zs zs' : List S) (hz : ∀ z ∈ zs, z.all isAscii = true)
    (hz' : ∀ z ∈ zs', z.all isAscii = true) (h : printSlice zs = printSlice zs') : zs = zs' := by
  have h1 := C15_slice_text zs hz
  have h2 := C15_slice_text zs' hz'
  rw [h, h2] at h1
  simpa using h1.symm

/-- ... and the same for the printed pairs of a map (non-empty keys, as printed by the helpers in key order). -/
theorem C15_print_map_injective (kvs kvs' : List (S × S))
    (hz : ∀ p ∈ kvs, p.1.all isAscii = true ∧ p.2.all isAscii = true) (hz' : ∀ p ∈ kvs', p.1.all isAscii = true ∧ p.2.all isAscii = true)
    (hne : ∀ p ∈ kvs, p.1 ≠ []) (hne' : ∀ p ∈ kvs', p.1 ≠ []) (h : printMap kvs = printMap kvs') : kvs = kvs' := by
  have h1 := C15_multimap_text kvs hz hne
  have h2 := C15_multimap_text kvs' hz' hne'
  rw [h, h2] at h1
  simpa using h1.symm

/-- strconv.Quote is injective on ASCII strings. -/
theorem C15_quote_injective (z z' : S) (hz : z.all isAscii = true) (hz' : z'.all isAscii = true) (h : quote z = quote z') : z = z' := by
  have := C15_print_slice_injective [z] [z'] (by simpa using hz) (by simpa using hz') (by simpa [printSlice] using h)
  simpa using this

/-- non-vacuity and the characters the property names: commas, colons, quotes, backslashes, control characters
(incl. NUL, newline, DEL) inside the strings, the empty string, evaluated through the whole text path -/
theorem C15_text_examples :
    sliceText (printSlice ["a,b".toList, "q\"uote".toList, "back\\slash".toList, [], [Char.ofNat 0, '\n', Char.ofNat 127, '\t']])
      = some (.ok ["a,b".toList, "q\"uote".toList, "back\\slash".toList, [], [Char.ofNat 0, '\n', Char.ofNat 127, '\t']]) ∧
    mapText (printMap [("host:port".toList, "a:1,b:2".toList), ("k".toList, [])])
      = some (.ok [("host:port".toList, "a:1,b:2".toList), ("k".toList, [])]) ∧
    printSlice ["a\"b".toList, [Char.ofNat 1]] = "\"a\\\"b\",\"\\x01\"".toList := by
  refine ⟨C15_slice_text _ (by decide), C15_map_text _ (by decide) (by decide) (by decide), by decide⟩

/-- what the scanner model does with text that is NOT a printed form (behaviour the correspondence compares with the
real scanner): a space inside a bare word belongs to the word, a NUL character is an error as soon as it is READ - the
token before it is lost with it -, `\'` is no escape in a double-quoted literal, `\400` scans but does not unquote -/
theorem C15_scanner_examples :
    scanText false "a b, c".toList = some [.word "a b".toList, .comma, .word "c".toList, .eof] ∧
    scanText false [ 'a', ',', Char.ofNat 0 ] = some [.word ['a'], .scanErr] ∧
    scanText false "\"\\'\"".toList = some [.scanErr] ∧
    scanText false "\"\\400\"".toList = some [.str none, .eof] ∧
    scanText true "k:`r\\n`".toList = some [.word ['k'], .colon, .str (some "r\\n".toList), .eof] := by
  refine ⟨by decide, by decide, by decide, by decide, by decide⟩

/-! ### every string: non-ASCII, unprintable, invalid UTF-8 -/

/-- strconv.Quote on ANY byte string, given as its items (ASCII characters, bytes that start no valid UTF-8 sequence,
printable runes written verbatim, unprintable runes written `\uXXXX` / `\UXXXXXXXX`: the split and the printability come
from utf8 / strconv.IsPrint and are compared on every run): the quoted form, followed by anything, is scanned as ONE string
token - the scanner stops at the quote that Quote wrote - and strconv.Unquote gives back exactly the string's bytes. -/
theorem C15_quote_any_string_scans_back (m : Bool) (is : List QItem) (h : ∀ i ∈ is, i.ok) (rest : List Char) :
    ∃ cs, quoteItems is ++ rest = '"' :: cs ∧ scanTok m '"' cs = .tok (.str (some (itemsBytes is))) rest :=
  scanTok_quoteItems m is h rest

/-- String slices of ARBITRARY strings, from the text: what StringSliceFlag.String prints - every element quoted by
strconv.Quote - parses back to exactly those byte strings. -/
theorem C15_slice_text_any (xs : List (List QItem)) (h : ∀ x ∈ xs, ∀ i ∈ x, i.ok) :
    sliceText (printSliceItems xs) = some (.ok (xs.map itemsBytes)) := by
  have hscan : scanText false (printSliceItems xs) = some (canonSlice (xs.map itemsBytes)) := by
    rw [printSliceItems_wrender, ← qslicePieces_toks]
    exact scanText_wrender false _ (qslicePieces_renderable false xs h)
  cases xs with
  | nil => simp [sliceText, printSliceItems]
  | cons x xs =>
    have hne : (printSliceItems (x :: xs)).isEmpty = false := by
      cases xs <;> simp [printSliceItems, quoteItems]
    simp only [sliceText, hne, hscan, Option.map_some, stringSlice]
    simpa using C15_slice_tokens ((x :: xs).map itemsBytes)

/-- ... sets (elements pairwise different as byte strings) ... -/
theorem C15_set_text_any (xs : List (List QItem)) (h : ∀ x ∈ xs, ∀ i ∈ x, i.ok) (hnd : (xs.map itemsBytes).Nodup) :
    setText (printSliceItems xs) = some (.ok (xs.map itemsBytes)) := by
  have hscan : scanText false (printSliceItems xs) = some (canonSlice (xs.map itemsBytes)) := by
    rw [printSliceItems_wrender, ← qslicePieces_toks]
    exact scanText_wrender false _ (qslicePieces_renderable false xs h)
  cases xs with
  | nil => simp [setText, printSliceItems]
  | cons x xs =>
    have hne : (printSliceItems (x :: xs)).isEmpty = false := by
      cases xs <;> simp [printSliceItems, quoteItems]
    simp only [setText, hne, hscan, Option.map_some, stringSet]
    simpa using C15_set_tokens ((x :: xs).map itemsBytes) hnd

/-- ... and string maps / string-to-string-slice maps (non-empty keys; distinct keys for the plain map). -/
theorem C15_map_text_any (kvs : List (List QItem × List QItem)) (h : ∀ p ∈ kvs, (∀ i ∈ p.1, i.ok) ∧ (∀ i ∈ p.2, i.ok))
    (hk : ((kvs.map fun p => (itemsBytes p.1, itemsBytes p.2)).map (·.1)).Nodup)
    (hne : ∀ p ∈ kvs.map (fun p => (itemsBytes p.1, itemsBytes p.2)), p.1 ≠ []) :
    mapText (printMapItems kvs) = some (.ok (kvs.map fun p => (itemsBytes p.1, itemsBytes p.2))) := by
  have hscan : scanText true (printMapItems kvs) = some (canonMap (kvs.map fun p => (itemsBytes p.1, itemsBytes p.2))) := by
    rw [printMapItems_wrender, ← qmapPieces_toks]
    exact scanText_wrender true _ (qmapPieces_renderable kvs h)
  simp only [mapText, hscan, Option.map_some]
  exact congrArg some (C15_map_tokens _ hk hne)

theorem C15_multimap_text_any (kvs : List (List QItem × List QItem)) (h : ∀ p ∈ kvs, (∀ i ∈ p.1, i.ok) ∧ (∀ i ∈ p.2, i.ok))
    (hne : ∀ p ∈ kvs.map (fun p => (itemsBytes p.1, itemsBytes p.2)), p.1 ≠ []) :
    multiMapText (printMapItems kvs) = some (.ok (kvs.map fun p => (itemsBytes p.1, itemsBytes p.2))) := by
  have hscan : scanText true (printMapItems kvs) = some (canonMap (kvs.map fun p => (itemsBytes p.1, itemsBytes p.2))) := by
    rw [printMapItems_wrender, ← qmapPieces_toks]
    exact scanText_wrender true _ (qmapPieces_renderable kvs h)
  simp only [multiMapText, hscan, Option.map_some]
  exact congrArg some (C15_multimap_tokens _ hne)

/-- for an ASCII string this is `C15_quote_scans_back`: the items are its characters -/
theorem C15_quote_items_ascii (s : S) : quoteItems (s.map QItem.ascii) = quote s ∧ itemsBytes (s.map QItem.ascii) = s :=
  quoteItems_ascii s

/-- "café" with a Latin-1 byte (invalid UTF-8), é as a printable rune, U+200B (unprintable, `\u200b`), U+1F600 printable
and U+E0001 (unprintable, `\U000e0001`): what is written, and that it reads back -/
theorem C15_quote_items_examples :
    quoteItems [.ascii 'c', .bad 0xE9, .print 0xE9, .esc 0x200B, .print 0x1F600, .esc 0xE0001]
      = ['"', 'c', '\\', 'x', 'e', '9', Char.ofNat 0xC3, Char.ofNat 0xA9, '\\', 'u', '2', '0', '0', 'b',
         Char.ofNat 0xF0, Char.ofNat 0x9F, Char.ofNat 0x98, Char.ofNat 0x80, '\\', 'U', '0', '0', '0', 'e', '0', '0', '0', '1', '"'] ∧
    itemsBytes [.ascii 'c', .bad 0xE9, .print 0xE9, .esc 0x200B, .print 0x1F600, .esc 0xE0001]
      = ['c', Char.ofNat 0xE9, Char.ofNat 0xC3, Char.ofNat 0xA9, Char.ofNat 0xE2, Char.ofNat 0x80, Char.ofNat 0x8B,
         Char.ofNat 0xF0, Char.ofNat 0x9F, Char.ofNat 0x98, Char.ofNat 0x80, Char.ofNat 0xF3, Char.ofNat 0xA0, Char.ofNat 0x80, Char.ofNat 0x81] := by
  refine ⟨by decide, by decide⟩

/-! ### bare words (beyond the canonical form: what people type - `--tags=a,b,c`, `LIMITS=cpu:2,mem:4`) -/

/-- Which characters a bare word may hold (finite table over ASCII): the printable ones except backslash, comma and the
three quotes - in map mode also except the colon.  The SPACE is one of them: only leading white space is skipped. -/
theorem C15_bare_word_chars :
    ∀ k : Fin 128, identRune false (Char.ofNat k.val) = decide (32 ≤ k.val ∧ k.val ≤ 126 ∧ k.val ∉ [92, 44, 34, 39, 96]) ∧
      identRune true (Char.ofNat k.val) = decide (32 ≤ k.val ∧ k.val ≤ 126 ∧ k.val ∉ [92, 44, 34, 39, 96, 58]) := by
  decide +kernel

/-- Any text made of bare words, quoted ASCII strings, commas and (in map mode) colons - no two words adjacent - is
scanned into exactly the corresponding tokens. -/
theorem C15_renderable_scans (m : Bool) (ps : List WPiece) (h : Renderable m ps) :
    scanText m (wrender ps) = some (ps.map WPiece.tok ++ [.eof]) :=
  scanText_wrender m ps h

/-- Comma-separated bare words parse to exactly those words (slices), in order - inner and trailing spaces included. -/
theorem C15_bare_words_text (ws : List S) (hw : ∀ w ∈ ws, BareWord false w) :
    sliceText (joinComma ws) = some (.ok ws) := by
  cases ws with
  | nil => simp [sliceText, joinComma]
  | cons x xs =>
    have hx := (hw x (by simp)).1
    have hne : (joinComma (x :: xs)).isEmpty = false := by
      cases x with
      | nil => exact absurd rfl hx
      | cons c cs => cases xs <;> simp [joinComma]
    have hscan : scanText false (joinComma (x :: xs)) = some (wordToks (x :: xs)) := by
      rw [joinComma_wrender, wordToks_pieces]
      exact scanText_wrender false _ (wordPieces_renderable false _ hw)
    simp only [sliceText, hne, hscan, Option.map_some, stringSlice, Bool.false_eq_true, if_false]
    rw [wordToks_deQuote, splitSlice_deQuote]
    simpa using C15_slice_tokens (x :: xs)

/-- ... and to exactly that set when no word repeats. -/
theorem C15_bare_words_set_text (ws : List S) (hw : ∀ w ∈ ws, BareWord false w) (hnd : ws.Nodup) :
    setText (joinComma ws) = some (.ok ws) := by
  cases ws with
  | nil => simp [setText, joinComma]
  | cons x xs =>
    have hx := (hw x (by simp)).1
    have hne : (joinComma (x :: xs)).isEmpty = false := by
      cases x with
      | nil => exact absurd rfl hx
      | cons c cs => cases xs <;> simp [joinComma]
    have hscan : scanText false (joinComma (x :: xs)) = some (wordToks (x :: xs)) := by
      rw [joinComma_wrender, wordToks_pieces]
      exact scanText_wrender false _ (wordPieces_renderable false _ hw)
    simp only [setText, hne, hscan, Option.map_some, stringSet, Bool.false_eq_true, if_false]
    rw [wordToks_deQuote, splitSet_deQuote]
    simpa using C15_set_tokens (x :: xs) hnd

/-- `k:v,k2:v2` with bare keys and values (distinct keys) parses to exactly those pairs. -/
theorem C15_bare_map_text (kvs : List (S × S)) (hw : ∀ p ∈ kvs, BareWord true p.1 ∧ BareWord true p.2)
    (hk : (kvs.map (·.1)).Nodup) : mapText (joinPairs kvs) = some (.ok kvs) := by
  have hne : ∀ p ∈ kvs, p.1 ≠ [] := fun p hp => (hw p hp).1.1
  have hscan : scanText true (joinPairs kvs) = some ((canonMap kvs).map deQuote) := by
    rw [joinPairs_wrender, ← pairPieces_toks]
    exact scanText_wrender true _ (pairPieces_renderable kvs hw)
  simp only [mapText, hscan, Option.map_some, mapStringString, splitMapWith_deQuote]
  exact congrArg some (C15_map_tokens kvs hk hne)

theorem C15_bare_words_examples :
    sliceText "a b, c".toList = some (.ok ["a b".toList, "c".toList]) ∧
    sliceText "db1:5432,db2:5432".toList = some (.ok ["db1:5432".toList, "db2:5432".toList]) ∧
    mapText "cpu:2,mem:4".toList = some (.ok [("cpu".toList, "2".toList), ("mem".toList, "4".toList)]) ∧
    mapText "a:b:c".toList = some (.err "unexpected colon") ∧
    sliceText "a,\"b,c\",d".toList = some (.ok ["a".toList, "b,c".toList, "d".toList]) := by
  refine ⟨by decide, by decide, by decide, by decide, by decide⟩

/-! ### parse.String on a slice leaf, end to end on the models (the path of an environment variable or flag value) -/

/-- `parse.String(text, []K)` for every integer kind K: the comma-joined decimal texts of in-range values - scanned by the
scanner model as bare words, split, each cast by parseNumber with K's width - give exactly those values; the empty text
gives the empty slice. -/
theorem C15_parse_string_int_slice (k : IntKind) (hk : k ≠ .uintptr) (vs : List Int) (hv : ∀ v ∈ vs, k.inRange v = true) :
    Tf.parseString Tf.scanTable (String.ofList (joinComma (vs.map formatInt))) (.slice (.basic (.int k) false))
      = .ok (.list (vs.map .i)) := by
  have hwords : ∀ w ∈ vs.map formatInt, BareWord false w := by
    intro w hw
    obtain ⟨v, _, rfl⟩ := List.mem_map.1 hw
    exact formatInt_bareWord false v
  have htext := C15_bare_words_text (vs.map formatInt) hwords
  have hk' : (k == IntKind.uintptr) = false := by cases k <;> simp_all
  cases vs with
  | nil => simp [Tf.parseString, joinComma, stringSlice, Tf.isPlainString, Tf.mapM']
  | cons x xs =>
    have hne : (joinComma ((x :: xs).map formatInt)) ≠ [] := by
      obtain ⟨c, r, _, _, hc, _, _, _⟩ := formatInt_shape x
      cases xs <;> simp [joinComma, hc]
    have hstr : (String.ofList (joinComma ((x :: xs).map formatInt)) == "") = false := by
      rw [beq_eq_false_iff_ne]
      intro h
      have := congrArg String.toList h
      simp at this
      exact hne this
    have hisE : (joinComma ((x :: xs).map formatInt)).isEmpty = false := by
      cases hj : joinComma ((x :: xs).map formatInt) with
      | nil => exact absurd hj hne
      | cons _ _ => rfl
    -- the scanner model's tokens, then the slice state machine
    simp only [sliceText, hisE, Bool.false_eq_true, if_false, Option.map_eq_some_iff] at htext
    obtain ⟨toks, hscan, hsplit⟩ := htext
    have hitems : ∀ it ∈ (x :: xs).map formatInt,
        (match (Tf.Ty.basic (.int k) false) with
          | .slice _ | .map _ _ | .set _ => (Outcome.err "nested collection: outside the model" : Outcome Tf.Val)
          | _ => (Tf.parseScalar (String.ofList it) (.basic (.int k) false)).bind Tf.derefVal)
          = .ok ((fun w => Tf.Val.i ((parseIntLit w).getD 0)) it) := by
      intro it hit
      obtain ⟨v, hvm, rfl⟩ := List.mem_map.1 hit
      have hr := C15_int_roundtrip k hk v (hv v hvm)
      simp [Tf.parseScalar, hk', hr, Tf.derefVal, Outcome.bind, parseIntLit_formatInt]
    simp only [Tf.parseString, Tf.scanTable, String.toList_ofList, hscan, Option.getD_some, hstr, hsplit, Tf.isPlainString,
      Bool.false_eq_true, if_false]
    rw [Tf.mapM'_ok _ _ _ hitems]
    simp [List.map_map, Function.comp_def, parseIntLit_formatInt]

/-- `parse.String(text, []string)`: comma-separated bare words give exactly those strings (the empty text the empty slice). -/
theorem C15_parse_string_str_slice (ws : List S) (hw : ∀ w ∈ ws, BareWord false w) :
    Tf.parseString Tf.scanTable (String.ofList (joinComma ws)) (.slice (.basic .str false))
      = .ok (.list (ws.map fun w => .s (String.ofList w))) := by
  have htext := C15_bare_words_text ws hw
  cases ws with
  | nil => simp [Tf.parseString, joinComma, stringSlice, Tf.isPlainString]
  | cons x xs =>
    have hx := (hw x (by simp)).1
    have hne : joinComma (x :: xs) ≠ [] := by
      cases x with
      | nil => exact absurd rfl hx
      | cons c cs => cases xs <;> simp [joinComma]
    have hstr : (String.ofList (joinComma (x :: xs)) == "") = false := by
      rw [beq_eq_false_iff_ne]
      intro h
      have := congrArg String.toList h
      simp at this
      exact hne this
    have hisE : (joinComma (x :: xs)).isEmpty = false := by
      cases hj : joinComma (x :: xs) with
      | nil => exact absurd hj hne
      | cons _ _ => rfl
    simp only [sliceText, hisE, Bool.false_eq_true, if_false, Option.map_eq_some_iff] at htext
    obtain ⟨toks, hscan, hsplit⟩ := htext
    simp only [Tf.parseString, Tf.scanTable, String.toList_ofList, hscan, Option.getD_some, hstr, hsplit, Tf.isPlainString]
    simp

/-! ### durations and bools (models of time.Duration.String, time.ParseDuration, strconv.ParseBool; tied by stream 10) -/

/-- Durations: what Duration.String prints for ANY int64 value - sub-microsecond, fractional micro-, milli- and seconds,
hours/minutes/seconds, the extremes - is parsed back by time.ParseDuration to exactly that value. -/
theorem C15_duration_roundtrip (d : Int) (h1 : -(9223372036854775808 : Int) ≤ d) (h2 : d < 9223372036854775808) :
    parseDuration (fmtDuration d) = .ok d := by
  have h63 : two63 = 9223372036854775808 := rfl
  unfold fmtDuration
  by_cases hneg : d < 0
  · have := parseDuration_fmtNat d.natAbs (by omega) true (by simp)
    simp only [if_true] at this
    simp only [hneg, if_true, this]
    congr 1; omega
  · have := parseDuration_fmtNat d.natAbs (by omega) false (by intro _; omega)
    simp only [Bool.false_eq_true, if_false] at this
    simp only [hneg, if_false, this]
    congr 1; omega

theorem parseDurationCore_in_range (neg : Bool) (s1 : Str) (d : Int) (h : parseDurationCore neg s1 = .ok d) :
    -(9223372036854775808 : Int) ≤ d ∧ d < 9223372036854775808 := by
  have h63 : two63 = 9223372036854775808 := rfl
  unfold parseDurationCore at h
  by_cases c0 : s1 = ['0']
  · rw [if_pos c0] at h; simp only [DurR.ok.injEq] at h; omega
  · rw [if_neg c0] at h
    by_cases ce : s1.isEmpty = true
    · simp [ce] at h
    · simp only [ce, Bool.false_eq_true, if_false] at h
      cases hl : parseLoop (s1.length + 1) s1 0 with
      | err => simp [hl] at h
      | ood => simp [hl] at h
      | ok r =>
        have hb := parseLoop_bound _ _ 0 r (by omega) hl
        simp only [hl] at h
        cases neg with
        | true => simp only [if_true, DurR.ok.injEq] at h; omega
        | false =>
          simp only [Bool.false_eq_true, if_false] at h
          by_cases cb : r > two63 - 1
          · simp [cb] at h
          · simp only [cb, if_false, DurR.ok.injEq] at h; omega

/-- ... and never wraps: whatever the text, a parsed duration lies within int64 (a total of more than 1<<63
nanoseconds, or of exactly 1<<63 without a minus sign, is an error). -/
theorem C15_duration_in_range (s : Str) (d : Int) (h : parseDuration s = .ok d) :
    -(9223372036854775808 : Int) ≤ d ∧ d < 9223372036854775808 :=
  parseDurationCore_in_range _ _ d h

theorem C15_duration_examples :
    fmtDuration 1500 = "1.5".toList ++ microSign ++ ['s'] ∧ fmtDuration 90000000000 = "1m30s".toList ∧
    fmtDuration 0 = "0s".toList ∧ fmtDuration (-9223372036854775808) = "-2562047h47m16.854775808s".toList ∧
    parseDuration "1h2m3.5s".toList = .ok 3723500000000 ∧ parseDuration "-1.5h".toList = .ok (-5400000000000) ∧
    parseDuration "9223372036854775807ns".toList = .ok 9223372036854775807 ∧
    parseDuration "9223372036854775808ns".toList = .err ∧ parseDuration "-9223372036854775808ns".toList = .ok (-9223372036854775808) ∧
    parseDuration "2562048h".toList = .err ∧ parseDuration "2562047h47m16.854775808s".toList = .err ∧
    parseDuration "1".toList = .err ∧ parseDuration "1d".toList = .err ∧ parseDuration ".s".toList = .err ∧
    parseDuration "0".toList = .ok 0 ∧ parseDuration "1.0000000001s".toList = .ood := by
  refine ⟨by decide, by decide, by decide, by decide, by decide, by decide, by decide, by decide, by decide, by decide,
    by decide, by decide, by decide, by decide, by decide, by decide⟩

/-- Bools: FormatBool's text parses back; ParseBool accepts exactly the twelve spellings. -/
theorem C15_bool_roundtrip (b : Bool) : parseBool (formatBool b) = some b := by cases b <;> decide

/-- ... and nothing else: a text ParseBool accepts is one of the six spellings of its value. -/
theorem C15_bool_spellings (s : Str) (b : Bool) (h : parseBool s = some b) :
    s ∈ (if b then [['1'], ['t'], ['T'], "TRUE".toList, "true".toList, "True".toList]
         else [['0'], ['f'], ['F'], "FALSE".toList, "false".toList, "False".toList]) := by
  unfold parseBool at h
  split at h
  · rename_i hc
    simp only [Option.some.injEq] at h
    subst h
    simp only [if_true, List.mem_cons, List.not_mem_nil, or_false]
    exact hc
  · split at h
    · rename_i hc
      simp only [Option.some.injEq] at h
      subst h
      simp only [Bool.false_eq_true, if_false, List.mem_cons, List.not_mem_nil, or_false]
      exact hc
    · simp at h

/-- regenerated facts F13 -/
theorem C15_facts : Facts.parseNumberBits = 64 ∧ Facts.parseNumberChecksOverflow = true ∧
    Facts.intSliceElementBits = true ∧ Facts.intSliceEmptyOk = true := by
  exact ⟨rfl, rfl, rfl, rfl⟩

/-- regenerated fact F13s: what the two custom IsIdentRune functions refuse outright (the colon only in splitMap) -/
theorem C15_scanner_facts :
    Facts.sliceIdentDeny = [92, 44, 34, 39, 96, 0] ∧ Facts.mapIdentDeny = [92, 44, 34, 39, 96, 0, 58] ∧
    (∀ m, identRune m '"' = false ∧ identRune m ',' = false ∧ identRune m '\\' = false ∧ identRune m NUL = false) ∧
    identRune true ':' = false ∧ identRune false ':' = true := by
  refine ⟨rfl, rfl, ?_, by decide, by decide⟩
  intro m
  cases m <;> decide

end Dials.C15
