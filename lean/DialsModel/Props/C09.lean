/-
C09 — Delayed verification: never early, atomic switch-on, precise suppression.

Property theorems only (helper lemmas and invariants live in Lemmas/RuntimeEnable.lean).
-/
import DialsModel.Model.RuntimeSpec
import DialsModel.Lemmas.RuntimeEnable

namespace Dials.C09
open Dials Dials.Runtime

/-- With delayed initial verification, Verify is never invoked before EnableVerification is called. -/
theorem C09_never_early {W : World} {P : Params} {sl : Slots} {w : List Bool} {s : State}
    (hr : Reachable W P sl w s) (hd : P.delay = true) (cfg : Slots) (ok b : Bool)
    (hv : Obs.verify cfg ok b ∈ s.log) : ∃ c, Before s.history (.enableCalled c) (.verify cfg ok b) := by
  obtain ⟨l1, l2, e⟩ := List.append_of_mem hv
  obtain ⟨c, hc⟩ : Called l2 := (InvB.reachable hr hd).log.split l1 _ l2 e
  exact ⟨c, before_of_split e hc⟩

/-- Config itself does not verify in delay mode. -/
theorem C09_config_does_not_verify (P : Params) (hd : P.delay = true) : Facts.initialVerify P.skipInitial P.delay = false := by
  simp [Facts.initialVerify, hd]

/-- Processing an enable request while the delay is in force verifies exactly the installed config. -/
theorem C09_verifies_installed (W : World) (s s' : State) (ch c tok : Nat)
    (hm : s.mon = .verifyEnable c tok) (h : step W s (.runMon ch) = some s') :
    s'.mon = .enableReply c tok (W.valid s.view.cfg) false ∧ s'.view = s.view ∧
    s'.log = Obs.verify s.view.cfg (W.valid s.view.cfg) true :: s.log := by
  simp only [step, runMon, hm, Option.some.injEq] at h
  subst h
  simp [State.logAdd]

/-- On success the caller gets that config and its serial and the delay ends; on failure it gets the
error and the delay stays in force (so it can be retried). -/
theorem C09_enable_reply (W : World) (s s' : State) (ch c tok ctx : Nat) (ok : Bool)
    (hm : s.mon = .enableReply c tok ok false) (hc : getC s.clients c = .waitResp ctx) (ht : ctx = tok)
    (h : step W s (.runMon ch) = some s') :
    s'.skipVerify = !ok ∧ s'.view = s.view ∧ s'.mon = .top ∧
    getC s'.clients c = .returned (if ok then .enableOk s.view else .enableErr) := by
  simp only [step, runMon, hm, Option.some.injEq] at h
  subst h
  subst ht
  simp [State.logAdd, hc, State.ret, getC_setC_self]

/-- The monitor goes to the verifying step exactly when the delay is in force; otherwise it answers
with the current version without verifying (no-op). -/
theorem C09_enable_dispatch (W : World) (s s' : State) (ch c tok : Nat)
    (hm : s.mon = .gotEnable c tok) (h : step W s (.runMon ch) = some s') :
    (s.skipVerify = true → s'.mon = .verifyEnable c tok) ∧
    (s.skipVerify = false → s'.mon = .enableReply c tok true true) ∧ s'.log = s.log := by
  simp only [step, runMon, hm] at h
  cases hs : s.skipVerify <;> simp [hs] at h <;> subst h <;> simp

/- The step-level statement below (given, verbatim) is FALSE for unreachable states: its first conjunct
fails at a hand-built state with `skipVerify = false` parked at `.enableReply c tok false false`
(see `C09_switch_on_only_by_enable_false`).  It is therefore not stated as a theorem; the reachable
version `C09_switch_on_only_by_enable_reachable` and the unconditional second half
`C09_switch_on_only_by_enable_second` are proved instead.

/-- Once verification is on it stays on; it is switched on only by a successful enable. -/
theorem C09_switch_on_only_by_enable (W : World) (s s' : State) (l : Label) (h : step W s l = some s') :
    (s.skipVerify = false → s'.skipVerify = false) ∧
    (s.skipVerify = true → s'.skipVerify = false →
      ∃ c tok ch, s.mon = .enableReply c tok true false ∧ l = .runMon ch) := by
  (no proof: the statement is false, see below)
-/

/-- counterexample to the step-level statement: `skipVerify = false`, monitor parked at
`.enableReply 7 7 false false`; the step sets `skipVerify := !false = true`. -/
theorem C09_switch_on_only_by_enable_false :
    ¬ (∀ (W : World) (s s' : State) (l : Label), step W s l = some s' →
      (s.skipVerify = false → s'.skipVerify = false) ∧
      (s.skipVerify = true → s'.skipVerify = false →
        ∃ c tok ch, s.mon = .enableReply c tok true false ∧ l = .runMon ch)) := by
  intro hall
  let s0 : State :=
    { initState ⟨false, true, false⟩ [0] [true] with skipVerify := false, mon := .enableReply 7 7 false false }
  let W : World := ⟨fun _ => true, fun _ => true⟩
  cases hs : step W s0 (.runMon 0) with
  | none => simp [step, runMon, s0] at hs
  | some s' =>
    have h1 := (hall W s0 s' (.runMon 0) hs).1 rfl
    obtain ⟨_, _, eff⟩ := runMon_enableReply (s := s0) (c := 7) (tok := 7) (ok := false) (noop := false) rfl
      (by simpa [step] using hs)
    have h2 := eff.skip
    rw [h1] at h2
    simp at h2

/-- Once verification is on it stays on; it is switched on only by a successful enable
(for reachable states). -/
theorem C09_switch_on_only_by_enable_reachable {W : World} {P : Params} {sl : Slots} {w : List Bool} {s s' : State}
    (hr : Reachable W P sl w s) (l : Label) (h : step W s l = some s') :
    (s.skipVerify = false → s'.skipVerify = false) ∧
    (s.skipVerify = true → s'.skipVerify = false →
      ∃ c tok ch, s.mon = .enableReply c tok true false ∧ l = .runMon ch) := by
  have hi := InvA.reachable hr
  rcases skip_step h with e | ⟨c, tok, ok, ch, hm, rfl, e⟩
  · rw [e]
    exact ⟨id, fun h1 h2 => by (rw [h1] at h2; cases h2)⟩
  · have hs := hi.ren c tok ok hm
    refine ⟨fun h1 => by (rw [hs] at h1; cases h1), fun _ h2 => ?_⟩
    rw [e] at h2
    have : ok = true := by simpa using h2
    subst this
    exact ⟨c, tok, ch, hm, rfl⟩

/-- The second half of the step-level statement holds in every state: the flag is switched off only
by the reply step of a successful verifying enable. -/
theorem C09_switch_on_only_by_enable_second (W : World) (s s' : State) (l : Label) (h : step W s l = some s') :
    (s.skipVerify = true → s'.skipVerify = false →
      ∃ c tok ch, s.mon = .enableReply c tok true false ∧ l = .runMon ch) := by
  intro h1 h2
  rcases skip_step h with e | ⟨c, tok, ok, ch, hm, rfl, e⟩
  · rw [e, h1] at h2; cases h2
  · rw [e] at h2
    have : ok = true := by simpa using h2
    subst this
    exact ⟨c, tok, ch, hm, rfl⟩

/-- From the successful enable on every re-stack is verified. -/
theorem C09_then_every_restack_verified {W : World} {P : Params} {sl : Slots} {w : List Bool} {s : State}
    (hr : Reachable W P sl w s) (v : Version) (hin : Obs.install v false ∈ s.log) : W.valid v.cfg = true := by
  obtain ⟨l2, h⟩ := (InvA.reachable hr).log.mem hin
  exact h.1 rfl

theorem C09_install_skip_flag {W : World} {P : Params} {sl : Slots} {w : List Bool} {s : State}
    (hr : Reachable W P sl w s) (v : Version) (l1 l2 : List Obs)
    (h : s.log = l1 ++ Obs.install v true :: l2) : ∀ o ∈ l2, o ≠ Obs.enabled true v ∧ ∀ v', o ≠ Obs.enabled true v' := by
  have hq := (InvA.reachable hr).log.split l1 _ l2 h
  intro o ho
  exact ⟨fun e => hq.2 rfl v (e ▸ ho), fun v' e => hq.2 rfl v' (e ▸ ho)⟩

/-- Global callbacks are withheld only while the delay is in force and the option is set:
a new-config event is marked suppressed exactly in that state, a source-reported error is ignored
exactly in that state, and OnNewConfig is skipped exactly for suppressed events. -/
theorem C09_suppression_exact {W : World} {P : Params} {sl : Slots} {w : List Bool} {s : State}
    (hr : Reachable W P sl w s) :
    (∀ old new supp skip, Obs.queued (.newCfg old new supp) skip ∈ s.log → supp = (skip && P.suppress)) ∧
    (∀ old new supp, Obs.dropped (.newCfg old new supp) ∈ s.log → supp = true → P.suppress = true ∧ P.delay = true) ∧
    (∀ e skip, Obs.srcErrIgnored e skip ∈ s.log → skip = true ∧ P.suppress = true ∧ P.delay = true) ∧
    (∀ ev skip, Obs.withheld ev skip ∈ s.log → ∃ old new, ev = .newCfg old new true) := by
  have hl := (InvA.reachable hr).log
  refine ⟨?_, ?_, ?_, ?_⟩
  · intro old new supp skip hm
    obtain ⟨l2, h⟩ := hl.mem hm
    exact h
  · intro old new supp hm
    obtain ⟨l2, h⟩ := hl.mem hm
    exact h
  · intro e skip hm
    obtain ⟨l2, h⟩ := hl.mem hm
    exact h
  · intro ev skip hm
    obtain ⟨l2, h⟩ := hl.mem hm
    exact h

/-- A source-reported error is forwarded in every other state. -/
theorem C09_source_error_forwarded (W : World) (s s' : State) (ch e : Nat)
    (hm : s.mon = .gotSrcErr e) (h : step W s (.runMon ch) = some s') :
    (¬ (s.skipVerify = true ∧ s.P.suppress = true) → s'.mon = .submitSrcErr e) ∧
    ((s.skipVerify = true ∧ s.P.suppress = true) → s'.mon = .top ∧ s'.cbch = s.cbch) := by
  simp only [step, runMon, hm, Facts.deliverSrcErr] at h
  cases hs : s.skipVerify <;> cases hp : s.P.suppress <;> simp [hs, hp] at h <;> subst h <;> simp

/-- F19a: ez, the library's own user of delayed verification, asks for BOTH options unconditionally (not, e.g., only
when the file is watched): verification delayed until ez itself enables it, and the global callbacks withheld until
then - so `C09_suppression_exact` applies to ez's re-stack with the config file in every ez configuration. -/
theorem C09_ez_asks_for_delay_and_suppression : Facts.ezDelay = true ∧ Facts.ezSuppress = true := by
  decide

/-- regenerated guards (F5, F6): the suppression expressions of the current source -/
theorem C09_guard_facts :
    (∀ sv su, Facts.suppressNew sv su = (sv && su)) ∧ (∀ sv su, Facts.deliverSrcErr sv su = !(sv && su)) ∧
    (∀ sv, Facts.verifyOnUpdate sv = !sv) ∧ (∀ d, Facts.initialSkipVerify d = d) ∧
    (∀ b, Facts.globalGate b = !b) := by
  simp [Facts.suppressNew, Facts.deliverSrcErr, Facts.verifyOnUpdate, Facts.initialSkipVerify, Facts.globalGate]

/-- The no-monitor fast path (no watching source) obeys the same contract: nothing is verified
without the delay, and with it the installed config is verified exactly once, its config and serial
are returned on success and the error on failure. -/
theorem C09_nowatch_path (W : World) (P : Params) (v : Version) :
    (P.delay = false → enableNoWatch W P v = (.enableOk v, [])) ∧
    (P.delay = true → W.valid v.cfg = true → enableNoWatch W P v = (.enableOk v, [.verify v.cfg true true])) ∧
    (P.delay = true → W.valid v.cfg = false → enableNoWatch W P v = (.enableErr, [.verify v.cfg false true])) := by
  refine ⟨?_, ?_, ?_⟩
  · intro h; simp [enableNoWatch, h]
  · intro h hv; simp [enableNoWatch, h, hv]
  · intro h hv; simp [enableNoWatch, h, hv]

end Dials.C09
