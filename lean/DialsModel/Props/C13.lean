/-
C13 — file decoders agree: same data in JSON, YAML, TOML or Cue, same config.

Proved here, over the model of Model/Decode.lean, for EVERY config type in the domain `supported`, every data
value, every document, every third-party filler satisfying `FillContract` (one per format, possibly different):
  * the key under which each leaf is read is the format's own tag if the field has one, else its `dials` tag,
    at every depth the Transformer reaches (C13_key_rule, C13_key_path);
  * decoding the document that expresses data `x` gives back exactly `x`, in each of the four formats
    (C13_decode_render), hence the four decoders agree (C13_agree) — including durations written as strings or
    (JSON, Cue) as integer nanoseconds, sets written as lists through the set→slice wrapper, text leaves;
  * a field whose key is absent from the document is left nil (C13_absent_unset);
  * the result is an error without a value, or a complete value of the config type — never a panic, never a
    partly filled value (C13_error_or_full, C13_error_propagates, C13_field_error_fails_all).
  * YAML's FlattenAnonymous option: the library sees the embedded structs' keys spliced in, by the same tag rule
    (C13_flatten_keys), and un-flattening gives back exactly the value whose flattening was filled
    (C13_flatten_lossless, for types where a pointer-embedded struct has no plain struct field: `ptrEmbedOK`);
PARTIAL: the four parsers (bytes → document tree → filled struct) are assumed through `FillContract`
(inhabited: C13_contract_inhabited); arbitrary bytes / syntax errors are outside the model and covered by the
harness's corruption streams only.  Outside `supported`, the model exhibits two defects of the unchanged
tree (C13_map_of_struct_counterexample, C13_empty_tag_shadows); a third one (`[]time.Time`, D34) has been repaired
in /repo and is now a positive theorem (C13_slice_of_time).
-/
import DialsModel.Model.DecodeSpec
import DialsModel.Lemmas.Decode
import DialsModel.Lemmas.Duration

namespace Dials.C13
open Dials Dials.Decode

/-- The regenerated facts are the ones the theorems below are about: each decoder's mangler chain (constructor
    and arguments in source order), every decoder and the wrapper return an invalid value with the library's
    error, ParsingDuration takes strings and numbers, the Transformer's notion of struct-ish fields and its two
    TextUnmarshaler tests (on the field type and, after stripping pointer / slice / array, on the element type). -/
theorem C13_facts :
    Facts.missingFacts = [] ∧
    chainOf .json false = [.durSub, .tagCopy "dials" "json"] ∧
    chainOf .cue false = [.durSub, .tagCopy "dials" "json"] ∧
    chainOf .yaml false = [.tagCopy "dials" "yaml"] ∧
    chainOf .yaml true = [.tagCopy "dials" "yaml", .anonFlatten] ∧
    chainOf .toml false = [.tagCopy "dials" "toml"] ∧
    (∀ f, checksErr f = true) ∧ Facts.wrapChecksInnerErr = true ∧
    Facts.pdurAcceptsString = true ∧ Facts.pdurAcceptsNumber = true ∧ Facts.setSliceNilStaysNil = true ∧
    Facts.structishKinds = ["Struct", "Ptr", "Array", "Slice"] ∧
    Facts.textSkipBeforeStrip = true ∧ Facts.textSkipAfterStrip = true := by
  refine ⟨rfl, ?_, ?_, ?_, ?_, ?_, ?_, rfl, rfl, rfl, rfl, rfl, rfl, rfl⟩ <;>
    first | rfl | decide | (intro f; cases f <;> rfl)

/-- Tag precedence on one field: after the decoder's TagCopyingMangler the library's tag holds the format's
    own tag when the field has one, else the `dials` tag (`keyRule`).  Hypothesis: the format's tag is not
    present with an empty value. -/
theorem C13_key_rule (fmt : Fmt) (tg : Tags) (h : Tags.lookup tg fmt.libTag ≠ some "") :
    Tags.get (copyTags "dials" fmt.libTag tg) fmt.libTag = keyRule fmt tg := by
  exact key_rule fmt tg h

/-- The hypothesis of C13_key_rule is needed: an explicitly empty `json:""` shadows the copied tag
    (reflect.StructTag.Get returns the first pair), so the `dials` tag is not honoured. -/
theorem C13_empty_tag_shadows :
    Tags.get (copyTags "dials" "json" [("json", ""), ("dials", "x")]) "json" = "" ∧
    keyRule .json [("json", ""), ("dials", "x")] = "x" := by
  constructor <;> decide

/-- Key paths: for every config type in the reach of the Transformer, what the library sees after the decoder's
    chain (inside the set→slice wrapper or not) is the type keyed by `keyRule` at every depth, with every
    time.Duration replaced by ParsingDuration exactly for JSON and Cue, and (wrapper) sets as string lists. -/
theorem C13_key_path (fmt : Fmt) (wrap : Bool) (T : Ty) (hT : reachTy fmt T = true) :
    view fmt.libTag (translate (chainOf fmt false) (translate (wrapChain wrap) T)) = kview fmt wrap T := by
  exact key_path fmt wrap T hT

/-- Without anonymous fields YAML's FlattenAnonymous option changes nothing, for every type (since the repair of
    finding D34 no hypothesis on `[]time.Time` fields is needed: the flatten pass, like every pass, leaves them alone). -/
theorem C13_flatten_noop (T : Ty) (h : noAnon T = true) : flatTy T = T := by
  exact flatten_noop T h

/-- FlattenAnonymous, types: after the YAML decoder's chain with the option set, the library sees, at each struct
    level the Transformer reaches, the keys of an embedded struct's fields (by the same tag rule) in place of the
    embedded field — whether or not the embedded field carries a tag of its own (finding D33b), and one level only
    (finding D33). -/
theorem C13_flatten_keys (fs : Fields) (hT : reachFields .yaml fs = true) :
    ∃ kfs, view "yaml" (translate (chainOf .yaml true) (.struct fs)) = .struct kfs ∧
      keysOf kfs = spliceKeys (keyRule .yaml) fs := by
  exact flatten_keys fs hT

/-- FlattenAnonymous, values: un-flattening is the exact inverse of hoisting — the value the decoder returns for
    the flattened value that carries data `x` is `x` (AnonymousFlattenMangler.Unmangle regroups the hoisted fields;
    an embedded pointer all of whose fields are nil comes back as nil).
    REPAIRED STATEMENT (hypothesis `hT` added): as first written (`flatOKVal T x → unflatTy T (flatVal T x) = .ok x`)
    the statement is false.  A nil embedded pointer is carried after flattening by nil in each of its hoisted
    fields, and un-flattening runs `unflatTy` of each hoisted field's type on that nil: for a hoisted field of plain
    struct type this is the panic "reverse: struct value expected" (`embStructTy` with `x = struct{nil}`, see the
    `example` below).  `ptrEmbedOK T` says that, wherever the pass reaches, a POINTER-embedded struct has no field of
    plain struct type (pointerified config types satisfy it); nothing is asked of structs embedded by value. -/
theorem C13_flatten_lossless (T : Ty) (x : Val) (hT : ptrEmbedOK T = true) (h : flatOKVal T x = true) :
    unflatTy T (flatVal T x) = .ok x := by
  exact flat_roundtrip.1 T x hT h

/-- the counterexample to the unrepaired C13_flatten_lossless: a nil `*E` where `E` has a struct-typed field -/
example : flatOKVal embStructTy (.struct [.nil]) = true ∧ ptrEmbedOK embStructTy = false ∧
    flatVal embStructTy (.struct [.nil]) = .struct [.nil] ∧
    unflatTy embStructTy (flatVal embStructTy (.struct [.nil])) = .panic "reverse: struct value expected" := by
  refine ⟨rfl, rfl, rfl, rfl⟩

/-- non-vacuity of C13_flatten_keys and C13_flatten_lossless on `embTy` (an embedded pointer, an embedded struct, a
    plain field): the keys the library sees; a nil and a non-nil embedded pointer coming back from the flattened value -/
example : reachFields .yaml embFields = true ∧ ptrEmbedOK embTy = true ∧
    (∃ kfs, view "yaml" (translate (chainOf .yaml true) embTy) = .struct kfs ∧ keysOf kfs = ["x", "y", "w", "z"]) ∧
    unflatTy embTy (.struct [.nil, .nil, .ptr (.str "w"), .nil])
      = .ok (.struct [.nil, .struct [.ptr (.str "w")], .nil]) ∧
    unflatTy embTy (.struct [.nil, .ptr (.int 3), .nil, .ptr (.str "z")])
      = .ok (.struct [.ptr (.struct [.nil, .ptr (.int 3)]), .struct [.nil], .ptr (.str "z")]) := by
  refine ⟨by decide, by decide, ?_, ?_, ?_⟩
  · obtain ⟨kfs, h1, h2⟩ := C13_flatten_keys embFields (by decide)
    exact ⟨kfs, h1, by rw [h2]; decide⟩
  · exact C13_flatten_lossless embTy (.struct [.nil, .struct [.ptr (.str "w")], .nil]) rfl rfl
  · exact C13_flatten_lossless embTy
      (.struct [.ptr (.struct [.nil, .ptr (.int 3)]), .struct [.nil], .ptr (.str "z")]) rfl rfl

/-- The reference filler satisfies the contract (non-vacuity of every theorem that assumes it). -/
theorem C13_contract_inhabited (E : Ext) (fmt : Fmt) : FillContract E fmt (refFill E fmt) := by
  exact refFill_contract E fmt

/-- On keyed types: a contract-satisfying filler reads back exactly the data a document was rendered from. -/
theorem C13_fill_render (E : Ext) (fmt : Fmt) (fill : KTy → Doc → Outcome Val) (hC : FillContract E fmt fill)
    (intDur : Int → Bool) (K : KTy) (x : Val) (hK : keysOK K = true) (hx : wt E fmt K x = true) :
    fill K (renderK E fmt intDur K x) = .ok x := by
  exact (fill_render E fmt fill hC intDur).1 K hK x hx

/-- Decoding the document that expresses `x` gives `x`: in every format, for every contract-satisfying library,
    every supported config type, every well-typed data value with any subset of keys present (nil fields),
    durations as strings or (JSON / Cue, per value: `intDur`) integer nanoseconds, sets as lists (wrapper). -/
theorem C13_decode_render (E : Ext) (fmt : Fmt) (wrap : Bool) (L : Lib) (hC : FillContract E fmt L.fill)
    (intDur : Int → Bool) (T : Ty) (x : Val)
    (hT : supported fmt wrap T = true) (hx : wtData E fmt wrap T x = true) :
    decode fmt false wrap L T (render E fmt wrap intDur T x) = .ok x := by
  exact decode_render E fmt wrap L hC intDur T x hT hx

/-- Agreement: the four decoders, each with its own library, give the same config value for documents
    expressing the same data. -/
theorem C13_agree (E : Ext) (L : Fmt → Lib) (hC : ∀ f, FillContract E f (L f).fill) (wrap : Bool)
    (intDur : Fmt → Int → Bool) (T : Ty) (x : Val)
    (hT : ∀ f, supported f wrap T = true) (hx : ∀ f, wtData E f wrap T x = true) (f g : Fmt) :
    decode f false wrap (L f) T (render E f wrap (intDur f) T x)
      = decode g false wrap (L g) T (render E g wrap (intDur g) T x) := by
  rw [decode_render E f wrap (L f) (hC f) (intDur f) T x (hT f) (hx f),
    decode_render E g wrap (L g) (hC g) (intDur g) T x (hT g) (hx g)]

/-- Absent keys leave leaves unset: for ANY map document (not only rendered ones), a nil-able field whose key
    does not occur in the document is nil in the decoded value. -/
theorem C13_absent_unset (E : Ext) (fmt : Fmt) (wrap : Bool) (L : Lib) (hC : FillContract E fmt L.fill)
    (fs : Fields) (kvs : List (String × Doc)) (vs : List Val)
    (hT : supported fmt wrap (.struct fs) = true) (hk : nodupKeys kvs = true)
    (hdec : decode fmt false wrap L (.struct fs) (.map kvs) = .ok (.struct vs))
    (i : Nat) (tg : Tags) (t : Ty) (hf : Fields.get? fs i = some (tg, t)) (hn : nilableTy t = true)
    (habs : lookupD (keyRule fmt tg) kvs = none) :
    vs[i]? = some .nil := by
  exact absent_unset E fmt wrap L hC fs kvs vs hT hk hdec i tg t hf hn habs

/-- Error or full value: for any document the decoder returns an error (and then no value at all), or a complete
    value of the config type; it never panics and nothing in between exists. -/
theorem C13_error_or_full (E : Ext) (fmt : Fmt) (wrap : Bool) (L : Lib) (hC : FillContract E fmt L.fill)
    (T : Ty) (d : Doc) (hT : supported fmt wrap T = true) :
    (∃ c, decode fmt false wrap L T d = .err c) ∨
    (∃ v, decode fmt false wrap L T d = .ok v ∧ shape T v = true) := by
  exact error_or_full E fmt wrap L hC T d hT

/-- An error of the library is the decoder's result, whatever the library had already written (with or without
    the wrapper, with or without FlattenAnonymous). -/
theorem C13_error_propagates (fmt : Fmt) (flatten wrap : Bool) (L : Lib) (T : Ty) (d : Doc) (c : String)
    (h : L.fill (view fmt.libTag (translate (chainOf fmt flatten) (translate (wrapChain wrap) T))) d = .err c) :
    decode fmt flatten wrap L T d = .err c := by
  unfold decode
  simp only [h, checksErr_all, if_true]
  simp [Facts.wrapChecksInnerErr]

/-- One ill-typed field fails the whole document: if the document under some field's key is refused by the
    library, no value comes out. -/
theorem C13_field_error_fails_all (E : Ext) (fmt : Fmt) (wrap : Bool) (L : Lib) (hC : FillContract E fmt L.fill)
    (fs : Fields) (kvs : List (String × Doc))
    (hT : supported fmt wrap (.struct fs) = true) (hk : nodupKeys kvs = true)
    (i : Nat) (tg : Tags) (t : Ty) (d : Doc) (hf : Fields.get? fs i = some (tg, t))
    (hl : lookupD (keyRule fmt tg) kvs = some d)
    (herr : ∃ c, L.fill (kvTy (keyRule fmt) fmt.subs wrap t) d = .err c) :
    (decode fmt false wrap L (.struct fs) (.map kvs)).isOk = false := by
  exact field_error_fails_all E fmt wrap L hC fs kvs hT hk i tg t d hf hl herr

/-! ### defects of the unchanged tree exhibited by the model (outside `supported`) -/

/-- `map[string]Inner` with `Y string \`dials:"why"\`` (`msType`): the Transformer does not recurse into map values,
    the tag is not copied, the library falls back to field-name matching; the key the property demands is `why`. -/
theorem C13_map_of_struct_counterexample :
    view "yaml" (translate (chainOf .yaml false) msType) ≠ kview .yaml false msType := by
  rw [chain_yaml]
  simp [msType, translate, Mangler.ty, passTy, passFields, Pass.tagCopy, view, kview, kvTy, kvFields]
  intro _; decide

/-- `[]time.Time` (finding D34, repaired in /repo): the second TextUnmarshaler test keeps the Transformer out of the
    element type, so in every format and with or without the wrapper the library is handed the field with its element
    type intact, keyed by the tag rule; the type is in the domain of all theorems above (`supported`), so every
    decoder reads the field like any other list of text leaves and the four agree (C13_agree). -/
theorem C13_slice_of_time (f : Fmt) (wrap : Bool) :
    supported f wrap sliceTimeTy = true ∧
    view f.libTag (translate (chainOf f false) (translate (wrapChain wrap) sliceTimeTy))
      = .struct (.cons "lt" false (.slice (.text .time)) .nil) := by
  have hr : reachTy f sliceTimeTy = true := by cases f <;> decide
  refine ⟨?_, ?_⟩
  · cases f <;> cases wrap <;> decide
  · rw [C13_key_path f wrap sliceTimeTy hr]
    cases f <;> cases wrap <;> simp [kview, sliceTimeTy, kvTy, kvFields] <;> decide

/-! ### durations: the per-leaf hypothesis of `wt` is a theorem for the modelled time package -/

/-- the external duration functions instantiated with the models of time.ParseDuration / Duration.String
    (Model/Duration.lean, tied to the real functions by the C15 correspondence) -/
def durExt (E : Ext) : Ext :=
  { E with
    parseDur := fun s => match Parse.parseDuration s.toList with
      | .ok d => some d
      | _ => none
    durText := fun n => String.ofList (Parse.fmtDuration n) }

/-- For EVERY int64 duration the text written for it (Duration.String) is read back as that duration: with the modelled
    time package the `wt` condition on duration leaves - "a duration whose text the parser reads back" - holds for all
    durations, so the agreement theorems above apply to every duration value written as a string (and, for JSON and
    Cue, as integer nanoseconds). -/
theorem C13_every_duration_text_reads_back (E : Ext) (n : Int) (h1 : -(9223372036854775808 : Int) ≤ n)
    (h2 : n < 9223372036854775808) : (durExt E).parseDur ((durExt E).durText n) = some n := by
  simp only [durExt, String.toList_ofList]
  have hrt : Parse.parseDuration (Parse.fmtDuration n) = .ok n := by
    have h63 : Parse.two63 = 9223372036854775808 := rfl
    unfold Parse.fmtDuration
    by_cases hneg : n < 0
    · have := Parse.parseDuration_fmtNat n.natAbs (by omega) true (by simp)
      simp only [if_true] at this
      simp only [hneg, if_true, this]
      congr 1; omega
    · have := Parse.parseDuration_fmtNat n.natAbs (by omega) false (by intro _; omega)
      simp only [Bool.false_eq_true, if_false] at this
      simp only [hneg, if_false, this]
      congr 1; omega
  rw [hrt]

/-- ... hence a duration leaf is well-typed data in every format, whatever its value (formats that substitute the
    parsing type - JSON, Cue - need it inside int64, which every time.Duration is). -/
theorem C13_duration_leaf_wt (E : Ext) (fmt : Fmt) (n : Int) (h1 : -(9223372036854775808 : Int) ≤ n)
    (h2 : n < 9223372036854775808) :
    wt (durExt E) fmt (if fmt.subs then .pdur else .dur) (.dur n) = true := by
  have h := C13_every_duration_text_reads_back E n h1 h2
  cases hs : fmt.subs <;> simp [wt, hs, h, inInt64] <;> omega

/-! ### non-vacuity: the hypotheses of the agreement theorems are satisfiable in all four formats at once -/

example : ∀ f, supported f true exTy = true := by intro f; cases f <;> decide
example : ∀ f, wtData exExt f true exTy exVal = true := by intro f; cases f <;> decide
example : ∀ f g, decode f false true (refLib exExt f) exTy (render exExt f true (fun _ => f == .cue) exTy exVal)
    = decode g false true (refLib exExt g) exTy (render exExt g true (fun _ => g == .cue) exTy exVal) :=
  fun f g => C13_agree exExt (fun f => refLib exExt f) (fun f => C13_contract_inhabited exExt f) true
    (fun f _ => f == .cue) exTy exVal (by intro f; cases f <;> decide) (by intro f; cases f <;> decide) f g

end Dials.C13
