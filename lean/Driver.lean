/-
dialsdriver: one request per line on stdin, one reply per line on stdout.
Imports only DialsModel.Model.* and Gen.Facts (core Lean), so it links as a `lean_exe`.
-/
import DialsModel.Model.Proto
import DialsModel.Model.CaseConv
import DialsModel.Model.RuntimeIO
import DialsModel.Model.OverlayIO
import DialsModel.Model.HeapIO
import DialsModel.Model.ParseIO
import DialsModel.Model.TfIO
import DialsModel.Model.TotalIO
import DialsModel.Model.WrapIO
import DialsModel.Model.FlagSrcIO
import DialsModel.Model.DecodeIO
import DialsModel.Model.WatchIO
import DialsModel.Model.EzIO

open Dials Dials.Proto

def schemeOf : String → Option CaseConv.Scheme
  | "upperCamel" => some .upperCamel
  | "lowerCamel" => some .lowerCamel
  | "lowerSnake" => some .lowerSnake
  | "upperSnake" => some .upperSnake
  | "kebab" => some .kebab
  | "casePreservingSnake" => some .casePreservingSnake
  | _ => none

def replyWords : Option CaseConv.Words → String
  | some ws => "ok " ++ hexListEnc ws
  | none => "err"

def handleCC : List String → String
  | ["dec", sch, h] =>
    match hexDecode h with
    | none => "bad-op"
    | some s =>
      if !allAscii s then "ood" else
      match sch with
      | "goCamel" => replyWords (CaseConv.decodeGoCamel s)
      | "goTags" => replyWords (CaseConv.decodeGoTags s)
      | _ => match schemeOf sch with
        | some sc => replyWords (sc.decode s)
        | none => "bad-op"
  | ["enc", sch, h] =>
    match hexListDecode h, schemeOf sch with
    | some ws, some sc => if ws.all allAscii then "ok " ++ hexEnc (sc.encode ws) else "ood"
    | _, _ => "bad-op"
  | ["extract", h] =>
    match hexDecode h with
    | some s => if allAscii s then "ok " ++ hexListEnc (CaseConv.extractInitialisms s) else "ood"
    | none => "bad-op"
  | _ => "bad-op"

structure Session where
  rt : Option Runtime.State := none

def handle (ss : Session) (line : String) : Session × String :=
  match line.trimAscii.toString.splitOn " " with
  | "cc" :: rest => (ss, handleCC rest)
  | "ov" :: rest => (ss, Overlay.handleOv rest)
  | "hp" :: rest => (ss, Heap.handleHp rest)
  | "ps" :: rest => (ss, Parse.handlePs rest)
  | "tf" :: rest => (ss, Tf.handleTf rest)
  | "c16" :: rest => (ss, Tf.handleC16 rest)
  | "wr" :: rest => (ss, Wrap.handleWr rest)
  | "bk" :: rest => (ss, Wrap.handleBk rest)
  | "fs" :: rest => (ss, FlagSrc.handleFs rest)
  | "dc" :: rest => (ss, Decode.handleDc rest)
  | "wt" :: rest => (ss, Watch.handleWt rest)
  | "ez" :: rest => (ss, Ez.handleEz rest)
  | "rt" :: rest =>
    let (st, out) := Runtime.handleRt ss.rt rest
    ({ ss with rt := st }, (out.replace "\n" " "))
  | _ => (ss, "bad-op")

partial def loop (h : IO.FS.Stream) (out : IO.FS.Stream) (ss : Session) : IO Unit := do
  let line ← h.getLine
  if line.isEmpty then return ()
  let (ss', rep) := handle ss line
  out.putStrLn rep
  out.flush
  loop h out ss'

def main : IO Unit := do loop (← IO.getStdin) (← IO.getStdout) {}
