package main

// C10, deterministic boundary stream for the string-casting mangler: every numeric leaf kind, filled with the canonical
// texts of the extremes of its range (and, for float32, a text a hair above the midpoint of two adjacent values): the
// conversion back must succeed and restore exactly that value; the text one step outside the range must be an error.
// These are the inputs a random filling meets only now and then; here they are met on every run.

import (
	"context"
	"fmt"
	"math"
	"os"
	"reflect"
	"strconv"
	"strings"

	"github.com/vimeo/dials"
	"github.com/vimeo/dials/sources/env"
	"github.com/vimeo/dials/tagformat/caseconversion"

	"github.com/vimeo/dials/ptrify"
	"github.com/vimeo/dials/transform"
)

type c10BCfg struct {
	F32  float32
	F64  float64
	C64  complex64
	I8   int8
	I16  int16
	I32  int32
	I64  int64
	U8   uint8
	U16  uint16
	U32  uint32
	U64  uint64
	F32s []float32
	MF32 map[string]float32
}

type c10BCase struct {
	field, text string
	want        any // nil: must be an error
}

func c10BoundaryCases() []c10BCase {
	type tc = c10BCase
	max32 := strconv.FormatFloat(math.MaxFloat32, 'g', -1, 32)
	small32 := strconv.FormatFloat(math.SmallestNonzeroFloat32, 'g', -1, 32)
	max64 := strconv.FormatFloat(math.MaxFloat64, 'g', -1, 64)
	mid := "1.000000059604644775390625000000000000000001" // just above the midpoint of 1 and the next float32
	next := math.Float32frombits(0x3f800001)
	cases := []tc{
		{"F32", max32, float32(math.MaxFloat32)}, {"F32", "-" + max32, float32(-math.MaxFloat32)}, {"F32", small32, float32(math.SmallestNonzeroFloat32)},
		{"F32", mid, next}, {"F32", "3.5e38", nil}, {"F32", "1e39", nil},
		{"F64", max64, float64(math.MaxFloat64)}, {"F64", "1e309", nil},
		{"C64", "(" + max32 + "-" + max32 + "i)", complex64(complex(float32(math.MaxFloat32), float32(-math.MaxFloat32)))}, {"C64", "(1e39+1i)", nil},
		{"I8", "127", int8(127)}, {"I8", "-128", int8(-128)}, {"I8", "128", nil}, {"I8", "-129", nil},
		{"I16", "32767", int16(32767)}, {"I16", "-32768", int16(-32768)}, {"I16", "32768", nil},
		{"I32", "2147483647", int32(math.MaxInt32)}, {"I32", "-2147483648", int32(math.MinInt32)}, {"I32", "2147483648", nil},
		{"I64", "9223372036854775807", int64(math.MaxInt64)}, {"I64", "-9223372036854775808", int64(math.MinInt64)}, {"I64", "9223372036854775808", nil},
		{"U8", "255", uint8(255)}, {"U8", "256", nil}, {"U8", "-1", nil},
		{"U16", "65535", uint16(65535)}, {"U16", "65536", nil},
		{"U32", "4294967295", uint32(math.MaxUint32)}, {"U32", "4294967296", nil},
		{"U64", "18446744073709551615", uint64(math.MaxUint64)}, {"U64", "18446744073709551616", nil},
		{"F32s", max32 + ",-" + max32 + "," + mid, []float32{math.MaxFloat32, -math.MaxFloat32, next}}, {"F32s", "1,3.5e38", nil},
		{"MF32", "a:" + max32 + ",b:" + mid, map[string]float32{"a": math.MaxFloat32, "b": next}}, {"MF32", "a:1e39", nil},
	}
	return cases
}

func c10Boundaries(c *Ctx) {
	res := c.Res
	pt := ptrify.Pointerify(reflect.TypeOf(c10BCfg{}), reflect.ValueOf(c10BCfg{}))
	for _, k := range c10BoundaryCases() {
		cs := map[string]any{"stream": "string-cast boundaries", "leaf": k.field, "text": k.text}
		tf := transform.NewTransformer(pt, &transform.StringCastingMangler{})
		var out reflect.Value
		var err error
		pn := catch(func() {
			var val reflect.Value
			val, err = tf.Translate()
			if err != nil {
				return
			}
			f := val.FieldByName(k.field)
			txt := k.text
			f.Set(reflect.ValueOf(&txt))
			out, err = tf.ReverseTranslate(val)
		})
		res.Count("bounds/" + k.field)
		switch {
		case pn != "":
			res.Add(Finding{Kind: "violation", What: "string-cast round trip panicked: " + pn, Case: cs})
		case k.want == nil:
			if err == nil {
				res.Add(Finding{Kind: "violation", What: "a text outside the leaf type's range was converted back without an error", Case: cs, Observed: fmt.Sprint(out.FieldByName(k.field).Interface())})
			}
		case err != nil:
			res.Add(Finding{Kind: "violation", What: "the canonical text of a value at the end of the leaf type's range was filled in, but ReverseTranslate failed: " + err.Error(), Case: cs})
		default:
			got := out.FieldByName(k.field)
			for got.Kind() == reflect.Ptr && !got.IsNil() {
				got = got.Elem()
			}
			if got.Kind() == reflect.Ptr || !reflect.DeepEqual(got.Interface(), k.want) {
				res.Add(Finding{Kind: "violation", What: "a string-cast field was filled with a valid text, but the original leaf holds a different value after ReverseTranslate", Case: cs, Expected: fmt.Sprint(k.want), Observed: fmt.Sprint(got)})
			}
		}
		res.Case("B|"+k.field+"|"+k.text, k.want != nil, cs)
	}
}

// c11Boundaries: the same table through the environment source (variable name = upper-cased field name)
func c11Boundaries(c *Ctx) {
	res := c.Res
	pt := ptrify.Pointerify(reflect.TypeOf(c10BCfg{}), reflect.ValueOf(c10BCfg{}))
	for _, k := range c10BoundaryCases() {
		name := "C11B_" + strings.ToUpper(k.field)
		cs := map[string]any{"stream": "environment value boundaries", "variable": name, "value": k.text}
		os.Setenv(name, k.text)
		var out reflect.Value
		var err error
		pn := catch(func() { out, err = (&env.Source{Prefix: "C11B"}).Value(context.Background(), dials.NewType(pt)) })
		os.Unsetenv(name)
		res.Count("bounds/" + k.field)
		switch {
		case pn != "":
			res.Add(Finding{Kind: "violation", What: "env source panicked: " + pn, Case: cs})
		case k.want == nil:
			if err == nil {
				res.Add(Finding{Kind: "violation", What: "an out-of-range variable did not make the env source fail", Case: cs, Observed: fmt.Sprint(out.FieldByName(k.field).Interface())})
			}
		case err != nil:
			res.Add(Finding{Kind: "violation", What: "env source failed although the variable holds the canonical text of a value of the leaf's type: " + err.Error(), Case: cs})
		default:
			got := out.FieldByName(k.field)
			for got.Kind() == reflect.Ptr && !got.IsNil() {
				got = got.Elem()
			}
			if got.Kind() == reflect.Ptr || !reflect.DeepEqual(got.Interface(), k.want) {
				res.Add(Finding{Kind: "violation", What: "leaf " + k.field + ": the parsed value differs from the value the variable's text stands for", Case: cs, Expected: fmt.Sprint(k.want), Observed: fmt.Sprint(got)})
			}
		}
		res.Case("B|"+k.field+"|"+k.text, k.want != nil, cs)
	}
}

// ---------- a leaf without a name ----------
//
// `dialsenv:""` (or a `dials` tag without a word) leaves a leaf with no documented variable: no variable may set it,
// with or without a prefix - in particular not the variable that is the prefix plus the joining underscore.  The
// unchanged code refuses such a type with an error; either answer is fine, a leaf filled from nobody's name is not.

type c11NCfg struct {
	Token string `dialsenv:""`
	Port  int
}

type c11NCfg2 struct {
	Secret string `dials:"_"`
	Port   int
}

func c11Nameless(c *Ctx) {
	res := c.Res
	for _, pfx := range []string{"", "C11N", "X"} {
		for ti, T := range []reflect.Type{reflect.TypeOf(c11NCfg{}), reflect.TypeOf(c11NCfg2{})} {
			pt := ptrify.Pointerify(T, reflect.New(T).Elem())
			vars := map[string]string{"PORT": "1", pfx + "_PORT": "2", pfx + "_": "leaked", "_": "leaked", pfx: "leaked", pfx + "__": "leaked", "SECRET": "not-its-name", pfx + "_SECRET": "not-its-name", "TOKEN": "not-its-name", pfx + "_TOKEN": "not-its-name"}
			for k, v := range vars {
				if k != "" && !strings.Contains(k, "=") {
					os.Setenv(k, v)
				}
			}
			cs := map[string]any{"stream": "a leaf without a name", "type": T.String(), "prefix": pfx, "env": vars}
			var out reflect.Value
			var err error
			pn := catch(func() { out, err = (&env.Source{Prefix: pfx}).Value(context.Background(), dials.NewType(pt)) })
			for k := range vars {
				if k != "" {
					os.Unsetenv(k)
				}
			}
			res.Count("nameless/" + map[bool]string{true: "error", false: "ok"}[err != nil])
			switch {
			case pn != "":
				res.Add(Finding{Kind: "violation", What: "env source panicked: " + pn, Case: cs})
			case err == nil:
				// accepted: then the nameless leaf is unset
				if txt := fmt.Sprintf("%+v", reflect.Indirect(out).Interface()); c11HasLeak(out) {
					res.Add(Finding{Kind: "violation", What: "a leaf that has no documented variable was set from the environment", Case: cs, Observed: txt})
				}
			}
			res.Case(fmt.Sprintf("N|%s|%d", pfx, ti), pfx != "", cs)
		}
	}
}

func c11HasLeak(v reflect.Value) bool {
	switch v.Kind() {
	case reflect.Ptr:
		return !v.IsNil() && c11HasLeak(v.Elem())
	case reflect.Struct:
		for i := 0; i < v.NumField(); i++ {
			if c11HasLeak(v.Field(i)) {
				return true
			}
		}
	case reflect.String:
		return v.String() == "leaked" || v.String() == "not-its-name"
	}
	return false
}

// ---------- names and texts at the byte level ----------
//
// Exported field names whose first letter takes two, three or four bytes of UTF-8 survive every chain like ASCII ones,
// and a string leaf comes back byte for byte - leading / trailing white space (ASCII and Unicode), a lone space, CR LF.

type c10UCfg struct {
	Name    string
	Élan    string
	Ṫimeout int
	Ấlpha   string
	Ａside   *string
	Ꭰone    bool
	Ṡet     map[string]struct{}
}

func c10Unicode(c *Ctx) {
	res := c.Res
	pt := ptrify.Pointerify(reflect.TypeOf(c10UCfg{}), reflect.ValueOf(c10UCfg{}))
	texts := []string{"two lines\nthe second ends in a newline\n", "\tkey: value", "東京　", "a ", " ", "\r\n", "plain", "\u0085x\u0085"}
	chains := map[string][]transform.Mangler{
		"alias+setslice":        {transform.NewAliasMangler("dials"), &transform.SetSliceMangler{}},
		"stringcast":            {&transform.StringCastingMangler{}},
		"alias+flatten":         {transform.NewAliasMangler("dials", "dialsenv"), transform.NewFlattenMangler("dials", caseconversion.EncodeUpperCamelCase, caseconversion.EncodeCasePreservingSnakeCase)},
		"anon+text-unmarshaler": {transform.AnonymousFlattenMangler{}, &transform.TextUnmarshalerMangler{}},
	}
	for name, chain := range chains {
		for ti, text := range texts {
			cs := map[string]any{"stream": "unicode names / byte-exact strings", "chain": name, "text": text}
			tf := transform.NewTransformer(pt, chain...)
			var out reflect.Value
			var err error
			var nTranslated int
			pn := catch(func() {
				var val reflect.Value
				val, err = tf.Translate()
				if err != nil {
					return
				}
				nTranslated = val.NumField()
				// fill every string-ish translated field with the text, ints / bools where they kept their type
				for k := 0; k < val.NumField(); k++ {
					f := val.Field(k)
					if f.Kind() != reflect.Ptr {
						continue
					}
					switch f.Type().Elem().Kind() {
					case reflect.String:
						fname := val.Type().Field(k).Name
						t := text
						if strings.Contains(fname, "imeout") {
							t = "42"
						} else if strings.HasPrefix(fname, "Ꭰ") {
							t = "true"
						} else if strings.HasPrefix(fname, "Ṡ") {
							t = "a,b"
						}
						f.Set(reflect.ValueOf(&t))
					case reflect.Int:
						x := 42
						f.Set(reflect.ValueOf(&x))
					case reflect.Bool:
						b := true
						f.Set(reflect.ValueOf(&b))
					case reflect.Ptr:
						t := text
						p := &t
						f.Set(reflect.ValueOf(&p))
					}
				}
				out, err = tf.ReverseTranslate(val)
			})
			res.Count("unicode/" + name)
			switch {
			case pn != "":
				res.Add(Finding{Kind: "violation", What: "translate / reverse panicked: " + pn, Case: cs})
			case err != nil:
				res.Add(Finding{Kind: "violation", What: "translate / reverse failed on a type with non-ASCII exported field names: " + err.Error(), Case: cs})
			case nTranslated < 7:
				res.Add(Finding{Kind: "violation", What: fmt.Sprintf("the translated type has %d fields for 7 exported leaves: an exported field with a non-ASCII initial was dropped", nTranslated), Case: cs})
			default:
				get := func(n string) reflect.Value {
					f := out.FieldByName(n)
					for f.Kind() == reflect.Ptr && !f.IsNil() {
						f = f.Elem()
					}
					return f
				}
				for _, n := range []string{"Name", "Élan", "Ấlpha", "Ａside"} {
					f := get(n)
					if f.Kind() != reflect.String || f.String() != text {
						res.Add(Finding{Kind: "violation", What: fmt.Sprintf("string leaf %s: wrote %q into its translated field, ReverseTranslate returned %v", n, text, f), Case: cs})
						break
					}
				}
				if f := get("Ṫimeout"); f.Kind() != reflect.Int || f.Int() != 42 {
					res.Add(Finding{Kind: "violation", What: fmt.Sprintf("leaf Ṫimeout: wrote 42, got %v", f), Case: cs})
				}
				if f := get("Ꭰone"); f.Kind() != reflect.Bool || !f.Bool() {
					res.Add(Finding{Kind: "violation", What: fmt.Sprintf("leaf Ꭰone: wrote true, got %v", f), Case: cs})
				}
			}
			res.Case(fmt.Sprintf("U|%s|%d", name, ti), true, cs)
		}
	}
}
