package main

// C10, text-unmarshalable CONTAINER types: a named slice or array of plain structs that implements UnmarshalText as a
// whole (`type Endpoints []Endpoint`, written "alpha:1,beta:22").  To every mangler such a field is one leaf: recursing
// manglers must not look inside (they would rebuild it as an unnamed []struct{...}, which has lost the method), its
// translated type is the original type - or *string behind the text-unmarshaler mangler -, and what is written into
// the translated field comes back as the original leaf.  Oracle only.

import (
	"fmt"
	"reflect"
	"strconv"
	"strings"
	"time"

	"github.com/vimeo/dials/ptrify"
	"github.com/vimeo/dials/tagformat"
	"github.com/vimeo/dials/tagformat/caseconversion"
	"github.com/vimeo/dials/transform"
)

type c10Endpoint struct {
	Host string
	Port int
}

type c10Endpoints []c10Endpoint

func (e *c10Endpoints) UnmarshalText(b []byte) error {
	var out c10Endpoints
	for _, p := range strings.Split(string(b), ",") {
		hp := strings.SplitN(p, ":", 2)
		if len(hp) != 2 {
			return fmt.Errorf("c10Endpoints: %q is not host:port", p)
		}
		n, err := strconv.Atoi(hp[1])
		if err != nil {
			return err
		}
		out = append(out, c10Endpoint{hp[0], n})
	}
	*e = out
	return nil
}

type c10Pair [2]c10Endpoint

func (p *c10Pair) UnmarshalText(b []byte) error {
	var e c10Endpoints
	if err := e.UnmarshalText(b); err != nil {
		return err
	}
	if len(e) != 2 {
		return fmt.Errorf("c10Pair: want two endpoints")
	}
	p[0], p[1] = e[0], e[1]
	return nil
}

type c10OSection struct {
	Mirrors c10Endpoints `dials:"mirrors"`
	Level   int
}

type c10OCfg struct {
	Name     string
	Backends c10Endpoints `dials:"backends" dialsalias:"servers"`
	Primary  c10Pair
	Section  c10OSection
	Opt      *c10Endpoints
	// a slice whose ELEMENT type is text-unmarshalable through its pointer (time.Time): one leaf as well
	Holidays []time.Time
}

// an embedded POINTER to a struct with an interface-typed field: nothing filled = the pointer stays nil
type C10ECommon struct {
	Region string
	Extra  interface{}
	Weight int
}

type c10ECfg struct {
	*C10ECommon
	Port int
}

func c10OpaqueContainers(c *Ctx) {
	res := c.Res
	r := c.RNG
	pt := ptrify.Pointerify(reflect.TypeOf(c10OCfg{}), reflect.ValueOf(c10OCfg{}))
	chains := map[string][]transform.Mangler{
		"tagcopy":           {&tagformat.TagCopyingMangler{SrcTag: "dials", NewTag: "json"}},
		"alias":             {transform.NewAliasMangler("dials")},
		"setslice":          {&transform.SetSliceMangler{}},
		"reformat":          {tagformat.NewTagReformattingMangler("dials", caseconversion.DecodeGoTags, caseconversion.EncodeLowerSnakeCase)},
		"alias+tagcopy":     {transform.NewAliasMangler("dials"), &tagformat.TagCopyingMangler{SrcTag: "dials", NewTag: "yaml"}},
		"anon+setslice":     {transform.AnonymousFlattenMangler{}, &transform.SetSliceMangler{}},
		"text-unmarshaler":  {&transform.TextUnmarshalerMangler{}},
		"alias+text-unmars": {transform.NewAliasMangler("dials"), &transform.TextUnmarshalerMangler{}},
	}
	epType, pairType, timesType := reflect.TypeOf(c10Endpoints(nil)), reflect.TypeOf(c10Pair{}), reflect.TypeOf([]time.Time(nil))
	days := []time.Time{time.Date(2024, 12, 25, 0, 0, 0, 0, time.UTC), time.Date(2025, 1, 1, 0, 0, 0, 0, time.UTC)}
	for name, chain := range chains {
		for rep := 0; rep < 6; rep++ {
			a, b := 1+r.Intn(60000), 1+r.Intn(60000)
			text := fmt.Sprintf("alpha:%d,beta:%d", a, b)
			want := c10Endpoints{{"alpha", a}, {"beta", b}}
			cs := map[string]any{"stream": "text-unmarshalable container types", "chain": name, "text": text}
			textual := strings.Contains(name, "text-unmars")
			tf := transform.NewTransformer(pt, chain...)
			var out reflect.Value
			var err error
			var shape []string
			pn := catch(func() {
				var val reflect.Value
				val, err = tf.Translate()
				if err != nil {
					return
				}
				// walk the translated value; fill every field that stands for one of the container leaves
				var fill func(v reflect.Value, path string)
				fill = func(v reflect.Value, path string) {
					for k := 0; k < v.NumField(); k++ {
						f, sf := v.Field(k), v.Type().Field(k)
						ft := sf.Type
						base := ft
						for base.Kind() == reflect.Ptr {
							base = base.Elem()
						}
						isLeafName := strings.Contains(sf.Name, "Backends") || strings.Contains(sf.Name, "Primary") || strings.Contains(sf.Name, "Mirrors") || strings.Contains(sf.Name, "Opt") || strings.Contains(sf.Name, "Holidays")
						switch {
						case isLeafName:
							shape = append(shape, path+sf.Name+" "+ft.String())
							if strings.Contains(sf.Name, "Backends") && strings.Contains(string(sf.Tag), `dials:"servers"`) {
								continue // the alias copy stays unset
							}
							switch {
							case base == timesType:
								f.Set(reflect.ValueOf(append([]time.Time(nil), days...)))
							case strings.Contains(sf.Name, "Holidays"):
								// (translated into something else: nothing sensible can be written; the shape check reports it)
							case textual && base.Kind() == reflect.String:
								t := text
								f.Set(reflect.ValueOf(&t))
							case base == epType:
								w := append(c10Endpoints(nil), want...)
								if ft.Kind() == reflect.Ptr {
									f.Set(reflect.ValueOf(&w))
								} else {
									f.Set(reflect.ValueOf(w))
								}
							case base == pairType:
								p := c10Pair{want[0], want[1]}
								f.Set(reflect.ValueOf(&p))
							}
						case base.Kind() == reflect.Struct && ft.Kind() == reflect.Ptr:
							n := reflect.New(base)
							fill(n.Elem(), path+sf.Name+".")
							f.Set(n)
						}
					}
				}
				fill(val, "")
				out, err = tf.ReverseTranslate(val)
			})
			res.Count("opaque/" + name)
			switch {
			case pn != "":
				res.Add(Finding{Kind: "violation", What: "translate / reverse panicked: " + pn, Case: cs})
			case err != nil:
				res.Add(Finding{Kind: "violation", What: "translate / reverse failed: " + err.Error(), Case: cs})
			default:
				for _, s := range shape {
					ok := strings.HasSuffix(s, "main.c10Endpoints") || strings.HasSuffix(s, "main.c10Pair") || strings.HasSuffix(s, "[]time.Time") || (textual && strings.HasSuffix(s, "*string") && !strings.Contains(s, "Holidays"))
					if !ok {
						res.Add(Finding{Kind: "violation", What: "a text-unmarshalable container leaf was translated into another type (a mangler recursed into it: the unnamed copy has lost UnmarshalText)", Case: cs, Observed: s})
						break
					}
				}
				o := out.Interface().(interface{})
				_ = o
				got := out
				for got.Kind() == reflect.Ptr {
					got = got.Elem()
				}
				chk := func(what string, v reflect.Value, wantV any) {
					for v.Kind() == reflect.Ptr {
						if v.IsNil() {
							res.Add(Finding{Kind: "violation", What: "leaf " + what + " is unset after ReverseTranslate although its translated field was filled", Case: cs})
							return
						}
						v = v.Elem()
					}
					if !reflect.DeepEqual(v.Interface(), wantV) {
						res.Add(Finding{Kind: "violation", What: "leaf " + what + " does not hold the value written to its translated field", Case: cs, Expected: fmt.Sprint(wantV), Observed: fmt.Sprint(v.Interface())})
					}
				}
				chk("Backends", got.FieldByName("Backends"), want)
				chk("Primary", got.FieldByName("Primary"), c10Pair{want[0], want[1]})
				chk("Opt", got.FieldByName("Opt"), want)
				chk("Holidays", got.FieldByName("Holidays"), days)
				sec := got.FieldByName("Section")
				for sec.Kind() == reflect.Ptr && !sec.IsNil() {
					sec = sec.Elem()
				}
				if sec.Kind() == reflect.Struct {
					chk("Section.Mirrors", sec.FieldByName("Mirrors"), want)
				} else {
					res.Add(Finding{Kind: "violation", What: "Section is unset after ReverseTranslate although Section.Mirrors was filled", Case: cs})
				}
			}
			res.Case(fmt.Sprintf("opaque|%s|%s", name, text), true, cs)
		}
	}
	// anonymous-flatten over an embedded pointer to a struct with an interface-typed field
	ept := ptrify.Pointerify(reflect.TypeOf(c10ECfg{}), reflect.ValueOf(c10ECfg{}))
	for _, fillPort := range []bool{false, true} {
		for name, chain := range map[string][]transform.Mangler{"anon": {transform.AnonymousFlattenMangler{}}, "anon+setslice": {transform.AnonymousFlattenMangler{}, &transform.SetSliceMangler{}}} {
			cs := map[string]any{"stream": "embedded pointer to a struct with an interface-typed field", "chain": name, "only_Port_filled": fillPort}
			tf := transform.NewTransformer(ept, chain...)
			var out reflect.Value
			var err error
			pn := catch(func() {
				var val reflect.Value
				if val, err = tf.Translate(); err != nil {
					return
				}
				if fillPort {
					if f := val.FieldByName("Port"); f.IsValid() && f.Kind() == reflect.Ptr {
						x := 8080
						f.Set(reflect.ValueOf(&x))
					}
				}
				out, err = tf.ReverseTranslate(val)
			})
			switch {
			case pn != "":
				res.Add(Finding{Kind: "violation", What: "translate / reverse panicked: " + pn, Case: cs})
			case err != nil:
				res.Add(Finding{Kind: "violation", What: "translate / reverse failed: " + err.Error(), Case: cs})
			default:
				for out.Kind() == reflect.Ptr {
					out = out.Elem()
				}
				emb := out.FieldByName("C10ECommon")
				if !emb.IsValid() {
					res.Add(Finding{Kind: "violation", What: "the embedded struct is missing from the reversed value", Case: cs, Observed: out.Type().String()})
				} else if emb.Kind() == reflect.Ptr && !emb.IsNil() {
					res.Add(Finding{Kind: "violation", What: "no field of the embedded struct was filled, yet it reverses to a non-nil pointer: a source that found nothing would clobber lower layers", Case: cs, Observed: fmt.Sprintf("%+v", emb.Elem().Interface())})
				}
			}
			res.Case(fmt.Sprintf("opaque-embedded|%s|%v", name, fillPort), true, cs)
		}
	}
}
