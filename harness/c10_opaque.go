package main

// C10, text-unmarshalable CONTAINER types: a named slice or array of plain structs that implements UnmarshalText as a
// whole (`type Endpoints []Endpoint`, written "alpha:1,beta:22").  To every mangler such a field is one leaf: recursing
// manglers must not look inside (they would rebuild it as an unnamed []struct{...}, which has lost the method), its
// translated type is the original type - or *string behind the text-unmarshaler mangler -, and what is written into
// the translated field comes back as the original leaf.  Oracle only.

import (
	"fmt"
	"reflect"
	"strconv"
	"strings"

	"github.com/vimeo/dials/ptrify"
	"github.com/vimeo/dials/tagformat"
	"github.com/vimeo/dials/tagformat/caseconversion"
	"github.com/vimeo/dials/transform"
)

type c10Endpoint struct {
	Host string
	Port int
}

type c10Endpoints []c10Endpoint

func (e *c10Endpoints) UnmarshalText(b []byte) error {
	var out c10Endpoints
	for _, p := range strings.Split(string(b), ",") {
		hp := strings.SplitN(p, ":", 2)
		if len(hp) != 2 {
			return fmt.Errorf("c10Endpoints: %q is not host:port", p)
		}
		n, err := strconv.Atoi(hp[1])
		if err != nil {
			return err
		}
		out = append(out, c10Endpoint{hp[0], n})
	}
	*e = out
	return nil
}

type c10Pair [2]c10Endpoint

func (p *c10Pair) UnmarshalText(b []byte) error {
	var e c10Endpoints
	if err := e.UnmarshalText(b); err != nil {
		return err
	}
	if len(e) != 2 {
		return fmt.Errorf("c10Pair: want two endpoints")
	}
	p[0], p[1] = e[0], e[1]
	return nil
}

type c10OSection struct {
	Mirrors c10Endpoints `dials:"mirrors"`
	Level   int
}

type c10OCfg struct {
	Name     string
	Backends c10Endpoints `dials:"backends" dialsalias:"servers"`
	Primary  c10Pair
	Section  c10OSection
	Opt      *c10Endpoints
}

func c10OpaqueContainers(c *Ctx) {
	res := c.Res
	r := c.RNG
	pt := ptrify.Pointerify(reflect.TypeOf(c10OCfg{}), reflect.ValueOf(c10OCfg{}))
	chains := map[string][]transform.Mangler{
		"tagcopy":           {&tagformat.TagCopyingMangler{SrcTag: "dials", NewTag: "json"}},
		"alias":             {transform.NewAliasMangler("dials")},
		"setslice":          {&transform.SetSliceMangler{}},
		"reformat":          {tagformat.NewTagReformattingMangler("dials", caseconversion.DecodeGoTags, caseconversion.EncodeLowerSnakeCase)},
		"alias+tagcopy":     {transform.NewAliasMangler("dials"), &tagformat.TagCopyingMangler{SrcTag: "dials", NewTag: "yaml"}},
		"anon+setslice":     {transform.AnonymousFlattenMangler{}, &transform.SetSliceMangler{}},
		"text-unmarshaler":  {&transform.TextUnmarshalerMangler{}},
		"alias+text-unmars": {transform.NewAliasMangler("dials"), &transform.TextUnmarshalerMangler{}},
	}
	epType, pairType := reflect.TypeOf(c10Endpoints(nil)), reflect.TypeOf(c10Pair{})
	for name, chain := range chains {
		for rep := 0; rep < 6; rep++ {
			a, b := 1+r.Intn(60000), 1+r.Intn(60000)
			text := fmt.Sprintf("alpha:%d,beta:%d", a, b)
			want := c10Endpoints{{"alpha", a}, {"beta", b}}
			cs := map[string]any{"stream": "text-unmarshalable container types", "chain": name, "text": text}
			textual := strings.Contains(name, "text-unmars")
			tf := transform.NewTransformer(pt, chain...)
			var out reflect.Value
			var err error
			var shape []string
			pn := catch(func() {
				var val reflect.Value
				val, err = tf.Translate()
				if err != nil {
					return
				}
				// walk the translated value; fill every field that stands for one of the container leaves
				var fill func(v reflect.Value, path string)
				fill = func(v reflect.Value, path string) {
					for k := 0; k < v.NumField(); k++ {
						f, sf := v.Field(k), v.Type().Field(k)
						ft := sf.Type
						base := ft
						for base.Kind() == reflect.Ptr {
							base = base.Elem()
						}
						isLeafName := strings.Contains(sf.Name, "Backends") || strings.Contains(sf.Name, "Primary") || strings.Contains(sf.Name, "Mirrors") || strings.Contains(sf.Name, "Opt")
						switch {
						case isLeafName:
							shape = append(shape, path+sf.Name+" "+ft.String())
							if strings.Contains(sf.Name, "Backends") && strings.Contains(string(sf.Tag), `dials:"servers"`) {
								continue // the alias copy stays unset
							}
							switch {
							case textual && base.Kind() == reflect.String:
								t := text
								f.Set(reflect.ValueOf(&t))
							case base == epType:
								w := append(c10Endpoints(nil), want...)
								if ft.Kind() == reflect.Ptr {
									f.Set(reflect.ValueOf(&w))
								} else {
									f.Set(reflect.ValueOf(w))
								}
							case base == pairType:
								p := c10Pair{want[0], want[1]}
								f.Set(reflect.ValueOf(&p))
							}
						case base.Kind() == reflect.Struct && ft.Kind() == reflect.Ptr:
							n := reflect.New(base)
							fill(n.Elem(), path+sf.Name+".")
							f.Set(n)
						}
					}
				}
				fill(val, "")
				out, err = tf.ReverseTranslate(val)
			})
			res.Count("opaque/" + name)
			switch {
			case pn != "":
				res.Add(Finding{Kind: "violation", What: "translate / reverse panicked: " + pn, Case: cs})
			case err != nil:
				res.Add(Finding{Kind: "violation", What: "translate / reverse failed: " + err.Error(), Case: cs})
			default:
				for _, s := range shape {
					ok := strings.HasSuffix(s, "main.c10Endpoints") || strings.HasSuffix(s, "main.c10Pair") || (textual && strings.HasSuffix(s, "*string"))
					if !ok {
						res.Add(Finding{Kind: "violation", What: "a text-unmarshalable container leaf was translated into another type (a mangler recursed into it: the unnamed copy has lost UnmarshalText)", Case: cs, Observed: s})
						break
					}
				}
				o := out.Interface().(interface{})
				_ = o
				got := out
				for got.Kind() == reflect.Ptr {
					got = got.Elem()
				}
				chk := func(what string, v reflect.Value, wantV any) {
					for v.Kind() == reflect.Ptr {
						if v.IsNil() {
							res.Add(Finding{Kind: "violation", What: "leaf " + what + " is unset after ReverseTranslate although its translated field was filled", Case: cs})
							return
						}
						v = v.Elem()
					}
					if !reflect.DeepEqual(v.Interface(), wantV) {
						res.Add(Finding{Kind: "violation", What: "leaf " + what + " does not hold the value written to its translated field", Case: cs, Expected: fmt.Sprint(wantV), Observed: fmt.Sprint(v.Interface())})
					}
				}
				chk("Backends", got.FieldByName("Backends"), want)
				chk("Primary", got.FieldByName("Primary"), c10Pair{want[0], want[1]})
				chk("Opt", got.FieldByName("Opt"), want)
				sec := got.FieldByName("Section")
				for sec.Kind() == reflect.Ptr && !sec.IsNil() {
					sec = sec.Elem()
				}
				if sec.Kind() == reflect.Struct {
					chk("Section.Mirrors", sec.FieldByName("Mirrors"), want)
				} else {
					res.Add(Finding{Kind: "violation", What: "Section is unset after ReverseTranslate although Section.Mirrors was filled", Case: cs})
				}
			}
			res.Case(fmt.Sprintf("opaque|%s|%s", name, text), true, cs)
		}
	}
}
