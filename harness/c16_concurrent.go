package main

// C16, stream "concurrent": the decoders (and the manglers they share at package level) are used by several goroutines
// at once, each with a config type nobody has seen before - a Dials per goroutine, as independent parts of a program
// would have.  Nothing may panic; a fatal runtime error (concurrent map writes) kills this worker process, which the
// parent reports with the replay command.

import (
	"fmt"
	"reflect"
	"strings"
	"sync"
	"time"

	"github.com/vimeo/dials"
	"github.com/vimeo/dials/ptrify"
	cuedec "github.com/vimeo/dials/decoders/cue"
	jsondec "github.com/vimeo/dials/decoders/json"
	tomldec "github.com/vimeo/dials/decoders/toml"
	yamldec "github.com/vimeo/dials/decoders/yaml"
)

func (w *c16Worker) concurrentDecoders(round int) {
	const G = 16
	durT := reflect.TypeOf(time.Duration(0))
	var wg sync.WaitGroup
	var mu sync.Mutex
	start := make(chan struct{})
	for g := 0; g < G; g++ {
		// a type of its own: the array length and the field names make it new to every cache
		n := 1 + (round*G+g)%41
		T := reflect.StructOf([]reflect.StructField{
			{Name: fmt.Sprintf("Wait%d", n), Type: durT, Tag: reflect.StructTag(`dials:"wait"`)},
			{Name: fmt.Sprintf("Steps%d", n), Type: reflect.ArrayOf(n, durT), Tag: reflect.StructTag(`dials:"steps"`)},
			{Name: "Limits", Type: reflect.MapOf(reflect.TypeOf(""), durT), Tag: reflect.StructTag(`dials:"limits"`)},
			{Name: "Tags", Type: reflect.TypeOf(map[string]struct{}{}), Tag: reflect.StructTag(`dials:"tags"`)},
			{Name: "Backoff", Type: reflect.SliceOf(durT), Tag: reflect.StructTag(`dials:"backoff"`)},
		})
		steps := make([]string, n)
		for k := range steps {
			steps[k] = fmt.Sprintf(`"%dms"`, k+1)
		}
		dec := g % 4
		var doc string
		var decoder dials.Decoder
		switch dec {
		case 0:
			decoder, doc = &jsondec.Decoder{}, fmt.Sprintf(`{"wait":"%ds","steps":[%s],"limits":{"a":"1s"},"backoff":["1s","2s"]}`, n, strings.Join(steps, ","))
		case 1:
			decoder, doc = &cuedec.Decoder{}, fmt.Sprintf(`{"wait":"%ds","steps":[%s],"limits":{"a":"1s"},"backoff":["1s","2s"]}`, n, strings.Join(steps, ","))
		case 2:
			decoder, doc = &yamldec.Decoder{}, fmt.Sprintf("wait: %ds\nsteps: [%s]\nlimits: {a: 1s}\nbackoff: [1s, 2s]\n", n, strings.Join(steps, ","))
		default:
			decoder, doc = &tomldec.Decoder{}, fmt.Sprintf("wait = \"%ds\"\nsteps = [%s]\nbackoff = [\"1s\", \"2s\"]\n[limits]\na = \"1s\"\n", n, strings.Join(steps, ","))
		}
		wg.Add(1)
		go func(g int) {
			defer wg.Done()
			<-start
			cs := map[string]any{"stream": "concurrent decoders", "round": round, "goroutine": g, "decoder": []string{"json", "cue", "yaml", "toml"}[dec], "array_len": n}
			var err error
			var wait time.Duration
			pn := catch(func() {
				v, derr := decoder.Decode(strings.NewReader(doc), dials.NewType(ptrify.Pointerify(T, reflect.New(T).Elem())))
				err = derr
				if derr == nil {
					for v.Kind() == reflect.Ptr {
						v = v.Elem()
					}
					if f := v.Field(0); f.Kind() == reflect.Ptr && !f.IsNil() {
						wait = time.Duration(f.Elem().Int())
					}
				}
			})
			mu.Lock()
			defer mu.Unlock()
			w.count("concurrent/" + cs["decoder"].(string))
			switch {
			case pn != "":
				w.add(Finding{Kind: "violation", What: "a decoder panicked when several goroutines decoded into config types of their own at the same time: " + pn, Case: cs})
			case err != nil:
				w.add(Finding{Kind: "violation", What: "a decoder failed on a valid document when used concurrently: " + err.Error(), Case: cs})
			case wait != time.Duration(n)*time.Second:
				w.add(Finding{Kind: "violation", What: fmt.Sprintf("concurrent decode: wait = %v, the document says %ds", wait, n), Case: cs})
			}
		}(g)
	}
	close(start)
	wg.Wait()
	w.caseDone(fmt.Sprint("CONC|", round), true, map[string]any{"stream": "concurrent decoders", "round": round})
}
