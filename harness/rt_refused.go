package main

// C05, implementation-only stream: reports made with a context that is ALREADY over.  ReportNewValue either takes
// the value (nil: the monitor will re-stack with it) or refuses it (an error: the monitor never sees it) - Go's select
// may pick either when both the send and ctx.Done() are ready, but the answer and the effect go together.  Source A
// reports A=k with a cancelled context, k = 1..n; after every report source B makes a blocking report with a live
// context (a barrier: the monitor has dealt with everything before it) and the view is compared with a fresh stack of
// the most recently ACCEPTED values.  The serial moves by exactly one per accepted report.

import (
	"context"
	"fmt"
	"reflect"
	"time"

	"github.com/vimeo/dials"
)

type rfCfg struct {
	A int
	B int
}

type rfSrc struct {
	field int
	wa    dials.WatchArgs
	typ   *dials.Type
}

func (s *rfSrc) Value(_ context.Context, t *dials.Type) (reflect.Value, error) {
	return reflect.New(t.Type()).Elem(), nil
}
func (s *rfSrc) Watch(_ context.Context, t *dials.Type, wa dials.WatchArgs) error {
	s.wa, s.typ = wa, t
	return nil
}
func (s *rfSrc) val(x int) reflect.Value {
	v := reflect.New(s.typ.Type()).Elem()
	v.Field(s.field).Set(reflect.ValueOf(&x))
	return v
}

func rtRefused(c *Ctx, runs, n int) {
	res := c.Res
	for run := 0; run < runs; run++ {
		cs := map[string]any{"stream": "reports with a context that is already over", "reports": n}
		ctx, cancel := context.WithCancel(context.Background())
		a, b := &rfSrc{field: 0}, &rfSrc{field: 1}
		d, err := dials.Config(ctx, &rfCfg{}, a, b)
		if err != nil {
			res.Add(Finding{Kind: "violation", What: "Config failed: " + err.Error(), Case: cs})
			cancel()
			continue
		}
		dead, kill := context.WithCancel(ctx)
		kill()
		accA, accepted, refused := 0, 0, 0
		_, tok := d.ViewVersion()
		serial := dials.VerifCfgSerial(tok)
		for k := 1; k <= n; k++ {
			if a.wa.ReportNewValue(dead, a.val(k)) == nil {
				accA = k
				accepted++
				serial++
			} else {
				refused++
			}
			bctx, bc := context.WithTimeout(ctx, 5*time.Second)
			berr := b.wa.BlockingReportNewValue(bctx, b.val(k))
			bc()
			if berr != nil {
				res.Add(Finding{Kind: "violation", What: fmt.Sprintf("step %d: the barrier report (live context) failed: %v", k, berr), Case: cs})
				break
			}
			serial++
			v, tk := d.ViewVersion()
			if v.A != accA || v.B != k {
				res.Add(Finding{Kind: "violation", What: fmt.Sprintf("step %d: the view is not the stack of the most recently accepted values (%d reports of source A accepted so far, %d refused with an error): a report that ReportNewValue refused was re-stacked anyway, or an accepted one was lost", k, accepted, refused),
					Case: cs, Expected: fmt.Sprintf("{A:%d B:%d}", accA, k), Observed: fmt.Sprintf("%+v", *v)})
				break
			}
			if got := dials.VerifCfgSerial(tk); got != serial {
				res.Add(Finding{Kind: "violation", What: fmt.Sprintf("step %d: the serial is %d after %d accepted reports of source A and %d barrier reports (want %d): serials count installs, one per accepted report", k, got, accepted, k, serial), Case: cs})
				break
			}
		}
		cancel()
		res.Count(fmt.Sprintf("refused-stream/accepted>0=%v,refused>0=%v", accepted > 0, refused > 0))
		res.Case(fmt.Sprintf("refused|%d|%d|%d", run, accepted, refused), accepted > 0 && refused > 0, cs)
	}
}
