package main

// C14, flag sources: the same four patterns through sources/flag and sources/pflag.  The flag of a leaf is
// named by the kebab join of, along its path, the dials tag (verbatim) or the words of the field name (an
// untagged embedded struct adds nothing); the alias flag replaces the last element by the alias value.

import (
	"context"
	"io"
	"reflect"
	"strconv"
	"strings"

	"github.com/vimeo/dials"
	dflag "github.com/vimeo/dials/sources/flag"
	dpflag "github.com/vimeo/dials/sources/pflag"
)

func init() {
	c14Sources = append(c14Sources,
		c14Source{name: "flag", supports: c14FlagSupports, run: func(c *Ctx, T, PT reflect.Type, l []c14Leaf, cs map[string]any) (string, string, reflect.Value, map[string]string, bool) {
			return c14Flags(c, "std", T, PT, l, cs)
		}},
		// pflag registers []string with its own CSV-based StringSliceP (another text format: C12's oracle covers it)
		c14Source{name: "pflag", supports: func(t reflect.Type) bool { return t != reflect.TypeOf([]string(nil)) && c14FlagSupports(t) }, run: func(c *Ctx, T, PT reflect.Type, l []c14Leaf, cs map[string]any) (string, string, reflect.Value, map[string]string, bool) {
			return c14Flags(c, "pflag", T, PT, l, cs)
		}})
}

// leaf types both flag packages register a flag for (sources/flag/flag.go registerFlags)
func c14FlagSupports(t reflect.Type) bool {
	switch t.Kind() {
	case reflect.Ptr:
		return t.Elem().Kind() != reflect.Ptr && c14FlagSupports(t.Elem())
	case reflect.Slice:
		return t == reflect.TypeOf([]string(nil))
	case reflect.Map:
		return t == reflect.TypeOf(map[string]string(nil)) || t == reflect.TypeOf(map[string][]string(nil)) || t == reflect.TypeOf(map[string]struct{}(nil))
	case reflect.Complex64, reflect.Complex128:
		return false // the complex helpers print with parentheses; kept out of this stream (C12 covers them)
	}
	return true
}

func c14FlagName(T reflect.Type, path []string, alias string) string {
	var parts []string
	t := T
	for i, name := range path {
		for t.Kind() == reflect.Ptr {
			t = t.Elem()
		}
		f, _ := t.FieldByName(name)
		tag := f.Tag.Get("dials")
		last := i == len(path)-1
		switch {
		case last && alias != "":
			parts = append(parts, alias)
		case tag != "":
			parts = append(parts, tag)
		case f.Anonymous:
		default:
			for _, ns := range fieldNames {
				if ns.name == name {
					parts = append(parts, ns.words...)
				}
			}
		}
		t = f.Type
	}
	return strings.Join(parts, "-")
}

func c14Flags(c *Ctx, pk string, T, PT reflect.Type, leaves []c14Leaf, cs map[string]any) (string, string, reflect.Value, map[string]string, bool) {
	r := c.RNG
	wants := map[string]string{}
	value := func(t reflect.Type) (string, string) {
		for {
			txt, w := genEnvValue(r, t)
			if pk == "std" && t.Kind() == reflect.Float32 && strings.Contains(txt, "3.4028235e+38") {
				// the shortest text of the largest float32 lies between that value and the rounding midpoint above
				// it: the standard-library source, which reads every float flag as a float64 and then checks
				// the range, calls it out of range; pflag, which parses at 32 bits, rounds it.  The property
				// fixes neither reading (C12 treats it in its own oracle), so the alias stream stays off it
				continue
			}
			if w != "" && !strings.ContainsRune(txt, 0) {
				return txt, w
			}
		}
	}
	var args []string
	seen := map[string]bool{}
	add := func(name, txt string) bool {
		if name == "" || seen[name] {
			return false
		}
		seen[name] = true
		args = append(args, "--"+name+"="+txt)
		return true
	}
	// every flag name must be distinct (a precondition of the flag packages): also those not given
	all := map[string]bool{}
	for _, l := range leaves {
		n := c14FlagName(T, l.path, "")
		if all[n] {
			return "", "", reflect.Value{}, nil, true
		}
		all[n] = true
		if l.aliasOf != "" {
			a := c14FlagName(T, l.path, "old_n"+itoa(aliasIndex(l.envLeaf)))
			if all[a] {
				return "", "", reflect.Value{}, nil, true
			}
			all[a] = true
		}
	}
	for _, l := range leaves {
		if l.pattern == 0 {
			continue
		}
		txt, w := value(l.typ)
		wants[leafKey(l.envLeaf)] = w
		if l.pattern == 1 || l.pattern == 3 {
			if !add(c14FlagName(T, l.path, ""), txt) {
				return "", "", reflect.Value{}, nil, true
			}
		}
		if l.pattern == 2 || l.pattern == 3 {
			if l.pattern == 3 {
				txt, _ = value(l.typ)
			}
			if !add(c14FlagName(T, l.path, "old_n"+itoa(aliasIndex(l.envLeaf))), txt) {
				return "", "", reflect.Value{}, nil, true
			}
		}
	}
	cs["args"] = args
	tmpl := reflect.New(T).Interface()
	var out reflect.Value
	var err error
	pn := catch(func() {
		var src dials.Source
		if pk == "std" {
			s, e := dflag.NewSetWithArgs(dflag.DefaultFlagNameConfig(), tmpl, args)
			if e != nil {
				err = e
				return
			}
			s.Flags.SetOutput(io.Discard)
			src = s
		} else {
			s, e := dpflag.NewSetWithArgs(dpflag.DefaultFlagNameConfig(), tmpl, args)
			if e != nil {
				err = e
				return
			}
			s.Flags.SetOutput(io.Discard)
			src = s
		}
		out, err = src.Value(context.Background(), dials.NewType(PT))
	})
	switch {
	case pn != "":
		return "panic", pn, out, wants, false
	case err != nil:
		return "err", err.Error(), out, wants, false
	}
	return "ok", "", out, wants, false
}

func itoa(i int) string { return strconv.Itoa(i) }
