package main

// C14, the standard-library flag source on a FlagSet that ALREADY carries the flags: the second, third, fourth
// `flag.Set` over one FlagSet (what a second NewCmdLineSet / ez entry point in one process builds on flag.CommandLine),
// or a FlagSet on which the application has registered the alias (or the primary) name by hand.  Registration is
// skipped for a name that exists ("so the user can override our behavior") - the four patterns are not: a value
// given under either name sets the field, under both it is an error naming the field, under neither the field stays
// unset.  Oracle only.

import (
	"context"
	"encoding/json"
	stdflag "flag"
	"fmt"
	"io"
	"reflect"
	"strings"

	"github.com/vimeo/dials"
	jsondec "github.com/vimeo/dials/decoders/json"
	"github.com/vimeo/dials/ptrify"
	dflag "github.com/vimeo/dials/sources/flag"
	"github.com/vimeo/dials/sourcewrap"
	"github.com/vimeo/dials/transform"
)

type c14ADB struct {
	Host string `dialsalias:"hostname"`
	Pool int    `dials:"pool_size" dialsalias:"old_pool"`
}

type c14ACfg struct {
	Name  string `dialsalias:"old-name"`
	Port  int    `dialsalias:"old-port"`
	DB    c14ADB
	Plain string
}

type c14ALeaf struct {
	field, primary, alias string
	isInt                 bool
}

var c14ALeaves = []c14ALeaf{
	{"Name", "name", "old-name", false},
	{"Port", "port", "old-port", true},
	{"Host", "db-host", "db-hostname", false},
	{"Pool", "db-pool_size", "db-old_pool", true},
}

func c14SameFlagSet(c *Ctx, n int) {
	r := c.RNG
	res := c.Res
	show := func(v *c14ACfg) string {
		return fmt.Sprintf("{Name:%q Port:%d DB.Host:%q DB.Pool:%d Plain:%q}", v.Name, v.Port, v.DB.Host, v.DB.Pool, v.Plain)
	}
	for i := 0; i < n; i++ {
		rounds := 2 + r.Intn(3)
		hand := r.Chance(35) // the application registered one alias or primary name itself, before dials saw the FlagSet
		fs := stdflag.NewFlagSet("app", stdflag.ContinueOnError)
		fs.SetOutput(io.Discard)
		handName := ""
		if hand {
			l := c14ALeaves[r.Intn(len(c14ALeaves))]
			handName = []string{l.primary, l.alias}[r.Intn(2)]
			if l.isInt {
				fs.Int(handName, 0, "registered by the application")
			} else {
				fs.String(handName, "", "registered by the application")
			}
		}
		// one argument list for all rounds (a FlagSet is parsed once; later Sets find it parsed)
		var args []string
		want := c14ACfg{}
		bothField := ""
		pats := map[string]string{}
		for _, l := range c14ALeaves {
			pat := []string{"neither", "primary", "alias", "both"}[r.Intn(4)]
			if pat == "both" && (bothField != "" || r.Chance(60)) {
				pat = "alias"
			}
			pats[l.field] = pat
			val := fmt.Sprintf("v%d", r.Intn(1000))
			if l.isInt {
				val = fmt.Sprint(1 + r.Intn(60000))
			}
			set := func(v string) {
				switch l.field {
				case "Name":
					want.Name = v
				case "Port":
					fmt.Sscan(v, &want.Port)
				case "Host":
					want.DB.Host = v
				default:
					fmt.Sscan(v, &want.DB.Pool)
				}
			}
			switch pat {
			case "primary":
				args = append(args, "-"+l.primary+"="+val)
				set(val)
			case "alias":
				args = append(args, "-"+l.alias+"="+val)
				set(val)
			case "both":
				args = append(args, "-"+l.primary+"="+val, "-"+l.alias+"="+val)
				bothField = l.field
			}
		}
		if r.Bool() {
			want.Plain = "p"
			args = append(args, "-plain=p")
		}
		for a := len(args) - 1; a > 0; a-- {
			b := r.Intn(a + 1)
			args[a], args[b] = args[b], args[a]
		}
		cs := map[string]any{"stream": "the same FlagSet under several flag Sets", "rounds": rounds, "args": args, "patterns": pats, "registered_by_hand": handName}
		before := res.Bad()
		for round := 1; round <= rounds; round++ {
			set := &dflag.Set{Flags: fs, ParseFunc: func() error { return fs.Parse(args) }}
			var d *dials.Dials[c14ACfg]
			var err error
			pn := catch(func() { d, err = dials.Config(context.Background(), &c14ACfg{}, set) })
			switch {
			case pn != "":
				res.Add(Finding{Kind: "violation", What: fmt.Sprintf("round %d: the flag source panicked: %s", round, pn), Case: cs})
			case bothField != "":
				if err == nil {
					res.Add(Finding{Kind: "violation", What: fmt.Sprintf("round %d: field %s was supplied under its primary and its alias name: no error", round, bothField), Case: cs, Observed: show(d.View())})
				} else if !strings.Contains(err.Error(), bothField) {
					res.Add(Finding{Kind: "violation", What: fmt.Sprintf("round %d: the error for a field supplied under both names does not name the field %s", round, bothField), Case: cs, Observed: err.Error()})
				}
			case err != nil:
				res.Add(Finding{Kind: "violation", What: fmt.Sprintf("round %d: unexpected error: %v", round, err), Case: cs})
			case *d.View() != want:
				res.Add(Finding{Kind: "violation", What: fmt.Sprintf("round %d on the same FlagSet: a field supplied under its primary or its alias name is not set to that value (or an unsupplied one is set)", round), Case: cs, Expected: show(&want), Observed: show(d.View())})
			}
			if res.Bad() > before {
				break
			}
		}
		res.Count(fmt.Sprintf("same-flagset/rounds=%d/hand=%v/both=%v", rounds, hand, bothField != ""))
		res.Case(fmt.Sprintf("again|%d|%v|%s", rounds, args, handName), true, cs)
	}
}

// ---------- one alias-wrapped decoder value, two config types ----------
//
// `sourcewrap.NewTransformingDecoder(dec, transform.NewAliasMangler("dials"))` is a value an application may keep
// and use for every config file it reads.  What it does for one config type must not depend on which types it has
// decoded before: the four patterns hold for each type, in any order of use.  Oracle only.

type c14SServer struct {
	Name string `dials:"name"`
	Addr string `dials:"addr" dialsalias:"address"`
	Port int    `dials:"port" dialsalias:"listen_port"`
}

type c14SClient struct {
	Name     string `dials:"name"`
	Endpoint string `dials:"endpoint" dialsalias:"target"`
	Retries  int    `dials:"retries" dialsalias:"attempts"`
}

func c14SharedDecoder(c *Ctx, n int) {
	r := c.RNG
	res := c.Res
	type leaf struct {
		primary, alias string
		isInt          bool
	}
	kinds := map[string][]leaf{
		"server": {{"addr", "address", false}, {"port", "listen_port", true}},
		"client": {{"endpoint", "target", false}, {"retries", "attempts", true}},
	}
	for i := 0; i < n; i++ {
		dec := sourcewrap.NewTransformingDecoder(&jsondec.Decoder{}, transform.NewAliasMangler("dials"))
		uses := 2 + r.Intn(4)
		var trace []string
		for u := 0; u < uses; u++ {
			kind := []string{"server", "client"}[r.Intn(2)]
			var T reflect.Type
			if kind == "server" {
				T = reflect.TypeOf(c14SServer{})
			} else {
				T = reflect.TypeOf(c14SClient{})
			}
			pt := ptrify.Pointerify(T, reflect.New(T).Elem())
			doc := map[string]any{"name": "x"}
			want := map[string]string{}
			both := ""
			for _, l := range kinds[kind] {
				var val any = fmt.Sprintf("v%d", r.Intn(1000))
				if l.isInt {
					val = 1 + r.Intn(60000)
				}
				switch pat := r.Intn(4); {
				case pat == 1:
					doc[l.primary] = val
					want[l.primary] = fmt.Sprint(val)
				case pat == 2:
					doc[l.alias] = val
					want[l.primary] = fmt.Sprint(val)
				case pat == 3 && both == "":
					doc[l.primary], doc[l.alias] = val, val
					both = l.primary
				}
			}
			text, _ := json.Marshal(doc)
			trace = append(trace, kind+" "+string(text))
			cs := map[string]any{"stream": "one alias-wrapped decoder value used for two config types", "uses_so_far": append([]string{}, trace...)}
			var v reflect.Value
			var err error
			pn := catch(func() { v, err = dec.Decode(strings.NewReader(string(text)), dials.NewType(pt)) })
			switch {
			case pn != "":
				res.Add(Finding{Kind: "violation", What: "the decoder panicked: " + pn, Case: cs})
			case both != "":
				if err == nil {
					res.Add(Finding{Kind: "violation", What: fmt.Sprintf("use %d (%s): %q supplied under its primary and its alias name: no error", u+1, kind, both), Case: cs})
				}
			case err != nil:
				res.Add(Finding{Kind: "violation", What: fmt.Sprintf("use %d (%s): unexpected error: %v", u+1, kind, err), Case: cs})
			default:
				for v.Kind() == reflect.Ptr {
					v = v.Elem()
				}
				for _, l := range kinds[kind] {
					got := ""
					for k := 0; k < v.NumField(); k++ {
						if v.Type().Field(k).Tag.Get("dials") == l.primary {
							f := v.Field(k)
							if f.Kind() == reflect.Ptr && !f.IsNil() {
								got = fmt.Sprint(f.Elem().Interface())
							}
						}
					}
					if got != want[l.primary] {
						res.Add(Finding{Kind: "violation", What: fmt.Sprintf("use %d (%s): field %s supplied under its primary or alias name: got %q, want %q", u+1, kind, l.primary, got, want[l.primary]), Case: cs})
						break
					}
				}
			}
		}
		res.Count(fmt.Sprintf("shared-decoder/uses=%d", uses))
		res.Case(fmt.Sprint("shared|", trace), uses >= 3, map[string]any{"uses": trace})
	}
}
