package main

// C16 text stream (implementation only — support, not proof, except where a model exists): arbitrary
// bytes, mutated valid inputs and boundary cases into every text entry point.

import (
	"context"
	"encoding"
	stdflag "flag"
	"fmt"
	"io"
	"reflect"
	"strings"
	"time"

	"github.com/spf13/pflag"
	"github.com/vimeo/dials"
	"github.com/vimeo/dials/decoders/cue"
	djson "github.com/vimeo/dials/decoders/json"
	"github.com/vimeo/dials/decoders/toml"
	"github.com/vimeo/dials/decoders/yaml"
	"github.com/vimeo/dials/parse"
	"github.com/vimeo/dials/ptrify"
	"github.com/vimeo/dials/sources/flag/flaghelper"
	"github.com/vimeo/dials/sources/static"
	cc "github.com/vimeo/dials/tagformat/caseconversion"
)

type stdFlag = stdflag.Flag
type pflagFlag = pflag.Flag

func spf13NewFlagSet() *pflag.FlagSet {
	fs := pflag.NewFlagSet("app", pflag.ContinueOnError)
	fs.SetOutput(io.Discard)
	return fs
}

// every kind parse.String can be asked for (supported or not: unsupported kinds must be errors)
var c16ParseTypes = func() []reflect.Type {
	var ts []reflect.Type
	for _, l := range c16Leaves {
		ts = append(ts, l.plain, l.named)
	}
	ts = append(ts, rt[uintptr](), rt[[]uintptr](), rt[InV](), rt[*InV](), rt[[]InV](), rt[map[string]InV](), rt[interface{}](), rt[[]interface{}](), rt[map[string]interface{}](),
		rt[chan int](), rt[func()](), rt[error](), rt[[]*int](), rt[map[*int]int](), rt[map[[2]int]string](), rt[map[string]*int](), rt[[][][]string](), rt[map[bool]bool](), rt[map[float64]string](),
		rt[map[complex128]NInt](), rt[[]byte](), rt[[]rune](), rt[map[NStr]struct{}](), rt[map[string]NSet](), rt[[]NSet](), rt[[]MSS](), rt[[]time.Time](), rt[map[string]time.Time](), rt[map[time.Duration]time.Duration]())
	return ts
}()

var c16NumberTexts = []string{"0", "-0", "+0", "00", "007", "0x7f", "0X7F", "0b101", "0o17", "1_000", "0x_ff", "127", "128", "-128", "-129", "255", "256", "32767", "32768", "65535", "65536", "2147483647", "2147483648",
	"4294967295", "4294967296", "9223372036854775807", "9223372036854775808", "-9223372036854775808", "-9223372036854775809", "18446744073709551615", "18446744073709551616", "1e3", "1.0", "0x1p4", " 1", "1 ", "1\n",
	"1.7976931348623157e308", "1.7976931348623159e308", "4.9e-324", "1e-400", "3.4028234663852886e38", "3.4028235677973366e38", "inf", "-Inf", "+infinity", "nan", "0x1.fffffffffffffp1023", "1e+", "1e+9999999999",
	"1+1i", "1-1i", "(1)", "(1+1i)", "((1+1i))", "1i", "-i", "1e308+1e308i", "3.5e38+0i", "0+3.5e38i", "1 + 1i", "1+i", "i1", "1+1j",
	"1ns", "1us", "1µs", "1μs", "1ms", "1s", "1m", "1h", "1d", "1h1h", "-1h-1m", ".5s", "1.s", "1e3s", "2562047h47m16.854775807s", "2562047h47m16.854775808s", "9223372036854775808ns", "+1s", "--1s", "1s ", "0x1s",
	"true", "false", "TRUE", "tRuE", "t", "f", "1", "0", "2", "yes", "on"}

func textFor(r *RNG, idx int) string {
	switch r.Intn(12) {
	case 0:
		return c16BadTexts[idx%len(c16BadTexts)]
	case 1:
		return c16NumberTexts[idx%len(c16NumberTexts)]
	case 2, 3:
		return badText(r)
	case 4:
		b := make([]byte, r.Intn(40))
		for i := range b {
			b[i] = byte(r.Intn(256))
		}
		return string(b)
	case 5:
		return genText(r, r.Intn(40))
	case 6:
		// mutated valid input
		t := c16ParseTypes[r.Intn(len(c16ParseTypes))]
		s := []byte(goodText(r, t, 0))
		for k := r.Intn(3); k > 0 && len(s) > 0; k-- {
			s[r.Intn(len(s))] = byte(r.Intn(256))
		}
		return string(s)
	case 7:
		t := c16ParseTypes[r.Intn(len(c16ParseTypes))]
		return goodText(r, t, 0)
	case 8:
		s := c16NumberTexts[r.Intn(len(c16NumberTexts))]
		return s + pick(r, []string{",", ":", " ", "_", "i", "e", "x", "\x00", "é", s})
	case 9:
		n := 1 + r.Intn(5)
		parts := make([]string, n)
		for i := range parts {
			parts[i] = c16NumberTexts[r.Intn(len(c16NumberTexts))]
			if r.Chance(30) {
				parts[i] = "k" + genWord(r) + ":" + parts[i]
			}
		}
		return strings.Join(parts, pick(r, []string{",", ", ", " ,", ",,", ":"}))
	case 10:
		return strings.Repeat(pick(r, []string{"a,", "\"a\":\"b\",", "1,", "\\", "\"\"", "::", "'c',", "`r`,", "é,", "\x00"}), 1+r.Intn(400))
	default:
		return genStr(r)
	}
}

var c16CorpusPT = func() []reflect.Type {
	var out []reflect.Type
	for _, t := range c16Static {
		out = append(out, ptrify.Pointerify(t, reflect.New(t).Elem()))
	}
	return out
}()

func (w *c16Worker) textCase(idx int) {
	r := w.r
	txt := textFor(r, idx)
	cs := map[string]any{"text": txt, "hex": hexEnc(txt), "index": idx}
	group := r.Intn(10)
	switch {
	case group < 3: // parse.String for a few kinds, cycling through all of them
		w.count("group/parse.String")
		for k := 0; k < 4; k++ {
			t := c16ParseTypes[(idx*4+k)%len(c16ParseTypes)]
			if k == 3 {
				t = c16ParseTypes[r.Intn(len(c16ParseTypes))]
			}
			w.parseStringText(txt, t, cs)
		}
	case group < 5: // the collection parsers
		w.count("group/collections")
		w.collectionCase(txt, cs)
	case group < 7: // case conversion
		w.count("group/caseconversion")
		w.caseConvCase(txt, cs)
	case group < 9: // flag helpers
		w.count("group/flaghelpers")
		w.flagHelperCase(txt, cs)
	default: // documents
		w.count("group/decoders")
		w.decoderTextCase(txt, idx, cs)
	}
	w.caseDone(txt, len(txt) >= 2, cs)
}

func (w *c16Worker) parseStringText(txt string, t reflect.Type, cs map[string]any) {
	switch t.Kind() {
	case reflect.Interface, reflect.Chan, reflect.Func, reflect.Struct, reflect.Ptr, reflect.Array, reflect.Uintptr:
		// unsupported kinds: an error is required; Elem() of the result is not called by any caller
		cl, det := guard(func() error { _, err := parse.String(txt, t); return err })
		w.report("parse.String", cl, det, nil, cs, "leaf_type", t.String())
		w.count("parse.String/kind/" + t.Kind().String())
		if cl == "ok" && t.Kind() != reflect.Uintptr {
			w.add(Finding{Kind: "violation", What: "parse.String returned a value for an unsupported kind", Case: cloneCase(cs, "leaf_type", t.String())})
		}
		return
	}
	w.parseStringCase(txt, t, nil, cs)
}

func classOf(model string) string { return strings.SplitN(strings.TrimSpace(model), " ", 2)[0] }

func (w *c16Worker) collectionCase(txt string, cs map[string]any) {
	type ent struct {
		name string
		f    func() error
		op   string // model op ("" = none)
	}
	ents := []ent{
		{"parse.StringSlice", func() error { _, err := parse.StringSlice(txt); return err }, "slice"},
		{"parse.StringSet", func() error { _, err := parse.StringSet(txt); return err }, "set"},
		{"parse.Map[string]string", func() error { _, err := parse.Map(txt, rt[map[string]string]()); return err }, "map"},
		{"parse.Map[Labels]", func() error { _, err := parse.Map(txt, rt[Labels]()); return err }, "map"},
		{"parse.Map[named]named", func() error { _, err := parse.Map(txt, rt[LevelBy]()); return err }, ""},
		{"parse.Map[int]bool", func() error { _, err := parse.Map(txt, rt[map[int]bool]()); return err }, ""},
		{"parse.StringStringSliceMap", func() error { _, err := parse.StringStringSliceMap(txt); return err }, "mmap"},
		{"parse.SignedIntegralSlice[int8]", func() error { _, err := parse.SignedIntegralSlice[int8](txt); return err }, "intslice i8"},
		{"parse.SignedIntegralSlice[int64]", func() error { _, err := parse.SignedIntegralSlice[int64](txt); return err }, "intslice i64"},
		{"parse.SignedIntegralSlice[int]", func() error { _, err := parse.SignedIntegralSlice[int](txt); return err }, "intslice int"},
		{"parse.UnsignedIntegralSlice[uint16]", func() error { _, err := parse.UnsignedIntegralSlice[uint16](txt); return err }, "intslice u16"},
		{"parse.UnsignedIntegralSlice[uint64]", func() error { _, err := parse.UnsignedIntegralSlice[uint64](txt); return err }, "intslice u64"},
		{"parse.UnsignedIntegralSlice[uintptr]", func() error { _, err := parse.UnsignedIntegralSlice[uintptr](txt); return err }, "intslice uintptr"},
		{"parse.Complex128", func() error { _, err := parse.Complex128(txt); return err }, ""},
		{"parse.Complex64", func() error { _, err := parse.Complex64(txt); return err }, ""},
	}
	var sl, mp []string
	if w.drv != nil && isASCII(txt) {
		sl, mp = tokenStreams(txt)
	}
	for _, e := range ents {
		cl, det := guard(e.f)
		w.report(e.name, cl, det, nil, cs)
		if w.drv == nil || e.op == "" || !isASCII(txt) || cl == "hang" {
			continue
		}
		var req string
		switch e.op {
		case "slice", "set":
			em := "0"
			if txt == "" {
				em = "1"
			}
			req = "ps " + e.op + " " + em + " " + strings.Join(sl, " ")
		case "map", "mmap":
			req = "ps " + e.op + " " + strings.Join(mp, " ")
		default:
			req = "ps " + e.op + " " + hexEnc(txt)
		}
		req = strings.Join(strings.Fields(req), " ")
		m := classOf(w.drv.Ask(req))
		w.count("model/" + e.name + "/" + m)
		if m == "ood" {
			w.out.OOD++
			continue
		}
		if m != cl {
			w.add(Finding{Kind: "disagreement", What: e.name + ": outcome class of the model differs", Case: cloneCase(cs, "request", req, "detail", det), Observed: cl, Model: m})
		}
	}
}

var c16Decoders = []struct {
	name  string
	f     cc.DecodeCasingFunc
	model string
}{
	{"DecodeGoCamelCase", cc.DecodeGoCamelCase, "goCamel"}, {"DecodeGoTags", cc.DecodeGoTags, "goTags"},
	{"DecodeUpperCamelCase", cc.DecodeUpperCamelCase, "upperCamel"}, {"DecodeLowerCamelCase", cc.DecodeLowerCamelCase, "lowerCamel"},
	{"DecodeLowerSnakeCase", cc.DecodeLowerSnakeCase, "lowerSnake"}, {"DecodeUpperSnakeCase", cc.DecodeUpperSnakeCase, "upperSnake"},
	{"DecodeKebabCase", cc.DecodeKebabCase, "kebab"}, {"DecodeCasePreservingSnakeCase", cc.DecodeCasePreservingSnakeCase, "casePreservingSnake"},
}

var c16Encoders = []struct {
	name string
	f    cc.EncodeCasingFunc
}{
	{"EncodeUpperCamelCase", cc.EncodeUpperCamelCase}, {"EncodeLowerCamelCase", cc.EncodeLowerCamelCase}, {"EncodeKebabCase", cc.EncodeKebabCase},
	{"EncodeLowerSnakeCase", cc.EncodeLowerSnakeCase}, {"EncodeUpperSnakeCase", cc.EncodeUpperSnakeCase}, {"EncodeCasePreservingSnakeCase", cc.EncodeCasePreservingSnakeCase},
}

func (w *c16Worker) caseConvCase(txt string, cs map[string]any) {
	r := w.r
	ident := txt
	switch r.Intn(5) {
	case 2: // letters whose case mapping changes the UTF-8 length or is not a bijection, mixed with ASCII and separators
		pool := []rune("İKẞǄǅǆΣςσßﬁéÉ世ŉǰΐAZBaz09__--")
		n := 1 + r.Intn(12)
		rs := make([]rune, n)
		for i := range rs {
			rs[i] = pool[r.Intn(len(pool))]
		}
		ident = string(rs)
	case 0: // an identifier-like text, mutated
		ts := genIdent(r, true)
		s, _ := render(ts)
		b := []byte(s)
		if len(b) > 0 && r.Chance(50) {
			b[r.Intn(len(b))] = []byte("_-9éA z\x00\xff.")[r.Intn(11)]
		}
		ident = string(b)
	case 1:
		ident = pick(r, []string{"", "_", "__", "-", "a", "A", "ID", "IDs", "9", "9a", "a9", "type", "func", "éa", "aé", "Aé", "\xff", "A\xff", "a_b", "a__b", "_a", "a_", "a-b", "A-B", "A_B", "HTTPSPort", "UserUID", "HTMLRo",
			"Ab1ID", "HTTPUTF8", "X", "XY", "XYz", "xY", "xYZ", strings.Repeat("ID", 200), strings.Repeat("a", 5000), strings.Repeat("A", 5000), strings.Repeat("Ab", 3000), strings.Repeat("_", 1000), "ǅ", "ﬁ", "İ", "ß", "ẞ"})
	}
	c2 := cloneCase(cs, "identifier", ident, "identifier_hex", hexEnc(ident))
	for _, d := range c16Decoders {
		cl, det := guard(func() error { _, err := d.f(ident); return err })
		w.report("caseconversion."+d.name, cl, det, nil, c2)
		if w.drv == nil || !isASCII(ident) || cl == "hang" || cl == "panic" {
			continue
		}
		m := classOf(w.drv.Ask("cc dec " + d.model + " " + hexEnc(ident)))
		w.count("model/caseconversion." + d.name + "/" + m)
		if m == "ood" {
			w.out.OOD++
			continue
		}
		if m != cl {
			w.add(Finding{Kind: "disagreement", What: "caseconversion." + d.name + ": outcome class of the model differs", Case: c2, Observed: cl, Model: m})
		}
	}
	// encoders: word lists split off the text (incl. empty words, non-ASCII, invalid UTF-8)
	var words []string
	switch r.Intn(4) {
	case 0:
		words = strings.Split(txt, ",")
	case 1:
		words = strings.Fields(txt)
	case 2:
		words = pick(r, [][]string{nil, {}, {""}, {"", ""}, {"a", ""}, {"", "a"}, {"é"}, {"\xff"}, {"a", "\xffb", "c"}, {"ǆ"}, {"ß", "ß"}, {strings.Repeat("a", 10000)}, {"İ"}, {"a b"}, {"A", "B"}, {"9", "9"}})
	default:
		for i := r.Intn(5); i > 0; i-- {
			words = append(words, genWord(r))
		}
	}
	c3 := cloneCase(cs, "words", words)
	for _, e := range c16Encoders {
		cl, det := guard(func() error { _ = e.f(words); return nil })
		w.report("caseconversion."+e.name, cl, det, nil, c3)
	}
}

func (w *c16Worker) flagHelperCase(txt string, cs map[string]any) {
	r := w.r
	type hv interface {
		Set(string) error
		String() string
	}
	mk := func() []struct {
		name string
		v    hv
	} {
		ss := []string{"d"}
		set := map[string]struct{}{"d": {}}
		mss := map[string][]string{"d": {"e"}}
		ms := map[string]string{"d": "e"}
		i8, i16, i32, i64, i := []int8{1}, []int16{1}, []int32{1}, []int64{1}, []int{1}
		u8, u16, u32, u64, u, up := []uint8{1}, []uint16{1}, []uint32{1}, []uint64{1}, []uint{1}, []uintptr{1}
		var c64 complex64
		var c128 complex128
		var nilSS []string
		var nilSet map[string]struct{}
		var nilMS map[string]string
		var nilMSS map[string][]string
		tu := &tuPtr{}
		tm := time.Time{}
		var tui TUInt
		return []struct {
			name string
			v    hv
		}{
			{"StringSliceFlag", flaghelper.NewStringSliceFlag(&ss)}, {"StringSliceFlag(nil)", flaghelper.NewStringSliceFlag(&nilSS)},
			{"StringSetFlag", flaghelper.NewStringSetFlag(&set)}, {"StringSetFlag(nil)", flaghelper.NewStringSetFlag(&nilSet)},
			{"MapStringStringSliceFlag", flaghelper.NewMapStringStringSliceFlag(&mss)}, {"MapStringStringSliceFlag(nil)", flaghelper.NewMapStringStringSliceFlag(&nilMSS)},
			{"MapStringStringFlag", flaghelper.NewMapStringStringFlag(&ms)}, {"MapStringStringFlag(nil)", flaghelper.NewMapStringStringFlag(&nilMS)},
			{"SignedIntegralSlice[int8]", flaghelper.NewSignedIntegralSlice(&i8)}, {"SignedIntegralSlice[int16]", flaghelper.NewSignedIntegralSlice(&i16)},
			{"SignedIntegralSlice[int32]", flaghelper.NewSignedIntegralSlice(&i32)}, {"SignedIntegralSlice[int64]", flaghelper.NewSignedIntegralSlice(&i64)}, {"SignedIntegralSlice[int]", flaghelper.NewSignedIntegralSlice(&i)},
			{"UnsignedIntegralSlice[uint8]", flaghelper.NewUnsignedIntegralSlice(&u8)}, {"UnsignedIntegralSlice[uint16]", flaghelper.NewUnsignedIntegralSlice(&u16)},
			{"UnsignedIntegralSlice[uint32]", flaghelper.NewUnsignedIntegralSlice(&u32)}, {"UnsignedIntegralSlice[uint64]", flaghelper.NewUnsignedIntegralSlice(&u64)},
			{"UnsignedIntegralSlice[uint]", flaghelper.NewUnsignedIntegralSlice(&u)}, {"UnsignedIntegralSlice[uintptr]", flaghelper.NewUnsignedIntegralSlice(&up)},
			{"Complex64Var", flaghelper.NewComplex64Var(&c64)}, {"Complex128Var", flaghelper.NewComplex128Var(&c128)},
			{"MarshalWrapper(tuPtr)", flaghelper.NewMarshalWrapper(tu)}, {"MarshalWrapper(*time.Time)", flaghelper.NewMarshalWrapper(&tm)}, {"MarshalWrapper(*TUInt)", flaghelper.NewMarshalWrapper(encoding.TextUnmarshaler(&tui))},
			{"TimeWrapper", flaghelper.NewTimeWrapper(tm)},
		}
	}
	second := textFor(r, r.Intn(1000))
	for _, h := range mk() {
		cl, det := guard(func() error {
			err := h.v.Set(txt)
			_ = h.v.String()
			if g, ok := h.v.(interface{ Get() interface{} }); ok {
				_ = g.Get()
			}
			if t, ok := h.v.(interface{ Type() string }); ok {
				_ = t.Type()
			}
			// a second Set on the same helper (flags given twice), then print again
			if r.Bool() {
				if err2 := h.v.Set(second); err == nil {
					err = err2
				}
			}
			_ = h.v.String()
			return err
		})
		w.report("flaghelper."+h.name, cl, det, nil, cs, "second", second)
	}
}

func (w *c16Worker) decoderTextCase(txt string, idx int, cs map[string]any) {
	r := w.r
	ti := idx % len(c16Static)
	T, PT := c16Static[ti], c16CorpusPT[ti]
	doc := txt
	variant := "raw"
	if r.Chance(60) {
		format := pick(r, []string{"json", "yaml", "toml", "cue"})
		if d, ok := w.makeDoc(T, format); ok {
			doc = mutateDoc(r, d)
			variant = "mutated-" + format
			if r.Chance(20) {
				doc = d
				variant = "valid-" + format
			}
		}
	}
	dt := dials.NewType(PT)
	c2 := cloneCase(cs, "document", clip(doc, 800), "document_hex", clip(hexEnc(doc), 1600), "config_type", T.Name(), "variant", variant)
	decs := []struct {
		name string
		d    dials.Decoder
	}{{"json", &djson.Decoder{}}, {"yaml", &yaml.Decoder{}}, {"yaml-flatten", &yaml.Decoder{FlattenAnonymous: true}}, {"toml", &toml.Decoder{}}, {"cue", &cue.Decoder{}}}
	for _, d := range decs {
		if d.name == "cue" && cueDangerous(doc) {
			w.count("generator/cue-document-skipped(string repetition with a large count)")
			continue
		}
		cl, det := guard(func() error {
			_, err := (&static.StringSource{Data: doc, Decoder: d.d}).Value(context.Background(), dt)
			return err
		})
		w.report("decoder/"+d.name+"(bytes)", cl, det, nil, c2)
	}
}

var _ = fmt.Sprint
