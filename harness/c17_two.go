package main

// C17, mode "two": TWO watched files stacked in one dials.Config whose Verify relates a field of the first
// file to a field of the second (Lo <= Hi).  The final content of a file can then be rejected at the moment it
// is reported (because of what the OTHER file holds just then) and become part of a valid config later, when the
// other file changes: "once changes stop, the view converges to the config decoded from the final content" still
// has to hold, although the watcher reports every distinct content only once.
//
// Operations are atomic rename-overs of one of the two files; after each one the harness waits for the callback it
// must cause (OnNewConfig or OnWatchedError) - an observation with a deadline, never a sleep as expectation.

import (
	"context"
	"encoding/json"
	"errors"
	"fmt"
	"os"
	"path/filepath"
	"runtime/pprof"
	"sync/atomic"
	"time"

	"github.com/vimeo/dials"
	djson "github.com/vimeo/dials/decoders/json"
	"github.com/vimeo/dials/sources/file"
	"github.com/vimeo/dials/sourcewrap"
)

type c17TwoCfg struct {
	Lo int
	Hi int
}

func (c c17TwoCfg) Verify() error {
	if c.Lo > c.Hi {
		return fmt.Errorf("lo (%d) is greater than hi (%d)", c.Lo, c.Hi)
	}
	return nil
}

// c17GenTwo: Init = first file's {"Lo":..}; the second file starts as {"Hi":..}; op.What names the file ("A" | "B"),
// op.Content the new content
func c17GenTwo(r *RNG, id string) c17Hist {
	lo, hi := 1+r.Intn(10), 50+r.Intn(10)
	h := c17Hist{ID: id, Mode: "two", Layout: "plain", Init: fmt.Sprintf(`{"Lo":%d}|{"Hi":%d}`, lo, hi), InitValid: true}
	for n := 2 + r.Intn(6); n > 0; n-- {
		op := c17Op{Mech: "rename", Valid: true, PauseUS: c17Pauses[r.Intn(len(c17Pauses))]}
		if r.Bool() {
			op.What = "A"
			for v := lo; v == lo; {
				lo = 1 + r.Intn(100)
			}
			op.Content = fmt.Sprintf(`{"Lo":%d}`, lo)
		} else {
			op.What = "B"
			for v := hi; v == hi; {
				hi = 1 + r.Intn(100)
			}
			op.Content = fmt.Sprintf(`{"Hi":%d}`, hi)
		}
		h.Ops = append(h.Ops, op)
	}
	if lo > hi && r.Chance(70) {
		// mostly end in a state that is valid as a whole
		h.Ops = append(h.Ops, c17Op{Mech: "rename", Valid: true, What: "B", Content: fmt.Sprintf(`{"Hi":%d}`, lo+r.Intn(5))})
	}
	return h
}

func c17RunTwo(c *Ctx, h c17Hist, base string) *c17Out {
	o := &c17Out{hist: h, counts: map[string]int{}}
	dir := filepath.Join(base, h.ID)
	if err := os.MkdirAll(dir, 0o755); err != nil {
		o.add("violation", "harness: cannot set up the temp directory: "+err.Error(), nil, nil, nil)
		return o
	}
	defer os.RemoveAll(dir)
	var initA, initB string
	for i := range h.Init {
		if h.Init[i] == '|' {
			initA, initB = h.Init[:i], h.Init[i+1:]
		}
	}
	paths := map[string]string{"A": filepath.Join(dir, "base.json"), "B": filepath.Join(dir, "override.json")}
	write := func(which, content string) error {
		tmp := paths[which] + ".tmp"
		if err := os.WriteFile(tmp, []byte(content), 0o644); err != nil {
			return err
		}
		return os.Rename(tmp, paths[which])
	}
	if write("A", initA) != nil || write("B", initB) != nil {
		o.add("violation", "harness: cannot write the initial files", nil, nil, nil)
		return o
	}
	wsA, errA := file.NewWatchingSource(paths["A"], &djson.Decoder{})
	wsB, errB := file.NewWatchingSource(paths["B"], &djson.Decoder{})
	if errA != nil || errB != nil {
		o.add("violation", fmt.Sprintf("NewWatchingSource failed: %v %v", errA, errB), nil, nil, nil)
		return o
	}
	var events atomic.Int64 // OnNewConfig + OnWatchedError calls
	var verifyErrs atomic.Int64
	ctx, cancel := context.WithCancel(context.Background())
	defer cancel()
	var d *dials.Dials[c17TwoCfg]
	var err error
	pprof.Do(ctx, pprof.Labels("c17", h.ID), func(ctx context.Context) {
		d, err = dials.Params[c17TwoCfg]{
			OnNewConfig: func(context.Context, *c17TwoCfg, *c17TwoCfg) { events.Add(1) },
			OnWatchedError: func(_ context.Context, e error, _, _ *c17TwoCfg) {
				var de *file.DecoderErr
				if !errors.As(e, &de) {
					verifyErrs.Add(1)
				}
				events.Add(1)
			},
		}.Config(ctx, &c17TwoCfg{}, wsA, wsB)
	})
	if err != nil {
		o.add("violation", "dials.Config failed on two valid initial files: "+err.Error(), nil, nil, nil)
		return o
	}
	decode := func(a, b string) c17TwoCfg {
		var v c17TwoCfg
		json.Unmarshal([]byte(a), &v)
		json.Unmarshal([]byte(b), &v)
		return v
	}
	curA, curB := initA, initB
	lastGood := decode(curA, curB)
	if *d.View() != lastGood {
		o.add("violation", "two files: initial view is not the stack of the two initial files", lastGood, *d.View(), nil)
		return o
	}
	rejected := 0
	for i, op := range h.Ops {
		c17Sleep(op.PauseUS)
		before := events.Load()
		if err := write(op.What, op.Content); err != nil {
			o.add("violation", "harness: rename-over failed: "+err.Error(), nil, nil, nil)
			return o
		}
		if op.What == "A" {
			curA = op.Content
		} else {
			curB = op.Content
		}
		// the change must be seen: it leads to exactly one callback (new config or rejected stack)
		t0 := time.Now()
		for events.Load() == before && time.Since(t0) < c17Deadline {
			time.Sleep(c17Poll)
		}
		if events.Load() == before {
			o.add("violation", fmt.Sprintf("two files: operation %d (new content for file %s) caused neither a new config nor a reported error within the deadline", i, op.What), nil, *d.View(), nil)
			return o
		}
		now := decode(curA, curB)
		if now.Verify() == nil {
			lastGood = now
		} else {
			rejected++
		}
		// convergence after every operation (changes have stopped for the moment): the stack of both files'
		// current contents when it is valid, else the last good config
		t0 = time.Now()
		for *d.View() != lastGood && time.Since(t0) < c17Deadline {
			time.Sleep(c17Poll)
		}
		if got := *d.View(); got != lastGood {
			what := "two files: the view did not converge to the config decoded from the files' final contents"
			if now.Verify() != nil {
				what = "two files: the files' contents are invalid as a whole, but the view is not the last good config"
			}
			o.add("violation", what, lastGood, got, map[string]string{"base.json": curA, "override.json": curB})
			return o
		}
	}
	if int(verifyErrs.Load()) < rejected {
		o.add("violation", "two files: a stack that failed Verify was not reported to OnWatchedError", rejected, verifyErrs.Load(), nil)
	}
	o.count(fmt.Sprintf("two/rejected-intermediate-stacks=%d", min(rejected, 3)))
	o.nontrivial = rejected > 0 && len(h.Ops) >= 2
	o.canon = fmt.Sprint(h.Init, h.Ops)
	cancel()
	return o
}

// ---------- mode "poll": the WithPollInterval fallback ----------
//
// The config's DIRECTORY is removed (which silently drops the watch on it and on the file) and, several poll
// intervals later, recreated with new content: no file-system event reaches the watcher, only the fallback poll can
// see the change - at the first outage and at every later one.

func c17GenPoll(r *RNG, id string) c17Hist {
	h := c17Hist{ID: id, Mode: "poll", Layout: "plain", Init: fmt.Sprintf(`{"A":"%s.0","N":0}`, id), InitValid: true}
	for k := 1; k <= 2+r.Intn(2); k++ {
		h.Ops = append(h.Ops, c17Op{Mech: "rmdir-recreate", What: "new", Valid: true, Content: fmt.Sprintf(`{"A":"%s.%d","N":%d}`, id, k, k),
			PauseUS: (3 + r.Intn(4)) * 40000}) // outage length: 3-6 poll intervals
	}
	return h
}

func c17RunPoll(c *Ctx, h c17Hist, base string) *c17Out {
	o := &c17Out{hist: h, counts: map[string]int{}}
	const interval = 40 * time.Millisecond
	dir := filepath.Join(base, h.ID, "cfgdir")
	path := filepath.Join(dir, "config.json")
	defer os.RemoveAll(filepath.Join(base, h.ID))
	put := func(content string) error {
		if err := os.MkdirAll(dir, 0o755); err != nil {
			return err
		}
		return os.WriteFile(path, []byte(content), 0o644)
	}
	if err := put(h.Init); err != nil {
		o.add("violation", "harness: cannot set up the temp directory: "+err.Error(), nil, nil, nil)
		return o
	}
	ws, err := file.NewWatchingSource(path, &djson.Decoder{}, file.WithPollInterval(interval))
	if err != nil {
		o.add("violation", "NewWatchingSource failed: "+err.Error(), nil, nil, nil)
		return o
	}
	ctx, cancel := context.WithCancel(context.Background())
	defer cancel()
	var d *dials.Dials[c17JSONCfg]
	pprof.Do(ctx, pprof.Labels("c17", h.ID), func(ctx context.Context) {
		d, err = dials.Config(ctx, &c17JSONCfg{}, ws)
	})
	if err != nil {
		o.add("violation", "dials.Config failed on a valid initial file: "+err.Error(), nil, nil, nil)
		return o
	}
	want := func(s string) c17JSONCfg {
		var v c17JSONCfg
		json.Unmarshal([]byte(s), &v)
		return v
	}
	for i, op := range h.Ops {
		if err := os.RemoveAll(dir); err != nil {
			o.add("violation", "harness: cannot remove the directory: "+err.Error(), nil, nil, nil)
			return o
		}
		c17Sleep(op.PauseUS)
		if err := put(op.Content); err != nil {
			o.add("violation", "harness: cannot recreate the directory: "+err.Error(), nil, nil, nil)
			return o
		}
		t0 := time.Now()
		for *d.View() != want(op.Content) && time.Since(t0) < c17Deadline {
			time.Sleep(c17Poll)
		}
		if got := *d.View(); got != want(op.Content) {
			o.add("violation", fmt.Sprintf("poll mode: after outage %d (directory removed, recreated %d poll intervals later) the view did not converge to the file's final content within the deadline (%d poll intervals)",
				i+1, op.PauseUS/40000, int(c17Deadline/interval)), want(op.Content), got, nil)
			return o
		}
		if conv := time.Since(t0); conv > o.converged {
			o.converged = conv
		}
	}
	o.count("poll/outages-survived")
	o.nontrivial = len(h.Ops) >= 2
	o.canon = fmt.Sprint(h.Init, h.Ops)
	cancel()
	return o
}

// ---------- mode "samedir": the watched path is a symlink whose target changes WITHIN one directory ----------
//
// cfg.json -> v1.json; the symlink is atomically retargeted to the sibling v2.json (new content: converges), then the
// file the path NOW resolves to is rewritten in place: the watcher must have moved its file watch / event filter to
// the new target although the resolved DIRECTORY did not change.

func c17GenSameDir(r *RNG, id string) c17Hist {
	h := c17Hist{ID: id, Mode: "samedir", Layout: "plain", Init: fmt.Sprintf(`{"A":"%s.0","N":0}`, id), InitValid: true}
	k := 1
	for n := 1 + r.Intn(3); n > 0; n-- {
		h.Ops = append(h.Ops, c17Op{Mech: "retarget", What: "new", Valid: true, Content: fmt.Sprintf(`{"A":"%s.%d","N":%d}`, id, k, k), PauseUS: c17Pauses[r.Intn(len(c17Pauses))]})
		k++
		for m := 1 + r.Intn(2); m > 0; m-- {
			h.Ops = append(h.Ops, c17Op{Mech: "inplace", What: "new", Valid: true, Content: fmt.Sprintf(`{"A":"%s.%d","N":%d}`, id, k, k), PauseUS: c17Pauses[r.Intn(len(c17Pauses))]})
			k++
		}
	}
	return h
}

func c17RunSameDir(c *Ctx, h c17Hist, base string) *c17Out {
	o := &c17Out{hist: h, counts: map[string]int{}}
	dir := filepath.Join(base, h.ID)
	if err := os.MkdirAll(dir, 0o755); err != nil {
		o.add("violation", "harness: cannot set up the temp directory: "+err.Error(), nil, nil, nil)
		return o
	}
	defer os.RemoveAll(dir)
	cfg := filepath.Join(dir, "cfg.json")
	gen := 1
	target := func(g int) string { return fmt.Sprintf("v%d.json", g) }
	if os.WriteFile(filepath.Join(dir, target(gen)), []byte(h.Init), 0o644) != nil || os.Symlink(target(gen), cfg) != nil {
		o.add("violation", "harness: cannot create the initial file and symlink", nil, nil, nil)
		return o
	}
	ws, err := file.NewWatchingSource(cfg, &djson.Decoder{})
	if err != nil {
		o.add("violation", "NewWatchingSource failed: "+err.Error(), nil, nil, nil)
		return o
	}
	ctx, cancel := context.WithCancel(context.Background())
	defer cancel()
	var d *dials.Dials[c17JSONCfg]
	pprof.Do(ctx, pprof.Labels("c17", h.ID), func(ctx context.Context) {
		d, err = dials.Config(ctx, &c17JSONCfg{}, ws)
	})
	if err != nil {
		o.add("violation", "dials.Config failed on a valid initial file: "+err.Error(), nil, nil, nil)
		return o
	}
	want := func(s string) c17JSONCfg {
		var v c17JSONCfg
		json.Unmarshal([]byte(s), &v)
		return v
	}
	for i, op := range h.Ops {
		c17Sleep(op.PauseUS)
		var ferr error
		switch op.Mech {
		case "retarget":
			gen++
			if ferr = os.WriteFile(filepath.Join(dir, target(gen)), []byte(op.Content), 0o644); ferr == nil {
				tmp := cfg + ".tmp"
				os.Remove(tmp)
				if ferr = os.Symlink(target(gen), tmp); ferr == nil {
					ferr = os.Rename(tmp, cfg)
				}
			}
		default: // in-place rewrite of whatever the path resolves to now
			ferr = os.WriteFile(cfg, []byte(op.Content), 0o644)
		}
		if ferr != nil {
			o.add("violation", "harness: file operation failed: "+ferr.Error(), nil, nil, nil)
			return o
		}
		t0 := time.Now()
		for *d.View() != want(op.Content) && time.Since(t0) < c17Deadline {
			time.Sleep(c17Poll)
		}
		if got := *d.View(); got != want(op.Content) {
			what := "same-directory symlink: after the symlink was retargeted to a sibling file the view did not converge to the new target's content"
			if op.Mech == "inplace" {
				what = "same-directory symlink: after an in-place rewrite of the file the path now resolves to (a sibling of the old target) the view did not converge to the final content"
			}
			o.add("violation", fmt.Sprintf("%s (operation %d)", what, i), want(op.Content), got, nil)
			return o
		}
	}
	o.count("samedir/histories")
	o.nontrivial = len(h.Ops) >= 3
	o.canon = fmt.Sprint(h.Init, h.Ops)
	cancel()
	return o
}

// ---------- mode "blank": the watching source is installed later, through sourcewrap.Blank ----------
//
// (how ez plugs in the config file).  The context of the SetSource call is a start-up deadline that ends right after
// the call returns; the Config context lives on.  The file keeps being followed - rename-over, in-place rewrite,
// temporarily malformed content -, and cancelling the CONFIG context is what releases the watcher's goroutine.

func c17GenBlank(r *RNG, id string) c17Hist {
	h := c17Hist{ID: id, Mode: "blank", Layout: "plain", Init: fmt.Sprintf(`{"A":"%s.0","N":0}`, id), InitValid: true}
	n := 2 + r.Intn(3)
	for k := 1; k <= n; k++ {
		op := c17Op{Mech: []string{"rename-over", "rewrite"}[r.Intn(2)], What: "new", Valid: true, Content: fmt.Sprintf(`{"A":"%s.%d","N":%d}`, id, k, k), PauseUS: r.Intn(3000)}
		if k < n && r.Chance(25) {
			op.Valid, op.Content = false, `{"A": `
		}
		h.Ops = append(h.Ops, op)
	}
	return h
}

func c17RunBlank(c *Ctx, h c17Hist, base string) *c17Out {
	o := &c17Out{hist: h, counts: map[string]int{}}
	dir := filepath.Join(base, h.ID)
	path := filepath.Join(dir, "config.json")
	defer os.RemoveAll(dir)
	os.MkdirAll(dir, 0o755)
	if err := os.WriteFile(path, []byte(h.Init), 0o644); err != nil {
		o.add("violation", "harness: cannot set up the temp directory: "+err.Error(), nil, nil, nil)
		return o
	}
	ws, err := file.NewWatchingSource(path, &djson.Decoder{})
	if err != nil {
		o.add("violation", "NewWatchingSource failed: "+err.Error(), nil, nil, nil)
		return o
	}
	ctx, cancel := context.WithCancel(context.Background())
	defer cancel()
	b := &sourcewrap.Blank{}
	var d *dials.Dials[c17JSONCfg]
	pprof.Do(ctx, pprof.Labels("c17", h.ID), func(ctx context.Context) {
		d, err = dials.Config(ctx, &c17JSONCfg{}, b)
	})
	if err != nil {
		o.add("violation", "dials.Config with a Blank failed: "+err.Error(), nil, nil, nil)
		return o
	}
	sctx, scancel := context.WithTimeout(ctx, 5*time.Second)
	err = b.SetSource(sctx, ws)
	scancel() // the start-up deadline is over; the Config context is not
	if err != nil {
		o.add("violation", "Blank.SetSource(watching file source) failed: "+err.Error(), nil, nil, nil)
		return o
	}
	want := func(s string) c17JSONCfg {
		var v c17JSONCfg
		json.Unmarshal([]byte(s), &v)
		return v
	}
	last := h.Init
	if got := *d.View(); got != want(last) {
		o.add("violation", "blank mode: SetSource returned nil but the view is not the file's content", want(last), got, nil)
		return o
	}
	for i, op := range h.Ops {
		c17Sleep(op.PauseUS)
		if op.Mech == "rename-over" {
			tmp := path + ".tmp"
			os.WriteFile(tmp, []byte(op.Content), 0o644)
			os.Rename(tmp, path)
		} else {
			os.WriteFile(path, []byte(op.Content), 0o644)
		}
		if !op.Valid {
			continue
		}
		last = op.Content
		t0 := time.Now()
		for *d.View() != want(last) && time.Since(t0) < c17Deadline {
			time.Sleep(c17Poll)
		}
		if got := *d.View(); got != want(last) {
			o.add("violation", fmt.Sprintf("blank mode: the watching source was installed through a Blank whose SetSource context has ended (the Config context is alive): after change %d (%s) the view did not converge to the file's content within the deadline", i+1, op.Mech), want(last), got, nil)
			return o
		}
		if conv := time.Since(t0); conv > o.converged {
			o.converged = conv
		}
	}
	// the Config context releases the watcher
	cancel()
	done := make(chan struct{})
	go func() { ws.WG.Wait(); close(done) }()
	select {
	case <-done:
	case <-time.After(c17Deadline):
		o.add("violation", "blank mode: the watcher's goroutine was not released after the Config context was cancelled", nil, nil, nil)
		return o
	}
	o.count("blank/followed-and-released")
	o.nontrivial = len(h.Ops) >= 2
	o.canon = fmt.Sprint(h.Init, h.Ops)
	return o
}
