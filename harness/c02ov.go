package main

// C02, streams C and D: the heap-level model of overlay.go / compose (Model/HeapOverlay.lean) against the
// real code, on object graphs with sharing inside and across base and overlay.
//
//  stream C  dials.VerifOverlay(base, overlay) vs `hp overlay`: VerifOverlay deep-copies the overlay value with
//            a fresh copier and overlays the copy onto the base in place, exactly as compose does for one source;
//            the model op does the same with the proved copier model followed by overlayStructH.
//  stream D  dials.VerifCompose(defaults, layers) vs `hp compose` (composeR).
//
// Compared on every case: outcome class, the canonical graph of the result (pointers, maps AND slice backing
// arrays numbered in first-visit order, so sharing is part of the text), which of the cells that existed before
// the call were modified and what they hold now, and whether everything the result newly reaches was allocated
// during the call.  Direct oracles: only cells the base reached before the call may be modified, nothing that
// existed before the call becomes newly reachable from the result.

import (
	"fmt"
	"os"
	"reflect"
	"sort"
	"strings"
	"unsafe"

	"github.com/vimeo/dials"
	"github.com/vimeo/dials/ptrify"
)

// a text-unmarshaler struct that holds references: overlay copies it shallowly
type tuRef struct {
	P *int
	L []int
	N int
}

func (t *tuRef) UnmarshalText(b []byte) error { _, err := fmt.Sscan(string(b), &t.N); return err }

var ovRich = []reflect.Type{
	reflect.TypeOf([]*int(nil)), reflect.TypeOf(map[string]*int(nil)), reflect.TypeOf([2]*int{}), reflect.TypeOf([]map[string]int(nil)),
	reflect.TypeOf(map[string][]int(nil)), reflect.TypeOf(tuRef{}), reflect.TypeOf(&tuRef{}), reflect.TypeOf((*[]*int)(nil)),
	reflect.TypeOf((*int)(nil)), reflect.TypeOf((*map[string]*int)(nil)), reflect.TypeOf([1][]int{}),
}

func ovFieldType(r *RNG, depth int) reflect.Type {
	x := r.Intn(100)
	switch {
	case x < 22:
		return ovRich[r.Intn(len(ovRich))]
	case x < 36 && depth > 0:
		return ovStructType(r, depth-1)
	case x < 48 && depth > 0:
		return reflect.PtrTo(ovStructType(r, depth-1))
	}
	return genFieldType(r, depth)
}

func ovStructType(r *RNG, depth int) reflect.Type {
	n := 1 + r.Intn(6)
	fs := make([]reflect.StructField, n)
	for i := range fs {
		fs[i] = reflect.StructField{Name: fmt.Sprintf("%s%d", uniPrefix(r), i), Type: ovFieldType(r, depth)}
		if r.Chance(8) {
			fs[i].Tag = `dials:"-"`
		}
	}
	return reflect.StructOf(fs)
}

// hasZeroSize: a pointer to / slice of a zero-size type (all such objects share one address: no identity to compare)
func hasZeroSize(t reflect.Type, depth int) bool {
	if depth > 8 {
		return false
	}
	switch t.Kind() {
	case reflect.Ptr, reflect.Slice:
		return t.Elem().Size() == 0 || hasZeroSize(t.Elem(), depth+1)
	case reflect.Array:
		return hasZeroSize(t.Elem(), depth+1)
	case reflect.Map:
		return hasZeroSize(t.Key(), depth+1) || hasZeroSize(t.Elem(), depth+1)
	case reflect.Struct:
		if t.Size() == 0 {
			return true
		}
		for i := 0; i < t.NumField(); i++ {
			if hasZeroSize(t.Field(i).Type, depth+1) {
				return true
			}
		}
	}
	return false
}

type intPool struct{ ps []*int }

func (p *intPool) get(r *RNG) *int {
	if len(p.ps) > 0 && r.Chance(45) {
		return p.ps[r.Intn(len(p.ps))]
	}
	x := r.Intn(900)
	p.ps = append(p.ps, &x)
	return &x
}

// fillRefs puts pointers (some shared) into the places genBase/genLayer leave nil: elements of slices, arrays
// and maps, fields of the reference-holding text-unmarshaler struct.
func fillRefs(r *RNG, v reflect.Value, pool *intPool, depth int) {
	if depth > 6 {
		return
	}
	pint := reflect.TypeOf((*int)(nil))
	switch v.Kind() {
	case reflect.Struct:
		for i := 0; i < v.NumField(); i++ {
			if v.Field(i).CanSet() {
				fillRefs(r, v.Field(i), pool, depth+1)
			}
		}
	case reflect.Ptr:
		if v.IsNil() {
			if v.Type() == pint && v.CanSet() && depth > 1 && r.Chance(60) {
				v.Set(reflect.ValueOf(pool.get(r)))
			}
			return
		}
		fillRefs(r, v.Elem(), pool, depth+1)
	case reflect.Slice:
		if v.IsNil() {
			if v.CanSet() && v.Type() == reflect.TypeOf([]int(nil)) && depth > 1 && r.Chance(40) {
				s := make([]int, 1+r.Intn(2), 4)
				s[0] = r.Intn(50)
				v.Set(reflect.ValueOf(s))
			}
			return
		}
		full := v.Slice(0, v.Cap())
		for i := 0; i < full.Len(); i++ {
			fillRefs(r, full.Index(i), pool, depth+2)
		}
	case reflect.Array:
		for i := 0; i < v.Len(); i++ {
			fillRefs(r, v.Index(i), pool, depth+2)
		}
	case reflect.Map:
		if v.IsNil() {
			return
		}
		for _, k := range v.MapKeys() {
			switch v.Type().Elem() {
			case pint:
				if r.Chance(70) {
					v.SetMapIndex(k, reflect.ValueOf(pool.get(r)))
				}
			case reflect.TypeOf([]int(nil)):
				if r.Chance(70) {
					s := make([]int, 1, 2+r.Intn(2))
					s[0] = r.Intn(50)
					v.SetMapIndex(k, reflect.ValueOf(s))
				}
			}
		}
	}
}

// aliasAmong makes places of identical reference type share memory, inside one root and across roots
func aliasAmong(r *RNG, pct int, roots ...reflect.Value) (made int) {
	byType := map[reflect.Type][]reflect.Value{}
	var walk func(x reflect.Value, depth int)
	walk = func(x reflect.Value, depth int) {
		if depth > 5 {
			return
		}
		switch x.Kind() {
		case reflect.Struct:
			for i := 0; i < x.NumField(); i++ {
				if x.Field(i).CanSet() {
					walk(x.Field(i), depth+1)
				}
			}
		case reflect.Ptr:
			byType[x.Type()] = append(byType[x.Type()], x)
			if !x.IsNil() {
				walk(x.Elem(), depth+1)
			}
		case reflect.Map, reflect.Slice:
			byType[x.Type()] = append(byType[x.Type()], x)
		}
	}
	for _, root := range roots {
		walk(root, 0)
	}
	var types []reflect.Type
	for t := range byType {
		types = append(types, t)
	}
	sort.Slice(types, func(i, j int) bool { return types[i].String() < types[j].String() })
	for _, t := range types {
		vs := byType[t]
		for k := 0; k < 2; k++ {
			if len(vs) >= 2 && r.Chance(pct) {
				a, b := vs[r.Intn(len(vs))], vs[r.Intn(len(vs))]
				if a.CanSet() && !b.IsNil() && a.Kind() == b.Kind() {
					if a.Kind() == reflect.Slice && b.Cap() == 0 {
						continue
					}
					a.Set(b)
					made++
				}
			}
		}
	}
	return made
}

// ---------- encoder: Go object graph -> model heap (identity for pointees, maps and slice backing arrays) ----------

type oKey struct {
	p uintptr
	k byte
}

type oEnc struct {
	cells   []string
	handles []reflect.Value // what designates the cell: the pointer, the map, the slice over its whole capacity
	addr    map[oKey]int
	strs    map[string]int
	frozen  bool // after the call: no allocation, unknown addresses print as *
}

// detach copies a reference header out of the variable it was read from (a reflect.Value of a field keeps
// following the field; the handle must keep designating the cell the field referred to at encoding time)
func detach(v reflect.Value) reflect.Value {
	if !v.CanAddr() {
		return v
	}
	view := reflect.NewAt(v.Type(), unsafe.Pointer(v.UnsafeAddr())).Elem()
	c := reflect.New(v.Type()).Elem()
	c.Set(view)
	return c
}

func newOEnc() *oEnc { return &oEnc{addr: map[oKey]int{}, strs: map[string]int{}} }

func (e *oEnc) str(s string) int {
	if s == "" {
		return 0
	}
	if id, ok := e.strs[s]; ok {
		return id
	}
	id := len(e.strs) + 1
	e.strs[s] = id
	return id
}

func (e *oEnc) ref(v reflect.Value, k byte, letter string, suffix string, content func() string) string {
	key := oKey{v.Pointer(), k}
	if a, ok := e.addr[key]; ok {
		return fmt.Sprintf("%s%d%s", letter, a, suffix)
	}
	if e.frozen {
		return letter + "*" + suffix
	}
	a := len(e.cells)
	e.cells = append(e.cells, "")
	h := detach(v)
	if k == 'l' {
		h = v.Slice(0, v.Cap())
	}
	e.handles = append(e.handles, h)
	e.addr[key] = a
	e.cells[a] = content()
	return fmt.Sprintf("%s%d%s", letter, a, suffix)
}

// cellText: the (shallow) contents of the cell a handle designates
func (e *oEnc) cellText(h reflect.Value) string {
	switch h.Kind() {
	case reflect.Ptr:
		return "V " + e.enc(h.Elem())
	case reflect.Map:
		parts := []string{"M", "("}
		for _, k := range sortedKeys(h) {
			parts = append(parts, e.enc(k), e.enc(h.MapIndex(k)))
		}
		return strings.Join(append(parts, ")"), " ")
	default:
		parts := []string{"A", "("}
		for i := 0; i < h.Len(); i++ {
			parts = append(parts, e.enc(h.Index(i)))
		}
		return strings.Join(append(parts, ")"), " ")
	}
}

func (e *oEnc) enc(v reflect.Value) string {
	switch v.Kind() {
	case reflect.Ptr:
		if v.IsNil() {
			return "n"
		}
		return e.ref(v, 'p', "p", "", func() string { return e.cellText(v) })
	case reflect.Map:
		if v.IsNil() {
			return "n"
		}
		return e.ref(v, 'm', "m", "", func() string { return e.cellText(v) })
	case reflect.Slice:
		if v.IsNil() {
			return "n"
		}
		return e.ref(v, 'l', "l", fmt.Sprintf(":%d", v.Len()), func() string { return e.cellText(v.Slice(0, v.Cap())) })
	case reflect.Struct:
		parts := []string{"{"}
		for i := 0; i < v.NumField(); i++ {
			fl := "e"
			if v.Type().Field(i).PkgPath != "" {
				fl = "u"
			}
			parts = append(parts, fl, e.enc(v.Field(i)))
		}
		return strings.Join(append(parts, "}"), " ")
	case reflect.Array:
		parts := []string{"["}
		for i := 0; i < v.Len(); i++ {
			parts = append(parts, e.enc(v.Index(i)))
		}
		return strings.Join(append(parts, "]"), " ")
	case reflect.Interface:
		if v.IsNil() {
			return "n"
		}
		return "i " + e.enc(v.Elem())
	case reflect.String:
		return fmt.Sprintf("s%d", e.str(v.String()))
	}
	return fmt.Sprintf("s%d", scalarCode(v))
}

func (e *oEnc) known() map[uintptr]bool {
	m := map[uintptr]bool{}
	for k := range e.addr {
		m[k.p] = true
	}
	return m
}

// modified re-reads every cell of the request after the call
func (e *oEnc) modified() []string {
	e.frozen = true
	var out []string
	for a, h := range e.handles {
		if now := e.cellText(h); now != e.cells[a] {
			out = append(out, fmt.Sprintf("%d=%s", a, now))
		}
	}
	return out
}

func canonOv(v reflect.Value, strs map[string]int) (string, map[uintptr]bool) {
	c := &gCanon{seen: map[uintptr]int{}, seenSl: map[uintptr]int{}, strs: strs, addrs: map[uintptr]bool{}, ov: true}
	c.render(v, true)
	return strings.Join(c.out, " "), c.addrs
}

// zerosText: the zero values of the opaque leaf types of the case, by model type tag
func zerosText(tt *typeTable, e *oEnc) string {
	type ent struct {
		id int
		t  reflect.Type
	}
	var es []ent
	for t, id := range tt.ids {
		if t.Kind() != reflect.Slice && t.Kind() != reflect.Map {
			es = append(es, ent{id, t})
		}
	}
	sort.Slice(es, func(i, j int) bool { return es[i].id < es[j].id })
	var parts []string
	for _, x := range es {
		parts = append(parts, fmt.Sprintf("z %d %s", x.id, e.enc(reflect.Zero(x.t))))
	}
	return strings.Join(parts, " ")
}

func genOvType(r *RNG) reflect.Type {
	for {
		var T reflect.Type
		switch x := r.Intn(100); {
		case x < 6:
			T = c01Statics[r.Intn(2)] // the third one holds pointers to zero-size structs
		case x < 30:
			T = genStructType(r, 1+r.Intn(3))
		default:
			T = ovStructType(r, 1+r.Intn(3))
		}
		if T.Size() > 0 && !hasZeroSize(T, 0) {
			return T
		}
	}
}

func reachNew(after, before, known map[uintptr]bool) bool {
	for a := range after {
		if !before[a] && known[a] {
			return true
		}
	}
	return false
}

func checkC02Overlay(c *Ctx) {
	r := c.RNG
	res := c.Res
	// ---------- stream C: VerifOverlay ----------
	nC := c.scale(8000, 200000)
	only := os.Getenv("C02_STREAMS")
	if only != "" && !strings.Contains(only, "C") {
		nC = 0
	}
	// results of the last few cases (kept alive): separate overlays must not share memory either
	type prevRes struct {
		keep  reflect.Value
		addrs map[uintptr]bool
	}
	var prev []prevRes
	for i := 0; i < nC; i++ {
		T := genOvType(r)
		pool := &intPool{}
		def := reflect.New(T)
		genBase(r, def.Elem(), 3)
		fillRefs(r, def.Elem(), pool, 0)
		var PT reflect.Type
		if pn := catch(func() { PT = ptrify.Pointerify(T, def.Elem()) }); pn != "" {
			continue
		}
		// overlay type: the pointerified type; sometimes (malformed sub-stream, error and panic exits) the base type
		// itself (only when no field is skipped, so that the field indices stay aligned) or the pointerified type
		// without its last field (reflect: Field index out of range)
		OT := PT
		variant := "ptrified"
		tdesc := (&typeTable{ids: map[reflect.Type]int{}}).tyDesc(T)
		switch x := r.Intn(100); {
		case x < 8 && !strings.Contains(tdesc, " d ") && !strings.Contains(tdesc, " u ") && !strings.Contains(tdesc, " C") && !strings.Contains(tdesc, " F"):
			OT, variant = T, "base-type"
		case x < 16 && PT.NumField() > 0:
			fs := make([]reflect.StructField, PT.NumField()-1)
			for k := range fs {
				fs[k] = PT.Field(k)
			}
			OT, variant = reflect.StructOf(fs), "short"
		}
		lv := reflect.New(OT)
		switch variant {
		case "base-type":
			genBase(r, lv.Elem(), 3)
		case "short":
			full := reflect.New(PT)
			genLayer(r, full.Elem(), 30+r.Intn(65))
			for k := 0; k < OT.NumField(); k++ {
				lv.Elem().Field(k).Set(full.Elem().Field(k))
			}
		default:
			genLayer(r, lv.Elem(), 30+r.Intn(65))
		}
		fillRefs(r, lv.Elem(), pool, 0)
		aliasAmong(r, 35, def.Elem())
		aliasAmong(r, 35, lv.Elem())
		cross := 0
		if r.Chance(40) {
			cross = aliasAmong(r, 45, def.Elem(), lv.Elem())
		}
		truncateSome(r, def.Elem(), 0)
		truncateSome(r, lv.Elem(), 0)
		plain := r.Chance(35)
		tt := &typeTable{ids: map[reflect.Type]int{}}
		tb, to := tt.tyDesc(T), tt.tyDesc(OT)
		e := newOEnc()
		e.enc(def) // cell 0 = the base struct
		var root string
		ov := lv.Elem()
		if plain {
			ov = reflect.ValueOf(lv.Elem().Interface())
			root = e.enc(ov)
		} else {
			root = e.enc(lv)
		}
		req := strings.Join(strings.Fields("hp overlay "+zerosText(tt, e)), " ") + " T " + tb + " T " + to + " H " + strings.Join(e.cells, " ") + " ; 0 " + root
		strs := e.strs
		beforeG, beforeA := canonOv(def, strs)
		ovBefore, ovA := canonOv(lv, strs)
		cs := map[string]any{"stream": "overlay", "type": T.String(), "base": beforeG, "overlay": ovBefore, "plain_value": plain, "cross_aliased": cross, "overlay_type": variant, "request": req}
		var err error
		pn := catch(func() { err = dials.VerifOverlay(def.Elem(), ov) })
		status := "ok"
		if pn != "" {
			status = "panic"
			cs["panic"] = pn
		} else if err != nil {
			status = "err"
			cs["error"] = err.Error()
		}
		afterG, afterA := canonOv(def, strs)
		mods := e.modified()
		known := e.known()
		fresh := 1
		if reachNew(afterA, beforeA, known) {
			fresh = 0
		}
		impl := fmt.Sprintf("%s %s | mod %s | fresh=%d", status, afterG, strings.Join(mods, " ; "), fresh)
		model := c.Drv.Ask(req)
		res.Count("C/outcome=" + status)
		res.Count("C/overlay_type=" + variant)
		res.Count(fmt.Sprintf("C/modified_cells=%d", min(len(mods), 6)))
		res.Count(fmt.Sprintf("C/cross_aliased=%v", cross > 0))
		res.Count(fmt.Sprintf("C/cells=%d", min(len(e.cells)/4*4, 40)))
		if impl != model {
			res.Add(Finding{Kind: "disagreement", What: "overlay (VerifOverlay): heap model != implementation", Case: cs, Observed: impl, Model: model})
		}
		// direct oracles
		if fresh == 0 {
			res.Add(Finding{Kind: "violation", What: "after the overlay the base reaches memory that existed before the call and that it did not reach before (the overlay value was not copied, or copied incompletely)", Case: cs, Observed: afterG})
		}
		for _, m := range mods {
			var a int
			fmt.Sscanf(m, "%d=", &a)
			h := e.handles[a]
			if !beforeA[h.Pointer()] {
				res.Add(Finding{Kind: "violation", What: "the overlay modified a cell the base did not reach (the source's own value, or unrelated memory)", Case: cs, Observed: m})
			}
		}
		for _, p := range prev {
			for a := range afterA {
				if p.addrs[a] && !beforeA[a] && !known[a] {
					res.Add(Finding{Kind: "violation", What: "the base reaches memory that an earlier, unrelated overlay result reaches too (a pointee was reused instead of freshly allocated)", Case: cs, Observed: afterG})
					break
				}
			}
		}
		if prev = append(prev, prevRes{def, afterA}); len(prev) > 12 {
			prev = prev[1:]
		}
		if cross == 0 {
			if now, _ := canonOv(lv, strs); now != ovBefore {
				res.Add(Finding{Kind: "violation", What: "the overlay value handed to VerifOverlay was modified", Case: cs, Expected: ovBefore, Observed: now})
			}
		}
		_ = ovA
		res.Case("C|"+req, status == "ok" && len(afterA) >= 3 && afterG != beforeG, cs)
		if res.Bad() > 20 {
			return
		}
	}

	// ---------- stream D: VerifCompose ----------
	nD := c.scale(4000, 100000)
	if only != "" && !strings.Contains(only, "D") {
		nD = 0
	}
	for i := 0; i < nD; i++ {
		T := genOvType(r)
		pool := &intPool{}
		def := reflect.New(T)
		genBase(r, def.Elem(), 3)
		fillRefs(r, def.Elem(), pool, 0)
		var PT reflect.Type
		if pn := catch(func() { PT = ptrify.Pointerify(T, def.Elem()) }); pn != "" {
			continue
		}
		nl := r.Intn(4)
		layers := make([]reflect.Value, nl)
		roots := []reflect.Value{def.Elem()}
		for k := range layers {
			layers[k] = reflect.New(PT)
			genLayer(r, layers[k].Elem(), 30+r.Intn(65))
			fillRefs(r, layers[k].Elem(), pool, 0)
			roots = append(roots, layers[k].Elem())
		}
		aliasAmong(r, 35, roots...)
		for _, x := range roots {
			truncateSome(r, x, 0)
		}
		tt := &typeTable{ids: map[reflect.Type]int{}}
		tb, to := tt.tyDesc(T), tt.tyDesc(PT)
		e := newOEnc()
		droot := e.enc(def)
		given := make([]reflect.Value, nl)
		var ltxt []string
		for k, l := range layers {
			switch r.Intn(3) {
			case 0:
				given[k] = l
				ltxt = append(ltxt, "L T "+to+" "+e.enc(l))
			case 1:
				given[k] = l.Elem()
				ltxt = append(ltxt, "L T "+to+" "+e.enc(l))
			default:
				given[k] = reflect.ValueOf(l.Elem().Interface())
				ltxt = append(ltxt, "L T "+to+" "+e.enc(given[k]))
			}
		}
		req := strings.TrimSpace(strings.Join(strings.Fields("hp compose "+zerosText(tt, e)), " ") + " T " + tb + " H " + strings.Join(e.cells, " ") + " ; " + droot + " " + strings.Join(ltxt, " "))
		strs := e.strs
		defG, _ := canonOv(def, strs)
		cs := map[string]any{"stream": "compose-model", "type": T.String(), "default": defG, "layers": nl, "request": req}
		var out any
		var err error
		pn := catch(func() { out, err = dials.VerifCompose(def.Interface(), given) })
		status := "ok"
		if pn != "" {
			status = "panic"
			cs["panic"] = pn
		} else if err != nil {
			status = "err"
			cs["error"] = err.Error()
		}
		mods := e.modified()
		model := c.Drv.Ask(req)
		res.Count("D/outcome=" + status)
		res.Count(fmt.Sprintf("D/layers=%d", nl))
		var impl string
		nres := 0
		if status == "ok" {
			g, a := canonOv(reflect.ValueOf(out), strs)
			nres = len(a)
			fresh := 1
			if reachNew(a, map[uintptr]bool{}, e.known()) {
				fresh = 0
			}
			impl = fmt.Sprintf("ok %s | mod %s | fresh=%d", g, strings.Join(mods, " ; "), fresh)
			if fresh == 0 {
				res.Add(Finding{Kind: "violation", What: "the stacked config shares memory with the defaults or a source value", Case: cs, Observed: g})
			}
		} else {
			// compose returns no value: compare the outcome class and the modified cells
			impl = status + " | mod " + strings.Join(mods, " ; ")
			if j := strings.Index(model, " | fresh="); j >= 0 {
				k := strings.Index(model, " | mod ")
				model = strings.SplitN(model, " ", 2)[0] + model[k:j]
			}
		}
		if impl != model {
			res.Add(Finding{Kind: "disagreement", What: "compose (VerifCompose): heap model != implementation", Case: cs, Observed: impl, Model: model})
		}
		if len(mods) > 0 {
			res.Add(Finding{Kind: "violation", What: "compose modified the defaults or a source value", Case: cs, Observed: mods})
		}
		res.Case("D|"+req, status == "ok" && nl >= 1 && nres >= 3, cs)
		if res.Bad() > 20 {
			return
		}
	}
}
