package main

// C13, a text-unmarshalable value whose type is a named slice of plain structs (`type Endpoints []Endpoint`, written
// "alpha:1,beta:22"): the same data in JSON, YAML, TOML and Cue gives the same config, next to ordinary leaves, at the
// top level, in a nested section and behind a pointer.  The decoders' own mangler chains (tag copy, duration
// substitution) must leave the type alone.  Oracle only.

import (
	"fmt"
	"reflect"
	"strings"

	"github.com/vimeo/dials"
	"github.com/vimeo/dials/ptrify"
)

type c13OSection struct {
	Mirrors c10Endpoints `dials:"mirrors"`
	Weight  int          `dials:"weight"`
}

// (an ARRAY of structs: every element is read, not only the last)
type c13Rep struct {
	Host string `dials:"host"`
	Port int    `dials:"port"`
}

type c13OCfg struct {
	Name     string        `dials:"name"`
	Peers    c10Endpoints  `dials:"peers"`
	Section  c13OSection   `dials:"section"`
	Opt      *c10Endpoints `dials:"opt"`
	Replicas [3]c13Rep     `dials:"replicas"`
}

func c13OpaqueText(c *Ctx, n int) {
	r := c.RNG
	res := c.Res
	pt := ptrify.Pointerify(reflect.TypeOf(c13OCfg{}), reflect.ValueOf(c13OCfg{}))
	for i := 0; i < n; i++ {
		a, b, w := 1+r.Intn(60000), 1+r.Intn(60000), r.Intn(1000)
		peers := fmt.Sprintf("alpha:%d,beta:%d", a, b)
		mirrors := fmt.Sprintf("m:%d", b)
		opt := fmt.Sprintf("o:%d", a)
		withOpt, withSection, withReps := r.Bool(), r.Bool(), r.Chance(60)
		tmTail := ""
		docs := map[string]string{}
		{
			var js, ym, tm, cu []string
			js = append(js, `"name":"n"`, fmt.Sprintf(`"peers":%q`, peers))
			ym = append(ym, "name: n", fmt.Sprintf("peers: %q", peers))
			tm = append(tm, `name = "n"`, fmt.Sprintf("peers = %q", peers))
			cu = append(cu, `name: "n"`, fmt.Sprintf("peers: %q", peers))
			if withReps {
				js = append(js, fmt.Sprintf(`"replicas":[{"host":"a","port":%d},{"host":"b","port":%d},{"host":"c","port":%d}]`, a, b, w))
				ym = append(ym, fmt.Sprintf("replicas:\n  - {host: a, port: %d}\n  - {host: b, port: %d}\n  - {host: c, port: %d}", a, b, w))
				cu = append(cu, fmt.Sprintf(`replicas: [{host: "a", port: %d}, {host: "b", port: %d}, {host: "c", port: %d}]`, a, b, w))
				tmTail = fmt.Sprintf("[[replicas]]\nhost = \"a\"\nport = %d\n[[replicas]]\nhost = \"b\"\nport = %d\n[[replicas]]\nhost = \"c\"\nport = %d\n", a, b, w)
			}
			if withOpt {
				js = append(js, fmt.Sprintf(`"opt":%q`, opt))
				ym = append(ym, fmt.Sprintf("opt: %q", opt))
				tm = append(tm, fmt.Sprintf("opt = %q", opt))
				cu = append(cu, fmt.Sprintf("opt: %q", opt))
			}
			if withSection {
				js = append(js, fmt.Sprintf(`"section":{"mirrors":%q,"weight":%d}`, mirrors, w))
				ym = append(ym, fmt.Sprintf("section:\n  mirrors: %q\n  weight: %d", mirrors, w))
				tm = append(tm, fmt.Sprintf("[section]\nmirrors = %q\nweight = %d", mirrors, w))
				cu = append(cu, fmt.Sprintf("section: {mirrors: %q, weight: %d}", mirrors, w))
			}
			docs["json"] = "{" + strings.Join(js, ",") + "}"
			docs["yaml"] = strings.Join(ym, "\n") + "\n"
			docs["toml"] = strings.Join(tm, "\n") + "\n" + tmTail
			docs["cue"] = strings.Join(cu, "\n") + "\n"
		}
		want := fmt.Sprintf("name=n peers=%v section={%v %d} opt=%v", c10Endpoints{{"alpha", a}, {"beta", b}},
			map[bool]any{true: c10Endpoints{{"m", b}}, false: c10Endpoints(nil)}[withSection], map[bool]int{true: w, false: 0}[withSection],
			map[bool]any{true: c10Endpoints{{"o", a}}, false: "<nil>"}[withOpt])
		if withReps {
			want += fmt.Sprintf(" replicas=[a:%d b:%d c:%d]", a, b, w)
		} else {
			want += " replicas=<unset>"
		}
		for _, format := range []string{"json", "yaml", "toml", "cue", "json/raw", "yaml/raw", "toml/raw", "cue/raw"} {
			// "/raw": the decoder used directly on the declared type (exported API; nothing is pointerified, so the array
			// field is a bare array and the Transformer walks its elements)
			raw := strings.HasSuffix(format, "/raw")
			format = strings.TrimSuffix(format, "/raw")
			typ, want := pt, want
			if raw {
				typ = reflect.TypeOf(c13OCfg{})
				want = strings.Replace(want, "replicas=<unset>", "replicas=[:0 :0 :0]", 1)
			}
			cs := map[string]any{"stream": "text-unmarshalable named slice of structs, array of structs", "format": format, "document": docs[format], "declared_type_not_pointerified": raw}
			var v reflect.Value
			var err error
			pn := catch(func() { v, err = c18Decoder(format).Decode(strings.NewReader(docs[format]), dials.NewType(typ)) })
			res.Count("opaque-text/" + format)
			switch {
			case pn != "":
				res.Add(Finding{Kind: "violation", What: "the decoder panicked: " + pn, Case: cs})
			case err != nil:
				res.Add(Finding{Kind: "violation", What: "a valid document was rejected: " + err.Error(), Case: cs})
			default:
				got := c13OShow(v)
				if got != want {
					res.Add(Finding{Kind: "violation", What: "decoded value differs from the data the document expresses", Case: cs, Expected: want, Observed: got})
				}
			}
			res.Case(fmt.Sprintf("opaque-text|%s|%v|%s", format, raw, docs[format]), true, cs)
		}
	}
}

func c13OShow(v reflect.Value) string {
	for v.Kind() == reflect.Ptr {
		v = v.Elem()
	}
	deref := func(f reflect.Value) any {
		for f.Kind() == reflect.Ptr {
			if f.IsNil() {
				return "<nil>"
			}
			f = f.Elem()
		}
		return f.Interface()
	}
	sec := v.FieldByName("Section")
	secText := "{[] 0}"
	for sec.Kind() == reflect.Ptr && !sec.IsNil() {
		sec = sec.Elem()
	}
	if sec.Kind() == reflect.Struct {
		wv := deref(sec.FieldByName("Weight"))
		if wv == "<nil>" {
			wv = 0
		}
		secText = fmt.Sprintf("{%v %v}", deref(sec.FieldByName("Mirrors")), wv)
	}
	reps := "<unset>"
	if rv := v.FieldByName("Replicas"); rv.Kind() == reflect.Ptr && !rv.IsNil() || rv.Kind() == reflect.Array {
		for rv.Kind() == reflect.Ptr {
			rv = rv.Elem()
		}
		var ps []string
		for k := 0; k < rv.Len(); k++ {
			e := rv.Index(k)
			for e.Kind() == reflect.Ptr && !e.IsNil() {
				e = e.Elem()
			}
			if e.Kind() != reflect.Struct {
				ps = append(ps, "<nil>")
				continue
			}
			h, p := deref(e.FieldByName("Host")), deref(e.FieldByName("Port"))
			if h == "<nil>" {
				h = ""
			}
			if p == "<nil>" {
				p = 0
			}
			ps = append(ps, fmt.Sprintf("%v:%v", h, p))
		}
		reps = "[" + strings.Join(ps, " ") + "]"
	}
	return fmt.Sprintf("name=%v peers=%v section=%s opt=%v replicas=%s", deref(v.FieldByName("Name")), deref(v.FieldByName("Peers")), secText, deref(v.FieldByName("Opt")), reps)
}
