package main

// C13, a text-unmarshalable value whose type is a named slice of plain structs (`type Endpoints []Endpoint`, written
// "alpha:1,beta:22"): the same data in JSON, YAML, TOML and Cue gives the same config, next to ordinary leaves, at the
// top level, in a nested section and behind a pointer.  The decoders' own mangler chains (tag copy, duration
// substitution) must leave the type alone.  Oracle only.

import (
	"fmt"
	"reflect"
	"strings"

	"github.com/vimeo/dials"
	"github.com/vimeo/dials/ptrify"
)

type c13OSection struct {
	Mirrors c10Endpoints `dials:"mirrors"`
	Weight  int          `dials:"weight"`
}

type c13OCfg struct {
	Name    string        `dials:"name"`
	Peers   c10Endpoints  `dials:"peers"`
	Section c13OSection   `dials:"section"`
	Opt     *c10Endpoints `dials:"opt"`
}

func c13OpaqueText(c *Ctx, n int) {
	r := c.RNG
	res := c.Res
	pt := ptrify.Pointerify(reflect.TypeOf(c13OCfg{}), reflect.ValueOf(c13OCfg{}))
	for i := 0; i < n; i++ {
		a, b, w := 1+r.Intn(60000), 1+r.Intn(60000), r.Intn(1000)
		peers := fmt.Sprintf("alpha:%d,beta:%d", a, b)
		mirrors := fmt.Sprintf("m:%d", b)
		opt := fmt.Sprintf("o:%d", a)
		withOpt, withSection := r.Bool(), r.Bool()
		docs := map[string]string{}
		{
			var js, ym, tm, cu []string
			js = append(js, `"name":"n"`, fmt.Sprintf(`"peers":%q`, peers))
			ym = append(ym, "name: n", fmt.Sprintf("peers: %q", peers))
			tm = append(tm, `name = "n"`, fmt.Sprintf("peers = %q", peers))
			cu = append(cu, `name: "n"`, fmt.Sprintf("peers: %q", peers))
			if withOpt {
				js = append(js, fmt.Sprintf(`"opt":%q`, opt))
				ym = append(ym, fmt.Sprintf("opt: %q", opt))
				tm = append(tm, fmt.Sprintf("opt = %q", opt))
				cu = append(cu, fmt.Sprintf("opt: %q", opt))
			}
			if withSection {
				js = append(js, fmt.Sprintf(`"section":{"mirrors":%q,"weight":%d}`, mirrors, w))
				ym = append(ym, fmt.Sprintf("section:\n  mirrors: %q\n  weight: %d", mirrors, w))
				tm = append(tm, fmt.Sprintf("[section]\nmirrors = %q\nweight = %d", mirrors, w))
				cu = append(cu, fmt.Sprintf("section: {mirrors: %q, weight: %d}", mirrors, w))
			}
			docs["json"] = "{" + strings.Join(js, ",") + "}"
			docs["yaml"] = strings.Join(ym, "\n") + "\n"
			docs["toml"] = strings.Join(tm, "\n") + "\n"
			docs["cue"] = strings.Join(cu, "\n") + "\n"
		}
		want := fmt.Sprintf("name=n peers=%v section={%v %d} opt=%v", c10Endpoints{{"alpha", a}, {"beta", b}},
			map[bool]any{true: c10Endpoints{{"m", b}}, false: c10Endpoints(nil)}[withSection], map[bool]int{true: w, false: 0}[withSection],
			map[bool]any{true: c10Endpoints{{"o", a}}, false: "<nil>"}[withOpt])
		for _, format := range []string{"json", "yaml", "toml", "cue"} {
			cs := map[string]any{"stream": "text-unmarshalable named slice of structs", "format": format, "document": docs[format]}
			var v reflect.Value
			var err error
			pn := catch(func() { v, err = c18Decoder(format).Decode(strings.NewReader(docs[format]), dials.NewType(pt)) })
			res.Count("opaque-text/" + format)
			switch {
			case pn != "":
				res.Add(Finding{Kind: "violation", What: "the decoder panicked: " + pn, Case: cs})
			case err != nil:
				res.Add(Finding{Kind: "violation", What: "a valid document was rejected: " + err.Error(), Case: cs})
			default:
				got := c13OShow(v)
				if got != want {
					res.Add(Finding{Kind: "violation", What: "decoded value differs from the data the document expresses", Case: cs, Expected: want, Observed: got})
				}
			}
			res.Case(fmt.Sprintf("opaque-text|%s|%s", format, docs[format]), true, cs)
		}
	}
}

func c13OShow(v reflect.Value) string {
	for v.Kind() == reflect.Ptr {
		v = v.Elem()
	}
	deref := func(f reflect.Value) any {
		for f.Kind() == reflect.Ptr {
			if f.IsNil() {
				return "<nil>"
			}
			f = f.Elem()
		}
		return f.Interface()
	}
	sec := v.FieldByName("Section")
	secText := "{[] 0}"
	for sec.Kind() == reflect.Ptr && !sec.IsNil() {
		sec = sec.Elem()
	}
	if sec.Kind() == reflect.Struct {
		wv := deref(sec.FieldByName("Weight"))
		if wv == "<nil>" {
			wv = 0
		}
		secText = fmt.Sprintf("{%v %v}", deref(sec.FieldByName("Mirrors")), wv)
	}
	return fmt.Sprintf("name=%v peers=%v section=%s opt=%v", deref(v.FieldByName("Name")), deref(v.FieldByName("Peers")), secText, deref(v.FieldByName("Opt")))
}
