package main

// C13 corpus: declared config struct types (reflect.StructOf cannot make named, embedded or recursive types).
// Every field carries a `dials` tag; some carry format-specific tags; keys of one struct are pairwise different
// even when compared case-insensitively (encoding/json, cue and go-toml fold case: finding D30, probed separately).

import (
	"net"
	"reflect"
	"time"
)

type c13Inner struct {
	X int           `dials:"x"`
	Y string        `dials:"why" json:"jy" yaml:"yy" toml:"ty"`
	B bool          `dials:"flag"`
	D time.Duration `dials:"wait"`
}

type c13Scalars struct {
	I   int     `dials:"i"`
	I8  int8    `dials:"i8"`
	I16 int16   `dials:"i16"`
	I32 int32   `dials:"i32"`
	I64 int64   `dials:"i64"`
	U   uint    `dials:"u"`
	U8  uint8   `dials:"u8"`
	U16 uint16  `dials:"u16"`
	U32 uint32  `dials:"u32"`
	U64 uint64  `dials:"u64"`
	F   float64 `dials:"f"`
	B   bool    `dials:"b"`
	S   string  `dials:"s"`
	PS  *string `dials:"ps"`
	PI  *int    `dials:"pi"`
}

type c13Times struct {
	D   time.Duration             `dials:"d"`
	PD  *time.Duration            `dials:"pd"`
	T   time.Time                 `dials:"t"`
	IP  net.IP                    `dials:"ip"`
	LD  []time.Duration           `dials:"ld"`
	MD  map[string]time.Duration  `dials:"md"`
	MT  map[string]time.Time      `dials:"mt"`
	LIP []net.IP                  `dials:"lip"`
	Max time.Duration             `dials:"max-wait" json:"maxWaitJ" toml:"max_wait_t"`
	LT  []time.Time               `dials:"lt"`
	PLD *[]time.Duration          `dials:"pld"`
	PPD **time.Duration           `dials:"ppd"`
	PMD *map[string]time.Duration `dials:"pmd"`
}

type c13Colls struct {
	LS  []string                  `dials:"ls"`
	LI  []int                     `dials:"li"`
	LL  [][]int                   `dials:"ll"`
	LF  []float64                 `dials:"lf"`
	LB  []bool                    `dials:"lb"`
	MI  map[string]int            `dials:"mi"`
	MS  map[string]string         `dials:"ms"`
	ML  map[string][]string       `dials:"ml"`
	MM  map[string]map[string]int `dials:"mm"`
	Set map[string]struct{}       `dials:"set"`
	Tag map[string]struct{}       `dials:"tag-set" yaml:"tags_y"`
}

type c13Deep struct {
	L2 *c13Inner `dials:"l2"`
	V  int       `dials:"v"`
	In c13Inner  `dials:"in" cue:"ignored"`
}

type c13Nested struct {
	In   c13Inner  `dials:"in"`
	P    *c13Inner `dials:"p"`
	Deep struct {
		L1 c13Deep `dials:"l1" json:"levelOne"`
		N  string  `dials:"n"`
	} `dials:"deep"`
	Name string `dials:"name"`
}

// format-specific tags of every combination; mixed-case and punctuated tag values
type c13FmtTags struct {
	A int                 `dials:"alpha"`
	B int                 `dials:"beta" json:"betaJ"`
	C int                 `dials:"gamma" yaml:"gammaY"`
	D int                 `dials:"delta" toml:"deltaT"`
	E string              `dials:"eps" json:"epsJ" yaml:"epsY" toml:"epsT"`
	F time.Duration       `dials:"Zeta-Dur" json:"zeta_dur"`
	G []string            `dials:"eta.list" yaml:"eta list"`
	H c13Inner            `dials:"theta" toml:"Theta_T" json:"ThetaJ"`
	K map[string]struct{} `dials:"kappa" json:"kappaJ" yaml:"kappaY" toml:"kappaT"`
}

type c13Elem struct {
	N string              `dials:"n"`
	D time.Duration       `dials:"d" yaml:"dy"`
	S map[string]struct{} `dials:"s"`
	L []int               `dials:"l"`
	T time.Time           `dials:"t"`
	P *int                `dials:"p"`
}

type c13SliceStruct struct {
	LS []c13Elem `dials:"ls"`
	N  int       `dials:"n"`
	PE *c13Elem  `dials:"pe"`
}

// tagged anonymous field: a named field for every library (nested under its key)
type c13EmbTagged struct {
	A      int `dials:"a"`
	C13Pub `dials:"emb"`
	Z      string `dials:"z"`
}

// embedded types must be exported to be usable embedded fields
type C13Pub struct {
	E1 int    `dials:"e1"`
	E2 string `dials:"e2" json:"e2j" yaml:"e2y"`
}

type C13Pub2 struct {
	G int `dials:"g"`
	C13Pub
}

// untagged anonymous field (one level): encoding/json and cue promote its fields, YAML with FlattenAnonymous too
type c13EmbFlat struct {
	A int `dials:"a"`
	C13Pub
	Z string `dials:"z"`
}

// two levels of embedding
type c13Emb2 struct {
	A int `dials:"a"`
	C13Pub2
}

type c13MapStruct struct {
	MS map[string]c13Inner `dials:"ms"`
}

type c13SlicePtr struct {
	LP []*c13Inner `dials:"lp"`
}

type c13SliceTime struct {
	LT []time.Time `dials:"lt"`
	N  int         `dials:"n"`
}

type c13Corpus struct {
	name  string
	zero  any
	class string // "" supported | embtagged | embflat | emb2 | mapstruct | sliceptr
}

var c13Types = []c13Corpus{
	{"Scalars", c13Scalars{}, ""},
	{"Times", c13Times{}, ""},
	{"Colls", c13Colls{}, ""},
	{"Nested", c13Nested{}, ""},
	{"FmtTags", c13FmtTags{}, ""},
	{"SliceStruct", c13SliceStruct{}, ""},
	{"Inner", c13Inner{}, ""},
	{"SliceTime", c13SliceTime{}, ""},
	{"EmbTagged", c13EmbTagged{}, "embtagged"},
	{"EmbFlat", c13EmbFlat{}, "embflat"},
	{"Emb2", c13Emb2{}, "emb2"},
	{"MapStruct", c13MapStruct{}, "mapstruct"},
	{"SlicePtr", c13SlicePtr{}, "sliceptr"},
}

var (
	c13DurType  = reflect.TypeOf(time.Duration(0))
	c13TimeType = reflect.TypeOf(time.Time{})
	c13IPType   = reflect.TypeOf(net.IP{})
	c13SetElem  = reflect.TypeOf(struct{}{})
)
