package main

// C18, options reach the decoder on every entry point: a config with an EMBEDDED struct read from a YAML file needs
// Params.FlattenAnonymousFields (yaml.v2 would otherwise look for the embedded struct under a key of its own).  The
// same precedence - defaults < file < environment < flags, Verify on the fully stacked config only - has to hold
// through YAMLConfigEnvFlag, FileExtensionDecoderConfigEnvFlag (.yaml / .yml) and
// ConfigFileEnvFlagDecoderFactoryParams(DecoderFromExtensionWithParams), for leaves inside the embedded struct as for
// the others.

import (
	"context"
	"errors"
	"fmt"
	"os"
	"path/filepath"
	"sort"
	"strings"

	"github.com/vimeo/dials"
	"github.com/vimeo/dials/ez"
	dflag "github.com/vimeo/dials/sources/flag"
)

type C18ECommon struct {
	Region string `dials:"eregionq"`
	Tier   string `dials:"etierq"`
}

type c18ECfg struct {
	C18ECommon
	Path string `dials:"epathq"`
	Name string `dials:"enameq"`
}

func (c *c18ECfg) ConfigPath() (string, bool) { return c.Path, c.Path != "" }

var errC18ENoRegion = errors.New("c18e: region must be set")

func (c *c18ECfg) Verify() error {
	if c.Region == "" {
		return errC18ENoRegion
	}
	return nil
}

func c18Embedded(c *Ctx, n int) {
	r := c.RNG
	res := c.Res
	dir := filepath.Join(c.WorkDir, "c18embedded")
	if c.WorkDir == "" {
		dir, _ = os.MkdirTemp("", "c18embedded")
	}
	os.RemoveAll(dir)
	os.MkdirAll(dir, 0o755)
	defer os.RemoveAll(dir)
	leaves := []string{"eregionq", "etierq", "enameq"}
	get := func(c *c18ECfg, leaf string) string {
		return map[string]string{"eregionq": c.Region, "etierq": c.Tier, "enameq": c.Name}[leaf]
	}
	for i := 0; i < n; i++ {
		entry := []string{"YAMLConfigEnvFlag", "FileExtensionDecoderConfigEnvFlag", "ConfigFileEnvFlagDecoderFactoryParams(DecoderFromExtensionWithParams)"}[r.Intn(3)]
		ext := []string{".yaml", ".yml"}[r.Intn(2)]
		path := filepath.Join(dir, fmt.Sprintf("cfg%d%s", i, ext))
		defaults := &c18ECfg{Path: path}
		var file, args []string
		env := map[string]string{}
		want := map[string]string{}
		layersOf := map[string]string{}
		for _, leaf := range leaves {
			mask := r.Intn(16) // bit 0 default, 1 file, 2 env, 3 flag
			if leaf == "eregionq" && r.Chance(50) {
				mask = 2 // only the file makes the config valid
			}
			layersOf[leaf] = fmt.Sprintf("%04b", mask)
			for b, layer := range []string{"default", "file", "env", "flag"} {
				if mask&(1<<b) == 0 {
					continue
				}
				v := fmt.Sprintf("%s-%s-%d", leaf, layer, i)
				want[leaf] = v
				switch layer {
				case "default":
					switch leaf {
					case "eregionq":
						defaults.Region = v
					case "etierq":
						defaults.Tier = v
					default:
						defaults.Name = v
					}
				case "file":
					file = append(file, leaf+": "+v)
				case "env":
					env[strings.ToUpper(leaf)] = v
				case "flag":
					args = append(args, "-"+leaf+"="+v)
				}
			}
		}
		sort.Strings(file)
		text := strings.Join(file, "\n") + "\n"
		if len(file) == 0 {
			text = "{}\n"
		}
		os.WriteFile(path, []byte(text), 0o644)
		cs := map[string]any{"stream": "embedded struct + FlattenAnonymousFields", "entry": entry, "file": text, "env": env, "args": args, "layers(flag,env,file,default)": layersOf}
		fs, ferr := dflag.NewSetWithArgs(dflag.DefaultFlagNameConfig(), &c18ECfg{}, args)
		if ferr != nil {
			res.Add(Finding{Kind: "violation", What: "embedded stream: cannot build the flag set: " + ferr.Error(), Case: cs})
			continue
		}
		for k, v := range env {
			os.Setenv(k, v)
		}
		params := ez.Params[c18ECfg]{FlagSource: fs, FlattenAnonymousFields: true}
		var d *dials.Dials[c18ECfg]
		var err error
		pn := catch(func() {
			switch entry {
			case "YAMLConfigEnvFlag":
				d, err = ez.YAMLConfigEnvFlag(context.Background(), defaults, params)
			case "FileExtensionDecoderConfigEnvFlag":
				d, err = ez.FileExtensionDecoderConfigEnvFlag(context.Background(), defaults, params)
			default:
				d, err = ez.ConfigFileEnvFlagDecoderFactoryParams(context.Background(), defaults, ez.DecoderFromExtensionWithParams[c18ECfg], params)
			}
		})
		for k := range env {
			os.Unsetenv(k)
		}
		os.Remove(path)
		res.Count("embedded/" + entry)
		valid := want["eregionq"] != ""
		switch {
		case pn != "":
			res.Add(Finding{Kind: "violation", What: "ez entry point panicked: " + pn, Case: cs})
		case !valid:
			if err == nil || !errors.Is(err, errC18ENoRegion) {
				res.Add(Finding{Kind: "violation", What: "the fully stacked config does not verify, but the entry point did not return Verify's error", Case: cs, Observed: fmt.Sprint(err)})
			}
		case err != nil:
			res.Add(Finding{Kind: "violation", What: "ez failed on a config that is valid once fully stacked (defaults < file < environment < flags)", Case: cs, Observed: err.Error()})
		default:
			v := d.View()
			for _, leaf := range leaves {
				if got := get(v, leaf); got != want[leaf] {
					res.Add(Finding{Kind: "violation", What: fmt.Sprintf("leaf %s: got %q, want %q (last of default < file < environment < flag that sets it)", leaf, got, want[leaf]), Case: cs})
					break
				}
			}
		}
		res.Case(fmt.Sprintf("E|%s|%s|%v", entry, ext, layersOf), len(file) > 0, cs)
	}
}

// ---------- ConfigPath says "there is a file" and names the empty path ----------
//
// `return c.Path, true` with an unset Path is the degenerate but legal answer ("", true).  Whatever ez makes of it -
// an error is what the unchanged code returns - it must not hand out a Dials whose config was never verified: every
// successful return of an ez entry point has gone through EnableVerification (C09: the delay ez asked for is lifted
// before it returns; C18: Verify runs on the fully stacked config and its failure is the entry point's error).

type c18PCfg struct {
	Limit int `dials:"plimitq"`
	calls *int
}

func (c *c18PCfg) ConfigPath() (string, bool) { return "", true }

var errC18PInvalid = errors.New("c18p: limit must be positive")

func (c *c18PCfg) Verify() error {
	if c.calls != nil {
		*c.calls++
	}
	if c.Limit <= 0 {
		return errC18PInvalid
	}
	return nil
}

func c18EmptyPath(c *Ctx, n int) {
	r := c.RNG
	res := c.Res
	for i := 0; i < n; i++ {
		entry := []string{"YAMLConfigEnvFlag", "JSONConfigEnvFlag", "TOMLConfigEnvFlag", "CueConfigEnvFlag", "FileExtensionDecoderConfigEnvFlag"}[r.Intn(5)]
		valid := r.Bool()
		calls := 0
		defaults := &c18PCfg{calls: &calls}
		if valid {
			defaults.Limit = 1 + r.Intn(100)
		}
		watch := r.Chance(30)
		cs := map[string]any{"stream": "ConfigPath returns (\"\", true)", "entry": entry, "defaults_valid": valid, "watch": watch}
		fs, ferr := dflag.NewSetWithArgs(dflag.DefaultFlagNameConfig(), &c18PCfg{}, nil)
		if ferr != nil {
			res.Add(Finding{Kind: "violation", What: "empty-path stream: cannot build the flag set: " + ferr.Error(), Case: cs})
			continue
		}
		ctx, cancel := context.WithCancel(context.Background())
		params := ez.Params[c18PCfg]{FlagSource: fs, WatchConfigFile: watch}
		var d *dials.Dials[c18PCfg]
		var err error
		pn := catch(func() {
			switch entry {
			case "YAMLConfigEnvFlag":
				d, err = ez.YAMLConfigEnvFlag(ctx, defaults, params)
			case "JSONConfigEnvFlag":
				d, err = ez.JSONConfigEnvFlag(ctx, defaults, params)
			case "TOMLConfigEnvFlag":
				d, err = ez.TOMLConfigEnvFlag(ctx, defaults, params)
			case "CueConfigEnvFlag":
				d, err = ez.CueConfigEnvFlag(ctx, defaults, params)
			default:
				d, err = ez.FileExtensionDecoderConfigEnvFlag(ctx, defaults, params)
			}
		})
		res.Count("empty-path/" + map[bool]string{true: "error", false: "success"}[err != nil])
		switch {
		case pn != "":
			res.Add(Finding{Kind: "violation", What: "ez entry point panicked: " + pn, Case: cs})
		case err == nil && d != nil:
			// ConfigPath said "there is a file": the path it named (the empty one) is read like any other path, and
			// cannot be - the entry point fails as for every missing / unreadable file, it does not quietly go on
			// without a file
			res.Add(Finding{Kind: "violation", What: "ConfigPath returned (\"\", true) - a file is named, and it is unreadable - but the ez entry point succeeded as if there were no file", Case: cs, Observed: fmt.Sprintf("%+v", *d.View())})
			if calls == 0 {
				res.Add(Finding{Kind: "violation", What: "ez returned a Dials without ever calling Verify: the verification it delayed was never switched on", Case: cs})
			} else if verr := d.View().Verify(); verr != nil {
				res.Add(Finding{Kind: "violation", What: "ez returned a Dials whose config does not verify: " + verr.Error(), Case: cs})
			}
		}
		cancel()
		res.Case(fmt.Sprintf("P|%s|%v|%v", entry, valid, watch), true, cs)
	}
}
