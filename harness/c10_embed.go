package main

// C10, deterministic shapes: an EMBEDDED struct (by value and by pointer) whose first exported field is a leaf and whose
// later fields are struct-typed (pointer to struct, slice of structs).  The anonymous-flatten mangler hoists all of
// them into the parent - one input field, several output fields, only some of which carry a sub-transformer - and
// every filled leaf must come back at its original place (nothing filled: the embedded pointer stays nil).

import (
	"fmt"
	"reflect"

	"github.com/vimeo/dials/ptrify"
	"github.com/vimeo/dials/tagformat"
	"github.com/vimeo/dials/transform"
)

type C10NInner struct {
	X int
	Y string
}

type C10NEmbed struct {
	A    int
	In   *C10NInner
	List []C10NInner
	B    string
}

type c10NCfg struct {
	C10NEmbed
	Z int
}

type c10NPCfg struct {
	*C10NEmbed
	Z int
}

func c10EmbeddedNested(c *Ctx) {
	res := c.Res
	r := c.RNG
	chains := map[string][]transform.Mangler{
		"anon":          {transform.AnonymousFlattenMangler{}},
		"anon+setslice": {transform.AnonymousFlattenMangler{}, &transform.SetSliceMangler{}},
		"tagcopy+anon":  {&tagformat.TagCopyingMangler{SrcTag: "dials", NewTag: "yaml"}, transform.AnonymousFlattenMangler{}},
		"alias+anon":    {transform.NewAliasMangler("dials"), transform.AnonymousFlattenMangler{}},
	}
	for name, chain := range chains {
		for rep := 0; rep < 8; rep++ {
			byPtr := rep%2 == 1
			var pt reflect.Type
			if byPtr {
				pt = ptrify.Pointerify(reflect.TypeOf(c10NPCfg{}), reflect.ValueOf(c10NPCfg{}))
			} else {
				pt = ptrify.Pointerify(reflect.TypeOf(c10NCfg{}), reflect.ValueOf(c10NCfg{}))
			}
			a, x, z, nl := 1+r.Intn(1000), 1+r.Intn(1000), 1+r.Intn(1000), r.Intn(3)
			setA, setIn, setZ, setB := r.Chance(60), r.Chance(60), r.Chance(60), r.Chance(50)
			if rep < 2 {
				setA, setIn, setZ, setB, nl = false, false, false, false, 0 // nothing filled
			}
			cs := map[string]any{"stream": "embedded struct: a leaf first, struct-typed fields after it", "chain": name, "embedded_by_pointer": byPtr,
				"A": setA, "In.X": setIn, "List": nl, "B": setB, "Z": setZ}
			var out reflect.Value
			var err error
			pn := catch(func() {
				tf := transform.NewTransformer(pt, chain...)
				var val reflect.Value
				if val, err = tf.Translate(); err != nil {
					return
				}
				set := func(field string, f func(fv reflect.Value)) {
					if fv := val.FieldByName(field); fv.IsValid() {
						f(fv)
					} else {
						err = fmt.Errorf("the translated struct has no field %s: %s", field, val.Type())
					}
				}
				if setA {
					set("A", func(fv reflect.Value) { fv.Set(reflect.ValueOf(&a)) })
				}
				if setB {
					s := "b"
					set("B", func(fv reflect.Value) { fv.Set(reflect.ValueOf(&s)) })
				}
				if setZ {
					set("Z", func(fv reflect.Value) { fv.Set(reflect.ValueOf(&z)) })
				}
				if setIn {
					set("In", func(fv reflect.Value) {
						fv.Set(reflect.New(fv.Type().Elem()))
						fv.Elem().FieldByName("X").Set(reflect.ValueOf(&x))
					})
				}
				if nl > 0 {
					set("List", func(fv reflect.Value) {
						l := reflect.MakeSlice(fv.Type(), nl, nl)
						for k := 0; k < nl; k++ {
							y := fmt.Sprintf("y%d", k)
							if yf := l.Index(k).FieldByName("Y"); yf.Kind() == reflect.Ptr {
								yf.Set(reflect.ValueOf(&y))
							} else { // (Pointerify does not look into slice elements: the element keeps `Y string`)
								yf.SetString(y)
							}
						}
						fv.Set(l)
					})
				}
				if err != nil {
					return
				}
				out, err = tf.ReverseTranslate(val)
			})
			res.Count("c10.embedded-nested/" + name)
			res.Case(fmt.Sprint("EMB|", name, byPtr, setA, setIn, nl, setB, setZ), setIn || nl > 0, cs)
			if pn != "" || err != nil {
				res.Add(Finding{Kind: "violation", What: fmt.Sprintf("Translate / ReverseTranslate failed for an embedded struct with nested struct fields: %s %v", pn, err), Case: cs})
				continue
			}
			for out.Kind() == reflect.Ptr {
				out = out.Elem()
			}
			bad := func(what string) {
				res.Add(Finding{Kind: "violation", What: "embedded struct with nested struct fields: " + what, Case: cs})
			}
			emb := out.FieldByName("C10NEmbed")
			anything := setA || setIn || setB || nl > 0
			if emb.Kind() == reflect.Ptr { // (Pointerify turns the by-value embedded struct into a pointer as well)
				if !anything {
					if !emb.IsNil() {
						bad("nothing below the embedded pointer was filled, yet it came back non-nil")
					}
					emb = reflect.Value{}
				} else if emb.IsNil() {
					bad("leaves below the embedded pointer were filled, yet it came back nil")
					continue
				} else {
					emb = emb.Elem()
				}
			}
			intLeaf := func(v reflect.Value, name string, isSet bool, want int) {
				f := v.FieldByName(name)
				switch {
				case !isSet && !f.IsNil():
					bad(name + " was not filled and came back set")
				case isSet && (f.IsNil() || int(f.Elem().Int()) != want):
					bad(fmt.Sprintf("%s was filled with %d and did not come back at its place", name, want))
				}
			}
			intLeaf(out, "Z", setZ, z)
			if emb.IsValid() {
				intLeaf(emb, "A", setA, a)
				if b := emb.FieldByName("B"); setB != !b.IsNil() || (setB && b.Elem().String() != "b") {
					bad("B did not come back as filled")
				}
				in := emb.FieldByName("In")
				switch {
				case !setIn && !in.IsNil():
					bad("In was not filled and came back non-nil")
				case setIn && (in.IsNil() || in.Elem().FieldByName("X").IsNil() || int(in.Elem().FieldByName("X").Elem().Int()) != x || !in.Elem().FieldByName("Y").IsNil()):
					bad(fmt.Sprintf("In.X was filled with %d (In.Y unset) and did not come back so", x))
				}
				l := emb.FieldByName("List")
				if l.Len() != nl {
					bad(fmt.Sprintf("List was filled with %d elements and came back with %d", nl, l.Len()))
				} else {
					for k := 0; k < nl; k++ {
						e := l.Index(k)
						yf := e.FieldByName("Y")
						if yf.Kind() == reflect.Ptr {
							if yf.IsNil() {
								bad(fmt.Sprintf("List[%d].Y did not come back as filled", k))
								continue
							}
							yf = yf.Elem()
						}
						if yf.String() != fmt.Sprintf("y%d", k) {
							bad(fmt.Sprintf("List[%d].Y did not come back as filled", k))
						}
					}
				}
			}
		}
	}
}
