package main

// C16 — no input and no supported config type makes dials panic or hang.
//
// The main instrument is this harness: every public entry point that turns text or a config type into a
// value is called under recover and a 2 s watchdog; the outcome classes are ok | err | panic | hang and a
// panic or hang is a violation unless it matches a listed known finding's decidable predicate (type
// features computed by c16Feat.walk + the listed panic text).  Where a Lean model exists (parse.String,
// the env source, case conversion, the collection parsers) the outcome class must also equal the model's.
//
// The work is split into chunks run by child processes (`vh exec-one c16 …`): the environment and the
// parse package's token hook are process-global, a fatal runtime error (stack overflow) cannot be
// recovered, and the chunks run in parallel.  A child that dies is itself a violation (with its stderr).

import (
	"bytes"
	"context"
	"crypto/sha256"
	"encoding/json"
	"errors"
	"fmt"
	"io"
	"os"
	"os/exec"
	"reflect"
	"runtime"
	"runtime/debug"
	"sort"
	"strconv"
	"strings"
	"sync"
	"time"

	"github.com/vimeo/dials"
	"github.com/vimeo/dials/decoders/cue"
	djson "github.com/vimeo/dials/decoders/json"
	"github.com/vimeo/dials/decoders/toml"
	"github.com/vimeo/dials/decoders/yaml"
	"github.com/vimeo/dials/parse"
	"github.com/vimeo/dials/ptrify"
	"github.com/vimeo/dials/sources/env"
	dflag "github.com/vimeo/dials/sources/flag"
	dpflag "github.com/vimeo/dials/sources/pflag"
	"github.com/vimeo/dials/sources/static"
	"github.com/vimeo/dials/tagformat"
	cc "github.com/vimeo/dials/tagformat/caseconversion"
	"github.com/vimeo/dials/transform"
	yamlv2 "gopkg.in/yaml.v2"
)

const c16Watchdog = 2 * time.Second

// guard runs f under recover and the watchdog.
func guard(f func() error) (class, detail string) {
	type res struct {
		err error
		pn  string
	}
	done := make(chan res, 1)
	go func() {
		var out res
		defer func() {
			if r := recover(); r != nil {
				out.pn = fmt.Sprint(r) + " @ " + panicSite(debug.Stack())
			}
			done <- out
		}()
		out.err = f()
	}()
	t := time.NewTimer(c16Watchdog)
	defer t.Stop()
	select {
	case o := <-done:
		if o.pn != "" {
			return "panic", o.pn
		}
		if o.err != nil {
			return "err", o.err.Error()
		}
		return "ok", ""
	case <-t.C:
		return "hang", "no return within " + c16Watchdog.String()
	}
}

// panicSite: the first frame of the panicking goroutine's stack outside the Go runtime, reflect and the harness
func panicSite(stack []byte) string {
	lines := strings.Split(string(stack), "\n")
	seenPanic := false
	for _, l := range lines {
		if strings.HasPrefix(l, "panic(") {
			seenPanic = true
			continue
		}
		if !seenPanic || !strings.HasPrefix(l, "\t") || !strings.Contains(l, ".go:") {
			continue
		}
		if strings.Contains(l, "/src/runtime/") || strings.Contains(l, "/src/reflect/") || strings.Contains(l, "/harness/") {
			continue
		}
		l = strings.TrimSpace(l)
		if i := strings.IndexByte(l, ' '); i > 0 {
			l = l[:i]
		}
		if i := strings.LastIndex(l, "/"); i >= 0 {
			if j := strings.LastIndex(l[:i], "/"); j >= 0 {
				return l[j+1:]
			}
		}
		return l
	}
	return "?"
}

func errKind(msg string) string {
	for _, k := range []string{"overflow", "invalid syntax", "out of range", "cannot be translated", "unsupported map type", "programmer error", "unexpected", "unquote", "parsing failed", "duplicate key",
		"already present", "incompatible types", "flag provided but not defined", "invalid value", "failed to parse", "cannot unmarshal", "unmarshal", "Unmarshal", "toml", "yaml", "cue", "compile", "decode", "alias", "expected", "tag"} {
		if strings.Contains(msg, k) {
			return k
		}
	}
	return "other"
}

// ---------- chunk results ----------

type c16Chunk struct {
	Evals     int            `json:"evals"`
	Distinct  int            `json:"distinct"`
	Dist      map[string]int `json:"dist"`
	Findings  []Finding      `json:"findings"`
	Known     map[string]int `json:"known"`
	OOD       int            `json:"ood"`
	DriverReq int            `json:"driver_req"`
	Samples   []any          `json:"samples"`
}

type c16Worker struct {
	r    *RNG
	drv  *Driver
	out  *c16Chunk
	seen map[[32]byte]struct{}
	pfx  string
}

func (w *c16Worker) count(k string) { w.out.Dist[k]++ }

func (w *c16Worker) caseDone(canon string, nontrivial bool, sample any) {
	w.out.Evals++
	if nontrivial {
		h := sha256.Sum256([]byte(canon))
		if _, ok := w.seen[h]; !ok {
			w.seen[h] = struct{}{}
			w.out.Distinct++
			if len(w.out.Samples) < 2 {
				w.out.Samples = append(w.out.Samples, sample)
			}
		}
	}
}

func (w *c16Worker) add(f Finding) {
	if f.Kind == "known" {
		w.out.Known[f.KnownID]++
		if w.out.Known[f.KnownID] > 1 {
			return
		}
	}
	if len(w.out.Findings) < 40 {
		w.out.Findings = append(w.out.Findings, f)
	}
}

func cloneCase(cs map[string]any, extra ...any) map[string]any {
	o := map[string]any{}
	for k, v := range cs {
		o[k] = v
	}
	for i := 0; i+1 < len(extra); i += 2 {
		o[fmt.Sprint(extra[i])] = extra[i+1]
	}
	return o
}

// report registers the outcome of one guarded call; panic / hang are violations unless listed
func (w *c16Worker) report(entry, class, detail string, ft *c16Feat, cs map[string]any, extra ...any) {
	w.count("outcome/" + entry + "/" + class)
	switch class {
	case "err":
		w.count("errkind/" + entry + "/" + errKind(detail))
	case "panic", "hang":
		c := cloneCase(cs, extra...)
		c["entry"] = entry
		c["class"] = class
		c["detail"] = detail
		if id := c16KnownID(entry, class, detail, ft); id != "" && isKnown("C16", id) {
			w.add(Finding{Kind: "known", KnownID: id, What: entry + ": " + class + ": " + detail, Case: c})
			return
		}
		w.add(Finding{Kind: "violation", What: entry + " " + class + ": " + detail, Case: c, Expected: "a value or an error", Observed: class})
	}
}

// ---------- known findings (decidable predicates over the type's features + the listed behaviour) ----------

func containsAny(s string, subs ...string) bool {
	for _, x := range subs {
		if strings.Contains(s, x) {
			return true
		}
	}
	return false
}

func c16KnownID(entry, class, detail string, ft *c16Feat) string {
	if class != "panic" {
		return ""
	}
	if ft == nil {
		ft = &c16Feat{}
	}
	switch {
	case ft.EmbeddedMethods && (strings.Contains(detail, "embedded type with methods not implemented") ||
		(strings.Contains(detail, "interface conversion: ") && strings.Contains(detail, "*struct {"))):
		return "P01-embedded-methods"
	}
	return ""
}

// cueDangerous: a string repetition whose count is large but does not overflow: the decoder would allocate it
func cueDangerous(doc string) bool {
	found, n := cueStringRepeat(doc)
	return found && n > 1e5 && n < 4e18
}

// ptrIntoValue: "reflect.Set: value of type *T is not assignable to type T"
func ptrIntoValue(detail string) bool {
	const a, b = "reflect.Set: value of type *", " is not assignable to type "
	i := strings.Index(detail, a)
	j := strings.Index(detail, b)
	if i < 0 || j < i {
		return false
	}
	from := detail[i+len(a) : j]
	rest := detail[j+len(b):]
	return strings.HasPrefix(rest, from+" @") || rest == from
}

// typedOutsideModel: the transformer model's values are untyped, so reflect's zero-value-counts-as-set
// effect on fields that Pointerify did not wrap (behind **T) is invisible to it, and the struct
// reflect.StructOf builds around a single embedded text unmarshaler (P01) claims methods it does not have:
// for types with these features only the implementation is observed
func (ft *c16Feat) typedOutsideModel() bool {
	return ft.PtrPtrStructBare || ft.EmbeddedMethods || ft.CommaTag
}

// c16InModel: the leaf type is inside the parse.String model's resolution (the Tf grammar has no named
// collection types — parse.String compares sets and map[string][]string by type identity — and nested
// collections re-scan their element text)
func c16InModel(t reflect.Type) bool {
	if !tfOK(tfTy(t)) {
		return false
	}
	switch t.Kind() {
	case reflect.Ptr:
		return c16InModel(t.Elem())
	case reflect.Slice:
		switch t.Elem().Kind() {
		case reflect.Slice, reflect.Map:
			return false
		}
	case reflect.Map:
		if t.Name() != "" && (t.Elem() == rt[struct{}]() || t.Elem() == rt[[]string]()) {
			return false
		}
	}
	return true
}

// ---------- the env chain as the library builds it (names of the variables, leaf types) ----------

func envChainManglers(withCast bool) []transform.Mangler {
	ms := []transform.Mangler{
		transform.NewAliasMangler("dials", "dialsenv"),
		transform.NewFlattenMangler("dials", cc.EncodeUpperCamelCase, cc.EncodeCasePreservingSnakeCase),
		tagformat.NewTagReformattingMangler("dials", cc.DecodeGoTags, cc.EncodeUpperSnakeCase),
		&tagformat.TagCopyingMangler{SrcTag: "dials", NewTag: "dialsenv"},
	}
	if withCast {
		ms = append(ms, &transform.StringCastingMangler{})
	}
	return ms
}

type c16EnvLeaf struct {
	name string
	typ  reflect.Type
}

func noNUL(s string) string { return strings.ReplaceAll(s, "\x00", "") }

func tfOK(s string) bool { return !strings.Contains(s, "?") }

// ---------- one type case ----------

func (w *c16Worker) typeCase(idx int, T reflect.Type, kinds map[string]int, declared bool) {
	r := w.r
	ft := &c16Feat{}
	ft.walk(T, 0)
	cs := map[string]any{"type": shortType(T), "index": idx}
	for k := range kinds {
		w.count("kind/" + k)
	}
	w.count(fmt.Sprintf("leaves=%d", min(ft.Leaves, 12)))
	tmpl := reflect.New(T)
	if r.Chance(50) {
		fillInner(r, tmpl.Elem(), 3)
	}

	// 1. Pointerify
	var PT reflect.Type
	cl, det := guard(func() error { PT = ptrify.Pointerify(T, tmpl.Elem()); return nil })
	w.report("ptrify.Pointerify", cl, det, ft, cs)
	if cl != "ok" {
		w.caseDone(shortType(T), true, cs)
		return
	}
	dt := dials.NewType(PT)

	// 2. the env chain's translation: variable names and leaf types
	var leaves []c16EnvLeaf
	cl, det = guard(func() error {
		tv, err := transform.NewTransformer(PT, envChainManglers(false)...).Translate()
		if err != nil {
			return err
		}
		for i := 0; i < tv.NumField(); i++ {
			sf := tv.Type().Field(i)
			leaves = append(leaves, c16EnvLeaf{sf.Tag.Get("dialsenv"), sf.Type})
		}
		return nil
	})
	w.report("transform.Translate(env chain)", cl, det, ft, cs)

	// 3. env source
	pfx := ""
	if r.Chance(40) {
		pfx = pick(r, []string{"APP", "MY_SVC", "x"})
	}
	set := map[string]string{}
	extBad := false
	outOfModel := false
	for _, l := range leaves {
		if l.name == "" || !r.Chance(50) {
			continue
		}
		txt := noNUL(leafText(r, l.typ))
		name := l.name
		if pfx != "" {
			name = pfx + "_" + name
		}
		if strings.ContainsAny(name, "=\x00") {
			continue
		}
		set[name] = txt
		if hasExternalKind(l.typ) || !isASCII(txt) {
			extBad = true
		}
		if !c16InModel(l.typ) || !isASCII(name) {
			outOfModel = true
		}
	}
	// a variable reaches EVERY leaf that derives its name (two leaves can share one: a custom tag equal to another
	// field's derived name), also one that was not drawn above
	for _, l := range leaves {
		name := l.name
		if pfx != "" {
			name = pfx + "_" + name
		}
		if txt, isSet := set[name]; isSet && l.name != "" {
			if hasExternalKind(l.typ) || !isASCII(txt) {
				extBad = true
			}
			if !c16InModel(l.typ) {
				outOfModel = true
			}
		}
	}
	keys := make([]string, 0, len(set))
	for k := range set {
		keys = append(keys, k)
	}
	sort.Strings(keys)
	for _, k := range keys {
		os.Setenv(k, set[k])
	}
	var envVal reflect.Value
	envCl, envDet := guard(func() error {
		v, err := (&env.Source{Prefix: pfx}).Value(context.Background(), dt)
		envVal = v
		return err
	})
	for _, k := range keys {
		os.Unsetenv(k)
	}
	w.report("env.Source.Value", envCl, envDet, ft, cs, "env", set, "prefix", pfx)
	w.count(fmt.Sprintf("env/vars_set=%d", min(len(set), 6)))

	// 3b. the env source's model: same outcome class
	fields := tfFields(PT)
	if w.drv != nil && tfOK(fields) && len(fields) < 60000 && !outOfModel {
		var entries []string
		for _, k := range keys {
			sl, mp := tokenStreams(set[k])
			e := []string{"E", hexEnc(k), hexEnc(set[k]), strconv.Itoa(len(sl))}
			e = append(e, sl...)
			e = append(e, strconv.Itoa(len(mp)))
			e = append(e, mp...)
			entries = append(entries, strings.Join(e, " "))
		}
		req := fmt.Sprintf("tf env chainEnv %s %s %d %s", hexEnc(pfx), fields, len(entries), strings.Join(entries, " "))
		model := strings.TrimSpace(w.drv.Ask(req))
		mcl := strings.SplitN(model, " ", 2)[0]
		w.count("model/env/" + mcl)
		switch {
		case mcl != "ok" && mcl != "err" && mcl != "panic":
			w.add(Finding{Kind: "disagreement", What: "env model: driver reply " + mcl, Case: cloneCase(cs, "request", req)})
		case envCl == "hang":
		case extBad && (envCl == "err" || mcl == "err"):
			w.out.OOD++ // floats, complex numbers, durations and non-ASCII text are external to the model
		case envCl != mcl && ft.typedOutsideModel():
			w.out.OOD++
			w.count("model/env/typed-outside-model")
		case envCl != mcl && !(envCl == "panic" && c16KnownID("env.Source.Value", envCl, envDet, ft) != ""):
			w.add(Finding{Kind: "disagreement", What: "env source: outcome class of the model differs", Case: cloneCase(cs, "env", set, "prefix", pfx, "request", req, "detail", envDet), Observed: envCl, Model: model})
		}
	} else {
		w.out.OOD++
	}

	// 4. parse.String on every flattened leaf type with the text it was given (or a fresh one)
	for _, l := range leaves {
		t := l.typ
		switch t.Kind() {
		case reflect.Slice, reflect.Map:
		case reflect.Ptr:
			t = t.Elem()
		default:
			continue
		}
		name := l.name
		if pfx != "" {
			name = pfx + "_" + name
		}
		txt, ok := set[name]
		if !ok {
			txt = leafText(r, t)
		}
		w.parseStringCase(txt, t, ft, cs)
	}

	// 5. flag and pflag sources
	w.flagCase(T, tmpl, dt, ft, cs, false)
	w.flagCase(T, tmpl, dt, ft, cs, true)

	// 6. decoders through static.StringSource
	var srcVals []reflect.Value
	if envCl == "ok" && envVal.IsValid() {
		srcVals = append(srcVals, envVal)
	}
	for _, format := range []string{"json", "yaml", "yaml-flatten", "toml", "cue"} {
		doc, ok := w.makeDoc(T, format)
		if !ok {
			continue
		}
		variant := "valid"
		if r.Chance(30) {
			doc = mutateDoc(r, doc)
			variant = "mutated"
		}
		var dec dials.Decoder
		switch format {
		case "json":
			dec = &djson.Decoder{}
		case "yaml":
			dec = &yaml.Decoder{}
		case "yaml-flatten":
			dec = &yaml.Decoder{FlattenAnonymous: true}
		case "toml":
			dec = &toml.Decoder{}
		case "cue":
			dec = &cue.Decoder{}
		}
		if format == "cue" && cueDangerous(doc) {
			w.count("generator/cue-document-skipped(string repetition with a large count)")
			continue
		}
		var dv reflect.Value
		cl, det := guard(func() error {
			v, err := (&static.StringSource{Data: doc, Decoder: dec}).Value(context.Background(), dt)
			dv = v
			return err
		})
		w.report("decoder/"+format, cl, det, ft, cs, "document", clip(doc, 600), "variant", variant)
		if cl == "ok" && dv.IsValid() && len(srcVals) < 4 {
			srcVals = append(srcVals, dv)
		}
	}

	// 7. transformer: shipped chains and random sub-chains, Translate + ReverseTranslate of a random filling
	for k := 0; k < 2; k++ {
		chain := genChain(r)
		var specs []string
		ms := make([]transform.Mangler, len(chain))
		for i, m := range chain {
			ms[i] = m.m
			specs = append(specs, m.spec)
		}
		tf := transform.NewTransformer(PT, ms...)
		var tv reflect.Value
		cl, det := guard(func() error {
			v, err := tf.Translate()
			tv = v
			return err
		})
		w.report("transform.Translate", cl, det, ft, cs, "chain", specs)
		if cl != "ok" {
			continue
		}
		hasCast := strings.Contains(strings.Join(specs, "|"), "stringcast")
		var fills []string
		for i := 0; i < tv.NumField(); i++ {
			if !r.Chance(55) {
				continue
			}
			f := tv.Field(i)
			if hasCast && f.Type() == reflect.TypeOf((*string)(nil)) {
				txt := badText(r)
				if r.Chance(60) {
					txt = goodText(r, rt[int](), 0)
				}
				f.Set(reflect.ValueOf(&txt))
				fills = append(fills, tv.Type().Field(i).Name+"="+clip(txt, 40))
				continue
			}
			cl2, det2 := guard(func() error { fillValue(r, f, nil); return nil })
			if cl2 != "ok" {
				w.count("generator/fill-" + cl2 + "/" + clip(det2, 60))
			}
		}
		cl, det = guard(func() error { _, err := tf.ReverseTranslate(tv); return err })
		w.report("transform.ReverseTranslate", cl, det, ft, cs, "chain", specs, "fills", fills)
	}

	// 8. stacking: compose the defaults with the values the sources returned
	if len(srcVals) > 0 {
		cl, det := guard(func() error { _, err := dials.VerifCompose(tmpl.Interface(), srcVals); return err })
		w.report("dials.compose", cl, det, ft, cs, "sources", len(srcVals))
	}
	// 8b. dials.Config itself needs a compile-time type: the declared corpus goes through it
	if declared {
		w.configCase(T, ft, cs)
	}
	nontrivial := ft.Leaves >= 2
	w.caseDone(shortType(T)+fmt.Sprint(keys), nontrivial, cs)
}

func clip(s string, n int) string {
	if len(s) > n {
		return s[:n] + "…"
	}
	return s
}

// parseStringCase: parse.String under guard + the model's outcome class
func (w *c16Worker) parseStringCase(txt string, t reflect.Type, ft *c16Feat, cs map[string]any) {
	cl, det := guard(func() error {
		v, err := parse.String(txt, t)
		if err == nil {
			// what every caller does next: scalars come back behind a pointer
			switch t.Kind() {
			case reflect.Slice, reflect.Map:
			default:
				_ = v.Elem()
			}
		}
		return err
	})
	w.report("parse.String", cl, det, ft, cs, "text", txt, "leaf_type", t.String())
	w.count("parse.String/kind/" + t.Kind().String())
	ty := tfTy(t)
	if w.drv == nil || !c16InModel(t) || !isASCII(txt) || cl == "hang" {
		w.out.OOD++
		return
	}
	sl, mp := tokenStreams(txt)
	req := fmt.Sprintf("c16 pstr %s %d %s %d %s %s", hexEnc(txt), len(sl), strings.Join(sl, " "), len(mp), strings.Join(mp, " "), ty)
	req = strings.Join(strings.Fields(req), " ")
	model := strings.TrimSpace(w.drv.Ask(req))
	mcl := strings.SplitN(model, " ", 2)[0]
	w.count("model/parse.String/" + mcl)
	if hasExternalKind(t) && (cl == "err" || mcl == "err") {
		w.out.OOD++ // strconv.ParseFloat / ParseComplex / time.ParseDuration are external to the model
		return
	}
	if mcl != cl {
		w.add(Finding{Kind: "disagreement", What: "parse.String: outcome class of the model differs", Case: cloneCase(cs, "text", txt, "leaf_type", t.String(), "request", req, "detail", det), Observed: cl, Model: model})
	}
}

// flagCase: NewSetWithArgs (stdlib flag or pflag) with random arguments, then Value
func (w *c16Worker) flagCase(T reflect.Type, tmpl reflect.Value, dt *dials.Type, ft *c16Feat, cs map[string]any, p bool) {
	r := w.r
	pkg := "flag"
	if p {
		pkg = "pflag"
	}
	encs := []cc.EncodeCasingFunc{cc.EncodeKebabCase, cc.EncodeKebabCase, cc.EncodeLowerSnakeCase, cc.EncodeLowerCamelCase, cc.EncodeUpperSnakeCase}
	tagEnc := encs[r.Intn(len(encs))]
	// discover the registered flags
	type fl struct {
		name   string
		short  string
		isBool bool
		typ    string
	}
	var flags []fl
	newTmpl := func() any {
		c := reflect.New(T)
		c.Elem().Set(dials.VerifDeepCopy(tmpl.Elem()))
		return c.Interface()
	}
	cl, det := guard(func() error {
		if p {
			s, err := dpflag.NewSetWithArgs(&dpflag.NameConfig{FieldNameEncodeCasing: cc.EncodeUpperCamelCase, TagEncodeCasing: tagEnc}, newTmpl(), nil)
			if err != nil {
				return err
			}
			s.Flags.VisitAll(func(f *pflagFlag) {
				flags = append(flags, fl{f.Name, f.Shorthand, f.Value.Type() == "bool", f.Value.Type()})
			})
			return nil
		}
		s, err := dflag.NewSetWithArgs(&dflag.NameConfig{FieldNameEncodeCasing: cc.EncodeUpperCamelCase, TagEncodeCasing: tagEnc}, newTmpl(), nil)
		if err != nil {
			return err
		}
		s.Flags.VisitAll(func(f *stdFlag) {
			_, isBool := f.Value.(interface{ IsBoolFlag() bool })
			flags = append(flags, fl{f.Name, "", isBool, fmt.Sprintf("%T", f.Value)})
		})
		return nil
	})
	w.report(pkg+".NewSetWithArgs", cl, det, ft, cs)
	if cl != "ok" {
		return
	}
	w.count(fmt.Sprintf("%s/flags_registered=%d", pkg, min(len(flags), 12)))
	if p && r.Chance(35) {
		// the application's own FlagSet: some of the names and some of the shorthand letters are taken already
		// (a cobra command's -v), and a second dials Set is built on the same FlagSet afterwards
		cl, det := guard(func() error {
			fs := spf13NewFlagSet()
			for i, f := range flags {
				if r.Chance(20) {
					fs.String(f.name, "", "pre-registered by the application")
				} else if f.short != "" && r.Chance(60) {
					fs.BoolP(fmt.Sprintf("app-pre-%d", i), f.short, false, "pre-registered by the application")
				}
			}
			ncfg := &dpflag.NameConfig{FieldNameEncodeCasing: cc.EncodeUpperCamelCase, TagEncodeCasing: tagEnc}
			if _, err := dpflag.NewSetWithFlagSet(ncfg, newTmpl(), fs); err != nil {
				return err
			}
			_, err := dpflag.NewSetWithFlagSet(ncfg, newTmpl(), fs)
			return err
		})
		w.report("pflag.NewSetWithFlagSet(pre-registered, twice)", cl, det, ft, cs)
	}
	// leaf types by flattened position are not needed: texts are drawn per flag helper type name
	var args []string
	for _, f := range flags {
		if !r.Chance(45) {
			continue
		}
		w.count(pkg + "/flagtype/" + f.typ)
		txt := flagText(r, f.typ)
		dash := "-"
		if p || r.Bool() {
			dash = "--"
		}
		switch {
		case f.isBool && r.Chance(40):
			args = append(args, dash+f.name)
		case p && f.short != "" && r.Chance(30):
			args = append(args, "-"+f.short, txt)
		case r.Chance(70):
			args = append(args, dash+f.name+"="+txt)
		default:
			args = append(args, dash+f.name, txt)
		}
	}
	if r.Chance(6) {
		args = append(args, pick(r, []string{"--no-such-flag=1", "-", "--", "positional", "-=", "---x", "--=x", "-h"}))
	}
	cl, det = guard(func() error {
		if p {
			s, err := dpflag.NewSetWithArgs(&dpflag.NameConfig{FieldNameEncodeCasing: cc.EncodeUpperCamelCase, TagEncodeCasing: tagEnc}, newTmpl(), args)
			if err != nil {
				return err
			}
			s.Flags.SetOutput(io.Discard)
			_, err = s.Value(context.Background(), dt)
			return err
		}
		s, err := dflag.NewSetWithArgs(&dflag.NameConfig{FieldNameEncodeCasing: cc.EncodeUpperCamelCase, TagEncodeCasing: tagEnc}, newTmpl(), args)
		if err != nil {
			return err
		}
		s.Flags.SetOutput(io.Discard)
		_, err = s.Value(context.Background(), dt)
		return err
	})
	w.report(pkg+".Set.Value", cl, det, ft, cs, "args", args)
}

// flagText: a text for a flag whose helper / value type has the given name
func flagText(r *RNG, typ string) string {
	if r.Chance(20) {
		return badText(r)
	}
	l := strings.ToLower(typ)
	switch {
	case strings.Contains(l, "bool"):
		return goodText(r, rt[bool](), 0)
	case strings.Contains(l, "duration"):
		return goodText(r, rt[time.Duration](), 0)
	case strings.Contains(l, "complex"):
		return goodText(r, rt[complex128](), 0)
	case strings.Contains(l, "float"):
		return goodText(r, rt[float64](), 0)
	case strings.Contains(l, "mapstringstringslice"):
		return goodText(r, rt[map[string][]string](), 0)
	case strings.Contains(l, "mapstringstring"), strings.Contains(l, "stringtostring"):
		return goodText(r, rt[map[string]string](), 0)
	case strings.Contains(l, "stringset"), strings.Contains(l, "stringslice"):
		return goodText(r, rt[[]string](), 0)
	case strings.Contains(l, "integralslice"):
		if strings.Contains(l, "unsigned") {
			return goodText(r, rt[[]uint16](), 0)
		}
		return goodText(r, rt[[]int16](), 0)
	case strings.Contains(l, "uint"):
		return goodText(r, rt[uint16](), 0)
	case strings.Contains(l, "int"):
		return goodText(r, rt[int16](), 0)
	case strings.Contains(l, "time"), strings.Contains(l, "marshal"):
		return goodText(r, rt[time.Time](), 0)
	}
	return genStr(r)
}

// makeDoc renders a document for the type in the given format (generator failures are not the library's)
func (w *c16Worker) makeDoc(T reflect.Type, format string) (doc string, ok bool) {
	defer func() {
		if recover() != nil {
			w.count("generator/doc-failed/" + format)
			ok = false
		}
	}()
	f := format
	if f == "yaml-flatten" {
		f = "yaml"
	}
	tree := genDoc(w.r, T, f, 0)
	m, isMap := tree.(map[string]any)
	if !isMap {
		m = map[string]any{}
	}
	switch f {
	case "json", "cue":
		b, err := json.Marshal(m)
		if err != nil {
			return "", false
		}
		return string(b), true
	case "yaml":
		b, err := yamlv2.Marshal(m)
		if err != nil {
			return "", false
		}
		return string(b), true
	case "toml":
		var sb strings.Builder
		renderTOML(m, "", &sb)
		return sb.String(), true
	}
	return "", false
}

// ---------- dials.Config on the declared corpus ----------

func configOf[T any](w *c16Worker, ft *c16Feat, cs map[string]any) {
	r := w.r
	var tmpl T
	fillInner(r, reflect.ValueOf(&tmpl).Elem(), 2)
	T0 := reflect.TypeOf(tmpl)
	var srcs []dials.Source
	var desc []string
	if r.Chance(70) {
		doc, ok := w.makeDoc(T0, "json")
		if ok {
			if r.Chance(20) {
				doc = mutateDoc(r, doc)
			}
			srcs = append(srcs, &static.StringSource{Data: doc, Decoder: &djson.Decoder{}})
			desc = append(desc, "json:"+clip(doc, 200))
		}
	}
	if r.Chance(50) {
		doc, ok := w.makeDoc(T0, "yaml")
		if ok {
			srcs = append(srcs, &static.StringSource{Data: doc, Decoder: &yaml.Decoder{FlattenAnonymous: r.Bool()}})
			desc = append(desc, "yaml:"+clip(doc, 200))
		}
	}
	if r.Chance(50) {
		doc, ok := w.makeDoc(T0, "toml")
		if ok {
			srcs = append(srcs, &static.StringSource{Data: doc, Decoder: &toml.Decoder{}})
			desc = append(desc, "toml:"+clip(doc, 200))
		}
	}
	if r.Chance(70) {
		srcs = append(srcs, &env.Source{Prefix: "C16CFG"})
		desc = append(desc, "env")
	}
	if r.Chance(60) {
		c := tmpl
		var s *dflag.Set
		var err error
		if pn := catch(func() { s, err = dflag.NewSetWithArgs(dflag.DefaultFlagNameConfig(), &c, nil) }); pn != "" {
			err = errors.New("panic (reported by the flag entry of this type): " + pn)
		}
		if err == nil {
			s.Flags.SetOutput(io.Discard)
			srcs = append(srcs, s)
			desc = append(desc, "flag")
		}
	}
	cl, det := guard(func() error {
		ctx, cancel := context.WithCancel(context.Background())
		defer cancel()
		d, err := dials.Config(ctx, &tmpl, srcs...)
		if err != nil {
			return err
		}
		_ = d.View()
		return nil
	})
	w.report("dials.Config", cl, det, ft, cs, "sources", desc)
}

var c16Config = map[reflect.Type]func(*c16Worker, *c16Feat, map[string]any){
	rt[C16Server](): configOf[C16Server], rt[C16Embed](): configOf[C16Embed], rt[C16Ptrs](): configOf[C16Ptrs], rt[C16Nested](): configOf[C16Nested], rt[C16Flat](): configOf[C16Flat], rt[C16Elems](): configOf[C16Elems], rt[C16EmbEmb](): configOf[C16EmbEmb],
}

func (w *c16Worker) configCase(T reflect.Type, ft *c16Feat, cs map[string]any) {
	if f, ok := c16Config[T]; ok {
		os.Setenv("C16CFG_HOST", "example")
		os.Setenv("C16CFG_PORT", []string{"8080", "99999", "x"}[w.r.Intn(3)])
		os.Setenv("C16CFG_NAME", "n")
		os.Setenv("C16CFG_A", []string{"1", "a"}[w.r.Intn(2)])
		f(w, ft, cs)
		for _, k := range []string{"C16CFG_HOST", "C16CFG_PORT", "C16CFG_NAME", "C16CFG_A"} {
			os.Unsetenv(k)
		}
	}
}

// ---------- chunk driver (child process) ----------

func init() {
	register("C16", checkC16)
	execOneHandlers["c16"] = c16ExecOne
}

// vh exec-one c16 <stream> <seed> <first> <count> <driver|-> <known> <out>
func c16ExecOne(args []string) {
	if len(args) < 7 {
		os.Exit(2)
	}
	stream := args[0]
	seed, _ := strconv.ParseUint(args[1], 10, 64)
	first, _ := strconv.Atoi(args[2])
	count, _ := strconv.Atoi(args[3])
	loadKnown(args[5])
	w := &c16Worker{r: NewRNG(seed), out: &c16Chunk{Dist: map[string]int{}, Known: map[string]int{}}, seen: map[[32]byte]struct{}{}}
	if args[4] != "-" {
		d, err := StartDriver(args[4])
		if err != nil {
			fmt.Fprintln(os.Stderr, "driver:", err)
			os.Exit(2)
		}
		w.drv = d
		defer d.Close()
	}
	devnull, _ := os.OpenFile(os.DevNull, os.O_WRONLY, 0)
	_ = devnull
	switch stream {
	case "types":
		if first == 0 {
			w.regressions()
		}
		for i := 0; i < count; i++ {
			w.oneType(first + i)
		}
	case "texts":
		for i := 0; i < count; i++ {
			w.textCase(first + i)
		}
	case "concurrent":
		for i := 0; i < count; i++ {
			w.concurrentDecoders(first + i)
		}
	}
	if w.drv != nil {
		w.out.DriverReq = w.drv.n
	}
	b, _ := json.Marshal(w.out)
	os.WriteFile(args[6], b, 0o644)
}

// oneType: generate (or pick from the declared corpus) and run one config type
func (w *c16Worker) oneType(idx int) {
	r := w.r
	if r.Chance(4) {
		T := c16Static[r.Intn(len(c16Static))]
		w.count("source/declared-corpus")
		w.typeCase(idx, T, map[string]int{"declared/" + T.Name(): 1}, true)
		return
	}
	for attempt := 0; attempt < 20; attempt++ {
		g := &c16Gen{r: r, kinds: map[string]int{}, oddTags: r.Chance(6)}
		var T reflect.Type
		if p := catch(func() { T = g.genStruct(1 + r.Intn(3)) }); p != "" {
			w.count("generator/structof-rejected")
			continue
		}
		var names []string
		flatLeafNames(T, "", &names, 0)
		var keys []string
		flatWordKeys(T, nil, &keys, 0)
		if hasDup(names) || hasDup(keys) || !levelNamesDistinct(T, 0) || !yamlKeysDistinct(T, 0) {
			w.count("generator/discarded-duplicate-flattened-names")
			continue
		}
		w.count("source/generated")
		w.typeCase(idx, T, g.kinds, false)
		return
	}
}

// ---------- parent ----------

func checkC16(c *Ctx) {
	res := c.Res
	res.ASCIIModel = true
	res.Rule = "TYPE stream: config struct types built by reflect.StructOf (depth <= 3, 1-5 fields per struct, names from a vocabulary of capitalised words and initialisms; dials/dialsenv/dialsflag/dialspflag/dialsalias/dialsdesc tags; 6% of the types draw from a list of odd tags) plus a declared corpus (4%); " +
		"every leaf is drawn from a pool of 49 kinds, 75% as the user-defined named version (named bool/string/all int widths/floats/complex/duration, named slices and maps, named element / key / value types, named pointer types), 25% predeclared; " +
		"struct-ish fields: generated anonymous structs by value / * / ** / slice, declared named structs by value, *, **, ***, named pointer types and pointers to them, slices / arrays / maps of structs, embedded structs, embedded *struct, embedded named slices and scalars, embedded types with methods; " +
		"types whose flattened leaf names collide are discarded (counted). Each type: Pointerify, the env chain's Translate, env.Source.Value with variables for a random half of the leaves (78% well-formed for the leaf's type, 22% malformed: boundary texts, random ASCII, random bytes, mutated), parse.String per leaf, flag and pflag NewSetWithArgs + Value with random arguments, " +
		"json / yaml / yaml+FlattenAnonymous / toml / cue decoders through static.StringSource with a generated document (30% mutated), two Transformers (shipped chains and random sub-chains) Translate + ReverseTranslate of a random filling, compose of the returned values, dials.Config for the declared corpus. " +
		"REGRESSION stream: one concrete (type, input) per repaired finding (P02-P11, P14), must return a value or an error (and the expected value where the repair makes the shape work). TEXT stream: random bytes, mutated valid inputs and boundary cases into parse.String for every kind, the six collection parsers, every case-conversion decoder and encoder, every flag helper's Set/String/Get, and documents into the four decoders for the declared corpus. " +
		"Every call under recover + 2 s watchdog; outcome classes ok|err|panic|hang; model outcome class compared for parse.String, the env source, the collection parsers and the case decoders (ASCII, kinds inside the models). non-trivial: a type with >= 2 leaves / a text of >= 2 bytes; distinct = by type string + variables (per chunk), by text"
	// --replay FILE: the run is a deterministic function of (seed, tier): re-run with the recorded ones
	if c.Replay != "" {
		if b, err := os.ReadFile(c.Replay); err == nil {
			var rp struct {
				Seed uint64 `json:"seed"`
				Tier string `json:"tier"`
			}
			if json.Unmarshal(b, &rp) == nil && rp.Tier != "" {
				c.Seed, c.Tier, c.RNG = rp.Seed, rp.Tier, NewRNG(rp.Seed)
				res.Seed, res.Tier = rp.Seed, rp.Tier
				res.Notes = append(res.Notes, fmt.Sprintf("replay of %s: seed %d tier %s", c.Replay, rp.Seed, rp.Tier))
			}
		}
	}
	nTypes := c.scale(5200, 102000)
	nTexts := c.scale(21000, 2020000)
	workers := runtime.NumCPU()
	if workers > 12 {
		workers = 12
	}
	if workers < 2 {
		workers = 2
	}
	self, _ := os.Executable()
	c16RunProbes(c, self)
	work := c.WorkDir
	if work == "" {
		work, _ = os.MkdirTemp("", "c16")
	}
	known := os.Getenv("VERIF_DIR")
	if known == "" {
		known = "/verif"
	}
	known += "/KNOWN_FINDINGS.txt"
	for _, a := range os.Args {
		_ = a
	}
	if kf := knownFlagPath(); kf != "" {
		known = kf
	}
	drv := c.DrvPath
	if drv == "" {
		drv = "-"
	}
	type job struct {
		stream       string
		first, count int
		seed         uint64
	}
	var jobs []job
	split := func(stream string, n, per int) {
		for first := 0; first < n; first += per {
			cnt := per
			if first+cnt > n {
				cnt = n - first
			}
			jobs = append(jobs, job{stream, first, cnt, c.RNG.U64()})
		}
	}
	perT := (nTypes + workers*2 - 1) / (workers * 2)
	perX := (nTexts + workers*2 - 1) / (workers * 2)
	split("types", nTypes, perT)
	split("texts", nTexts, perX)
	nConc := c.scale(48, 600)
	split("concurrent", nConc, (nConc+3)/4)
	type pendingFinding struct {
		f     Finding
		extra int
	}
	var pending []pendingFinding
	var mu sync.Mutex
	var wg sync.WaitGroup
	sem := make(chan struct{}, workers)
	crashed := 0
	for ji, j := range jobs {
		wg.Add(1)
		sem <- struct{}{}
		go func(ji int, j job) {
			defer wg.Done()
			defer func() { <-sem }()
			outp := fmt.Sprintf("%s/c16-%s-%d.json", work, j.stream, ji)
			os.Remove(outp)
			cmd := exec.Command(self, "exec-one", "c16", j.stream, strconv.FormatUint(j.seed, 10), strconv.Itoa(j.first), strconv.Itoa(j.count), drv, known, outp)
			var stderr bytes.Buffer
			cmd.Stderr = &stderr
			cmd.Stdout = io.Discard
			err := cmd.Run()
			b, rerr := os.ReadFile(outp)
			var ch c16Chunk
			if err != nil || rerr != nil || json.Unmarshal(b, &ch) != nil {
				mu.Lock()
				crashed++
				tail := stderr.String()
				if len(tail) > 3000 {
					tail = tail[:1500] + "\n…\n" + tail[len(tail)-1500:]
				}
				res.Add(Finding{Kind: "violation", What: "a worker process died (fatal runtime error: not recoverable) in the " + j.stream + " stream", Case: map[string]any{"replay": fmt.Sprintf("vh exec-one c16 %s %d %d %d", j.stream, j.seed, j.first, j.count), "stderr": tail, "error": fmt.Sprint(err)}})
				mu.Unlock()
				return
			}
			mu.Lock()
			res.Evaluations += ch.Evals
			res.Distinct += ch.Distinct
			res.OutOfDomain += ch.OOD
			res.DriverRequests += ch.DriverReq
			for k, v := range ch.Dist {
				res.Dist[k] += v
			}
			for _, s := range ch.Samples {
				if len(res.Samples) < 8 {
					res.Samples = append(res.Samples, s)
				}
			}
			mu.Unlock()
			mu.Lock()
			for _, f := range ch.Findings {
				pending = append(pending, pendingFinding{f, ch.Known[f.KnownID] - 1})
			}
			mu.Unlock()
		}(ji, j)
	}
	wg.Wait()
	// the result keeps at most 200 findings: regressions of repaired findings first, then violations,
	// disagreements, known findings
	rank := func(f Finding) int {
		switch {
		case f.Kind == "violation" && strings.Contains(f.What, "regression"):
			return 0
		case f.Kind == "violation":
			return 1
		case f.Kind == "disagreement":
			return 2
		}
		return 3
	}
	sort.SliceStable(pending, func(a, b int) bool { return rank(pending[a].f) < rank(pending[b].f) })
	for _, pf := range pending {
		res.Add(pf.f)
		if pf.f.Kind == "known" && pf.extra > 0 {
			res.mu.Lock()
			res.KnownSeen[pf.f.KnownID] += pf.extra
			res.mu.Unlock()
		}
	}
	res.Notes = append(res.Notes, fmt.Sprintf("%d chunks in %d worker processes; %d crashed; discarded for duplicate flattened leaf names: %d; rejected by reflect.StructOf in the generator: %d",
		len(jobs), workers, crashed, res.Dist["generator/discarded-duplicate-flattened-names"], res.Dist["generator/structof-rejected"]))
	// the driver requests are made by the children
	if c.Drv != nil {
		c.Drv.n += res.DriverRequests
	}
}

func knownFlagPath() string {
	for i, a := range os.Args {
		if a == "-known" && i+1 < len(os.Args) {
			return os.Args[i+1]
		}
		if strings.HasPrefix(a, "-known=") {
			return strings.TrimPrefix(a, "-known=")
		}
	}
	return ""
}
