package main

// C04 / C05 / C02, implementation-only stream: a watching source that keeps ONE value object, changes it in place and
// reports the same pointer again (every report a blocking one, so the previous report has been dealt with before the
// object changes).  "The same object as last time" is not "the same value as last time":
//   - every report is re-stacked: the view equals a fresh stack of the defaults and the object's CURRENT content when
//     that verifies, the serial moves by one, Events carries it (C05);
//   - a report whose stack does not verify is rejected and changes nothing - although the source's object (maps,
//     slices, pointers and all) already holds the rejected content, the visible config does not, it still verifies,
//     and OnWatchedError's "current config" is the last good one (C04);
//   - versions handed out earlier keep their content whatever the source does to its object afterwards (C02).

import (
	"context"
	"errors"
	"fmt"
	"reflect"
	"strings"
	"sync"
	"time"

	"github.com/vimeo/dials"
)

type ruSub struct {
	Weights map[string]int
}

type ruBackend struct {
	Hosts []string
	Quota *int
}

type ruCfg struct {
	Name   string
	Count  int
	Limits map[string]int
	Tags   []string
	Opt    *int
	Sub    ruSub
	// a map whose VALUES are structs holding a slice and a pointer: copied entry by entry, all the way down
	Backends map[string]ruBackend
}

var errRuInvalid = errors.New("ru: a limit is not positive")

func (c *ruCfg) Verify() error {
	for _, v := range c.Limits {
		if v <= 0 {
			return errRuInvalid
		}
	}
	for _, v := range c.Sub.Weights {
		if v <= 0 {
			return errRuInvalid
		}
	}
	if c.Count < 0 || (c.Opt != nil && *c.Opt < 0) {
		return errRuInvalid
	}
	for _, b := range c.Backends {
		for _, h := range b.Hosts {
			if h == "" {
				return errRuInvalid
			}
		}
		if b.Quota != nil && *b.Quota <= 0 {
			return errRuInvalid
		}
	}
	return nil
}

func (c ruCfg) show() string {
	opt := "nil"
	if c.Opt != nil {
		opt = fmt.Sprint(*c.Opt)
	}
	var bk []string
	for _, k := range []string{"a", "b"} {
		if b, ok := c.Backends[k]; ok {
			q := "nil"
			if b.Quota != nil {
				q = fmt.Sprint(*b.Quota)
			}
			bk = append(bk, fmt.Sprintf("%s={%q q:%s}", k, b.Hosts, q))
		}
	}
	return fmt.Sprintf("{Name:%s Count:%d Limits:%v Tags:%v Opt:%s Sub.Weights:%v Backends:%v}", c.Name, c.Count, c.Limits, c.Tags, opt, c.Sub.Weights, bk)
}

type ruSrc struct {
	obj reflect.Value // pointer to a value of the pointerified type: the ONE object this source ever reports
	wa  dials.WatchArgs
}

func (s *ruSrc) Value(_ context.Context, t *dials.Type) (reflect.Value, error) {
	s.obj = reflect.New(t.Type())
	return s.obj, nil
}
func (s *ruSrc) Watch(_ context.Context, _ *dials.Type, wa dials.WatchArgs) error {
	s.wa = wa
	return nil
}

// ruContent: what the object is made to hold (k = step; bad: a non-positive entry somewhere)
type ruContent struct {
	name   string
	count  int
	limits map[string]int
	tags   []string
	opt    int
	hasOpt bool
	w      map[string]int
	hosts  []string // hosts of backend "b" (backend "a" keeps one host); an empty host is invalid
	quota  int
}

// write the content INTO the existing object: maps, slices and pointees are changed in place where they exist
func (s *ruSrc) write(c ruContent) {
	e := s.obj.Elem()
	setPtr := func(f reflect.Value, v any) {
		if f.IsNil() {
			f.Set(reflect.New(f.Type().Elem()))
		}
		f.Elem().Set(reflect.ValueOf(v).Convert(f.Type().Elem()))
	}
	setPtr(e.FieldByName("Name"), c.name)
	setPtr(e.FieldByName("Count"), c.count)
	lim := e.FieldByName("Limits")
	if lim.IsNil() {
		lim.Set(reflect.MakeMap(lim.Type()))
	}
	for _, k := range lim.MapKeys() {
		lim.SetMapIndex(k, reflect.Value{})
	}
	for k, v := range c.limits {
		lim.SetMapIndex(reflect.ValueOf(k), reflect.ValueOf(v))
	}
	tags := e.FieldByName("Tags")
	if tags.Len() == len(c.tags) && tags.Len() > 0 {
		for i := range c.tags {
			tags.Index(i).SetString(c.tags[i]) // same backing array
		}
	} else {
		tags.Set(reflect.ValueOf(append([]string{}, c.tags...)))
	}
	opt := e.FieldByName("Opt")
	if c.hasOpt {
		setPtr(opt, c.opt)
	} else {
		opt.Set(reflect.Zero(opt.Type()))
	}
	sub := e.FieldByName("Sub")
	if sub.Kind() == reflect.Ptr {
		if sub.IsNil() {
			sub.Set(reflect.New(sub.Type().Elem()))
		}
		sub = sub.Elem()
	}
	w := sub.Field(0)
	if w.IsNil() {
		w.Set(reflect.MakeMap(w.Type()))
	}
	for _, k := range w.MapKeys() {
		w.SetMapIndex(k, reflect.Value{})
	}
	for k, v := range c.w {
		w.SetMapIndex(reflect.ValueOf(k), reflect.ValueOf(v))
	}
	// Backends: the entry structs are re-stored, but their Hosts slices and Quota pointees are changed IN PLACE
	bk := e.FieldByName("Backends")
	if bk.IsNil() {
		bk.Set(reflect.ValueOf(map[string]ruBackend{"a": {Hosts: []string{"a0"}}, "b": {Hosts: make([]string, len(c.hosts)), Quota: new(int)}}))
	}
	m := bk.Interface().(map[string]ruBackend)
	b := m["b"]
	if len(b.Hosts) == len(c.hosts) {
		copy(b.Hosts, c.hosts) // same backing array
	} else {
		b.Hosts = append([]string{}, c.hosts...)
	}
	*b.Quota = c.quota
	m["b"] = b
}

func (c ruContent) over(base ruCfg) ruCfg {
	base.Name, base.Count = c.name, c.count
	base.Limits = map[string]int{}
	for k, v := range c.limits {
		base.Limits[k] = v
	}
	base.Tags = append([]string{}, c.tags...)
	if c.hasOpt {
		o := c.opt
		base.Opt = &o
	}
	base.Sub.Weights = map[string]int{}
	for k, v := range c.w {
		base.Sub.Weights[k] = v
	}
	q := c.quota
	base.Backends = map[string]ruBackend{"a": {Hosts: []string{"a0"}}, "b": {Hosts: append([]string{}, c.hosts...), Quota: &q}}
	return base
}

func rtReuse(c *Ctx, n int) {
	r := c.RNG
	res := c.Res
	for i := 0; i < n; i++ {
		seven := 7
		defaults := &ruCfg{Name: "default", Count: 1, Limits: map[string]int{"d": 1}, Tags: []string{"dt"}, Opt: &seven, Sub: ruSub{Weights: map[string]int{"dw": 1}}}
		src := &ruSrc{}
		var mu sync.Mutex
		var errOld []string // "current config" handed to OnWatchedError
		ctx, cancel := context.WithCancel(context.Background())
		d, err := dials.Params[ruCfg]{OnWatchedError: func(_ context.Context, _ error, old, _ *ruCfg) {
			mu.Lock()
			errOld = append(errOld, old.show())
			mu.Unlock()
		}}.Config(ctx, defaults, src)
		steps := 2 + r.Intn(6)
		cs := map[string]any{"stream": "one value object, changed in place and reported again", "steps": steps}
		if err != nil {
			res.Add(Finding{Kind: "violation", What: "Config failed: " + err.Error(), Case: cs})
			cancel()
			continue
		}
		base := *defaults
		good := base // the initial report is the empty object: the defaults
		type handed struct {
			v    *ruCfg
			snap string
		}
		var versions []handed
		_, ser := d.ViewVersion()
		serial := dials.VerifCfgSerial(ser)
		var trace []string
		failed := false
		rejected := 0
		for k := 1; k <= steps && !failed; k++ {
			bad := r.Chance(35)
			ct := ruContent{name: fmt.Sprintf("n%d", k), count: k, limits: map[string]int{"a": k, "b": 10 * k}, tags: []string{fmt.Sprintf("t%d", k), "x"}, opt: k, hasOpt: r.Chance(70), w: map[string]int{"w": k}}
			ct.hosts, ct.quota = []string{fmt.Sprintf("h%d", k), "h"}, k
			if r.Chance(30) {
				delete(ct.limits, "b")
			}
			if bad {
				switch r.Intn(5) {
				case 3:
					ct.hosts[0] = "" // an empty host inside a map-of-structs entry
				case 4:
					ct.quota = -k
				case 0:
					ct.limits["a"] = -k
				case 1:
					ct.w["w"] = 0
				default:
					ct.count = -k
				}
			}
			src.write(ct)
			trace = append(trace, fmt.Sprintf("step %d: object now %s (valid=%v)", k, ct.over(base).show(), !bad))
			cs["trace"] = trace
			rctx, rc := context.WithTimeout(ctx, 5*time.Second)
			rerr := src.wa.BlockingReportNewValue(rctx, src.obj)
			rc()
			view, vser := d.ViewVersion()
			got := dials.VerifCfgSerial(vser)
			switch {
			case bad:
				rejected++
				if rerr == nil || !errors.Is(rerr, errRuInvalid) {
					res.Add(Finding{Kind: "violation", What: fmt.Sprintf("step %d: the blocking report of an invalid stack returned %v, want Verify's error", k, rerr), Case: cs})
					failed = true
				}
				if got != serial {
					res.Add(Finding{Kind: "violation", What: fmt.Sprintf("step %d: a rejected update moved the serial from %d to %d", k, serial, got), Case: cs})
					failed = true
				}
				if view.show() != good.show() {
					res.Add(Finding{Kind: "violation", What: fmt.Sprintf("step %d: a rejected update changed the visible config (the source's own object holds the rejected content; the config must not)", k), Case: cs, Expected: good.show(), Observed: view.show()})
					failed = true
				}
				if verr := view.Verify(); verr != nil {
					res.Add(Finding{Kind: "violation", What: fmt.Sprintf("step %d: the config visible through View() does not pass Verify: %v", k, verr), Case: cs, Observed: view.show()})
					failed = true
				}
			default:
				want := ct.over(base)
				if rerr != nil {
					res.Add(Finding{Kind: "violation", What: fmt.Sprintf("step %d: the blocking report of a valid stack failed: %v", k, rerr), Case: cs})
					failed = true
					break
				}
				if got != serial+1 {
					res.Add(Finding{Kind: "violation", What: fmt.Sprintf("step %d: the report was acknowledged, but the serial went from %d to %d (want one install)", k, serial, got), Case: cs})
					failed = true
				}
				if view.show() != want.show() {
					res.Add(Finding{Kind: "violation", What: fmt.Sprintf("step %d: the view differs from a fresh stack of the defaults and the source's current value", k), Case: cs, Expected: want.show(), Observed: view.show()})
					failed = true
				}
				serial, good = got, want
				versions = append(versions, handed{view, view.show()})
			}
			// versions handed out earlier are frozen
			for vi, h := range versions {
				if now := h.v.show(); now != h.snap {
					res.Add(Finding{Kind: "violation", What: fmt.Sprintf("step %d: version #%d, handed out earlier, changed when the source changed its value object", k, vi), Case: cs, Expected: h.snap, Observed: now})
					failed = true
					break
				}
			}
		}
		cancel()
		// (the callback goroutine drains before exiting; give it a moment, then look at what OnWatchedError was shown)
		deadline := time.Now().Add(2 * time.Second)
		for time.Now().Before(deadline) {
			mu.Lock()
			nn := len(errOld)
			mu.Unlock()
			if nn >= rejected {
				break
			}
			time.Sleep(time.Millisecond)
		}
		mu.Lock()
		for _, o := range errOld {
			if ruShowsNonPositive(o) {
				res.Add(Finding{Kind: "violation", What: "OnWatchedError was handed a current config that carries the rejected content", Case: cs, Observed: o})
				break
			}
		}
		mu.Unlock()
		res.Count(fmt.Sprintf("reuse/rejected=%d", min(rejected, 3)))
		res.Case(fmt.Sprint("U|", trace), rejected > 0 && steps >= 3, cs)
	}
}

// the rendering of a config shows a non-positive limit / weight / count (":-", ":0]" patterns are enough here: all
// legitimate values are positive)
func ruShowsNonPositive(s string) bool {
	if strings.Contains(s, `[""`) {
		return true // an empty host
	}
	for i := 0; i+1 < len(s); i++ {
		if s[i] == ':' && (s[i+1] == '-' || (s[i+1] == '0' && i+2 < len(s) && (s[i+2] == ']' || s[i+2] == ' '))) {
			return true
		}
	}
	return false
}
