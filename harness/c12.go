package main

// C12: the two flag sources (sources/flag, sources/pflag) on generated config types.
//
//   impl    NewSetWithArgs(cfg, template, args) + Flags.VisitAll (names, advertised defaults) + one Set.Value
//   model   driver op `fs` (Model/FlagSrc.lean): translated fields, flag names, routes, defaults, the value handed back
//   oracle  written from the property text: name = source tag else tag-encoder join of the words along the path;
//           default = the template's value; exactly the given flags set their leaves (scalars: last occurrence,
//           collections: all occurrences accumulated, the default dropped); out-of-range / unparsable => error;
//           everything else nil; stacked between a lower and a higher layer every other leaf shows the lower layer.
//
// External behaviour (oracle only, never in the model): the argument grammar of flag / pflag (the harness renders
// the occurrence list into arguments: -f v, --f v, -f=v, --f=v, bare bool flags), strconv float / complex / bool,
// time.ParseDuration, UnmarshalText, pflag's own []string flag (CSV split, first occurrence replaces, later append).

import (
	"context"
	"encoding/json"
	"flag"
	"fmt"
	"io"
	"math/big"
	"reflect"
	"sort"
	"strconv"
	"strings"
	"time"
	"unicode"

	"github.com/spf13/pflag"
	"github.com/vimeo/dials"
	djson "github.com/vimeo/dials/decoders/json"
	"github.com/vimeo/dials/ptrify"
	dflag "github.com/vimeo/dials/sources/flag"
	"github.com/vimeo/dials/sources/flag/flaghelper"
	dpflag "github.com/vimeo/dials/sources/pflag"
	"github.com/vimeo/dials/sources/static"
	cc "github.com/vimeo/dials/tagformat/caseconversion"
	"github.com/vimeo/dials/transform"
)

type c12Bool bool
type c12F float64
type c12C complex64
type c12C128 complex128

// ---------- leaf kinds ----------

type c12Kind struct {
	typ reflect.Type
	cls string // int uint bool str f32 f64 c64 c128 dur time tu sslice islice sset mss msl unsup
	ik  intKind
}

func c12IntKindOf(t reflect.Type) intKind {
	switch t.Kind() {
	case reflect.Int, reflect.Int8, reflect.Int16, reflect.Int32, reflect.Int64:
		return intKind{name: t.Kind().String(), typ: t, signed: true, bits: t.Bits()}
	default:
		return intKind{name: t.Kind().String(), typ: t, signed: false, bits: t.Bits()}
	}
}

var c12TimeType = reflect.TypeOf(time.Time{})
var c12DurType = reflect.TypeOf(time.Duration(0))
var c12TUType = reflect.TypeOf(tuPtr{})

// classify: the flag-relevant class of a leaf type (user pointers stripped)
func c12Classify(t reflect.Type) c12Kind {
	for t.Kind() == reflect.Ptr {
		t = t.Elem()
	}
	k := c12Kind{typ: t, cls: "unsup"}
	plainString := reflect.TypeOf("")
	switch t.Kind() {
	case reflect.Struct:
		if t == c12TimeType {
			k.cls = "time"
		} else if t == c12TUType {
			k.cls = "tu"
		}
	case reflect.Bool:
		k.cls = "bool"
	case reflect.String:
		k.cls = "str"
	case reflect.Float32:
		k.cls = "f32"
	case reflect.Float64:
		k.cls = "f64"
	case reflect.Complex64:
		k.cls = "c64"
	case reflect.Complex128:
		k.cls = "c128"
	case reflect.Int, reflect.Int8, reflect.Int16, reflect.Int32, reflect.Int64:
		if t == c12DurType {
			k.cls = "dur"
		} else {
			k.cls, k.ik = "int", c12IntKindOf(t)
		}
	case reflect.Uint, reflect.Uint8, reflect.Uint16, reflect.Uint32, reflect.Uint64, reflect.Uintptr:
		k.cls, k.ik = "uint", c12IntKindOf(t)
	case reflect.Slice:
		if t.Name() != "" {
			break
		}
		e := t.Elem()
		if e == plainString {
			k.cls = "sslice"
		} else if e.PkgPath() == "" {
			switch e.Kind() {
			case reflect.Int, reflect.Int8, reflect.Int16, reflect.Int32, reflect.Int64, reflect.Uint, reflect.Uint8, reflect.Uint16, reflect.Uint32, reflect.Uint64, reflect.Uintptr:
				k.cls, k.ik = "islice", c12IntKindOf(e)
			}
		}
	case reflect.Map:
		if t.Name() != "" || t.Key() != plainString {
			break
		}
		switch {
		case t.Elem() == plainString:
			k.cls = "mss"
		case t.Elem() == reflect.TypeOf(struct{}{}):
			k.cls = "sset"
		case t.Elem() == reflect.TypeOf([]string(nil)):
			k.cls = "msl"
		}
	}
	return k
}

var c12LeafTypes = []reflect.Type{
	reflect.TypeOf(false), reflect.TypeOf(""), reflect.TypeOf(int(0)), reflect.TypeOf(int8(0)), reflect.TypeOf(int16(0)), reflect.TypeOf(int32(0)), reflect.TypeOf(int64(0)),
	reflect.TypeOf(uint(0)), reflect.TypeOf(uint8(0)), reflect.TypeOf(uint16(0)), reflect.TypeOf(uint32(0)), reflect.TypeOf(uint64(0)), reflect.TypeOf(uintptr(0)),
	reflect.TypeOf(float32(0)), reflect.TypeOf(float64(0)), reflect.TypeOf(complex64(0)), reflect.TypeOf(complex128(0)), c12DurType, c12TimeType, c12TUType,
	reflect.TypeOf(Level(0)), reflect.TypeOf(NameStr("")), reflect.TypeOf(myInt(0)), reflect.TypeOf(c12Bool(false)), reflect.TypeOf(c12F(0)),
	reflect.TypeOf([]string(nil)), reflect.TypeOf([]string(nil)), reflect.TypeOf([]int(nil)), reflect.TypeOf([]int8(nil)), reflect.TypeOf([]int16(nil)), reflect.TypeOf([]int32(nil)), reflect.TypeOf([]int64(nil)),
	reflect.TypeOf([]uint(nil)), reflect.TypeOf([]uint8(nil)), reflect.TypeOf([]uint16(nil)), reflect.TypeOf([]uint32(nil)), reflect.TypeOf([]uint64(nil)), reflect.TypeOf([]uintptr(nil)),
	reflect.TypeOf(map[string]string(nil)), reflect.TypeOf(map[string]string(nil)), reflect.TypeOf(map[string][]string(nil)), reflect.TypeOf(map[string][]string(nil)),
	reflect.TypeOf(map[string]struct{}(nil)), reflect.TypeOf(map[string]struct{}(nil)),
	reflect.TypeOf((*int)(nil)), reflect.TypeOf((*string)(nil)), reflect.TypeOf((*bool)(nil)), reflect.TypeOf((*tuPtr)(nil)),
	// not flag-supported: no flag may be registered for these
	reflect.TypeOf([]Level(nil)), reflect.TypeOf([]float64(nil)), reflect.TypeOf(map[string]int(nil)),
}

// user-defined named complex types (repair D29: the standard-library source used to panic on them)
var c12NamedComplex = []reflect.Type{reflect.TypeOf(c12C(0)), reflect.TypeOf(c12C128(0))}

// ---------- type generation and description ----------

var c12TagVocab = []string{"some_tag", "someTag", "kebab-name", "URL", "DB", "x", "listenAddr", "TLS_cert", "v2", "data-dir"}

var c12WordsOf = func() map[string][]string {
	m := map[string][]string{}
	for _, ns := range fieldNames {
		m[ns.name] = ns.words
	}
	m["C12Emb"] = nil
	return m
}()

type c12Leaf struct {
	path  []string
	words []string
	ftag  *string // dialsflag
	ptag  *string // dialspflag
	typ   reflect.Type
	kind  c12Kind
}

func (l *c12Leaf) key() string { return strings.Join(l.path, ".") }

func (l *c12Leaf) srcTag(pk string) *string {
	if pk == "std" {
		return l.ftag
	}
	return l.ptag
}

type c12TypeGen struct {
	r        *RNG
	noHyphen bool
	nTag     int
	used     map[string]bool
	custom   []string
	dups     bool
}

func (g *c12TypeGen) genStruct(depth int, words []string) reflect.Type {
	r := g.r
	n := 1 + r.Intn(5)
	var fs []reflect.StructField
	usedNames := map[string]bool{}
	for i := 0; i < n; i++ {
		ns := fieldNames[r.Intn(len(fieldNames))]
		if usedNames[ns.name] {
			continue
		}
		usedNames[ns.name] = true
		f := reflect.StructField{Name: ns.name}
		w := ns.words
		var tagParts []string
		if r.Chance(30) {
			tv := c12TagVocab[r.Intn(len(c12TagVocab))]
			if !(g.noHyphen && strings.Contains(tv, "-")) {
				tagParts = append(tagParts, fmt.Sprintf(`dials:%q`, tv))
				w = []string{tv}
			}
		}
		fwords := append(append([]string{}, words...), w...)
		if depth > 0 && r.Chance(28) {
			if r.Chance(10) { // a source tag on a struct-typed field does not reach the nested leaves
				tagParts = append(tagParts, `dialsflag:"-"`, `dialspflag:"-"`)
			}
			inner := g.genStruct(depth-1, fwords)
			if inner.NumField() == 0 {
				continue
			}
			if r.Chance(45) {
				f.Type = reflect.PtrTo(inner)
			} else {
				f.Type = inner
			}
		} else {
			lt := c12LeafTypes[r.Intn(len(c12LeafTypes))]
			if r.Chance(4) {
				lt = c12NamedComplex[r.Intn(2)]
			}
			key := strings.ToLower(strings.Join(fwords, "|"))
			if g.used[key] {
				continue
			}
			g.used[key] = true
			for _, tn := range []string{"dialsflag", "dialspflag"} {
				if !r.Chance(14) {
					continue
				}
				var tv string
				switch {
				case r.Chance(15):
					tv = "-"
				case g.dups && len(g.custom) > 0 && r.Chance(50):
					tv = g.custom[r.Intn(len(g.custom))]
				default:
					g.nTag++
					tv = []string{"CUSTOM_%d", "f.%d", "my-flag-%d", "x%dY"}[r.Intn(4)]
					tv = fmt.Sprintf(tv, g.nTag)
					g.custom = append(g.custom, tv)
				}
				tagParts = append(tagParts, fmt.Sprintf(`%s:%q`, tn, tv))
			}
			f.Type = lt
		}
		f.Tag = reflect.StructTag(strings.Join(tagParts, " "))
		fs = append(fs, f)
	}
	return reflect.StructOf(fs)
}

// c12Describe derives the leaves of a config type by reflection (generated and declared types alike)
func c12Describe(t reflect.Type, path, words []string, out *[]*c12Leaf) {
	for i := 0; i < t.NumField(); i++ {
		f := t.Field(i)
		fpath := append(append([]string{}, path...), f.Name)
		fwords := append([]string{}, words...)
		if tv, ok := f.Tag.Lookup("dials"); ok {
			fwords = append(fwords, tv)
		} else if !f.Anonymous {
			fwords = append(fwords, c12WordsOf[f.Name]...)
		}
		ft := f.Type
		for ft.Kind() == reflect.Ptr {
			ft = ft.Elem()
		}
		if ft.Kind() == reflect.Struct && ft != c12TimeType && ft != c12TUType {
			c12Describe(ft, fpath, fwords, out)
			continue
		}
		l := &c12Leaf{path: fpath, words: fwords, typ: f.Type, kind: c12Classify(f.Type)}
		if tv, ok := f.Tag.Lookup("dialsflag"); ok {
			l.ftag = &tv
		}
		if tv, ok := f.Tag.Lookup("dialspflag"); ok {
			l.ptag = &tv
		}
		*out = append(*out, l)
	}
}

// a declared corpus type (needed for dials.Config[T]; also embedded structs, which StructOf cannot build)
type C12Emb struct {
	Verbose   bool
	RateLimit int16 `dialsflag:"rate" dialspflag:"prate"`
}

type c12Inner struct {
	Port    uint16
	Name    string `dials:"someTag"`
	Hosts   []string
	Timeout time.Duration
}

type c12Corpus struct {
	C12Emb
	MaxRetries int8
	UserID     uint32 `dials:"x"`
	APIKey     string
	EnableTLS  bool
	LogLevel   Level
	Labels     map[string]string
	Hosts      []string `dialsflag:"host-list" dialspflag:"host-list"`
	Cache      map[string]struct{}
	URL        float64
	Server     c12Inner
	Inner      *c12Inner `dials:"DB"`
	B          []int32
	A          int64 `dialsflag:"-" dialspflag:"-"`
}

// ---------- template values ----------

func c12InRange(r *RNG, k intKind) *big.Int {
	lo, hi := k.rng()
	for {
		v := genNear(r, k)
		if v.Cmp(lo) >= 0 && v.Cmp(hi) <= 0 {
			return v
		}
	}
}

func c12SimpleWord(r *RNG) string {
	return []string{"a", "b", "key", "v1", "x.y", "host", "n0", "zz", "alpha", "b2"}[r.Intn(10)]
}

// map keys: mostly from a small pool, so that repeated occurrences (and the template) meet on the same keys
func c12Key(r *RNG) string {
	if r.Chance(65) {
		return []string{"ka", "kb", "kc", "k.d"}[r.Intn(4)]
	}
	return "k" + genWord(r)
}

// a random value of the (pointer-stripped) leaf type
func c12GenVal(r *RNG, k c12Kind, simple bool) reflect.Value {
	v := reflect.New(k.typ).Elem()
	str := func() string {
		if simple {
			return c12SimpleWord(r)
		}
		return genStr(r)
	}
	switch k.cls {
	case "bool":
		v.SetBool(r.Bool())
	case "str":
		v.SetString(str())
	case "int":
		v.SetInt(c12InRange(r, k.ik).Int64())
	case "uint":
		v.SetUint(c12InRange(r, k.ik).Uint64())
	case "f32", "f64":
		v.SetFloat(float64(r.Intn(100000)-50000) / 64)
	case "c64", "c128":
		v.SetComplex(complex(float64(r.Intn(200)-100), float64(r.Intn(200)-100)/4))
	case "dur":
		v.SetInt(int64(time.Duration(r.Intn(1000000)) * time.Millisecond))
	case "time":
		v.Set(reflect.ValueOf(time.Unix(int64(r.Intn(2000000000)), 0).UTC()))
	case "tu":
		v.Set(reflect.ValueOf(tuPtr{X: r.Intn(1000)}))
	case "sslice":
		n := r.Intn(4)
		s := reflect.MakeSlice(k.typ, n, n)
		for i := 0; i < n; i++ {
			s.Index(i).SetString(str())
		}
		v.Set(s)
	case "islice":
		n := r.Intn(4)
		s := reflect.MakeSlice(k.typ, n, n)
		for i := 0; i < n; i++ {
			x := c12InRange(r, k.ik)
			if k.ik.signed {
				s.Index(i).SetInt(x.Int64())
			} else {
				s.Index(i).SetUint(x.Uint64())
			}
		}
		v.Set(s)
	case "sset":
		m := reflect.MakeMap(k.typ)
		for i := r.Intn(4); i > 0; i-- {
			e := str()
			if r.Chance(40) {
				e = c12SimpleWord(r)
			}
			m.SetMapIndex(reflect.ValueOf(e), reflect.ValueOf(struct{}{}))
		}
		v.Set(m)
	case "mss":
		m := reflect.MakeMap(k.typ)
		for i := r.Intn(4); i > 0; i-- {
			m.SetMapIndex(reflect.ValueOf(c12Key(r)), reflect.ValueOf(str()))
		}
		v.Set(m)
	case "msl":
		m := reflect.MakeMap(k.typ)
		for i := r.Intn(3); i > 0; i-- {
			m.SetMapIndex(reflect.ValueOf(c12Key(r)), reflect.ValueOf([]string{str(), str()}[:1+r.Intn(2)]))
		}
		v.Set(m)
	default: // unsupported kinds: leave zero
	}
	return v
}

// fill a template of the (original) config type
// default slices handed out for the template being filled, by type (see c12FillTemplate)
var c12SharedDefaults = map[reflect.Type]reflect.Value{}

func c12FillTemplate(r *RNG, v reflect.Value) {
	t := v.Type()
	for i := 0; i < t.NumField(); i++ {
		f := v.Field(i)
		ft := t.Field(i).Type
		st := ft
		for st.Kind() == reflect.Ptr {
			st = st.Elem()
		}
		if st.Kind() == reflect.Struct && st != c12TimeType && st != c12TUType {
			if ft.Kind() == reflect.Ptr {
				if r.Chance(55) {
					f.Set(reflect.New(st))
					c12FillTemplate(r, f.Elem())
				}
			} else {
				c12FillTemplate(r, f)
			}
			continue
		}
		if !r.Chance(65) {
			continue
		}
		val := c12GenVal(r, c12Classify(ft), false)
		if st.Kind() == reflect.Slice && val.IsValid() && val.Kind() == reflect.Slice && val.Type() == st {
			// two leaves of one slice type often start from ONE default slice (both initialised from the same package-level
			// variable), with room to spare: a flag given for one must not show through the other
			if prev, ok := c12SharedDefaults[st]; ok && r.Chance(50) {
				val = prev
			} else if val.Len() > 0 {
				grown := reflect.MakeSlice(st, val.Len(), val.Len()+4)
				reflect.Copy(grown, val)
				val = grown
				c12SharedDefaults[st] = val
			}
		}
		if ft.Kind() == reflect.Ptr {
			p := reflect.New(st)
			p.Elem().Set(val)
			f.Set(p)
		} else {
			f.Set(val)
		}
	}
}

// deep copy through reflection for the shapes used here
func c12Clone(v reflect.Value) reflect.Value {
	switch v.Kind() {
	case reflect.Ptr:
		if v.IsNil() {
			return reflect.Zero(v.Type())
		}
		p := reflect.New(v.Type().Elem())
		p.Elem().Set(c12Clone(v.Elem()))
		return p
	case reflect.Struct:
		if v.Type() == c12TimeType {
			return v
		}
		o := reflect.New(v.Type()).Elem()
		for i := 0; i < v.NumField(); i++ {
			o.Field(i).Set(c12Clone(v.Field(i)))
		}
		return o
	case reflect.Slice:
		if v.IsNil() {
			return reflect.Zero(v.Type())
		}
		o := reflect.MakeSlice(v.Type(), v.Len(), v.Len())
		for i := 0; i < v.Len(); i++ {
			o.Index(i).Set(c12Clone(v.Index(i)))
		}
		return o
	case reflect.Map:
		if v.IsNil() {
			return reflect.Zero(v.Type())
		}
		o := reflect.MakeMap(v.Type())
		for _, k := range v.MapKeys() {
			o.SetMapIndex(k, c12Clone(v.MapIndex(k)))
		}
		return o
	}
	return v
}

// ---------- names (oracle) ----------

var c12Encoders = []struct {
	name string
	fn   cc.EncodeCasingFunc
}{
	{"EncodeUpperCamelCase", cc.EncodeUpperCamelCase}, {"EncodeLowerCamelCase", cc.EncodeLowerCamelCase}, {"EncodeLowerSnakeCase", cc.EncodeLowerSnakeCase},
	{"EncodeUpperSnakeCase", cc.EncodeUpperSnakeCase}, {"EncodeKebabCase", cc.EncodeKebabCase}, {"EncodeCasePreservingSnakeCase", cc.EncodeCasePreservingSnakeCase},
}

func c12Title(w string) string {
	if w == "" {
		return w
	}
	rs := []rune(w)
	rs[0] = unicode.ToUpper(rs[0])
	return string(rs)
}

// the join of a word list, written from the encoders' documentation
func c12Join(enc string, ws []string) string {
	m := func(f func(string) string) []string {
		o := make([]string, len(ws))
		for i, w := range ws {
			o[i] = f(w)
		}
		return o
	}
	switch enc {
	case "EncodeKebabCase":
		return strings.Join(ws, "-")
	case "EncodeLowerSnakeCase":
		return strings.Join(m(strings.ToLower), "_")
	case "EncodeUpperSnakeCase":
		return strings.Join(m(strings.ToUpper), "_")
	case "EncodeCasePreservingSnakeCase":
		return strings.Join(ws, "_")
	case "EncodeUpperCamelCase":
		return strings.Join(m(c12Title), "")
	default: // lower camel: the first word as it is
		if len(ws) == 0 {
			return ""
		}
		t := m(c12Title)
		t[0] = ws[0]
		return strings.Join(t, "")
	}
}

// ---------- occurrences ----------

type c12Occ struct {
	leaf   *c12Leaf
	name   string
	text   string
	ext    string // protocol token for the model
	bare   bool   // bool flag without a value
	reject bool   // the flag's Set rejects this text (parse time)
	val    reflect.Value
	late   bool // accepted by Set but outside the leaf's range: the standard-library source fails at Value time if it is the LAST one
}

func c12QuoteList(xs []string) string {
	q := make([]string, len(xs))
	for i, x := range xs {
		q[i] = strconv.Quote(x)
	}
	return strings.Join(q, ",")
}

func c12PairsText(m map[string]string) string {
	ks := make([]string, 0, len(m))
	for k := range m {
		ks = append(ks, k)
	}
	sort.Strings(ks)
	p := make([]string, len(ks))
	for i, k := range ks {
		p[i] = strconv.Quote(k) + ":" + strconv.Quote(m[k])
	}
	return strings.Join(p, ",")
}

func c12MultiText(m map[string][]string) string {
	var p []string
	for _, k := range c12SortedKeys(m) {
		for _, v := range m[k] {
			p = append(p, strconv.Quote(k)+":"+strconv.Quote(v))
		}
	}
	return strings.Join(p, ",")
}

func c12ExtOf(v reflect.Value) string { return "c:" + strings.TrimPrefix(tfVal(v), "s") }

// genOcc: one occurrence for the leaf under the given package
func c12GenOcc(r *RNG, l *c12Leaf, pk string) c12Occ {
	k := l.kind
	o := c12Occ{leaf: l, ext: "-"}
	bad := r.Chance(3)
	nv := func() reflect.Value { return reflect.New(k.typ).Elem() }
	switch k.cls {
	case "int", "uint":
		v := genNear(r, k.ik)
		if r.Chance(70) {
			v = c12InRange(r, k.ik) // still at and next to the boundaries, but inside
		}
		if r.Chance(55) {
			o.text = v.Text(10)
		} else {
			o.text = literal(r, v)
		}
		if bad {
			o.text = []string{"", "abc", "1e3", "0x", "1__2", " 1", "--1", "1.0"}[r.Intn(8)]
		}
		lit, ok := new(big.Int).SetString(o.text, 0)
		wide := intKind{signed: k.ik.signed, bits: 64}
		wlo, whi := wide.rng()
		lo, hi := k.ik.rng()
		switch {
		case !ok || o.text == "" || strings.HasPrefix(o.text, "+") && !k.ik.signed || strings.HasPrefix(o.text, "-") && !k.ik.signed:
			// not a literal of this signedness (ParseUint takes no sign)
			o.reject = true
		case lit.Cmp(wlo) < 0 || lit.Cmp(whi) > 0:
			o.reject = true
		case lit.Cmp(lo) < 0 || lit.Cmp(hi) > 0:
			if pk == "pflag" {
				o.reject = true // pflag parses with the leaf's own width
			} else {
				o.late = true
			}
		default:
			x := nv()
			if k.ik.signed {
				x.SetInt(lit.Int64())
			} else {
				x.SetUint(lit.Uint64())
			}
			o.val = x
		}
	case "bool":
		o.text = []string{"true", "false", "1", "0", "t", "f", "T", "F", "TRUE", "FALSE", "True", "False"}[r.Intn(12)]
		if bad {
			o.text = []string{"maybe", "", "yes", "2"}[r.Intn(4)]
		} else if r.Chance(30) {
			o.bare, o.text = true, "true"
		}
		b, err := strconv.ParseBool(o.text)
		if err != nil {
			o.reject = true
		} else {
			x := nv()
			x.SetBool(b)
			o.val = x
		}
	case "str":
		o.text = genStr(r)
		x := nv()
		x.SetString(o.text)
		o.val = x
	case "f32", "f64":
		x := float64(r.Intn(100000)-50000) / 64
		bits := 64
		if k.cls == "f32" {
			bits = 32
		}
		o.text = strconv.FormatFloat(x, 'g', -1, bits)
		if r.Chance(10) {
			o.text = []string{"1e39", "-1e39", "1e400", "0x1p-2", "1_0.5", "+3.5", "Inf", "3.4028235e+38", "-3.4028235e+38", "3.4028236e+38", "1e-45"}[r.Intn(11)]
		}
		if bad {
			o.text = []string{"1.2.3", "", "abc"}[r.Intn(3)]
		}
		pbits := 64
		if k.cls == "f32" && pk == "pflag" {
			pbits = 32
		}
		f, err := strconv.ParseFloat(o.text, pbits)
		switch {
		case err != nil:
			o.reject, o.ext = true, "r"
		case k.cls == "f32" && reflect.Zero(reflect.TypeOf(float32(0))).OverflowFloat(f):
			o.late, o.ext = true, "v"
		default:
			v := nv()
			v.SetFloat(f)
			o.val, o.ext = v, c12ExtOf(v)
		}
	case "c64", "c128":
		x := complex(float64(r.Intn(200)-100), float64(r.Intn(200)-100)/4)
		o.text = strconv.FormatComplex(x, 'g', -1, 128)
		if r.Chance(20) {
			o.text = strings.Trim(o.text, "()")
		}
		if r.Chance(12) {
			// a part outside the float32 range but inside the float64 range (an error for complex64, a value for
			// complex128), and the largest finite float32 (a value for both)
			o.text = []string{"1e39", "(1-3.5e38i)", "4e38+1i", "-1e39i", "3.4028236e+38", "(3.4028235e+38-3.4028235e+38i)", "1e300+2i"}[r.Intn(7)]
		}
		if bad {
			o.text = []string{"i+", "", "1+2", "(1e39+1i)x"}[r.Intn(4)]
		}
		// (expected value from strconv itself, not from the library's parse package)
		bits := 128
		if k.cls == "c64" {
			bits = 64
		}
		c, err := strconv.ParseComplex(o.text, bits)
		if err != nil {
			o.reject, o.ext = true, "r"
		} else {
			v := nv()
			v.SetComplex(c)
			o.val, o.ext = v, c12ExtOf(v)
		}
	case "dur":
		d := time.Duration(r.Intn(1000000)) * time.Millisecond
		o.text = d.String()
		if r.Chance(15) {
			o.text = []string{"1h30m", "90s", "1.5h", "-2m", "0"}[r.Intn(5)]
		}
		if bad {
			o.text = []string{"10 parsecs", "", "5"}[r.Intn(3)]
		}
		pd, err := time.ParseDuration(o.text)
		if err != nil {
			o.reject, o.ext = true, "r"
		} else {
			v := nv()
			v.SetInt(int64(pd))
			o.val, o.ext = v, c12ExtOf(v)
		}
	case "time":
		tm := time.Unix(int64(r.Intn(2000000000)), int64(r.Intn(2))*500000000).UTC()
		o.text = tm.Format(time.RFC3339Nano)
		if bad {
			o.text = []string{"yesterday", "", "2020-13-01T00:00:00Z"}[r.Intn(3)]
		}
		var pt time.Time
		if err := pt.UnmarshalText([]byte(o.text)); err != nil {
			o.reject, o.ext = true, "r"
		} else {
			v := reflect.ValueOf(pt)
			o.val, o.ext = v, c12ExtOf(v)
		}
	case "tu":
		o.text = strconv.Itoa(r.Intn(100000) - 500)
		if bad {
			o.text = []string{"x", ""}[r.Intn(2)]
		}
		var tu tuPtr
		if err := tu.UnmarshalText([]byte(o.text)); err != nil {
			o.reject, o.ext = true, "r"
		} else {
			v := reflect.ValueOf(tu)
			o.val, o.ext = v, c12ExtOf(v)
		}
	case "sslice":
		if pk == "pflag" {
			// pflag's own []string flag: encoding/csv (external).  Simple words only.
			n := r.Intn(4)
			ws := make([]string, n)
			for i := range ws {
				ws[i] = c12SimpleWord(r)
			}
			o.text = strings.Join(ws, ",")
			if n == 1 && r.Chance(30) {
				ws, o.text = []string{"a b", "c"}, `"a b",c`
			}
			if bad {
				o.text, o.reject, o.ext = `a"b,c`, true, "r"
			} else {
				v := reflect.MakeSlice(k.typ, len(ws), len(ws))
				for i, w := range ws {
					v.Index(i).SetString(w)
				}
				o.val = v
			}
			break
		}
		v := c12GenVal(r, k, false)
		ws := v.Interface().([]string)
		o.text = c12QuoteList(ws)
		if r.Chance(30) {
			v = c12GenVal(r, k, true)
			o.text = strings.Join(v.Interface().([]string), ",")
		}
		if v.IsNil() || v.Len() == 0 {
			v = reflect.MakeSlice(k.typ, 0, 0)
		}
		o.val = v
		if bad {
			o.text, o.reject = []string{`a,"b`, `"a" "b"`, `"a",,"b" "c"`}[r.Intn(3)], true
		}
	case "islice":
		n := r.Intn(4)
		v := reflect.MakeSlice(k.typ, n, n)
		parts := make([]string, n)
		for i := 0; i < n; i++ {
			x := c12InRange(r, k.ik)
			if k.ik.signed {
				v.Index(i).SetInt(x.Int64())
			} else {
				v.Index(i).SetUint(x.Uint64())
			}
			parts[i] = x.Text(10)
			if r.Chance(15) {
				parts[i] = literal(r, x)
				if _, ok := new(big.Int).SetString(parts[i], 0); !ok || (!k.ik.signed && strings.HasPrefix(parts[i], "+")) {
					parts[i] = x.Text(10)
				}
			}
			if r.Chance(15) {
				parts[i] = " " + parts[i] + "\t"
			}
		}
		o.text, o.val = strings.Join(parts, ","), v
		if bad {
			_, hi := k.ik.rng()
			over := new(big.Int).Add(hi, big.NewInt(int64(1+r.Intn(300))))
			parts = append(parts, []string{over.Text(10), "x", "", "1.5"}[r.Intn(4)])
			if len(parts) == 1 && parts[0] == "" {
				parts[0] = "z"
			}
			o.text, o.reject = strings.Join(parts, ","), true
		}
	case "sset":
		v := c12GenVal(r, k, r.Chance(30))
		keys := sortedSet(v.Interface().(map[string]struct{}))
		o.text, o.val = c12QuoteList(keys), v
		if bad && len(keys) > 0 {
			o.text, o.reject = c12QuoteList(append(keys, keys[0])), true
		}
	case "mss":
		v := c12GenVal(r, k, r.Chance(30))
		o.text, o.val = c12PairsText(v.Interface().(map[string]string)), v
		if bad {
			o.text, o.reject = []string{`"a":"1","a":"2"`, `a:1:2`, `:v`, `"a":"b`}[r.Intn(4)], true
		}
	case "msl":
		v := c12GenVal(r, k, r.Chance(30))
		o.text, o.val = c12MultiText(v.Interface().(map[string][]string)), v
		if bad {
			o.text, o.reject = []string{`a:1:2`, `:v`, `"a":"b`}[r.Intn(3)], true
		}
	}
	return o
}

// ---------- rendering helpers ----------

// c12Render: tfVal with two options: visited pflag-native leaves are replaced by the model's marker; map[string][]string
// keeps the order of each key's elements (tfVal sorts the (key, element) pairs, as the model's output does)
func c12Render(v reflect.Value, path string, native map[string]bool, ordered bool) string {
	switch v.Kind() {
	case reflect.Ptr:
		if v.IsNil() {
			return "n"
		}
		return "& " + c12Render(v.Elem(), path, native, ordered)
	case reflect.Struct:
		if v.Type() == c12TimeType || v.Type() == c12TUType {
			return tfVal(v)
		}
		p := []string{"{"}
		for i := 0; i < v.NumField(); i++ {
			fp := v.Type().Field(i).Name
			if path != "" {
				fp = path + "." + fp
			}
			p = append(p, c12Render(v.Field(i), fp, native, ordered))
		}
		return strings.Join(append(p, "}"), " ")
	case reflect.Slice:
		if native[path] && !v.IsNil() {
			return "s" + hexEnc("native")
		}
	case reflect.Map:
		if ordered && !v.IsNil() && v.Type() == reflect.TypeOf(map[string][]string(nil)) {
			m := v.Interface().(map[string][]string)
			p := []string{"<"}
			for _, k := range c12SortedKeys(m) {
				for _, e := range m[k] {
					p = append(p, "s"+hexEnc(k), "s"+hexEnc(e))
				}
			}
			return strings.Join(append(p, ">"), " ")
		}
	}
	return tfVal(v)
}

// canonical text of a leaf value for the oracle's comparisons
func c12Canon(v reflect.Value) string { return c12Render(v, "", nil, true) }

func c12DefText(form string) (string, bool) {
	switch {
	case form == "x":
		return "", false
	case strings.HasPrefix(form, "t="):
		s, _ := hexDec(form[2:])
		return s, true
	case strings.HasPrefix(form, "q="):
		if form[2:] == "." {
			return "", true
		}
		var q []string
		for _, h := range strings.Split(form[2:], ",") {
			s, _ := hexDec(h)
			q = append(q, strconv.Quote(s))
		}
		return strings.Join(q, ","), true
	case strings.HasPrefix(form, "p="):
		if form[2:] == "." {
			return "", true
		}
		var q []string
		for _, kv := range strings.Split(form[2:], ",") {
			i := strings.IndexByte(kv, '=')
			k, _ := hexDec(kv[:i])
			v, _ := hexDec(kv[i+1:])
			q = append(q, strconv.Quote(k)+":"+strconv.Quote(v))
		}
		return strings.Join(q, ","), true
	}
	return "", false
}

// the advertised default the property asks for, for the kinds where the text is determined by the value
func c12OracleDefault(l *c12Leaf, pk string, tv reflect.Value) (want string, check func(def string) bool) {
	k := l.kind
	zero := !tv.IsValid()
	if zero {
		tv = reflect.New(k.typ).Elem()
	}
	switch k.cls {
	case "int":
		return strconv.FormatInt(tv.Int(), 10), nil
	case "uint":
		return strconv.FormatUint(tv.Uint(), 10), nil
	case "bool":
		return strconv.FormatBool(tv.Bool()), nil
	case "str":
		return tv.String(), nil
	case "f32", "f64":
		return "", func(def string) bool {
			f, err := strconv.ParseFloat(def, 64)
			if k.cls == "f32" {
				return err == nil && float32(f) == float32(tv.Float())
			}
			return err == nil && f == tv.Float()
		}
	case "c64", "c128":
		return "", func(def string) bool {
			c, err := strconv.ParseComplex(def, 128)
			return err == nil && c == tv.Complex()
		}
	case "dur":
		return time.Duration(tv.Int()).String(), nil
	case "time":
		return "", func(def string) bool {
			pt, err := time.Parse(time.RFC3339Nano, def)
			return err == nil && pt.Equal(tv.Interface().(time.Time))
		}
	case "sslice":
		if pk == "pflag" {
			return "", func(def string) bool { return strings.HasPrefix(def, "[") && strings.HasSuffix(def, "]") }
		}
		return c12QuoteList(tv.Interface().([]string)), nil
	case "islice":
		var parts []string
		for i := 0; i < tv.Len(); i++ {
			if k.ik.signed {
				parts = append(parts, strconv.FormatInt(tv.Index(i).Int(), 10))
			} else {
				parts = append(parts, strconv.FormatUint(tv.Index(i).Uint(), 10))
			}
		}
		return strings.Join(parts, ","), nil
	case "sset":
		return c12QuoteList(sortedSet(tv.Interface().(map[string]struct{}))), nil
	case "mss":
		return c12PairsText(tv.Interface().(map[string]string)), nil
	case "msl":
		return c12MultiText(tv.Interface().(map[string][]string)), nil
	}
	return "", func(string) bool { return true }
}

// set a leaf of a pointerified struct value (allocating the pointers on the way)
func c12SetPT(root reflect.Value, path []string, val reflect.Value) {
	v := root
	for i, p := range path {
		for v.Kind() == reflect.Ptr {
			if v.IsNil() {
				v.Set(reflect.New(v.Type().Elem()))
			}
			v = v.Elem()
		}
		v = v.FieldByName(p)
		if i == len(path)-1 {
			if v.Kind() == reflect.Ptr {
				p := reflect.New(v.Type().Elem())
				p.Elem().Set(val.Convert(v.Type().Elem()))
				v.Set(p)
			} else {
				v.Set(val)
			}
		}
	}
}

// a value of the original config type as JSON for a static layer (keys: dials tag, else the Go field name)
func c12JSONOf(t reflect.Type, set map[string]reflect.Value, path string) map[string]any {
	out := map[string]any{}
	for i := 0; i < t.NumField(); i++ {
		f := t.Field(i)
		fp := f.Name
		if path != "" {
			fp = path + "." + f.Name
		}
		key := f.Name
		if tv, ok := f.Tag.Lookup("dials"); ok {
			key = tv
		}
		ft := f.Type
		for ft.Kind() == reflect.Ptr {
			ft = ft.Elem()
		}
		if ft.Kind() == reflect.Struct && ft != c12TimeType && ft != c12TUType {
			sub := c12JSONOf(ft, set, fp)
			if f.Anonymous {
				for k, v := range sub {
					out[k] = v
				}
			} else if len(sub) > 0 {
				out[key] = sub
			}
			continue
		}
		if v, ok := set[fp]; ok {
			out[key] = v.Interface()
		}
	}
	return out
}

var c12StaticKinds = map[string]bool{"int": true, "uint": true, "bool": true, "str": true, "f64": true, "sslice": true, "mss": true, "islice": true}

// ---------- the check ----------

func init() { register("C12", checkC12) }

func checkC12(c *Ctx) {
	r := c.RNG
	res := c.Res
	res.ASCIIModel = true
	c12TextCollections(c, c.scale(400, 20000))
	res.Rule = "both flag packages (sources/flag, sources/pflag), NewSetWithArgs + Flags.VisitAll + one Set.Value per Set. First an oracle-only stream of text-unmarshalable leaves of slice / map kind (net.IP, a list type, a map type; by value, behind a pointer, nested; any subset of the flags given; defaults; rejected texts). Then: Config types: random reflect.StructOf types (depth <= 3, value and pointer structs, field names from a vocabulary with known word lists, " +
		"dials tags in snake/camel/kebab/upper case on any level, dialsflag / dialspflag tags incl. \"-\", on struct-typed fields too) and one declared type (embedded struct, for dials.Config[T]); leaves: bool, string, every integer width incl. uintptr, float32/64, complex64/128, " +
		"time.Duration, time.Time, a TextUnmarshaler, user-defined named scalars (uint8, string, int, bool, float64; rarely named complex), []string, every integer slice, map[string]string, map[string][]string, map[string]struct{}, user pointers, plus three unsupported kinds. " +
		"Random templates (nil and non-nil pointer structs, defaults on ~65% of the leaves). Argument lists: any subset of the registered flags, 1-3 occurrences each, shuffled, in the forms -f v / --f v / -f=v / --f=v (pflag: --f v / --f=v), bare and =value bools; " +
		"integers as decimal and Go literals at and around every range boundary, ~7% unparsable / out-of-range / duplicate-element texts. NameConfig: default, or any pair of the six encoders (the two field-name encoders reflect.StructOf rejects are counted, not compared). " +
		"5% of the types carry duplicate source tags (first-wins registration). 30% of the cases are also stacked between a lower and a higher layer (generated types: dials.VerifCompose with reflect-built layers; declared type: dials.Config with static JSON sources). " +
		"non-trivial: >= 2 flags given and (a nested struct or a tag) ; distinct = by request text"
	n := c.scale(6000, 150000)
	for _, pk := range []string{"std", "pflag"} {
		for i := 0; i < n; i++ {
			c12Case(c, r, res, pk, i)
		}
	}
}

type c12Set struct {
	visitAll func(func(name, def string))
	value    func(t *dials.Type) (reflect.Value, error)
	source   dials.Source
}

// c12CfgMode: how the next name config is obtained (set per case): 0 a literal NameConfig, 1 DefaultFlagNameConfig()
// as returned (default encoders only), 2 the usual way to customise: take DefaultFlagNameConfig() and overwrite its
// fields - which must not change what a later DefaultFlagNameConfig() means
var c12CfgMode int

// c12PreParse: the next set's FlagSet is parsed by the harness (standing in for the application) before Value is asked
var c12PreParse bool

func c12NewSet(pk string, ne, te cc.EncodeCasingFunc, tmpl any, args []string) (*c12Set, error) {
	if pk == "std" {
		ncfg := &dflag.NameConfig{FieldNameEncodeCasing: ne, TagEncodeCasing: te}
		switch c12CfgMode {
		case 1:
			ncfg = dflag.DefaultFlagNameConfig()
		case 2:
			ncfg = dflag.DefaultFlagNameConfig()
			ncfg.FieldNameEncodeCasing, ncfg.TagEncodeCasing = ne, te
		}
		s, err := dflag.NewSetWithArgs(ncfg, tmpl, args)
		if err != nil {
			return nil, err
		}
		s.Flags.SetOutput(io.Discard)
		if c12PreParse {
			if perr := s.Flags.Parse(args); perr != nil {
				return nil, perr
			}
		}
		return &c12Set{
			visitAll: func(f func(string, string)) { s.Flags.VisitAll(func(fl *flag.Flag) { f(fl.Name, fl.DefValue) }) },
			value:    func(t *dials.Type) (reflect.Value, error) { return s.Value(context.Background(), t) },
			source:   s,
		}, nil
	}
	pcfg := &dpflag.NameConfig{FieldNameEncodeCasing: ne, TagEncodeCasing: te}
	switch c12CfgMode {
	case 1:
		pcfg = dpflag.DefaultFlagNameConfig()
	case 2:
		pcfg = dpflag.DefaultFlagNameConfig()
		pcfg.FieldNameEncodeCasing, pcfg.TagEncodeCasing = ne, te
	}
	s, err := dpflag.NewSetWithArgs(pcfg, tmpl, args)
	if err != nil {
		return nil, err
	}
	s.Flags.SetOutput(io.Discard)
	if c12PreParse {
		if perr := s.Flags.Parse(args); perr != nil {
			return nil, perr
		}
	}
	return &c12Set{
		visitAll: func(f func(string, string)) { s.Flags.VisitAll(func(fl *pflag.Flag) { f(fl.Name, fl.DefValue) }) },
		value:    func(t *dials.Type) (reflect.Value, error) { return s.Value(context.Background(), t) },
		source:   s,
	}, nil
}

// render the occurrence list into an argument list of the package's grammar
func c12Args(r *RNG, pk string, occs []c12Occ) []string {
	var args []string
	for _, o := range occs {
		dash := "--"
		if pk == "std" && r.Bool() {
			dash = "-"
		}
		switch {
		case o.bare:
			args = append(args, dash+o.name)
		case o.leaf.kind.cls == "bool" || r.Chance(45):
			args = append(args, dash+o.name+"="+o.text)
		default:
			args = append(args, dash+o.name, o.text)
		}
	}
	return args
}

func c12Case(c *Ctx, r *RNG, res *Result, pk string, idx int) {
	// ---- type, template, name config
	useCorpus := r.Chance(12)
	dups := !useCorpus && r.Chance(5)
	neIdx, teIdx := 0, 4
	c12CfgMode = []int{0, 1, 1}[r.Intn(3)] // default encoders: mostly through DefaultFlagNameConfig()
	if r.Chance(50) {
		neIdx, teIdx = []int{0, 1, 3, 5}[r.Intn(4)], r.Intn(6)
		c12CfgMode = []int{0, 2}[r.Intn(2)] // custom encoders: a literal, or the default config with its fields overwritten
		if r.Chance(8) {
			neIdx = []int{2, 4}[r.Intn(2)] // lower snake / kebab field names: reflect.StructOf rejects them
		}
	}
	neName, teName := c12Encoders[neIdx].name, c12Encoders[teIdx].name
	camelTags := strings.Contains(teName, "Camel")
	var T reflect.Type
	if useCorpus {
		T = reflect.TypeOf(c12Corpus{})
		if camelTags {
			teIdx, teName = 4, c12Encoders[4].name // the corpus has a hyphen-free tag set anyway; keep the default join
		}
	} else {
		g := &c12TypeGen{r: r, used: map[string]bool{}, noHyphen: camelTags, dups: dups}
		T = g.genStruct(1+r.Intn(3), nil)
	}
	if T.NumField() == 0 {
		return
	}
	var leaves []*c12Leaf
	c12Describe(T, nil, nil, &leaves)
	if len(leaves) == 0 {
		return
	}
	tmplA := reflect.New(T)
	c12SharedDefaults = map[reflect.Type]reflect.Value{}
	c12FillTemplate(r, tmplA.Elem())
	tmplB := c12Clone(tmplA) // pristine copy: the helpers write through into the template they were given (known, outside C12)
	tmplC := c12Clone(tmplA)
	PT := ptrify.Pointerify(T, tmplA.Elem())
	fields := tfFields(PT)
	tmplText := c12Render(tmplB.Elem(), "", nil, true)
	cs := map[string]any{"package": pk, "type": T.String(), "template": fmt.Sprintf("%+v", tmplB.Elem().Interface()), "name_encoder": neName, "tag_encoder": teName}

	// ---- expected names (oracle) and registration
	type regInfo struct {
		name       string
		registered bool
		shadowed   bool // an earlier field registered the same name
	}
	info := map[*c12Leaf]*regInfo{}
	firstOf := map[string]*c12Leaf{}
	lastOf := map[string]*c12Leaf{}
	hasDup := false
	for _, l := range leaves {
		ri := &regInfo{}
		if st := l.srcTag(pk); st != nil {
			ri.name = *st
		} else {
			ri.name = c12Join(teName, l.words)
		}
		supported := l.kind.cls != "unsup"
		dash := l.srcTag(pk) != nil && *l.srcTag(pk) == "-"
		if _, taken := firstOf[ri.name]; taken {
			if supported && !dash {
				ri.shadowed = true
			}
		} else if supported && !dash {
			ri.registered = true
			firstOf[ri.name] = l
		}
		if prev, ok := lastOf[ri.name]; ok && prev != l && ri.name != "-" {
			hasDup = true
		}
		lastOf[ri.name] = l
		info[l] = ri
	}

	// ---- occurrences
	var occs []c12Occ
	native := map[string]bool{}
	perLeaf := map[*c12Leaf][]c12Occ{}
	dupVisited := false
	for _, l := range leaves {
		ri := info[l]
		if !ri.registered || !r.Chance(50) {
			continue
		}
		cnt := 1
		if r.Chance(35) {
			cnt = 2 + r.Intn(2)
		}
		for j := 0; j < cnt; j++ {
			o := c12GenOcc(r, l, pk)
			o.name = ri.name
			perLeaf[l] = append(perLeaf[l], o)
			occs = append(occs, o)
		}
		if lastOf[ri.name] != l {
			dupVisited = true
		}
		if pk == "pflag" && l.kind.cls == "sslice" {
			native[l.key()] = true
		}
	}
	// shuffle, keeping the relative order of each flag's occurrences irrelevant to the expectation: the expectation is
	// computed from the shuffled order below
	for i := len(occs) - 1; i > 0; i-- {
		j := r.Intn(i + 1)
		occs[i], occs[j] = occs[j], occs[i]
	}
	for l := range perLeaf {
		perLeaf[l] = nil
	}
	for _, o := range occs {
		perLeaf[o.leaf] = append(perLeaf[o.leaf], o)
	}
	args := c12Args(r, pk, occs)
	cs["args"] = args

	// ---- expectation (oracle): error, and the value of each given leaf
	expErr := false
	exp := map[*c12Leaf]reflect.Value{}
	for l, os := range perLeaf {
		if len(os) == 0 {
			continue
		}
		for _, o := range os {
			if o.reject {
				expErr = true
			}
		}
		last := os[len(os)-1]
		switch l.kind.cls {
		case "sslice", "islice":
			acc := reflect.MakeSlice(l.kind.typ, 0, 0)
			for _, o := range os {
				if o.val.IsValid() {
					acc = reflect.AppendSlice(acc, o.val)
				}
			}
			exp[l] = acc
		case "sset", "mss":
			acc := reflect.MakeMap(l.kind.typ)
			for _, o := range os {
				if o.val.IsValid() {
					for _, k := range o.val.MapKeys() {
						acc.SetMapIndex(k, o.val.MapIndex(k))
					}
				}
			}
			exp[l] = acc
		case "msl":
			acc := map[string][]string{}
			for _, o := range os {
				if o.val.IsValid() {
					m := o.val.Interface().(map[string][]string)
					for _, k := range c12SortedKeys(m) {
						acc[k] = append(acc[k], m[k]...)
					}
				}
			}
			exp[l] = reflect.ValueOf(acc)
		default:
			if last.late {
				expErr = true
			} else if last.val.IsValid() {
				exp[l] = last.val
			}
		}
	}

	// ---- implementation
	var set *c12Set
	var newErr error
	// the application may have parsed the flag set itself before dials asks for the value (documented for
	// NewCmdLineSet: main() may call flag.Parse()): the occurrences still count once
	c12PreParse = !expErr && r.Chance(20)
	if c12PreParse {
		res.Count("flagset-parsed-by-the-application-first")
	}
	pn := catch(func() {
		set, newErr = c12NewSet(pk, c12Encoders[neIdx].fn, c12Encoders[teIdx].fn, tmplA.Interface(), args)
	})
	c12PreParse = false
	if (neIdx == 2 || neIdx == 4) && ((pn != "" && strings.Contains(pn, "reflect.StructOf")) || (newErr != nil && strings.Contains(newErr.Error(), "reflect.StructOf"))) {
		// lower snake / kebab field names are not exported Go identifiers: the Transformer cannot build the translated struct
		// (reported as an error since the repair of P13 / P18; a panic before)
		res.Count("nameconfig-rejected-by-reflect")
		res.OutOfDomain++
		res.Case(fmt.Sprintf("%s|%s|%s|%s", pk, neName, teName, fields), false, cs)
		return
	}
	implNames := map[string]string{}
	var implOrder []string
	var out reflect.Value
	var valErr error
	impl := ""
	if pn == "" && newErr == nil {
		set.visitAll(func(n, d string) { implNames[n] = d; implOrder = append(implOrder, n) })
		pn = catch(func() { out, valErr = set.value(dials.NewType(PT)) })
	}
	switch {
	case pn != "":
		impl = "panic"
		cs["panic"] = pn
	case newErr != nil:
		impl = "err"
		cs["error"] = newErr.Error()
	case valErr != nil:
		impl = "err"
		cs["error"] = valErr.Error()
	default:
		p := []string{}
		for k := 0; k < out.NumField(); k++ {
			p = append(p, c12Render(out.Field(k), out.Type().Field(k).Name, native, false))
		}
		impl = "ok " + strings.Join(p, " ")
	}

	// ---- model
	var ents []string
	for _, o := range occs {
		sl, mp := tokenStreams(o.text)
		e := []string{"O", hexEnc(o.name), hexEnc(o.text), o.ext, strconv.Itoa(len(sl))}
		e = append(e, sl...)
		e = append(e, strconv.Itoa(len(mp)))
		e = append(e, mp...)
		ents = append(ents, strings.Join(e, " "))
	}
	req := strings.TrimSpace(fmt.Sprintf("fs %s %s %s %s %s %d %s", pk, neName, teName, fields, tmplText, len(ents), strings.Join(ents, " ")))
	rep := c.Drv.Ask(req)
	parts := strings.SplitN(rep, " | ", 3)
	res.Count(pk + "/outcome/" + strings.SplitN(impl, " ", 2)[0])
	res.Count(fmt.Sprintf("%s/flags_given=%d", pk, min(len(perLeaf), 6)))
	if neIdx != 0 || teIdx != 4 {
		res.Count("custom-nameconfig")
	}
	if len(parts) != 3 {
		cs["request"] = req
		res.Add(Finding{Kind: "disagreement", What: "flag source: the model rejected the request", Case: cs, Model: rep})
		if !caseTypeNonASCII(cs) {
			return
		}
		// a non-ASCII field name: outside the ASCII case-conversion model, the documentation oracle below still applies
		parts = []string{"ood", "", "ood"}
	}
	modelStatus, modelRegs, modelRes := strings.TrimSpace(parts[0]), strings.Fields(parts[1]), strings.TrimSpace(parts[2])
	if strings.HasPrefix(modelRes, "panic") {
		modelRes = "panic"
	}

	// (0) the translated field list (names, types, tags incl. dials and dialsfieldpath): the library's Transformer with the
	// source's chain vs the model's translate
	{
		aliasTags := []string{"dials", "dialsflag"}
		if pk == "pflag" {
			aliasTags = []string{"dials", "dialspflag", "dialspflagshort"}
		}
		var tt reflect.Type
		tpn := catch(func() {
			tf := transform.NewTransformer(PT, transform.NewAliasMangler(aliasTags...), transform.NewFlattenMangler("dials", c12Encoders[neIdx].fn, c12Encoders[teIdx].fn))
			v, err := tf.Translate()
			if err == nil {
				tt = v.Type()
			}
		})
		if tpn == "" && tt != nil {
			want := "ok { " + c12TFields(tt)
			got := strings.TrimSpace(c.Drv.Ask(fmt.Sprintf("tf translate custom:alias,%s|flatten,dials,%s,%s %s", strings.Join(aliasTags, ","), neName, teName, fields)))
			if got != want {
				cs["request"] = req
				res.Add(Finding{Kind: "disagreement", What: "translated field list: model != implementation", Case: cs, Observed: want, Model: got})
			}
		}
	}

	// (1) registration: model vs implementation (names and advertised defaults)
	if modelStatus == "ok" && newErr == nil && (impl != "panic" || len(implNames) > 0) {
		modelNames := map[string]string{}
		for _, mr := range modelRegs {
			f := strings.SplitN(mr, ":", 4)
			if len(f) != 4 || f[2] == "unreg" {
				continue
			}
			name, _ := hexDec(f[1])
			modelNames[name] = f[3]
			res.Count("route/" + strings.SplitN(f[2], "/", 2)[0])
		}
		var mk, ik []string
		for k := range modelNames {
			mk = append(mk, k)
		}
		for k := range implNames {
			ik = append(ik, k)
		}
		sort.Strings(mk)
		sort.Strings(ik)
		if strings.Join(mk, "\x00") != strings.Join(ik, "\x00") {
			cs["request"] = req
			res.Add(Finding{Kind: "disagreement", What: "registered flag names: model != implementation", Case: cs, Observed: ik, Model: mk})
		} else {
			for _, k := range mk {
				if want, ok := c12DefText(modelNames[k]); ok && want != implNames[k] {
					cs["request"] = req
					res.Add(Finding{Kind: "disagreement", What: "advertised default of flag " + k + ": model != implementation", Case: cs, Observed: implNames[k], Model: want})
					break
				}
			}
		}
	} else if (modelStatus == "ok") != (newErr == nil && !(impl == "panic" && len(implNames) == 0)) {
		cs["request"] = req
		res.Add(Finding{Kind: "disagreement", What: "registration outcome: model != implementation", Case: cs, Observed: impl, Model: modelStatus})
	}

	// (2) value: model vs implementation
	if modelRes == "ood" || (hasDup && dupVisited) {
		// a flag whose name is shared by several fields was given: its value lands in the LAST field of that name
		// (flagFieldName is overwritten), whatever that field's type: outside the model and outside C12 (recorded only)
		res.OutOfDomain++
		res.Count("model-ood(duplicate names visited)")
	} else if impl != modelRes {
		cs["request"] = req
		res.Add(Finding{Kind: "disagreement", What: "flag source value: model != implementation", Case: cs, Observed: impl, Model: modelRes})
	}

	// (3) oracle
	known := false
	if impl == "panic" {
		if !(hasDup && dupVisited) {
			res.Add(Finding{Kind: "violation", What: "flag source panicked: " + pn, Case: cs})
		} else {
			// duplicate flag names are outside the property's domain (recorded only)
			res.Count("duplicate-names-visited/impl-panic")
			if len(res.Notes) < 3 {
				res.Notes = append(res.Notes, fmt.Sprintf("duplicate flag names (outside C12): %s %v args %v: %s", pk, T, args, pn))
			}
		}
	}
	if newErr == nil && pn == "" || len(implNames) > 0 {
		// names / registration / defaults
		for _, l := range leaves {
			ri := info[l]
			def, isReg := implNames[ri.name]
			if ri.registered {
				if !isReg {
					res.Add(Finding{Kind: "violation", What: fmt.Sprintf("leaf %s: no flag named %q is registered", l.key(), ri.name), Case: cs, Expected: ri.name, Observed: implOrder})
					break
				}
				tv := leafOf(tmplB.Elem(), l.path)
				for tv.IsValid() && tv.Kind() == reflect.Ptr {
					if tv.IsNil() {
						tv = reflect.Value{}
					} else {
						tv = tv.Elem()
					}
				}
				want, chk := c12OracleDefault(l, pk, tv)
				if (chk == nil && def != want) || (chk != nil && !chk(def)) {
					res.Add(Finding{Kind: "violation", What: fmt.Sprintf("flag %q (leaf %s): the advertised default is not the template's value", ri.name, l.key()), Case: cs, Expected: want, Observed: def})
					break
				}
			} else if isReg && firstOf[ri.name] == nil {
				res.Add(Finding{Kind: "violation", What: fmt.Sprintf("leaf %s (unsupported kind or source tag \"-\") got the flag %q", l.key(), ri.name), Case: cs})
				break
			}
		}
		if len(implNames) != len(firstOf) {
			res.Add(Finding{Kind: "violation", What: "the set of registered flags differs from one flag per supported, not skipped leaf", Case: cs, Expected: len(firstOf), Observed: implOrder})
		}
	}
	skipValues := known || (hasDup && dupVisited)
	if !skipValues && impl != "panic" {
		if expErr {
			if impl != "err" {
				res.Add(Finding{Kind: "violation", What: "an unparsable or out-of-range occurrence did not make the flag source fail (a leaf took a wrapped or partial value)", Case: cs, Observed: impl})
			}
		} else if impl == "err" {
			res.Add(Finding{Kind: "violation", What: "the flag source failed although every occurrence is acceptable", Case: cs, Observed: cs["error"]})
		} else {
			for _, l := range leaves {
				lv := leafOf(out, l.path)
				got := "n"
				if lv.IsValid() {
					got = c12Canon(lv)
				}
				want := "n"
				if ev, ok := exp[l]; ok {
					want = c12Canon(ev)
					if lv.IsValid() && lv.Kind() == reflect.Ptr {
						want = "& " + want
					}
				}
				if got != want {
					what := fmt.Sprintf("leaf %s (flag %q): got %s, want %s", l.key(), info[l].name, got, want)
					if _, given := exp[l]; !given {
						what = fmt.Sprintf("leaf %s (flag %q) was not given on the command line but is set: %s", l.key(), info[l].name, got)
					}
					res.Add(Finding{Kind: "violation", What: what, Case: cs})
					break
				}
			}
		}
	}

	// (4) stacked between a lower and a higher layer
	if !skipValues && !expErr && impl != "panic" && impl != "err" && r.Chance(30) {
		c12Stack(c, r, res, pk, T, PT, useCorpus, leaves, exp, tmplC, out, neIdx, teIdx, args, cs)
	}

	nested := strings.Count(fields, "{") > 1 || strings.Contains(string(fields), hexEnc("dials"))
	res.Case(req, len(perLeaf) >= 2 && nested, cs)
}

// the translated struct's fields in the model's grammar (without the opening brace; the dialsfieldpath tag in full:
// its value contains commas, which the structtag convention used by tfFields would cut off)
func c12TFields(t reflect.Type) string {
	var parts []string
	for i := 0; i < t.NumField(); i++ {
		f := t.Field(i)
		tags := parseTagPairs(f.Tag)
		parts = append(parts, hexEnc(f.Name), b01(f.Anonymous), strconv.Itoa(len(tags)))
		for _, kv := range tags {
			v := kv[1]
			if kv[0] == "dialsfieldpath" {
				v = f.Tag.Get("dialsfieldpath")
			}
			parts = append(parts, hexEnc(kv[0]), hexEnc(v))
		}
		parts = append(parts, tfTy(f.Type))
	}
	return strings.Join(append(parts, "}"), " ")
}

func c12SortedKeys(m map[string][]string) []string {
	ks := make([]string, 0, len(m))
	for k := range m {
		ks = append(ks, k)
	}
	sort.Strings(ks)
	return ks
}

// c12Stack: lower layer, the flag source's value, higher layer
func c12Stack(c *Ctx, r *RNG, res *Result, pk string, T, PT reflect.Type, useCorpus bool, leaves []*c12Leaf, exp map[*c12Leaf]reflect.Value,
	tmpl reflect.Value, flagVal reflect.Value, neIdx, teIdx int, args []string, cs map[string]any) {
	lower, higher := map[*c12Leaf]reflect.Value{}, map[*c12Leaf]reflect.Value{}
	for _, l := range leaves {
		if l.kind.cls == "unsup" || l.kind.cls == "tu" || (useCorpus && !c12StaticKinds[l.kind.cls]) {
			continue
		}
		if r.Chance(45) {
			lower[l] = c12GenVal(r, l.kind, true)
		}
		if r.Chance(25) {
			higher[l] = c12GenVal(r, l.kind, true)
		}
	}
	var result reflect.Value
	var err error
	var pn string
	if useCorpus {
		mk := func(m map[*c12Leaf]reflect.Value) dials.Source {
			set := map[string]reflect.Value{}
			for l, v := range m {
				set[l.key()] = v
			}
			b, _ := json.Marshal(c12JSONOf(T, set, ""))
			return &static.StringSource{Data: string(b), Decoder: &djson.Decoder{}}
		}
		tc := tmpl.Interface().(*c12Corpus)
		tcForFlags := c12Clone(tmpl).Interface().(*c12Corpus)
		var fset *c12Set
		pn = catch(func() {
			fset, err = c12NewSet(pk, c12Encoders[neIdx].fn, c12Encoders[teIdx].fn, tcForFlags, args)
			if err != nil {
				return
			}
			ctx, cancel := context.WithCancel(context.Background())
			defer cancel()
			var d *dials.Dials[c12Corpus]
			d, err = dials.Config(ctx, tc, mk(lower), fset.source, mk(higher))
			if err == nil {
				result = reflect.ValueOf(d.View())
			}
		})
		res.Count("stacked/dials.Config")
	} else {
		mk := func(m map[*c12Leaf]reflect.Value) reflect.Value {
			v := reflect.New(PT).Elem()
			for l, x := range m {
				c12SetPT(v, l.path, x)
			}
			return v
		}
		pn = catch(func() {
			var out any
			out, err = dials.VerifCompose(tmpl.Interface(), []reflect.Value{mk(lower), flagVal, mk(higher)})
			if err == nil {
				result = reflect.ValueOf(out)
			}
		})
		res.Count("stacked/VerifCompose")
	}
	scs := map[string]any{"case": cs, "lower": c12Show(lower), "higher": c12Show(higher)}
	if pn != "" || err != nil {
		res.Add(Finding{Kind: "violation", What: "stacking the flag source between two layers failed", Case: scs, Observed: fmt.Sprint(pn, err)})
		return
	}
	for _, l := range leaves {
		if l.kind.cls == "unsup" {
			continue
		}
		got := leafOf(result.Elem(), l.path)
		for got.IsValid() && got.Kind() == reflect.Ptr {
			if got.IsNil() {
				got = reflect.Value{}
			} else {
				got = got.Elem()
			}
		}
		var want reflect.Value
		src := "default"
		if v, ok := higher[l]; ok {
			want, src = v, "higher layer"
		} else if v, ok := exp[l]; ok {
			want, src = v, "flag"
		} else if v, ok := lower[l]; ok {
			want, src = v, "lower layer"
		} else {
			want = leafOf(tmpl.Elem(), l.path)
			for want.IsValid() && want.Kind() == reflect.Ptr {
				if want.IsNil() {
					want = reflect.Value{}
				} else {
					want = want.Elem()
				}
			}
		}
		gs, ws := "absent", "absent"
		if got.IsValid() {
			gs = c12Canon(got)
		}
		if want.IsValid() {
			ws = c12Canon(want)
		}
		if gs != ws {
			// an absent default under a pointer struct that some layer allocated is the zero value
			if src == "default" && !want.IsValid() && got.IsValid() && got.IsZero() {
				continue
			}
			if src == "default" && want.IsValid() && want.IsZero() && !got.IsValid() {
				continue
			}
			// nil and empty collections of the defaults are not distinguished by the overlay
			if src == "default" && (gs == "n" || ws == "n") && (gs == "[ ]" || ws == "[ ]" || gs == "( )" || ws == "( )" || gs == "< >" || ws == "< >" || gs == "absent" || ws == "absent") {
				continue
			}
			res.Add(Finding{Kind: "violation", What: fmt.Sprintf("stacked config: leaf %s should show the %s: got %s, want %s", l.key(), src, gs, ws), Case: scs})
			return
		}
	}
}

func c12Show(m map[*c12Leaf]reflect.Value) map[string]string {
	o := map[string]string{}
	for l, v := range m {
		o[l.key()] = fmt.Sprintf("%v", v.Interface())
	}
	return o
}

var _ = flaghelper.NewStringSliceFlag
