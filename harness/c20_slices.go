package main

// C20, collection-of-structs stream: a config with a []struct field (and a []*struct and a map[string]struct one)
// read through a wrapped watching source next to the same source used natively.  The wrappers recurse into
// such collections element by element, so "unset" (nil), "explicitly empty" (non-nil, zero length: it replaces
// a non-empty default) and every length must arrive exactly as the inner source produced them - in the initial
// value and in every later update.
//
// The inner source is type directed: it is handed the TRANSLATED type and fills it by field position (the
// manglers used here - tag reformatting, tag copying, alias, a failing-capable identity - keep positions and
// only ever ADD alias copies at the end of a struct's own fields, which stay unset).

import (
	"context"
	"fmt"
	"reflect"
	"strings"
	"sync"
	"sync/atomic"
	"time"

	"github.com/vimeo/dials"
	jsondec "github.com/vimeo/dials/decoders/json"
	"github.com/vimeo/dials/sources/static"
	"github.com/vimeo/dials/sourcewrap"
	"github.com/vimeo/dials/tagformat"
	"github.com/vimeo/dials/tagformat/caseconversion"
	"github.com/vimeo/dials/transform"
)

type c20Peer struct {
	Host string `dials:"host_name"`
	Port int    `dials:"port"`
}

type c20SCfg struct {
	Name   string             `dials:"name"`
	Peers  []c20Peer          `dials:"peers"`
	Spares []*c20Peer         `dials:"spare_peers"`
	ByZone map[string]c20Peer `dials:"by_zone"`
	Seq    int                `dials:"seq"`
}

// logical value of one report: lengths (-1 = unset / nil) and a salt for the element values
type c20SVal struct {
	Name                  string
	Peers, Spares, ByZone int
	Salt, Seq             int
}

func (v c20SVal) String() string {
	return fmt.Sprintf("{name=%q peers=%d spares=%d byzone=%d seq=%d}", v.Name, v.Peers, v.Spares, v.ByZone, v.Seq)
}

func c20SPeer(salt, i int) c20Peer {
	return c20Peer{Host: fmt.Sprintf("h%d-%d", salt, i), Port: 1000 + salt*10 + i}
}

// expected config: defaults overlaid by the value (an unset collection keeps the default)
func (v c20SVal) over(base c20SCfg) c20SCfg {
	if v.Name != "" {
		base.Name = v.Name
	}
	if v.Peers >= 0 {
		base.Peers = make([]c20Peer, v.Peers)
		for i := range base.Peers {
			base.Peers[i] = c20SPeer(v.Salt, i)
		}
	}
	if v.Spares >= 0 {
		base.Spares = make([]*c20Peer, v.Spares)
		for i := range base.Spares {
			p := c20SPeer(v.Salt+1, i)
			base.Spares[i] = &p
		}
	}
	if v.ByZone >= 0 {
		base.ByZone = map[string]c20Peer{}
		for i := 0; i < v.ByZone; i++ {
			base.ByZone[fmt.Sprintf("z%d", i)] = c20SPeer(v.Salt+2, i)
		}
	}
	base.Seq = v.Seq
	return base
}

// set stores x into dst, allocating pointers on the way (dst may be T, *T, **T)
func c20SSet(dst reflect.Value, x any) {
	for dst.Kind() == reflect.Ptr {
		if dst.IsNil() {
			dst.Set(reflect.New(dst.Type().Elem()))
		}
		dst = dst.Elem()
	}
	dst.Set(reflect.ValueOf(x).Convert(dst.Type()))
}

func c20SFillPeer(dst reflect.Value, p c20Peer) {
	for dst.Kind() == reflect.Ptr {
		if dst.IsNil() {
			dst.Set(reflect.New(dst.Type().Elem()))
		}
		dst = dst.Elem()
	}
	c20SSet(dst.Field(0), p.Host)
	c20SSet(dst.Field(1), p.Port)
}

// build a value of the (possibly translated) struct type t
func (v c20SVal) build(t reflect.Type) reflect.Value {
	out := reflect.New(t).Elem()
	if v.Name != "" {
		c20SSet(out.Field(0), v.Name)
	}
	coll := func(f reflect.Value, n, salt int) {
		if n < 0 {
			return
		}
		ft := f.Type()
		for ft.Kind() == reflect.Ptr {
			ft = ft.Elem()
		}
		var cv reflect.Value
		if ft.Kind() == reflect.Map {
			cv = reflect.MakeMapWithSize(ft, n)
			for i := 0; i < n; i++ {
				e := reflect.New(ft.Elem()).Elem()
				c20SFillPeer(e, c20SPeer(salt, i))
				cv.SetMapIndex(reflect.ValueOf(fmt.Sprintf("z%d", i)), e)
			}
		} else {
			cv = reflect.MakeSlice(ft, n, n)
			for i := 0; i < n; i++ {
				c20SFillPeer(cv.Index(i), c20SPeer(salt, i))
			}
		}
		for f.Kind() == reflect.Ptr {
			if f.IsNil() {
				f.Set(reflect.New(f.Type().Elem()))
			}
			f = f.Elem()
		}
		f.Set(cv)
	}
	coll(out.Field(1), v.Peers, v.Salt)
	coll(out.Field(2), v.Spares, v.Salt+1)
	coll(out.Field(3), v.ByZone, v.Salt+2)
	c20SSet(out.Field(4), v.Seq)
	return out
}

type c20SSrc struct {
	init c20SVal
	mu   sync.Mutex
	args dials.WatchArgs
	typ  *dials.Type
	got  chan struct{}
}

func (s *c20SSrc) Value(_ context.Context, t *dials.Type) (reflect.Value, error) {
	return s.init.build(t.Type()), nil
}

func (s *c20SSrc) Watch(_ context.Context, t *dials.Type, a dials.WatchArgs) error {
	s.mu.Lock()
	s.args, s.typ = a, t
	s.mu.Unlock()
	close(s.got)
	return nil
}

func (s *c20SSrc) report(ctx context.Context, v c20SVal) error {
	return s.args.BlockingReportNewValue(ctx, v.build(s.typ.Type()))
}

func c20GenSVal(r *RNG, seq int) c20SVal {
	n := func() int {
		switch r.Intn(5) {
		case 0:
			return -1
		case 1, 2:
			return 0
		}
		return 1 + r.Intn(4)
	}
	v := c20SVal{Peers: n(), Spares: n(), ByZone: n(), Salt: r.Intn(50), Seq: seq}
	if r.Bool() {
		v.Name = fmt.Sprintf("n%d", r.Intn(100))
	}
	return v
}

func c20StructSlices(c *Ctx, r *RNG) {
	res := c.Res
	defaults := func() *c20SCfg {
		return &c20SCfg{Name: "default", Peers: []c20Peer{{Host: "localhost", Port: 80}}, Spares: []*c20Peer{{Host: "spare", Port: 81}},
			ByZone: map[string]c20Peer{"z": {Host: "zonal", Port: 82}}}
	}
	type wrapper struct {
		name string
		wrap func(dials.Source) dials.Source
	}
	wrappers := []wrapper{
		{"ReformatDialsTagSource(snake->camel)", func(s dials.Source) dials.Source {
			return tagformat.ReformatDialsTagSource(s, caseconversion.DecodeLowerSnakeCase, caseconversion.EncodeLowerCamelCase)
		}},
		{"TransformingSource(tag copy)", func(s dials.Source) dials.Source {
			return sourcewrap.NewTransformingSource(s, &tagformat.TagCopyingMangler{SrcTag: "dials", NewTag: "yaml"})
		}},
		{"TransformingSource(reformat, tag copy)", func(s dials.Source) dials.Source {
			return sourcewrap.NewTransformingSource(s, tagformat.NewTagReformattingMangler("dials", caseconversion.DecodeLowerSnakeCase, caseconversion.EncodeKebabCase),
				&tagformat.TagCopyingMangler{SrcTag: "dials", NewTag: "json"})
		}},
		{"TransformingSource(alias, reformat)", func(s dials.Source) dials.Source {
			return sourcewrap.NewTransformingSource(s, transform.NewAliasMangler("dials"), tagformat.NewTagReformattingMangler("dials", caseconversion.DecodeLowerSnakeCase, caseconversion.EncodeUpperSnakeCase))
		}},
		{"TransformingSource(identity gate)", func(s dials.Source) dials.Source {
			return sourcewrap.NewTransformingSource(s, &c20Gate{failUnmangle: new(atomic.Bool)})
		}},
	}
	w := wrappers[r.Intn(len(wrappers))]
	nup := 1 + r.Intn(5)
	vals := []c20SVal{c20GenSVal(r, 0)}
	for i := 1; i <= nup; i++ {
		vals = append(vals, c20GenSVal(r, i))
	}
	cs := map[string]any{"stream": "collections of structs", "wrapper": w.name, "values": fmt.Sprint(vals)}
	ctx, cancel := context.WithTimeout(context.Background(), 20*time.Second)
	defer cancel()
	inW, inN := &c20SSrc{init: vals[0], got: make(chan struct{})}, &c20SSrc{init: vals[0], got: make(chan struct{})}
	var dW, dN *dials.Dials[c20SCfg]
	var eW, eN error
	pn := catch(func() { dW, eW = dials.Config(ctx, defaults(), w.wrap(inW)) })
	dN, eN = dials.Config(ctx, defaults(), inN)
	res.Count("slices/wrapper/" + w.name)
	empties := 0
	for _, v := range vals {
		for _, n := range []int{v.Peers, v.Spares, v.ByZone} {
			if n == 0 {
				empties++
			}
		}
	}
	res.Count(fmt.Sprintf("slices/explicitly-empty-collections=%d", min(empties, 4)))
	canon := "S|" + w.name + "|" + fmt.Sprint(vals)
	switch {
	case pn != "":
		res.Add(Finding{Kind: "violation", What: "dials.Config around a wrapped source panicked: " + pn, Case: cs})
		res.Case(canon, true, cs)
		return
	case eW != nil || eN != nil:
		res.Add(Finding{Kind: "violation", What: fmt.Sprintf("dials.Config failed on a source without errors (wrapped: %v, native: %v)", eW, eN), Case: cs})
		res.Case(canon, true, cs)
		return
	}
	describe := func(c *c20SCfg) string {
		sp := make([]string, len(c.Spares))
		for i, p := range c.Spares {
			sp[i] = fmt.Sprint(*p)
		}
		return fmt.Sprintf("{Name:%s Peers:%v(nil=%v) Spares:[%s](nil=%v) ByZone:%v(nil=%v) Seq:%d}", c.Name, c.Peers, c.Peers == nil, strings.Join(sp, " "), c.Spares == nil, c.ByZone, c.ByZone == nil, c.Seq)
	}
	want := vals[0].over(*defaults())
	compare := func(stage string) bool {
		gw, gn := dW.View(), dN.View()
		if !reflect.DeepEqual(gn, &want) {
			// the native Dials is the reference: if IT differs from the documented overlay, that is C01/C02's business; here only
			// transparency is judged, but the case is kept honest
			res.Count("slices/native-differs-from-overlay-oracle")
		}
		if !reflect.DeepEqual(gw, gn) {
			res.Add(Finding{Kind: "violation", What: stage + ": the config behind the wrapper differs from the one the same source produces natively", Case: cs,
				Expected: describe(gn), Observed: describe(gw)})
			return false
		}
		return true
	}
	ok := compare("initial value")
	select {
	case <-inW.got:
	case <-ctx.Done():
		res.Add(Finding{Kind: "violation", What: "the wrapped watching source's Watch was never called", Case: cs})
		ok = false
	}
	<-inN.got
	for i := 1; ok && i < len(vals); i++ {
		errW, errN := inW.report(ctx, vals[i]), inN.report(ctx, vals[i])
		if (errW == nil) != (errN == nil) {
			res.Add(Finding{Kind: "violation", What: fmt.Sprintf("update %d: the blocking report through the wrapper returned %v, natively %v", i, errW, errN), Case: cs})
			break
		}
		want = vals[i].over(*defaults())
		ok = compare(fmt.Sprintf("update %d %v", i, vals[i]))
	}
	res.Case(canon, empties > 0 && nup >= 2, cs)
}

// ---------- one transforming decoder instance, several config types ----------
//
// A decoder value is not tied to a type: the same NewTransformingDecoder(...) instance (a package-level decoder, a
// decoder shared by two subsystems) may be asked for different config types in turn, and each Decode must translate
// the type IT was given.

type c20DA struct {
	Name  string   `dials:"name"`
	Ports []int    `dials:"ports"`
	Tags  []string `dials:"tags"`
	// a dials tag that is present but EMPTY names nothing: the field is keyed by its Go name, reformatted like any other
	ListenAddr string `dials:""`
}

type c20DB struct {
	Name    string            `dials:"name"`
	Hosts   map[string]string `dials:"hosts"`
	Retries int               `dials:"retries"`
	Peers   []c20Peer         `dials:"peers"`
	Debug   bool              `dials:"debug"`
}

func c20SharedDecoder(c *Ctx, r *RNG) {
	res := c.Res
	mk := func() dials.Decoder {
		return sourcewrap.NewTransformingDecoder(&jsondec.Decoder{}, tagformat.NewTagReformattingMangler("dials", caseconversion.DecodeLowerSnakeCase, caseconversion.EncodeLowerSnakeCase),
			&tagformat.TagCopyingMangler{SrcTag: "dials", NewTag: "json"})
	}
	shared := mk()
	order := r.Intn(2)
	addr := fmt.Sprintf(":%d", 1000+r.Intn(9000))
	docA := fmt.Sprintf(`{"name":"a%d","ports":[%d,%d],"tags":["t%d"],"listen_addr":%q}`, r.Intn(100), r.Intn(1000), r.Intn(1000), r.Intn(10), addr)
	docB := fmt.Sprintf(`{"name":"b%d","hosts":{"x":"h%d"},"retries":%d,"peers":[{"host_name":"p%d","port":%d}],"debug":true}`, r.Intn(100), r.Intn(100), r.Intn(10), r.Intn(100), r.Intn(1000))
	cs := map[string]any{"stream": "one transforming decoder, two config types", "first": []string{"A", "B"}[order], "docA": docA, "docB": docB}
	runA := func(dec dials.Decoder) (string, error) {
		d, err := dials.Config(context.Background(), &c20DA{}, &static.StringSource{Data: docA, Decoder: dec})
		if err != nil {
			return "", err
		}
		return fmt.Sprintf("%+v", *d.View()), nil
	}
	runB := func(dec dials.Decoder) (string, error) {
		d, err := dials.Config(context.Background(), &c20DB{}, &static.StringSource{Data: docB, Decoder: dec})
		if err != nil {
			return "", err
		}
		return fmt.Sprintf("%+v", *d.View()), nil
	}
	var gotA, gotB, wantA, wantB string
	var eA, eB, weA, weB error
	pn := catch(func() {
		if order == 0 {
			gotA, eA = runA(shared)
			gotB, eB = runB(shared)
		} else {
			gotB, eB = runB(shared)
			gotA, eA = runA(shared)
		}
		// a second round through the same instance (re-reads of a watched file)
		if eA == nil && eB == nil {
			if a2, _ := runA(shared); a2 != gotA {
				gotA = a2 + " (second decode differs from the first: " + gotA + ")"
			}
		}
	})
	wantA, weA = runA(mk())
	wantB, weB = runB(mk())
	res.Count("shared-decoder/first=" + cs["first"].(string))
	switch {
	case pn != "":
		res.Add(Finding{Kind: "violation", What: "a transforming decoder used for a second config type panicked: " + pn, Case: cs})
	case weA != nil || weB != nil:
		res.Add(Finding{Kind: "violation", What: fmt.Sprintf("a fresh transforming decoder failed on a valid document: %v %v", weA, weB), Case: cs})
	case eA != nil || eB != nil:
		res.Add(Finding{Kind: "violation", What: fmt.Sprintf("the shared transforming decoder failed where a fresh one succeeds: %v %v", eA, eB), Case: cs})
	case !strings.Contains(wantA, "ListenAddr:"+addr):
		res.Add(Finding{Kind: "violation", What: "a field with an empty dials tag is keyed by its reformatted Go name (listen_addr), but its value did not arrive through the tag-reformatting decoder", Case: cs, Expected: "ListenAddr:" + addr, Observed: wantA})
	case gotA != wantA || gotB != wantB:
		res.Add(Finding{Kind: "violation", What: "a transforming decoder that had decoded another config type before returns a different config than a fresh one", Case: cs,
			Expected: wantA + " / " + wantB, Observed: gotA + " / " + gotB})
	}
	res.Case("D2|"+docA+docB+cs["first"].(string), true, cs)
}
