package main

// C08, implementation-only stream: callers spin on RegisterCallback / unregister while the last watcher calls Done (or
// the Config context is cancelled) - the monitor exits under their feet.  No caller may panic (the callback queue has
// several senders, so it must never be closed: fact F3c), every call returns, and the library's goroutines exit.

import (
	"context"
	"fmt"
	"sync"
	"sync/atomic"
	"time"

	"github.com/vimeo/dials"
)

func rtShutdownRace(c *Ctx, rounds int) {
	r := c.RNG
	res := c.Res
	if why := rtDrainStale(5 * time.Second); why != "" {
		res.Count("shutdown-race/stale goroutines before the stream: " + why)
	}
	var firstPanic atomic.Value
	panics := 0
	for i := 0; i < rounds && panics == 0; i++ {
		seven := 7
		defaults := &ruCfg{Name: "default", Count: 1, Limits: map[string]int{"d": 1}, Tags: []string{"dt"}, Opt: &seven, Sub: ruSub{Weights: map[string]int{"dw": 1}}}
		src := &ruSrc{}
		ctx, cancel := context.WithCancel(context.Background())
		d, err := dials.Config(ctx, defaults, src)
		byCancel := r.Chance(35)
		cs := map[string]any{"stream": "register / unregister racing the monitor's exit", "round": i, "shutdown": map[bool]string{true: "context cancelled", false: "last watcher Done"}[byCancel]}
		if err != nil {
			res.Add(Finding{Kind: "violation", What: "Config failed: " + err.Error(), Case: cs})
			cancel()
			continue
		}
		_, tok := d.ViewVersion()
		var stop atomic.Bool
		var wg sync.WaitGroup
		var np atomic.Int64
		for g := 0; g < 6; g++ {
			wg.Add(1)
			go func() {
				defer wg.Done()
				for !stop.Load() {
					func() {
						defer func() {
							if p := recover(); p != nil {
								np.Add(1)
								firstPanic.CompareAndSwap(nil, fmt.Sprint(p))
							}
						}()
						cctx, cc := context.WithTimeout(context.Background(), 2*time.Second)
						defer cc()
						if unreg := d.RegisterCallback(cctx, tok, func(context.Context, *ruCfg, *ruCfg) {}); unreg != nil {
							unreg(cctx)
						}
					}()
				}
			}()
		}
		// let the callers get going, then shut the monitor down at an arbitrary moment
		for spin := r.Intn(2000); spin > 0; spin-- {
			_ = d.View()
		}
		if byCancel {
			cancel()
		} else {
			dctx, dc := context.WithTimeout(context.Background(), 2*time.Second)
			src.wa.Done(dctx)
			dc()
		}
		time.Sleep(time.Duration(r.Intn(300)) * time.Microsecond)
		stop.Store(true)
		wg.Wait()
		cancel()
		res.Count("shutdown-race/rounds")
		if n := np.Load(); n > 0 {
			panics++
			p, _ := firstPanic.Load().(string)
			res.Add(Finding{Kind: "violation", What: "RegisterCallback / unregister panicked while the monitor was shutting down: " + p, Case: cs})
		}
		res.Case(fmt.Sprint("SHUTRACE|", i, byCancel), true, cs)
	}
	if why := rtDrainStale(5 * time.Second); why != "" {
		res.Add(Finding{Kind: "violation", What: "goroutines of the library are left after every Dials of the shutdown-race stream was shut down: " + why, Case: map[string]any{"stream": "register / unregister racing the monitor's exit"}})
	}
}
