package main

// C20 — source wrappers are transparent (sourcewrap.NewTransformingSource / NewTransformingDecoder,
// tagformat.ReformatDialsTagSource; sourcewrap.Blank is in c20_blank.go).
//
// Per case: a random mangler list drawn from the library's manglers (plus, sometimes, a harness "gate"
// mangler that can be made to fail in Mangle / Unmangle), an inner fake source (static, watching with a
// random update sequence, failing in Value, failing in Watch) that fills whatever TRANSLATED type it is
// handed from a logical value (leaf id → Go value; leaves are found through a `vleaf` struct tag every
// mangler preserves), and
//   stage A  the wrapper alone: Value / Watch / every call of the inner watcher on the args it got, against
//            (1) the Lean model (which step's error comes back, with which prefix; which messages reach the
//            underlying args and what the reporter gets back) and (2) the harness's own translate → inner →
//            reverse pipeline run on a transformer of its own; a recording WatchArgs checks that what arrives
//            has the requested type and the logical value;
//   stage B  a real dials.Dials around the wrapped source next to a reference dials.Dials around a native
//            source fed the same logical values: Config errors, View() after every update (blocking reports;
//            non-blocking reports followed by polling the serial), ReportError, Done.

import (
	"context"
	"errors"
	"fmt"
	"io"
	"reflect"
	"sort"
	"strconv"
	"strings"
	"sync"
	"sync/atomic"
	"time"

	"github.com/vimeo/dials"
	jsondec "github.com/vimeo/dials/decoders/json"
	"github.com/vimeo/dials/ptrify"
	"github.com/vimeo/dials/sources/static"
	"github.com/vimeo/dials/sourcewrap"
	"github.com/vimeo/dials/tagformat"
	cconv "github.com/vimeo/dials/tagformat/caseconversion"
	"github.com/vimeo/dials/transform"
)

func init() { register("C20", runC20) }

// ---------- config type ----------

type c20Temp struct{ Deg int }

func (t *c20Temp) UnmarshalText(b []byte) error {
	s := string(b)
	if !strings.HasSuffix(s, "C") {
		return fmt.Errorf("bad temperature %q", s)
	}
	n, err := strconv.Atoi(strings.TrimSuffix(s, "C"))
	if err != nil {
		return err
	}
	t.Deg = n
	return nil
}
func (t c20Temp) MarshalText() ([]byte, error) { return []byte(strconv.Itoa(t.Deg) + "C"), nil }

type c20Sub struct {
	Ļevel    int      `dials:"level" vleaf:"sub.level"`
	Ratio    float64  `vleaf:"sub.ratio"`
	Labels   []string `dials:"labels" vleaf:"sub.labels"`
	HostName string   `dials:"host_name" dialsalias:"old_host_name" vleaf:"sub.host"`
}

type c20In struct {
	Depth int     `dials:"depth" vleaf:"deep.in.depth"`
	Temp  c20Temp `dials:"in_temp" vleaf:"deep.in.temp"`
}

type c20Deep struct {
	In   c20In `dials:"in"`
	Ƒlag bool  `dials:"flag" vleaf:"deep.flag"`
}

type c20Cfg struct {
	Name    string              `dials:"name" vleaf:"name"`
	Port    int                 `dials:"port" dialsalias:"listen_port" vleaf:"port"`
	Ďebug   bool                `dials:"debug" vleaf:"debug"`
	MaxWait time.Duration       `dials:"max_wait" vleaf:"maxwait"`
	Tags    map[string]struct{} `dials:"tags" vleaf:"tags"`
	Temp    c20Temp             `dials:"temp" vleaf:"temp"`
	Weights []int               `dials:"weights" vleaf:"weights"`
	Sub     c20Sub              `dials:"sub"`
	Deep    c20Deep             `dials:"deep"`
	Invalid bool                `dials:"invalid" vleaf:"invalid"`
}

var errC20Invalid = errors.New("c20: config marked invalid")

func (c *c20Cfg) Verify() error {
	if c.Invalid {
		return errC20Invalid
	}
	return nil
}

func c20Defaults() *c20Cfg {
	return &c20Cfg{Name: "default", Port: 80, MaxWait: time.Second, Tags: map[string]struct{}{"dflt": {}},
		Temp: c20Temp{Deg: 20}, Weights: []int{1}, Sub: c20Sub{Ļevel: 1, Ratio: 0.5, Labels: []string{"l0"}, HostName: "localhost"},
		Deep: c20Deep{In: c20In{Depth: 1, Temp: c20Temp{Deg: -1}}}}
}

var c20PType = ptrify.Pointerify(reflect.TypeOf(c20Cfg{}), reflect.ValueOf(*c20Defaults()))

var c20LeafIDs = []string{"name", "port", "debug", "maxwait", "tags", "temp", "weights", "sub.level", "sub.ratio", "sub.labels",
	"sub.host", "deep.in.depth", "deep.in.temp", "deep.flag", "invalid"}

// ---------- logical values ----------

type c20Logical map[string]any // leaf id → value; absent = unset

var c20Words = []string{"alpha", "beta", "gamma", "delta", "eps", "zeta", "eta", "theta", "iota", "kappa", "lam", "mu"}

func c20GenLogical(r *RNG, invalid bool) c20Logical {
	lg := c20Logical{}
	set := func() bool { return r.Chance(65) }
	word := func() string { return c20Words[r.Intn(len(c20Words))] }
	words := func() []string {
		n := 1 + r.Intn(3)
		o := make([]string, n)
		for i := range o {
			o[i] = word()
		}
		return o
	}
	if set() {
		lg["name"] = word() + strconv.Itoa(r.Intn(100))
	}
	if set() {
		lg["port"] = 1 + r.Intn(65535)
	}
	if set() {
		lg["debug"] = r.Bool()
	}
	if set() {
		lg["maxwait"] = time.Duration(1+r.Intn(5000)) * time.Millisecond
	}
	if set() {
		m := map[string]struct{}{}
		for _, w := range words() {
			m[w] = struct{}{}
		}
		lg["tags"] = m
	}
	if set() {
		lg["temp"] = c20Temp{Deg: r.Intn(200) - 100}
	}
	if set() {
		n := 1 + r.Intn(3)
		o := make([]int, n)
		for i := range o {
			o[i] = r.Intn(1000)
		}
		lg["weights"] = o
	}
	if set() {
		lg["sub.level"] = r.Intn(10000) - 5000
	}
	if set() {
		lg["sub.ratio"] = float64(r.Intn(100000)) / 64
	}
	if set() {
		lg["sub.labels"] = words()
	}
	if set() {
		lg["sub.host"] = word() + ".example"
	}
	if set() {
		lg["deep.in.depth"] = r.Intn(50)
	}
	if set() {
		lg["deep.in.temp"] = c20Temp{Deg: r.Intn(50)}
	}
	if set() {
		lg["deep.flag"] = r.Bool()
	}
	if invalid {
		lg["invalid"] = true
	} else if r.Chance(20) {
		lg["invalid"] = false
	}
	return lg
}

func c20ShowLogical(lg c20Logical) string {
	ks := make([]string, 0, len(lg))
	for k := range lg {
		ks = append(ks, k)
	}
	sort.Strings(ks)
	var b strings.Builder
	for _, k := range ks {
		v := lg[k]
		if m, ok := v.(map[string]struct{}); ok {
			v = c20SortedKeys(m)
		}
		fmt.Fprintf(&b, "%s=%v;", k, v)
	}
	return b.String()
}

func c20SortedKeys(m map[string]struct{}) []string {
	o := make([]string, 0, len(m))
	for k := range m {
		o = append(o, k)
	}
	sort.Strings(o)
	return o
}

// ---------- type-directed filler: logical value → value of any (translated) type ----------

var c20StrPtr = reflect.TypeOf((*string)(nil))

func c20Text(v any) (string, bool) {
	switch x := v.(type) {
	case string:
		return x, true
	case int:
		return strconv.Itoa(x), true
	case bool:
		return strconv.FormatBool(x), true
	case float64:
		return strconv.FormatFloat(x, 'g', -1, 64), true
	case time.Duration:
		return x.String(), true
	case c20Temp:
		b, _ := x.MarshalText()
		return string(b), true
	case []string:
		return strings.Join(x, ","), true
	case []int:
		o := make([]string, len(x))
		for i, n := range x {
			o[i] = strconv.Itoa(n)
		}
		return strings.Join(o, ","), true
	case map[string]struct{}:
		return strings.Join(c20SortedKeys(x), ","), true
	}
	return "", false
}

func c20Conv(v any, target reflect.Type) (reflect.Value, bool) {
	rv := reflect.ValueOf(v)
	switch {
	case target.Kind() == reflect.Ptr && target.Elem() == rv.Type():
		p := reflect.New(rv.Type())
		p.Elem().Set(rv)
		return p, true
	case target == rv.Type():
		switch rv.Kind() {
		case reflect.Slice:
			c := reflect.MakeSlice(target, rv.Len(), rv.Len())
			reflect.Copy(c, rv)
			return c, true
		case reflect.Map:
			c := reflect.MakeMapWithSize(target, rv.Len())
			for _, k := range rv.MapKeys() {
				c.SetMapIndex(k, rv.MapIndex(k))
			}
			return c, true
		}
		return rv, true
	case target == c20StrPtr:
		s, ok := c20Text(v)
		if !ok {
			return reflect.Value{}, false
		}
		return reflect.ValueOf(&s), true
	case target == reflect.TypeOf([]string(nil)):
		if m, ok := v.(map[string]struct{}); ok {
			return reflect.ValueOf(c20SortedKeys(m)), true
		}
	}
	return reflect.Value{}, false
}

type c20Filler struct {
	lg    c20Logical
	count map[string]int
	seen  map[string]int
	pick  int
	both  bool // fill every occurrence of a leaf (an alias and its original: provokes an Unmangle error)
	bad   []string
}

func (f *c20Filler) countLeaves(t reflect.Type) {
	for i := 0; i < t.NumField(); i++ {
		sf := t.Field(i)
		if id := sf.Tag.Get("vleaf"); id != "" {
			f.count[id]++
			continue
		}
		ft := sf.Type
		for ft.Kind() == reflect.Ptr {
			ft = ft.Elem()
		}
		if ft.Kind() == reflect.Struct {
			f.countLeaves(ft)
		}
	}
}

func (f *c20Filler) fill(dst reflect.Value) bool {
	any := false
	t := dst.Type()
	for i := 0; i < t.NumField(); i++ {
		sf := t.Field(i)
		if id := sf.Tag.Get("vleaf"); id != "" {
			k := f.seen[id]
			f.seen[id]++
			v, ok := f.lg[id]
			if !ok {
				continue
			}
			if !f.both && k != f.pick%f.count[id] {
				continue
			}
			cv, ok := c20Conv(v, sf.Type)
			if !ok {
				f.bad = append(f.bad, fmt.Sprintf("%s: %T -> %s", id, v, sf.Type))
				continue
			}
			dst.Field(i).Set(cv)
			any = true
			continue
		}
		ft := sf.Type
		if ft.Kind() == reflect.Ptr && ft.Elem().Kind() == reflect.Struct {
			n := reflect.New(ft.Elem())
			if f.fill(n.Elem()) {
				dst.Field(i).Set(n)
				any = true
			}
		} else if ft.Kind() == reflect.Struct {
			if f.fill(dst.Field(i)) {
				any = true
			}
		}
	}
	return any
}

// c20Fill builds a value of struct type t holding the logical value.
func c20Fill(t reflect.Type, lg c20Logical, pick int, both bool) (reflect.Value, []string) {
	f := &c20Filler{lg: lg, count: map[string]int{}, seen: map[string]int{}, pick: pick, both: both}
	if t.Kind() != reflect.Struct {
		return reflect.Value{}, []string{"not a struct type: " + t.String()}
	}
	f.countLeaves(t)
	v := reflect.New(t).Elem()
	f.fill(v)
	return v, f.bad
}

// c20Leaves reads the logical value back out of a value of the pointerified config type.
func c20Leaves(v reflect.Value, out c20Logical) {
	for v.Kind() == reflect.Ptr {
		if v.IsNil() {
			return
		}
		v = v.Elem()
	}
	t := v.Type()
	for i := 0; i < t.NumField(); i++ {
		sf := t.Field(i)
		fv := v.Field(i)
		if id := sf.Tag.Get("vleaf"); id != "" {
			switch fv.Kind() {
			case reflect.Ptr:
				if !fv.IsNil() {
					out[id] = fv.Elem().Interface()
				}
			case reflect.Slice, reflect.Map:
				if !fv.IsNil() {
					out[id] = fv.Interface()
				}
			default:
				out[id] = fv.Interface()
			}
			continue
		}
		c20Leaves(fv, out)
	}
}

func c20SameLogical(a, b c20Logical) bool { return reflect.DeepEqual(a, b) }

// c20ViewLeaves: the leaf values of a *c20Cfg (final config: nothing is unset)
func c20ViewLeaves(c *c20Cfg) c20Logical {
	out := c20Logical{}
	c20Leaves(reflect.ValueOf(c), out)
	return out
}

// ---------- manglers ----------

var errC20GateMangle = errors.New("c20 gate: mangle refused")
var errC20GateUnmangle = errors.New("c20 gate: unmangle refused")

// c20Gate is an identity mangler that can be told to fail.
type c20Gate struct {
	failMangle   bool
	failUnmangle *atomic.Bool
}

func (g *c20Gate) Mangle(sf reflect.StructField) ([]reflect.StructField, error) {
	if g.failMangle {
		return nil, errC20GateMangle
	}
	return []reflect.StructField{sf}, nil
}
func (g *c20Gate) Unmangle(sf reflect.StructField, vs []transform.FieldValueTuple) (reflect.Value, error) {
	if g.failUnmangle.Load() {
		return reflect.Value{}, errC20GateUnmangle
	}
	return vs[0].Value, nil
}
func (g *c20Gate) ShouldRecurse(reflect.StructField) bool { return false }

type c20Casing struct {
	name string
	dec  cconv.DecodeCasingFunc
	enc  cconv.EncodeCasingFunc
}

var c20Casings = []c20Casing{
	{"snake", cconv.DecodeLowerSnakeCase, cconv.EncodeLowerSnakeCase},
	{"lowerCamel", cconv.DecodeLowerCamelCase, cconv.EncodeLowerCamelCase},
	{"upperCamel", cconv.DecodeUpperCamelCase, cconv.EncodeUpperCamelCase},
	{"kebab", cconv.DecodeKebabCase, cconv.EncodeKebabCase},
	{"upperSnake", cconv.DecodeUpperSnakeCase, cconv.EncodeUpperSnakeCase},
}

type c20Manglers struct {
	names  []string
	ms     []transform.Mangler
	gate   *c20Gate
	single *c20Casing // exactly one tag reformatting mangler (from snake): built through tagformat.ReformatDialsTagSource
}

// c20GenManglers draws a mangler list that is value-preserving on c20Cfg: string casting only once the
// struct is flat and TextUnmarshaler leaves are strings (the string-casting mangler casts every field, also
// pointer-to-struct ones, and parse.String knows no structs), tag reformatting only while all tags are in one
// known casing.  noJSONCopy: no dials->json tag copy (decoder cases: a json tag copied before flatten/alias
// would no longer match / would collide with the key the JSON decoder derives from the final dials tag).
func c20GenManglers(r *RNG, allowGate, noJSONCopy bool) *c20Manglers {
	out := &c20Manglers{}
	n := r.Intn(5)
	flat, textDone := false, false
	casing := 0 // index into c20Casings; -1 = mixed
	if r.Chance(20) {
		// the shape of the env / flag sources: flatten and text-unmarshaler (either order), then string-cast somewhere later
		pre := []string{"flatten", "textunm"}
		if r.Bool() {
			pre[0], pre[1] = pre[1], pre[0]
		}
		for _, p := range pre {
			out.names = append(out.names, p)
			if p == "flatten" {
				out.ms = append(out.ms, transform.DefaultFlattenMangler())
			} else {
				out.ms = append(out.ms, &transform.TextUnmarshalerMangler{})
			}
		}
		flat, textDone = true, true
		n = 3 + r.Intn(3)
	}
	for len(out.ms) < n {
		pickM := r.Intn(8)
		if flat && textDone && r.Chance(40) {
			pickM = 5
		}
		switch pickM {
		case 0:
			out.names = append(out.names, "alias")
			out.ms = append(out.ms, transform.NewAliasMangler("dials"))
			if casing != 0 {
				casing = -1
			}
		case 1:
			out.names = append(out.names, "flatten")
			out.ms = append(out.ms, transform.DefaultFlattenMangler())
			flat = true
			if casing != 0 {
				casing = -1
			}
		case 2, 3:
			if casing < 0 {
				continue
			}
			to := r.Intn(len(c20Casings))
			out.names = append(out.names, "reformat:"+c20Casings[casing].name+">"+c20Casings[to].name)
			out.ms = append(out.ms, tagformat.NewTagReformattingMangler("dials", c20Casings[casing].dec, c20Casings[to].enc))
			if len(out.ms) == 1 && n == 1 {
				c := c20Casings[to]
				out.single = &c
			}
			casing = to
		case 4:
			nt := []string{"json", "yaml", "toml"}[r.Intn(3)]
			if noJSONCopy && nt == "json" {
				nt = "yaml"
			}
			out.names = append(out.names, "tagcopy:"+nt)
			out.ms = append(out.ms, &tagformat.TagCopyingMangler{SrcTag: "dials", NewTag: nt})
		case 5:
			if !flat || !textDone {
				continue
			}
			out.names = append(out.names, "stringcast")
			out.ms = append(out.ms, &transform.StringCastingMangler{})
		case 6:
			out.names = append(out.names, "setslice")
			out.ms = append(out.ms, &transform.SetSliceMangler{})
		case 7:
			out.names = append(out.names, "textunm")
			textDone = true
			out.ms = append(out.ms, &transform.TextUnmarshalerMangler{})
		}
	}
	if allowGate && r.Chance(35) {
		out.single = nil
		g := &c20Gate{failUnmangle: &atomic.Bool{}}
		out.gate = g
		at := r.Intn(len(out.ms) + 1)
		out.ms = append(out.ms[:at:at], append([]transform.Mangler{g}, out.ms[at:]...)...)
		out.names = append(out.names[:at:at], append([]string{"gate"}, out.names[at:]...)...)
	}
	return out
}

func (m *c20Manglers) wrap(inner dials.Source) dials.Source {
	if m.single != nil {
		return tagformat.ReformatDialsTagSource(inner, cconv.DecodeLowerSnakeCase, m.single.enc)
	}
	return sourcewrap.NewTransformingSource(inner, m.ms...)
}

// ---------- fake inner sources ----------

var errC20Inner = errors.New("c20 inner source failure")
var errC20InnerWatch = errors.New("c20 inner watcher failure")

type c20Src struct {
	mu        sync.Mutex
	lg        c20Logical
	pick      int
	both      bool
	failValue bool
	types     []reflect.Type // types Value was asked for
	bad       []string
}

func (s *c20Src) Value(_ context.Context, t *dials.Type) (reflect.Value, error) {
	s.mu.Lock()
	defer s.mu.Unlock()
	s.types = append(s.types, t.Type())
	if s.failValue {
		return reflect.Value{}, errC20Inner
	}
	v, bad := c20Fill(t.Type(), s.lg, s.pick, s.both)
	s.bad = append(s.bad, bad...)
	return v, nil
}

type c20WSrc struct {
	c20Src
	failWatch bool
	args      dials.WatchArgs
	wtype     reflect.Type
}

func (s *c20WSrc) Watch(_ context.Context, t *dials.Type, args dials.WatchArgs) error {
	s.mu.Lock()
	defer s.mu.Unlock()
	s.wtype = t.Type()
	if s.failWatch {
		return errC20InnerWatch
	}
	s.args = args
	return nil
}

// c20Recorder is a dials.WatchArgs that records what reaches it.
type c20Rec struct {
	mu     sync.Mutex
	msgs   []c20RecMsg
	answer error // what the report methods answer
}
type c20RecMsg struct {
	kind string // V0 V1 D E
	val  reflect.Value
	err  error
}

func (r *c20Rec) add(m c20RecMsg) { r.mu.Lock(); r.msgs = append(r.msgs, m); r.mu.Unlock() }
func (r *c20Rec) ReportNewValue(_ context.Context, v reflect.Value) error {
	r.add(c20RecMsg{kind: "V0", val: v})
	return r.answer
}
func (r *c20Rec) BlockingReportNewValue(_ context.Context, v reflect.Value) error {
	r.add(c20RecMsg{kind: "V1", val: v})
	return r.answer
}
func (r *c20Rec) Done(context.Context) { r.add(c20RecMsg{kind: "D"}) }
func (r *c20Rec) ReportError(_ context.Context, err error) error {
	r.add(c20RecMsg{kind: "E", err: err})
	return nil
}

// ---------- case ----------

type c20Upd struct {
	Kind     string // "report", "done", "error"
	Blocking bool
	RevFail  bool // the gate refuses to unmangle this one
	Lg       c20Logical
	ErrText  string
}

type c20Case struct {
	Manglers   []string `json:"manglers"`
	Inner      string   `json:"inner"` // static | watcher | failValue | failWatch
	GateMode   string   `json:"gate,omitempty"`
	Initial    string   `json:"initial"`
	Updates    []string `json:"updates,omitempty"`
	AliasPick  int      `json:"alias_pick"`
	BothAlias  bool     `json:"both_alias,omitempty"`
	Decoder    bool     `json:"decoder,omitempty"`
	RecAnswers bool     `json:"recorder_answers_error,omitempty"`
}

func c20Outcome(err error) string {
	if err == nil {
		return "ok"
	}
	return "e:" + hexEnc(err.Error())
}

func c20ShowErr(err error) string {
	if err == nil {
		return "ok"
	}
	return "err " + hexEnc(err.Error())
}

func c20DecodeReply(rep string) string {
	if strings.HasPrefix(rep, "err ") {
		s, _ := hexDec(strings.TrimPrefix(rep, "err "))
		return "err " + s
	}
	return rep
}

func runC20(c *Ctx) {
	c.Res.Rule = "transforming wrappers: mangler list of 0-5 library manglers (alias, flatten, tag reformat between 5 casings, tag copy, string-cast only after flatten and text-unmarshaler, set->slice, text-unmarshaler; 35% plus a harness gate mangler that can fail in Mangle/Unmangle; a single reformat goes through tagformat.ReformatDialsTagSource), " +
		"inner source static / watching with 1-6 calls (blocking and non-blocking reports, ReportError, final Done; some values invalid for Verify, some refused by the gate) / failing in Value / failing in Watch, logical values over 15 leaves (each set with p=0.65) of a nested config type with aliases, a set, slices, a duration and TextUnmarshaler leaves; " +
		"a stream of configs with []struct, []*struct and map[string]struct fields behind five wrappers next to the same watching source used natively (initial value and 1-5 blocking updates; each collection unset / explicitly empty / 1-4 entries; non-empty defaults); " +
		"one transforming-decoder instance asked for two different config types in turn (and again), against fresh instances; " +
		"transforming decoders through static.StringSource and the JSON decoder; Blank: 1-14 operations (SetSource of static/watching/Value-failing/Watch-failing/invalid/nil sources, Done, Value, second Watch, some before Config) on a real Blank inside dials.Config next to a keep-alive watcher. " +
		"Blank.SetSource cancelled between the submission of its value and the monitor's answer (window held open by a gated Verify), followed by a healthy SetSource and another watcher's blocking report. " +
		"A case is non-trivial if its mangler list is non-empty or its inner source is a watcher with at least one report (wrappers), or it has a SetSource and at least one Done or Value (Blank); distinct = distinct canonical case text."
	nT := c.scale(2000, 30000)
	nD := c.scale(800, 10000)
	nB := c.scale(3000, 40000)
	c20BlankEager(c, c.RNG.Fork(), c.scale(30, 600)) // cheap, and first: a search with a time budget must reach it
	c20BlankCancel(c, c.RNG.Fork(), c.scale(40, 800))
	c20BlankSameSource(c, c.RNG.Fork(), c.scale(40, 800))
	c20BlankWatcherInner(c, c.RNG.Fork(), c.scale(40, 800))
	c20BlankSecondConfig(c, c.RNG.Fork(), c.scale(30, 500))
	for i := c.scale(60, 1000); i > 0; i-- {
		c20SharedDecoder(c, c.RNG.Fork())
	}
	for i := c.scale(300, 5000); i > 0; i-- {
		c20StructSlices(c, c.RNG.Fork())
	}
	for i := 0; i < nT; i++ {
		c20Transforming(c, c.RNG.Fork(), false)
	}
	for i := 0; i < nD; i++ {
		c20Transforming(c, c.RNG.Fork(), true)
	}
	for i := 0; i < nB; i++ {
		c20Blank(c, c.RNG.Fork())
	}
}

// c20SpyDecoder is the inner decoder of the decoder cases: it renders the logical value as JSON for
// whatever type it is handed (keys: `dials` tags, as the JSON decoder will read them) and lets the real
// JSON decoder decode that text.
type c20SpyDecoder struct {
	src   *c20Src
	texts []string
}

func (d *c20SpyDecoder) Decode(r io.Reader, t *dials.Type) (reflect.Value, error) {
	io.ReadAll(r)
	v, err := d.src.Value(context.Background(), t)
	if err != nil {
		return reflect.Value{}, err
	}
	text := c20JSON(v)
	d.texts = append(d.texts, text)
	return (&jsondec.Decoder{}).Decode(strings.NewReader(text), t)
}

func c20JSON(v reflect.Value) string {
	switch v.Kind() {
	case reflect.Ptr:
		if v.IsNil() {
			return "null"
		}
		if tm, ok := v.Interface().(*c20Temp); ok {
			b, _ := tm.MarshalText()
			return strconv.Quote(string(b))
		}
		return c20JSON(v.Elem())
	case reflect.Struct:
		if tm, ok := v.Interface().(c20Temp); ok {
			b, _ := tm.MarshalText()
			return strconv.Quote(string(b))
		}
		var parts []string
		t := v.Type()
		for i := 0; i < t.NumField(); i++ {
			fv := v.Field(i)
			switch fv.Kind() {
			case reflect.Ptr, reflect.Slice, reflect.Map:
				if fv.IsNil() {
					continue
				}
			}
			key := t.Field(i).Tag.Get("dials")
			if key == "" {
				key = t.Field(i).Name
			}
			parts = append(parts, strconv.Quote(key)+":"+c20JSON(fv))
		}
		return "{" + strings.Join(parts, ",") + "}"
	case reflect.Slice:
		parts := make([]string, v.Len())
		for i := range parts {
			parts[i] = c20JSON(v.Index(i))
		}
		return "[" + strings.Join(parts, ",") + "]"
	case reflect.Map:
		var parts []string
		for _, k := range v.MapKeys() {
			parts = append(parts, strconv.Quote(k.String())+":{}")
		}
		sort.Strings(parts)
		return "{" + strings.Join(parts, ",") + "}"
	case reflect.String:
		return strconv.Quote(v.String())
	case reflect.Bool:
		return strconv.FormatBool(v.Bool())
	case reflect.Int, reflect.Int64:
		if d, ok := v.Interface().(time.Duration); ok {
			return strconv.Quote(d.String())
		}
		return strconv.FormatInt(v.Int(), 10)
	case reflect.Float64:
		return strconv.FormatFloat(v.Float(), 'g', -1, 64)
	}
	return "null"
}

func c20Transforming(c *Ctx, r *RNG, decoder bool) {
	res := c.Res
	ms := c20GenManglers(r, true, decoder)
	kinds := []string{"static", "watcher", "watcher", "failValue", "failWatch"}
	kind := kinds[r.Intn(len(kinds))]
	if decoder {
		ms.single = nil
		kind = []string{"static", "static", "static", "failValue"}[r.Intn(4)]
	}
	gateMode := ""
	if ms.gate != nil {
		switch r.Intn(5) {
		case 0:
			gateMode = "failMangle"
			ms.gate.failMangle = true
		case 1:
			gateMode = "failUnmangleInitial"
		default:
			gateMode = "pass"
		}
	}
	hasAlias := false
	for _, n := range ms.names {
		if n == "alias" {
			hasAlias = true
		}
	}
	lg0 := c20GenLogical(r, false)
	pick := r.Intn(2)
	both := hasAlias && r.Chance(8)
	var upds []c20Upd
	if kind == "watcher" {
		n := 1 + r.Intn(6)
		for i := 0; i < n; i++ {
			switch {
			case r.Chance(12):
				upds = append(upds, c20Upd{Kind: "error", ErrText: "trouble-" + strconv.Itoa(r.Intn(1000))})
			default:
				u := c20Upd{Kind: "report", Blocking: r.Chance(55)}
				u.RevFail = ms.gate != nil && !ms.gate.failMangle && r.Chance(15)
				invalid := !u.RevFail && r.Chance(10)
				if invalid {
					u.Blocking = true
				}
				u.Lg = c20GenLogical(r, invalid)
				upds = append(upds, u)
			}
		}
		if r.Chance(50) {
			upds = append(upds, c20Upd{Kind: "done"})
		}
	}
	cs := c20Case{Manglers: ms.names, Inner: kind, GateMode: gateMode, Initial: c20ShowLogical(lg0), AliasPick: pick, BothAlias: both, Decoder: decoder}
	nrep := 0
	for _, u := range upds {
		switch u.Kind {
		case "report":
			nrep++
			cs.Updates = append(cs.Updates, fmt.Sprintf("report blocking=%v revfail=%v %s", u.Blocking, u.RevFail, c20ShowLogical(u.Lg)))
		case "error":
			cs.Updates = append(cs.Updates, "error "+u.ErrText)
		default:
			cs.Updates = append(cs.Updates, "done")
		}
	}
	recAnswer := kind == "watcher" && r.Chance(15)
	cs.RecAnswers = recAnswer
	canon := fmt.Sprintf("%v|%s|%s|%s|%v|%d|%v|%v", cs.Manglers, kind, gateMode, cs.Initial, cs.Updates, pick, both, decoder)
	res.Case(canon, len(ms.ms) > 0 || nrep > 0, cs)
	res.Count("wrap.inner=" + kind)
	res.Count(fmt.Sprintf("wrap.manglers=%d", len(ms.ms)))
	for _, n := range ms.names {
		res.Count("wrap.mangler=" + strings.SplitN(n, ":", 2)[0])
	}
	if decoder {
		res.Count("wrap.decoder")
	}
	if ms.single != nil {
		res.Count("wrap.via=ReformatDialsTagSource")
	}
	bad := false
	viol := func(what string, exp, obs any) {
		bad = true
		res.Add(Finding{Kind: "violation", What: what, Case: cs, Expected: exp, Observed: obs})
	}
	disagree := func(what string, model, obs any) {
		bad = true
		res.Add(Finding{Kind: "disagreement", What: what, Case: cs, Model: model, Observed: obs})
	}

	ctx, cancel := context.WithCancel(context.Background())
	defer cancel()
	typ := dials.NewType(c20PType)
	setGate := func(fail bool) {
		if ms.gate != nil {
			ms.gate.failUnmangle.Store(fail)
		}
	}
	initialRevFail := gateMode == "failUnmangleInitial"

	// ---- the harness's own pipeline ----
	own := transform.NewTransformer(c20PType, ms.ms...)
	ownT, ownTErr := own.TranslateType()
	newInner := func() (*c20Src, *c20WSrc, dials.Source) {
		switch kind {
		case "watcher", "failWatch":
			w := &c20WSrc{c20Src: c20Src{lg: lg0, pick: pick, both: both}, failWatch: kind == "failWatch"}
			return &w.c20Src, w, w
		default:
			s := &c20Src{lg: lg0, pick: pick, both: both, failValue: kind == "failValue"}
			return s, nil, s
		}
	}
	mkWrapped := func() (*c20Src, *c20WSrc, *c20SpyDecoder, dials.Source) {
		s, w, src := newInner()
		if decoder {
			spy := &c20SpyDecoder{src: s}
			return s, nil, spy, &static.StringSource{Data: "{}", Decoder: sourcewrap.NewTransformingDecoder(spy, ms.ms...)}
		}
		return s, w, nil, ms.wrap(src)
	}
	// expected result of the initial Value
	var expLg c20Logical
	var expInnerErr, expRevErr error
	if ownTErr == nil {
		if kind == "failValue" {
			expInnerErr = errC20Inner
		} else {
			v1, _ := c20Fill(ownT, lg0, pick, both)
			if decoder {
				// the inner decoder is the real JSON decoder reading the rendered text
				var derr error
				v1, derr = (&jsondec.Decoder{}).Decode(strings.NewReader(c20JSON(v1)), dials.NewType(ownT))
				expInnerErr = derr
			}
			if expInnerErr == nil {
				setGate(initialRevFail)
				v, rerr := own.ReverseTranslate(v1)
				setGate(false)
				if rerr != nil {
					expRevErr = rerr
				} else {
					expLg = c20Logical{}
					c20Leaves(v, expLg)
				}
			}
		}
	}
	modelKind := "src"
	if decoder {
		modelKind = "dec"
	}
	modelVal := c20DecodeReply(c.Drv.Ask(fmt.Sprintf("wr val %s %s %s %s", modelKind, c20Outcome(ownTErr), c20Outcome(expInnerErr), c20Outcome(expRevErr))))

	// ---- stage A: the wrapper alone ----
	inS, inW, _, wrapped := mkWrapped()
	setGate(initialRevFail)
	gotV, gotErr := c20SafeValue(wrapped, ctx, typ)
	setGate(false)
	if len(inS.bad) > 0 {
		res.Notes = append(res.Notes, "harness filler could not convert: "+strings.Join(inS.bad, "; "))
		res.OutOfDomain++
		return
	}
	obsVal := "ok"
	if gotErr != nil {
		var text string
		if epn := catch(func() { text = gotErr.Error() }); epn != "" {
			// an error value that cannot even be printed: its wrapper carries no cause
			viol("the wrapper's Value/Decode returned an error whose Error() panics (a wrapper around a nil cause): the failure it stands for is lost", "an error that says what failed", epn)
			return
		}
		obsVal = "err " + text
	}
	if obsVal != modelVal {
		disagree("Value/Decode of the wrapper: outcome differs from the model (which error is returned, with which prefix)", modelVal, obsVal)
	}
	// direct oracles
	switch {
	case ownTErr != nil:
		res.Count("wrap.value=translate-error")
		if gotErr == nil || !strings.HasSuffix(gotErr.Error(), ownTErr.Error()) {
			viol("type translation failed but the wrapper's Value/Decode did not return that error", ownTErr.Error(), obsVal)
		}
	case expInnerErr != nil:
		res.Count("wrap.value=inner-error")
		if gotErr == nil || !errors.Is(gotErr, expInnerErr) && !strings.HasSuffix(gotErr.Error(), expInnerErr.Error()) {
			viol("the inner source/decoder failed but the wrapper's Value/Decode did not return that error (swallowed)", expInnerErr.Error(), obsVal)
		}
	case expRevErr != nil:
		res.Count("wrap.value=reverse-error")
		if gotErr == nil || !strings.HasSuffix(gotErr.Error(), expRevErr.Error()) {
			viol("reverse translation failed but the wrapper's Value/Decode did not return that error", expRevErr.Error(), obsVal)
		} else if errors.Is(expRevErr, errC20GateUnmangle) && !errors.Is(gotErr, errC20GateUnmangle) {
			viol("reverse translation failed: the error the wrapper returned does not lead (errors.Is) to the mangler's error", errC20GateUnmangle.Error(), obsVal)
		}
	default:
		res.Count("wrap.value=ok")
		if gotErr != nil {
			viol("every step succeeds but the wrapper's Value/Decode failed", "ok", obsVal)
		} else {
			if len(inS.types) != 1 || inS.types[0] != ownT {
				viol("the inner source was not asked for the translated type exactly once", ownT.String(), fmt.Sprint(inS.types))
			}
			if gotV.Type() != c20PType {
				viol("wrapper's Value is not of the requested type", c20PType.String(), gotV.Type().String())
			} else {
				got := c20Logical{}
				c20Leaves(gotV, got)
				if !c20SameLogical(got, expLg) {
					viol("wrapper's Value differs from reverse(inner(translate(T)))", c20ShowLogical(expLg), c20ShowLogical(got))
				} else if !both && !c20SameLogical(got, lg0) {
					viol("wrapped value differs from the logical value the inner source holds (lossy mangler list)", c20ShowLogical(lg0), c20ShowLogical(got))
				}
			}
		}
	}
	if !decoder {
		_, isW := wrapped.(dials.Watcher)
		innerIsW := inW != nil
		if m := c.Drv.Ask("wr iswatcher " + map[bool]string{true: "1", false: "0"}[innerIsW]); (m == "1") != isW {
			disagree("wrapper implements dials.Watcher", m, isW)
		}
		if isW != innerIsW {
			viol("NewTransformingSource changed whether the source is a Watcher", innerIsW, isW)
		}
	}
	if inW != nil && !bad {
		rec := &c20Rec{}
		if recAnswer {
			rec.answer = errors.New("recorder says no")
		}
		werr := c20SafeWatch(wrapped.(dials.Watcher), ctx, typ, rec)
		var expW error
		if ownTErr == nil && kind == "failWatch" {
			expW = errC20InnerWatch
		}
		mW := c20DecodeReply(c.Drv.Ask(fmt.Sprintf("wr watch %s %s", c20Outcome(ownTErr), c20Outcome(expW))))
		if o := c20DecodeReply(c20ShowErr(werr)); o != mW {
			disagree("Watch of the wrapper: outcome differs from the model", mW, o)
		}
		if (ownTErr != nil || expW != nil) && werr == nil {
			viol("Watch of the wrapper swallowed an error", fmt.Sprint(ownTErr, expW), "nil")
		}
		if expW != nil && !errors.Is(werr, expW) {
			viol("Watch of the wrapper does not wrap the inner watcher's error", expW.Error(), fmt.Sprint(werr))
		}
		if ownTErr == nil && inW.wtype != ownT {
			viol("the inner watcher was not given the translated type", ownT.String(), fmt.Sprint(inW.wtype))
		}
		if werr == nil && inW.args != nil {
			// the inner watcher's calls
			var req []string
			type exp struct {
				msgs string
				ret  string
			}
			var obs []exp
			var natives []c20Logical // expected logical value of each delivered value
			var nativeBlocking []bool
			for j, u := range upds {
				before := len(rec.msgs)
				var ret error
				switch u.Kind {
				case "report":
					v1, badf := c20Fill(ownT, u.Lg, pick, false)
					if len(badf) > 0 {
						res.OutOfDomain++
						return
					}
					setGate(u.RevFail)
					_, ownRevErr := own.ReverseTranslate(v1)
					v2, _ := c20Fill(ownT, u.Lg, pick, false)
					if u.Blocking {
						ret = inW.args.BlockingReportNewValue(ctx, v2)
					} else {
						ret = inW.args.ReportNewValue(ctx, v2)
					}
					setGate(false)
					req = append(req, fmt.Sprintf("%s:%d:%s", map[bool]string{true: "b", false: "r"}[u.Blocking], j, c20Outcome(ownRevErr)))
					if ownRevErr == nil {
						natives = append(natives, u.Lg)
						nativeBlocking = append(nativeBlocking, u.Blocking)
					}
				case "error":
					ret = inW.args.ReportError(ctx, errors.New(u.ErrText))
					req = append(req, "x:"+hexEnc(u.ErrText))
				case "done":
					inW.args.Done(ctx)
					req = append(req, "d")
				}
				var ms []string
				for _, m := range rec.msgs[before:] {
					switch m.kind {
					case "V0", "V1":
						b := m.kind[1:]
						if m.val.IsValid() && m.val.Type() == c20PType {
							ms = append(ms, fmt.Sprintf("V:%s:%d", b, j))
						} else {
							ms = append(ms, fmt.Sprintf("RAW:%s:%d", b, j))
						}
					case "D":
						ms = append(ms, "D")
					case "E":
						ms = append(ms, "E:"+hexEnc(m.err.Error()))
					}
				}
				mtxt := "-"
				if len(ms) > 0 {
					mtxt = strings.Join(ms, ",")
				}
				rtxt := "ok"
				if ret != nil {
					if recAnswer && ret == rec.answer {
						rtxt = "ok" // the underlying args' own answer came back unchanged
					} else {
						rtxt = "err:" + hexEnc(ret.Error())
					}
				} else if recAnswer && u.Kind == "report" && len(ms) > 0 {
					viol("the underlying WatchArgs' answer to a report did not come back through the wrapper", rec.answer.Error(), "nil")
				}
				obs = append(obs, exp{mtxt, rtxt})
			}
			if len(req) > 0 {
				model := strings.Fields(c.Drv.Ask("wr upd " + strings.Join(req, " ")))
				var o []string
				for _, e := range obs {
					o = append(o, e.msgs+"/"+e.ret)
				}
				if strings.Join(model, " ") != strings.Join(o, " ") {
					disagree("messages reaching the underlying WatchArgs / answers to the reporter differ from the model", strings.Join(model, " "), strings.Join(o, " "))
				}
			}
			// direct oracle: the values that reached the recorder are exactly the logical values, in order, by the same method
			k := 0
			for _, m := range rec.msgs {
				if m.kind != "V0" && m.kind != "V1" {
					continue
				}
				if !m.val.IsValid() || m.val.Type() != c20PType {
					ty := "invalid"
					if m.val.IsValid() {
						ty = m.val.Type().String()
					}
					viol("a value reported by the wrapped watcher reached the underlying WatchArgs without being reverse-translated (not of the type dials asked for)", c20PType.String(), ty)
					break
				}
				if k >= len(natives) {
					viol("more values reached the underlying WatchArgs than were reported", len(natives), k+1)
					break
				}
				got := c20Logical{}
				c20Leaves(m.val, got)
				if !c20SameLogical(got, natives[k]) {
					viol("a reported value arrived changed", c20ShowLogical(natives[k]), c20ShowLogical(got))
				}
				k++
			}
			if k < len(natives) && !bad {
				viol("a reported value never reached the underlying WatchArgs", len(natives), k)
			}
			k = 0
			for _, m := range rec.msgs {
				if m.kind[0] != 'V' || k >= len(nativeBlocking) {
					continue
				}
				if want := map[bool]string{true: "V1", false: "V0"}[nativeBlocking[k]]; m.kind != want {
					viol("a report reached the underlying WatchArgs through the other report method", want, m.kind)
				}
				k++
			}
		}
	}
	if bad {
		return // stage B would feed a broken wrapper to a real monitor goroutine (a panic there kills the process)
	}

	// ---- stage B: real Dials, wrapped next to native ----
	c20StageB(c, cs, ms, kind, decoder, lg0, pick, both, initialRevFail, upds, ownTErr, expInnerErr, expRevErr, mkWrapped, newInner)
}

func c20SafeValue(s dials.Source, ctx context.Context, t *dials.Type) (v reflect.Value, err error) {
	defer func() {
		if p := recover(); p != nil {
			err = fmt.Errorf("panic: %v", p)
		}
	}()
	return s.Value(ctx, t)
}

func c20SafeWatch(w dials.Watcher, ctx context.Context, t *dials.Type, a dials.WatchArgs) (err error) {
	defer func() {
		if p := recover(); p != nil {
			err = fmt.Errorf("panic: %v", p)
		}
	}()
	return w.Watch(ctx, t, a)
}

type c20ErrLog struct {
	mu   sync.Mutex
	errs []error
}

func (l *c20ErrLog) handler(_ context.Context, err error, _, _ *c20Cfg) {
	l.mu.Lock()
	l.errs = append(l.errs, err)
	l.mu.Unlock()
}
func (l *c20ErrLog) has(text string) bool {
	l.mu.Lock()
	defer l.mu.Unlock()
	for _, e := range l.errs {
		if strings.Contains(e.Error(), text) {
			return true
		}
	}
	return false
}

func c20Config(ctx context.Context, log *c20ErrLog, src dials.Source) (d *dials.Dials[c20Cfg], err error) {
	defer func() {
		if p := recover(); p != nil {
			err = fmt.Errorf("panic: %v", p)
		}
	}()
	return dials.Params[c20Cfg]{OnWatchedError: log.handler}.Config(ctx, c20Defaults(), src)
}

func c20Serial(d *dials.Dials[c20Cfg]) uint64 {
	_, s := d.ViewVersion()
	return dials.VerifCfgSerial(s)
}

func c20WaitSerial(d *dials.Dials[c20Cfg], want uint64) bool {
	deadline := time.Now().Add(3 * time.Second)
	for c20Serial(d) < want {
		if time.Now().After(deadline) {
			return false
		}
		time.Sleep(50 * time.Microsecond)
	}
	return true
}

func c20StageB(c *Ctx, cs c20Case, ms *c20Manglers, kind string, decoder bool, lg0 c20Logical, pick int, both, initialRevFail bool,
	upds []c20Upd, ownTErr, expInnerErr, expRevErr error,
	mkWrapped func() (*c20Src, *c20WSrc, *c20SpyDecoder, dials.Source), newInner func() (*c20Src, *c20WSrc, dials.Source)) {
	res := c.Res
	viol := func(what string, exp, obs any) {
		res.Add(Finding{Kind: "violation", What: what, Case: cs, Expected: exp, Observed: obs})
	}
	ctx, cancel := context.WithCancel(context.Background())
	defer cancel()
	setGate := func(fail bool) {
		if ms.gate != nil {
			ms.gate.failUnmangle.Store(fail)
		}
	}
	_, wW, _, wrapped := mkWrapped()
	_, nW, native := newInner()
	logW, logN := &c20ErrLog{}, &c20ErrLog{}
	setGate(initialRevFail)
	dW, errW := c20Config(ctx, logW, wrapped)
	setGate(false)
	dN, errN := c20Config(ctx, logN, native)
	res.TracesVsImpl++
	wantErr := ownTErr != nil || expInnerErr != nil || expRevErr != nil || kind == "failWatch"
	if wantErr {
		res.Count("wrap.config=error")
		if errW == nil {
			viol("an error of the wrapped source (translate / inner Value / reverse / inner Watch) did not surface from dials.Config", "error", "nil")
			return
		}
		if strings.HasPrefix(errW.Error(), "panic:") {
			viol("dials.Config panicked on the wrapped source", "error", errW.Error())
			return
		}
		switch {
		case ownTErr != nil:
		case kind == "failValue":
			if !errors.Is(errW, errC20Inner) || !errors.Is(errN, errC20Inner) {
				viol("the inner source's Value error is not what dials.Config returns (wrapped vs native)", fmt.Sprint(errN), fmt.Sprint(errW))
			}
		case expInnerErr != nil: // JSON decoder error
		case expRevErr != nil:
			if !strings.HasSuffix(errW.Error(), expRevErr.Error()) {
				viol("the reverse-translation error is not what dials.Config returns", expRevErr.Error(), errW.Error())
			}
		case kind == "failWatch":
			if !errors.Is(errW, errC20InnerWatch) || !errors.Is(errN, errC20InnerWatch) {
				viol("the inner watcher's Watch error is not what dials.Config returns (wrapped vs native)", fmt.Sprint(errN), fmt.Sprint(errW))
			}
		}
		return
	}
	if errW != nil || errN != nil {
		viol("dials.Config failed though every step succeeds", "nil, nil (wrapped, native)", fmt.Sprint(errW, " / ", errN))
		return
	}
	res.Count("wrap.config=ok")
	cmp := func(when string) bool {
		vw, vn := dW.View(), dN.View()
		if !reflect.DeepEqual(vw, vn) {
			viol("View() through the wrapper differs from View() of the natively fed reference "+when, c20ShowLogical(c20ViewLeaves(vn)), c20ShowLogical(c20ViewLeaves(vw)))
			return false
		}
		return true
	}
	if !cmp("after Config") {
		return
	}
	if !both {
		// leaf oracle: every leaf the source set shows in the view
		got := c20ViewLeaves(dW.View())
		for id, v := range lg0 {
			if !reflect.DeepEqual(got[id], v) {
				viol("a leaf set by the wrapped source does not show in View()", fmt.Sprintf("%s=%v", id, v), fmt.Sprintf("%v", got[id]))
				return
			}
		}
	}
	if wW == nil || nW == nil || wW.args == nil || nW.args == nil {
		return
	}
	cur := lg0
	for j, u := range upds {
		when := fmt.Sprintf("after update %d (%s)", j, u.Kind)
		switch u.Kind {
		case "report":
			vW, _ := c20Fill(wW.wtype, u.Lg, pick, false)
			vN, _ := c20Fill(nW.wtype, u.Lg, pick, false)
			invalid := u.Lg["invalid"] == true
			sW, sN := c20Serial(dW), c20Serial(dN)
			if u.Blocking {
				setGate(u.RevFail)
				eW := wW.args.BlockingReportNewValue(ctx, vW)
				setGate(false)
				var eN error
				if !u.RevFail {
					eN = nN(nW).BlockingReportNewValue(ctx, vN)
				}
				res.Count("wrap.update=blocking")
				switch {
				case u.RevFail:
					if eW == nil || !errors.Is(eW, errC20GateUnmangle) {
						viol("a value that cannot be reverse-translated: the blocking report did not return that error", errC20GateUnmangle.Error(), fmt.Sprint(eW))
						return
					}
				case invalid:
					if eW == nil || eN == nil || !errors.Is(eW, errC20Invalid) {
						viol("a rejected (invalid) value: the blocking report through the wrapper did not return dials' verification error", fmt.Sprint(eN), fmt.Sprint(eW))
						return
					}
				default:
					if eW != nil || eN != nil {
						viol("blocking report of a valid value failed", "nil / nil", fmt.Sprint(eW, " / ", eN))
						return
					}
					cur = u.Lg
				}
			} else {
				setGate(u.RevFail)
				eW := wW.args.ReportNewValue(ctx, vW)
				setGate(false)
				res.Count("wrap.update=nonblocking")
				if u.RevFail {
					if eW == nil || !errors.Is(eW, errC20GateUnmangle) {
						viol("a value that cannot be reverse-translated: ReportNewValue did not return that error", errC20GateUnmangle.Error(), fmt.Sprint(eW))
						return
					}
				} else {
					eN := nN(nW).ReportNewValue(ctx, vN)
					if eW != nil || eN != nil {
						viol("ReportNewValue failed", "nil / nil", fmt.Sprint(eW, " / ", eN))
						return
					}
					if !c20WaitSerial(dW, sW+1) {
						viol("a value reported with ReportNewValue through the wrapper never became visible", fmt.Sprintf("serial %d", sW+1), fmt.Sprintf("serial %d", c20Serial(dW)))
						return
					}
					if !c20WaitSerial(dN, sN+1) {
						res.Notes = append(res.Notes, "reference Dials did not install a non-blocking report in time")
						return
					}
					cur = u.Lg
				}
			}
			if !cmp(when) {
				return
			}
			got := c20ViewLeaves(dW.View())
			for id, v := range cur {
				if !reflect.DeepEqual(got[id], v) {
					viol("a leaf of the latest accepted update does not show in View() "+when, fmt.Sprintf("%s=%v", id, v), fmt.Sprintf("%v", got[id]))
					return
				}
			}
		case "error":
			e := errors.New(u.ErrText)
			if err := wW.args.ReportError(ctx, e); err != nil {
				viol("ReportError through the wrapper failed", "nil", err.Error())
				return
			}
			nN(nW).ReportError(ctx, e)
			deadline := time.Now().Add(3 * time.Second)
			for !(logW.has(u.ErrText) && logN.has(u.ErrText)) {
				if time.Now().After(deadline) {
					if !logW.has(u.ErrText) && logN.has(u.ErrText) {
						viol("an error reported by the wrapped watcher never reached OnWatchedError", u.ErrText, "nothing")
					}
					return
				}
				time.Sleep(50 * time.Microsecond)
			}
			res.Count("wrap.update=error")
		case "done":
			wW.args.Done(ctx)
			nN(nW).Done(ctx)
			res.Count("wrap.update=done")
			// the wrapper's Done reached dials: the monitor (single watcher) exits and later registrations are refused
			deadline := time.Now().Add(3 * time.Second)
			for {
				_, s := dW.ViewVersion()
				un := dW.RegisterCallback(ctx, s, func(context.Context, *c20Cfg, *c20Cfg) {})
				if un == nil {
					break
				}
				if time.Now().After(deadline) {
					viol("Done through the wrapper did not reach dials (the monitor is still running)", "monitor exited", "still accepting registrations")
					return
				}
				time.Sleep(100 * time.Microsecond)
			}
			if !cmp(when) {
				return
			}
		}
	}
}

func nN(w *c20WSrc) dials.WatchArgs { return w.args }
