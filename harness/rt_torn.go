package main

// C05, implementation-only stream: readers spin on ViewVersion while a source has one value after another installed.
// The config and the serial ViewVersion returns belong to ONE installed version: over a whole run, "serial -> config"
// and "config -> serial" are functions, and the config of the k-th install is the one stacked from the k-th report.
// (The model's view is one atomic (serial, cfg) pair - fact F4v ties that to the single atomic load in ViewVersion.)

import (
	"context"
	"fmt"
	"reflect"
	"sync"
	"sync/atomic"
	"time"

	"github.com/vimeo/dials"
)

func rtTornView(c *Ctx, runs int) {
	res := c.Res
	for i := 0; i < runs; i++ {
		seven := 7
		defaults := &ruCfg{Name: "default", Count: 1, Limits: map[string]int{"d": 1}, Tags: []string{"dt"}, Opt: &seven, Sub: ruSub{Weights: map[string]int{"dw": 1}}}
		src := &ruSrc{}
		ctx, cancel := context.WithCancel(context.Background())
		d, err := dials.Config(ctx, defaults, src)
		cs := map[string]any{"stream": "ViewVersion read while versions are installed", "run": i}
		if err != nil {
			res.Add(Finding{Kind: "violation", What: "Config failed: " + err.Error(), Case: cs})
			cancel()
			continue
		}
		_, tok0 := d.ViewVersion()
		s0 := dials.VerifCfgSerial(tok0)
		type pair struct {
			cfg    *ruCfg
			serial uint64
		}
		var stop atomic.Bool
		var wg sync.WaitGroup
		seen := make([]map[pair]struct{}, 6)
		for g := range seen {
			seen[g] = map[pair]struct{}{}
			wg.Add(1)
			go func(m map[pair]struct{}) {
				defer wg.Done()
				for !stop.Load() {
					cfg, tok := d.ViewVersion()
					m[pair{cfg, dials.VerifCfgSerial(tok)}] = struct{}{}
				}
			}(seen[g])
		}
		const installs = 400
		failed := ""
		for k := 1; k <= installs && failed == ""; k++ {
			src.obj = reflect.New(src.obj.Type().Elem())
			src.write(ruContent{name: fmt.Sprintf("n%d", k), count: k + 1, limits: map[string]int{"a": k}, tags: []string{"t"}, opt: k, hasOpt: true, w: map[string]int{"w": k}, hosts: []string{"h", "h"}, quota: k})
			rctx, rc := context.WithTimeout(ctx, 5*time.Second)
			if rerr := src.wa.BlockingReportNewValue(rctx, src.obj); rerr != nil {
				failed = "blocking report failed: " + rerr.Error()
			}
			rc()
		}
		stop.Store(true)
		wg.Wait()
		cancel()
		if failed != "" {
			res.Add(Finding{Kind: "violation", What: failed, Case: cs})
			continue
		}
		bySerial, byCfg := map[uint64]*ruCfg{}, map[*ruCfg]uint64{}
		pairs := 0
		for _, m := range seen {
			for p := range m {
				pairs++
				if o, ok := bySerial[p.serial]; ok && o != p.cfg {
					failed = fmt.Sprintf("ViewVersion returned serial %d with two different configs (Count %d and Count %d)", p.serial-s0, o.Count, p.cfg.Count)
				}
				if o, ok := byCfg[p.cfg]; ok && o != p.serial {
					failed = fmt.Sprintf("ViewVersion returned one config (Count %d) with two different serials (%d and %d after the first)", p.cfg.Count, o-s0, p.serial-s0)
				}
				bySerial[p.serial], byCfg[p.cfg] = p.cfg, p.serial
				// install k (serial s0+k) was stacked from the report with count k+1; the first version has the default 1
				if want := int(p.serial-s0) + 1; failed == "" && p.cfg.Count != want {
					failed = fmt.Sprintf("ViewVersion returned the config of install %d with the serial of install %d", p.cfg.Count-1, p.serial-s0)
				}
			}
		}
		cs["distinct_pairs"] = pairs
		if failed != "" {
			res.Add(Finding{Kind: "violation", What: failed + ": config and serial are not one snapshot", Case: cs})
		}
		res.Count("torn-view/runs")
		res.Case(fmt.Sprint("TORN|", i), pairs >= 3, cs)
	}
}
