package main

// C20, Blank: a SetSource whose context is cancelled AFTER the value reached the monitor and BEFORE the monitor
// answered (held open through the config's own Verify, which the harness gates).  The cancelled call returns its
// context's error; nothing else may change: the Blank keeps delegating to the most recently set source - a later
// SetSource with a healthy context succeeds and its value is the one in the view -, a second watching source's
// updates keep arriving, and Done is still taken.

import (
	"context"
	"fmt"
	"reflect"
	"sync/atomic"
	"time"

	"github.com/vimeo/dials"
	"github.com/vimeo/dials/sourcewrap"
)

type c20VGate struct {
	armed   atomic.Bool
	entered chan struct{}
	release chan struct{}
}

type c20GCfg struct {
	A int
	B int
	// unexported: carried verbatim from the defaults into every stacked config
	g *c20VGate
}

func (c *c20GCfg) Verify() error {
	if c.g != nil && c.g.armed.CompareAndSwap(true, false) {
		c.g.entered <- struct{}{}
		<-c.g.release
	}
	return nil
}

type c20GStatic struct{ a int }

func (s c20GStatic) Value(_ context.Context, t *dials.Type) (reflect.Value, error) {
	v := reflect.New(t.Type()).Elem()
	a := s.a
	v.Field(0).Set(reflect.ValueOf(&a))
	return v, nil
}

// a second, ordinary watching source (field B)
type c20GWatcher struct {
	args dials.WatchArgs
	typ  *dials.Type
}

func (s *c20GWatcher) Value(_ context.Context, t *dials.Type) (reflect.Value, error) {
	return reflect.New(t.Type()).Elem(), nil
}
func (s *c20GWatcher) Watch(_ context.Context, t *dials.Type, a dials.WatchArgs) error {
	s.args, s.typ = a, t
	return nil
}

func c20BlankCancel(c *Ctx, r *RNG, n int) {
	res := c.Res
	const limit = 5 * time.Second
	for i := 0; i < n; i++ {
		a0, a1, a2, a3, b1 := 10+r.Intn(10), 100+r.Intn(100), 300+r.Intn(100), 500+r.Intn(100), 700+r.Intn(100)
		before := r.Intn(3) // SetSource calls that complete normally before the cancelled one
		cs := map[string]any{"stream": "Blank.SetSource cancelled between submission and the monitor's answer", "values": []int{a0, a1, a2, a3, b1}, "completed_before": before}
		g := &c20VGate{entered: make(chan struct{}), release: make(chan struct{})}
		ctx, cancel := context.WithCancel(context.Background())
		b := &sourcewrap.Blank{}
		w := &c20GWatcher{}
		d, err := dials.Config(ctx, &c20GCfg{A: a0, g: g}, b, w)
		if err != nil {
			res.Add(Finding{Kind: "violation", What: "Config with a Blank and a watcher failed: " + err.Error(), Case: cs})
			cancel()
			continue
		}
		fail := func(what string, exp, obs any) {
			res.Add(Finding{Kind: "violation", What: what, Case: cs, Expected: exp, Observed: obs})
		}
		okCtx := func() (context.Context, context.CancelFunc) { return context.WithTimeout(ctx, limit) }
		good := true
		for k := 0; k < before && good; k++ {
			sc, c1 := okCtx()
			if err := b.SetSource(sc, c20GStatic{a1 + k}); err != nil {
				fail("Blank.SetSource of a static source failed: "+err.Error(), nil, nil)
				good = false
			}
			c1()
		}
		if good {
			// the cancelled call
			g.armed.Store(true)
			cctx, ccancel := context.WithCancel(ctx)
			ret := make(chan error, 1)
			go func() { ret <- b.SetSource(cctx, c20GStatic{a2}) }()
			select {
			case <-g.entered: // the monitor holds the value and is verifying it
			case <-time.After(limit):
				fail("the value of a SetSource call never reached Verify", nil, nil)
				good = false
			}
			if good {
				ccancel()
				select {
				case err := <-ret:
					if err == nil {
						fail("SetSource returned nil although its context was cancelled before the monitor answered", "context error", nil)
					}
				case <-time.After(limit):
					fail("SetSource did not return after its context was cancelled", nil, nil)
					good = false
				}
				close(g.release)
			}
			ccancel()
		}
		if good {
			// the Blank still delegates to the most recently set source
			sc, c1 := okCtx()
			if err := b.SetSource(sc, c20GStatic{a3}); err != nil {
				fail("after a cancelled SetSource, the next SetSource (healthy context) failed: "+err.Error(), nil, d.View().A)
				good = false
			} else if got := d.View().A; got != a3 {
				fail("after a cancelled SetSource, the Blank does not show the most recently set source's value", a3, got)
				good = false
			}
			c1()
		}
		if good {
			// other watching sources' updates keep arriving
			sc, c1 := okCtx()
			v := reflect.New(w.typ.Type()).Elem()
			bb := b1
			v.Field(1).Set(reflect.ValueOf(&bb))
			if err := w.args.BlockingReportNewValue(sc, v); err != nil {
				fail("after a cancelled SetSource, another watching source's blocking report failed: "+err.Error(), nil, nil)
			} else if got := *d.View(); got.A != a3 || got.B != b1 {
				fail("after a cancelled SetSource, another watching source's update did not arrive", fmt.Sprintf("A=%d B=%d", a3, b1), fmt.Sprintf("A=%d B=%d", got.A, got.B))
			}
			c1()
		}
		cancel()
		res.Count("blank.cancelled-setsource")
		res.Case(fmt.Sprintf("cancel|%d|%d|%d|%d|%d", before, a0, a2, a3, b1), true, cs)
	}
}

// ---------- the same source object set on a Blank again ----------
//
// SetSource(s) asks s for its value NOW and reports it; that s is already the Blank's inner source is no reason to
// skip either step (a static-looking source may read a file, a map, a field that changed in between).

type c20GMutable struct{ a int }

func (s *c20GMutable) Value(_ context.Context, t *dials.Type) (reflect.Value, error) {
	v := reflect.New(t.Type()).Elem()
	a := s.a
	v.Field(0).Set(reflect.ValueOf(&a))
	return v, nil
}

func c20BlankSameSource(c *Ctx, r *RNG, n int) {
	res := c.Res
	for i := 0; i < n; i++ {
		k := 2 + r.Intn(4)
		vals := make([]int, k)
		for j := range vals {
			vals[j] = 1000*(j+1) + r.Intn(1000)
		}
		cs := map[string]any{"stream": "the same source object set on a Blank repeatedly, its content changing in between", "values": vals}
		ctx, cancel := context.WithCancel(context.Background())
		b := &sourcewrap.Blank{}
		d, err := dials.Config(ctx, &c20GCfg{A: 1}, b)
		if err != nil {
			res.Add(Finding{Kind: "violation", What: "Config with a Blank failed: " + err.Error(), Case: cs})
			cancel()
			continue
		}
		src := &c20GMutable{}
		for j, v := range vals {
			src.a = v
			sc, c1 := context.WithTimeout(ctx, 5*time.Second)
			err := b.SetSource(sc, src)
			c1()
			if err != nil {
				res.Add(Finding{Kind: "violation", What: fmt.Sprintf("SetSource #%d of the same source object failed: %v", j+1, err), Case: cs})
				break
			}
			if got := d.View().A; got != v {
				res.Add(Finding{Kind: "violation", What: fmt.Sprintf("SetSource #%d (same source object, new content) returned nil, but View() shows %d; the source's value is %d", j+1, got, v), Case: cs})
				break
			}
		}
		cancel()
		res.Count("blank.same-source-again")
		res.Case(fmt.Sprint("same|", vals), true, cs)
	}
}

// ---------- a Blank that is in use is handed to a second Config ----------
//
// The second Config is refused (a Blank serves one Dials) - and that refusal must leave the Blank with the Dials it
// belongs to: SetSource still reaches the first Dials, and the Blank's Done still lets its monitor exit.

func c20BlankSecondConfig(c *Ctx, r *RNG, n int) {
	res := c.Res
	for i := 0; i < n; i++ {
		a1, a2 := 100+r.Intn(100), 300+r.Intn(100)
		cs := map[string]any{"stream": "a Blank in use handed to a second Config", "values": []int{a1, a2}}
		ctx, cancel := context.WithCancel(context.Background())
		b := &sourcewrap.Blank{}
		d1, err := dials.Config(ctx, &c20GCfg{A: 1}, b)
		if err != nil {
			res.Add(Finding{Kind: "violation", What: "Config with a Blank failed: " + err.Error(), Case: cs})
			cancel()
			continue
		}
		if r.Bool() {
			sc, c1 := context.WithTimeout(ctx, 5*time.Second)
			if err := b.SetSource(sc, c20GStatic{a1}); err != nil {
				res.Add(Finding{Kind: "violation", What: "SetSource failed: " + err.Error(), Case: cs})
			}
			c1()
		}
		ctx2, cancel2 := context.WithCancel(context.Background())
		_, err2 := dials.Config(ctx2, &c20GCfg{A: 2}, b)
		cancel2()
		if err2 == nil {
			res.Add(Finding{Kind: "violation", What: "a second Config accepted a Blank that already serves another Dials", Case: cs})
		}
		sc, c1 := context.WithTimeout(ctx, 3*time.Second)
		err = b.SetSource(sc, c20GStatic{a2})
		c1()
		if err != nil {
			res.Add(Finding{Kind: "violation", What: "after a second Config was refused, SetSource on the Blank no longer reaches its Dials: " + err.Error(), Case: cs})
		} else if got := d1.View().A; got != a2 {
			res.Add(Finding{Kind: "violation", What: "after a second Config was refused, SetSource returned nil but the first Dials does not show the value", Case: cs, Expected: a2, Observed: got})
		}
		// Done: the only watcher of the first Dials gives up its slot, its monitor exits: registrations fail from then on
		dctx, dc := context.WithTimeout(ctx, 3*time.Second)
		b.Done(dctx)
		dc()
		exited := false
		for t0 := time.Now(); time.Since(t0) < 3*time.Second; time.Sleep(2 * time.Millisecond) {
			rctx, rc := context.WithTimeout(ctx, 200*time.Millisecond)
			un := d1.RegisterCallback(rctx, dials.CfgSerial[c20GCfg]{}, func(context.Context, *c20GCfg, *c20GCfg) {})
			rc()
			if un == nil {
				exited = true
				break
			}
			uctx, uc := context.WithTimeout(ctx, 200*time.Millisecond)
			un(uctx)
			uc()
		}
		if !exited {
			res.Add(Finding{Kind: "violation", What: "after a second Config was refused, the Blank's Done no longer lets the first Dials' monitor exit (registrations still succeed 3 s later)", Case: cs})
		}
		cancel()
		res.Count("blank.second-config")
		res.Case(fmt.Sprintf("second|%d|%d", a1, a2), true, cs)
	}
}
