package main

// C06, implementation-only deterministic stream: "a registered callback is never invoked once its unregister function
// has returned true" on the shutdown path.  The callback goroutine is held inside an earlier callback while a version
// is waiting to be delivered; a later callback's unregister request queues up behind that work; the monitor exits
// (its only watcher calls Done, or the Config context is cancelled); the callback goroutine is released and delivers
// what was queued.  Whatever unregister answered, the answer `true` must mean "never invoked from now on".

import (
	"context"
	"fmt"
	"reflect"
	"sync"
	"sync/atomic"
	"time"

	"github.com/vimeo/dials"
)

type urCfg struct{ V int }

type urSrc struct {
	wa  dials.WatchArgs
	typ *dials.Type
}

func (s *urSrc) Value(_ context.Context, t *dials.Type) (reflect.Value, error) {
	return reflect.New(t.Type()).Elem(), nil
}
func (s *urSrc) Watch(_ context.Context, t *dials.Type, wa dials.WatchArgs) error {
	s.wa, s.typ = wa, t
	return nil
}
func (s *urSrc) val(v int) reflect.Value {
	out := reflect.New(s.typ.Type()).Elem()
	out.Field(0).Set(reflect.ValueOf(&v))
	return out
}

func rtUnregRace(c *Ctx, n int) {
	r := c.RNG
	res := c.Res
	for i := 0; i < n; i++ {
		byDone := r.Bool()
		extra := r.Intn(3) // further versions queued behind the first
		cs := map[string]any{"stream": "unregister racing with the monitor's exit", "monitor_exit": map[bool]string{true: "last watcher calls Done", false: "Config context cancelled"}[byDone], "versions_queued": 1 + extra}
		ctx, cancel := context.WithCancel(context.Background())
		src := &urSrc{}
		d, err := dials.Config(ctx, &urCfg{}, src)
		if err != nil {
			res.Add(Finding{Kind: "violation", What: "Config failed: " + err.Error(), Case: cs})
			cancel()
			continue
		}
		gate, entered := make(chan struct{}), make(chan struct{}, 16)
		var mu sync.Mutex
		var bCalls []time.Time
		_, ser := d.ViewVersion()
		unA := d.RegisterCallback(ctx, ser, func(context.Context, *urCfg, *urCfg) {
			entered <- struct{}{}
			<-gate
		})
		unB := d.RegisterCallback(ctx, ser, func(context.Context, *urCfg, *urCfg) {
			mu.Lock()
			bCalls = append(bCalls, time.Now())
			mu.Unlock()
		})
		if unA == nil || unB == nil {
			res.Add(Finding{Kind: "violation", What: "RegisterCallback failed on a live Dials", Case: cs})
			cancel()
			continue
		}
		ok := true
		for k := 0; k <= extra && ok; k++ {
			rctx, rc := context.WithTimeout(ctx, 5*time.Second)
			if err := src.wa.BlockingReportNewValue(rctx, src.val(k+1)); err != nil {
				res.Add(Finding{Kind: "violation", What: "blocking report failed: " + err.Error(), Case: cs})
				ok = false
			}
			rc()
		}
		if ok {
			select {
			case <-entered: // the callback goroutine is inside A for version 1; B has not been called for it yet
			case <-time.After(5 * time.Second):
				res.Add(Finding{Kind: "violation", What: "the first registered callback was not invoked for an installed version", Case: cs})
				ok = false
			}
		}
		if ok {
			var ret atomic.Int32 // 0 pending, 1 true, 2 false
			var retAt atomic.Int64
			go func() {
				uctx, uc := context.WithTimeout(context.Background(), 5*time.Second)
				defer uc()
				v := unB(uctx)
				retAt.Store(time.Now().UnixNano())
				if v {
					ret.Store(1)
				} else {
					ret.Store(2)
				}
			}()
			time.Sleep(2 * time.Millisecond) // let the request be queued (it cannot be processed: the goroutine is inside A)
			if byDone {
				dctx, dc := context.WithTimeout(context.Background(), 5*time.Second)
				src.wa.Done(dctx)
				dc()
			} else {
				cancel()
			}
			// the monitor's exit releases the unregister call
			for t0 := time.Now(); ret.Load() == 0 && time.Since(t0) < 6*time.Second; time.Sleep(time.Millisecond) {
			}
			answer := ret.Load()
			answeredAt := time.Unix(0, retAt.Load())
			close(gate)                       // the callback goroutine goes on and drains its queue
			time.Sleep(50 * time.Millisecond) // the drain of at most 3 queued versions through two trivial callbacks
			mu.Lock()
			late := 0
			for _, t := range bCalls {
				if answer == 1 && t.After(answeredAt) {
					late++
				}
			}
			mu.Unlock()
			switch {
			case answer == 0:
				res.Add(Finding{Kind: "violation", What: "unregister did not return within its context although the monitor had exited", Case: cs})
			case late > 0:
				res.Add(Finding{Kind: "violation", What: fmt.Sprintf("unregister returned true, and the callback was invoked %d time(s) afterwards (the callback goroutine still delivered what was queued before the request)", late), Case: cs})
			}
			res.Count(fmt.Sprintf("unreg-race/answer=%v", map[int32]string{0: "none", 1: "true", 2: "false"}[answer]))
		}
		cancel()
		res.Case(fmt.Sprintf("UR|%v|%d|%d", byDone, extra, i%4), true, cs)
	}
}
