package main

// C14, collection-typed aliased fields: the alias sits on a field whose type is a slice of structs, a slice of
// scalars or a map, read through the alias-wrapped JSON decoder (the way ez wraps a file decoder).  The value
// supplied under a name may be the explicitly EMPTY collection: "set to empty" is a value like any other, so
// primary-or-alias alone sets the field to it and both names together are an error naming the field.

import (
	"context"
	encjson "encoding/json"
	"fmt"
	"reflect"
	"strconv"
	"strings"

	"github.com/vimeo/dials"
	"github.com/vimeo/dials/decoders/json"
	"github.com/vimeo/dials/ptrify"
	"github.com/vimeo/dials/sources/static"
	"github.com/vimeo/dials/sourcewrap"
	"github.com/vimeo/dials/transform"
)

type c14Backend struct {
	Host string `dials:"host"`
	Port int    `dials:"port"`
}

type c14BackendA struct {
	Host string `dials:"host" dialsalias:"hostname"`
	Port *int   `dials:"port"`
}

func c14Collections(c *Ctx, n int) {
	r := c.RNG
	res := c.Res
	type fspec struct {
		name, key, alias string
		typ              reflect.Type
	}
	pool := []fspec{
		{"Backends", "backends", "upstreams", reflect.TypeOf([]c14Backend(nil))},
		{"Mirrors", "mirrors", "replicas", reflect.TypeOf([]c14BackendA(nil))},
		{"Names", "names", "labels", reflect.TypeOf([]string(nil))},
		{"Ports", "ports", "tcp_ports", reflect.TypeOf([]int(nil))},
		{"Attrs", "attrs", "meta", reflect.TypeOf(map[string]string(nil))},
		{"Limits", "limits", "quota", reflect.TypeOf(map[string]int(nil))},
	}
	for i := 0; i < n; i++ {
		var fs []fspec
		sfs := []reflect.StructField{{Name: "Title", Type: reflect.TypeOf(""), Tag: `dials:"title"`}}
		for _, f := range pool {
			if !r.Chance(55) {
				continue
			}
			tag := fmt.Sprintf(`dials:%q`, f.key)
			if r.Chance(75) {
				tag += fmt.Sprintf(` dialsalias:%q`, f.alias)
			} else {
				f.alias = ""
			}
			fs = append(fs, f)
			sfs = append(sfs, reflect.StructField{Name: f.name, Type: f.typ, Tag: reflect.StructTag(tag)})
		}
		if len(fs) == 0 {
			continue
		}
		T := reflect.StructOf(sfs)
		PT := ptrify.Pointerify(T, reflect.New(T).Elem())
		gen := func(t reflect.Type) reflect.Value {
			k := r.Intn(4)
			if r.Chance(35) {
				k = 0 // explicitly empty
			}
			if t.Kind() == reflect.Map {
				m := reflect.MakeMap(t)
				for j := 0; j < k; j++ {
					e := reflect.New(t.Elem()).Elem()
					fillInner(r, e, 1)
					m.SetMapIndex(reflect.ValueOf("k"+strconv.Itoa(j)), e)
				}
				return m
			}
			s := reflect.MakeSlice(t, k, k)
			for j := 0; j < k; j++ {
				fillInner(r, s.Index(j), 2)
				if t.Elem() == reflect.TypeOf(c14BackendA{}) && s.Index(j).Field(0).String() == "" {
					s.Index(j).Field(0).SetString("h")
				}
			}
			return s
		}
		obj := map[string]any{"title": "t"}
		wants := make([]reflect.Value, len(fs))
		bothField, pats, empties := "", "", 0
		for k, f := range fs {
			p := r.Intn(2)
			if f.alias != "" {
				p = r.Intn(3)
				if bothField == "" && r.Chance(12) {
					p, bothField = 3, f.name
				}
			}
			pats += strconv.Itoa(p)
			v := gen(f.typ)
			if p != 0 && v.Len() == 0 {
				empties++
			}
			switch p {
			case 1:
				obj[f.key] = v.Interface()
			case 2:
				obj[f.alias] = v.Interface()
			case 3:
				obj[f.key] = v.Interface()
				obj[f.alias] = gen(f.typ).Interface()
			}
			if p != 0 {
				wants[k] = v
			}
		}
		text, merr := encjson.Marshal(obj)
		if merr != nil {
			res.OutOfDomain++
			continue
		}
		cs := map[string]any{"type": T.String(), "source": "json (aliased collections)", "json": string(text), "patterns": pats}
		src := &static.StringSource{Data: string(text), Decoder: sourcewrap.NewTransformingDecoder(&json.Decoder{}, transform.NewAliasMangler("dials"))}
		var out reflect.Value
		var err error
		pn := catch(func() { out, err = src.Value(context.Background(), dials.NewType(PT)) })
		res.Count("source/json-collections/" + map[bool]string{true: "err", false: "ok"}[err != nil || pn != ""])
		res.Count(fmt.Sprintf("source/json-collections/explicitly-empty-values=%d", min(empties, 3)))
		switch {
		case pn != "":
			res.Add(Finding{Kind: "violation", What: "json (aliased collections): source panicked: " + pn, Case: cs})
		case bothField != "":
			if err == nil {
				res.Add(Finding{Kind: "violation", What: fmt.Sprintf("json (aliased collections): primary and alias of field %s both supplied, but no error", bothField), Case: cs})
			} else if !strings.Contains(err.Error(), bothField) {
				res.Add(Finding{Kind: "violation", What: fmt.Sprintf("json (aliased collections): the error for a doubly supplied field does not name it (%s)", bothField), Case: cs, Observed: err.Error()})
			}
		case err != nil:
			res.Add(Finding{Kind: "violation", What: "json (aliased collections): source failed although no field is supplied under both names", Case: cs, Observed: err.Error()})
		default:
			for k, f := range fs {
				got := out.FieldByName(f.name)
				for got.Kind() == reflect.Ptr && !got.IsNil() {
					got = got.Elem()
				}
				kind := []string{"neither name", "the primary name", "the alias name"}[pats[k]-'0']
				if !wants[k].IsValid() {
					if !got.IsNil() {
						res.Add(Finding{Kind: "violation", What: fmt.Sprintf("json (aliased collections): field %s supplied under neither name, but it is set: %v", f.name, got.Interface()), Case: cs})
						break
					}
					continue
				}
				if got.Kind() == reflect.Ptr || got.IsNil() {
					res.Add(Finding{Kind: "violation", What: fmt.Sprintf("json (aliased collections): field %s supplied under %s (%d entries), but it is unset", f.name, kind, wants[k].Len()), Case: cs})
					break
				}
				if got.Len() != wants[k].Len() || (got.Len() > 0 && !reflect.DeepEqual(got.Interface(), wants[k].Interface())) {
					res.Add(Finding{Kind: "violation", What: fmt.Sprintf("json (aliased collections): field %s supplied under %s: got %v, want %v", f.name, kind, got.Interface(), wants[k].Interface()), Case: cs})
					break
				}
			}
		}
		res.Case("L|"+T.String()+"|"+pats+"|"+string(text), len(fs) >= 2, cs)
	}
}
