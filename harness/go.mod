module verif/harness

go 1.21

require github.com/vimeo/dials v0.0.0

require golang.org/x/text v0.19.0 // indirect

replace github.com/vimeo/dials => /repo
