module verif/harness

go 1.21

require (
	cuelang.org/go v0.6.0
	github.com/pelletier/go-toml v1.9.5
	github.com/spf13/pflag v1.0.5
	github.com/vimeo/dials v0.0.0
	gopkg.in/yaml.v2 v2.4.0
)

require (
	github.com/cockroachdb/apd/v3 v3.2.1 // indirect
	github.com/fatih/structtag v1.2.0 // indirect
	github.com/fsnotify/fsnotify v1.8.0 // indirect
	github.com/google/uuid v1.6.0 // indirect
	github.com/mpvl/unique v0.0.0-20150818121801-cbe035fff7de // indirect
	golang.org/x/net v0.30.0 // indirect
	golang.org/x/sys v0.26.0 // indirect
	golang.org/x/text v0.19.0 // indirect
	gopkg.in/yaml.v3 v3.0.1 // indirect
)

replace github.com/vimeo/dials => /repo
