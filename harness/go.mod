module verif/harness

go 1.21

require (
	github.com/spf13/pflag v1.0.5
	github.com/vimeo/dials v0.0.0
)

require (
	github.com/fatih/structtag v1.2.0 // indirect
	golang.org/x/text v0.19.0 // indirect
)

replace github.com/vimeo/dials => /repo
