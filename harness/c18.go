package main

// C18 — ez: defaults < file < environment < flags, verified once on the full stack.
//
// The REAL ez entry points run on generated cases; every case is also run through the Lean model
// (driver op `ez run`, Model/Ez.lean + Model/EzIO.lean) and the canonical observations are diffed;
// direct oracles (precedence per leaf, path, Verify receivers, error, Events, global callbacks,
// convergence after rewrites) are evaluated on the implementation alone.

import (
	"context"
	"encoding/json"
	"errors"
	"fmt"
	"io"
	"os"
	"path/filepath"
	"reflect"
	"sort"
	"strconv"
	"strings"
	"sync"
	"time"

	stdflag "flag"
	"github.com/vimeo/dials"
	"github.com/vimeo/dials/decoders/cue"
	djson "github.com/vimeo/dials/decoders/json"
	"github.com/vimeo/dials/decoders/toml"
	"github.com/vimeo/dials/decoders/yaml"
	"github.com/vimeo/dials/ez"
	dflag "github.com/vimeo/dials/sources/flag"
)

func init() { register("C18", checkC18) }

// ez ends with EnableVerification on a Dials built with DelayInitialVerification + CallGlobalCallbacksAfterVerificationEnabled;
// the C18 theorems run the entry point as a script over the runtime model, whose enable step verifies the INSTALLED config
// and switches verification on in one monitor step.  That step is tied to the code by the controlled scheduler, so C18
// borrows a slice of C09's schedules (delay in force in 85% of them) next to the real entry points.
func checkC18(c *Ctx) {
	runC18(c)
	rule := c.Res.Rule
	rtSliceN = c.scale(20, 300)
	checkRuntime(c, "C09")
	rtSliceN = 0
	c.Res.Rule = rule + " Plus a slice of the controlled runtime schedules of C09 (delayed verification and EnableVerification racing updates): model state == implementation state after every step."
}

// ---------- the config type ----------

// (leaves followed by a nested struct: a source that sets only Host must not lose it because Pool is unset)
type c18Pool struct {
	Size int  `dials:"zsize"`
	Warm bool `dials:"zwarm"`
}

type c18DB struct {
	Host string  `dials:"zhost"`
	Port int     `dials:"zport"`
	TLS  bool    `dials:"ztls"`
	Pool c18Pool `dials:"zpool"`
}

type c18Cfg struct {
	Path   string            `dials:"zpath"`
	Name   string            `dials:"zname"`
	Count  int               `dials:"zcount"`
	Ratio  float64           `dials:"zratio"`
	On     bool              `dials:"zon"`
	Small  uint16            `dials:"zsmall"`
	Big    int64             `dials:"zbig"`
	Tags   []string          `dials:"ztags"`
	Nums   []int             `dials:"znums"`
	Labels map[string]string `dials:"zlabels"`
	// (a pointer to a struct with a non-nil default: every re-stack starts from a copy of it, not from it)
	DB *c18DB `dials:"zdb"`
	// a set: ez lets the file spell it as a list (Params.DisableAutoSetToSlice is off)
	Blocked map[string]struct{} `dials:"zblocked"`
	Need    string              `dials:"zneed"`
	// unexported: carried verbatim from the defaults into every stacked config, so that the
	// methods below can log into the case's recorder
	rec *c18Rec
}

var errC18Invalid = errors.New("c18: config invalid")

type c18PathCall struct{ Receiver, Returned string }
type c18CB struct{ Kind, Old, New, Err string }

type c18Rec struct {
	mu       sync.Mutex
	verifies []string // canonical contents of the receivers of Verify(), in call order
	verdicts []bool
	paths    []c18PathCall
	cbs      []c18CB
	dfPaths  []string // arguments of the decoder factory
}

func c18Canon(c *c18Cfg) string {
	if c == nil {
		return "nil"
	}
	cp := *c
	cp.rec = nil
	if len(cp.Tags) == 0 {
		cp.Tags = nil
	}
	if len(cp.Nums) == 0 {
		cp.Nums = nil
	}
	if len(cp.Labels) == 0 {
		cp.Labels = nil
	}
	if len(cp.Blocked) == 0 {
		cp.Blocked = nil
	}
	b, _ := json.Marshal(&cp)
	return string(b)
}

func c18Valid(c *c18Cfg) bool { return c.Need != "" && !strings.HasPrefix(c.Need, "bad") }

func (c *c18Cfg) ConfigPath() (string, bool) {
	p, ok := c.Path, c.Path != ""
	if c.rec != nil {
		c.rec.mu.Lock()
		c.rec.paths = append(c.rec.paths, c18PathCall{c18Canon(c), p})
		c.rec.mu.Unlock()
	}
	return p, ok
}

func (c *c18Cfg) Verify() error {
	ok := c18Valid(c)
	if c.rec != nil {
		c.rec.mu.Lock()
		c.rec.verifies = append(c.rec.verifies, c18Canon(c))
		c.rec.verdicts = append(c.rec.verdicts, ok)
		c.rec.mu.Unlock()
	}
	if !ok {
		return fmt.Errorf("%w: need=%q", errC18Invalid, c.Need)
	}
	return nil
}

// ---------- leaves ----------

const (
	lDefault = iota
	lFile
	lEnv
	lFlag
)

var c18LayerNames = []string{"default", "file", "env", "flag"}

type c18Leaf struct {
	key  []string // dials tags from the root
	kind string
	set  func(c *c18Cfg, v any)
}

var c18Leaves = []c18Leaf{
	{[]string{"zname"}, "string", func(c *c18Cfg, v any) { c.Name = v.(string) }},
	{[]string{"zcount"}, "int", func(c *c18Cfg, v any) { c.Count = v.(int) }},
	{[]string{"zratio"}, "float", func(c *c18Cfg, v any) { c.Ratio = v.(float64) }},
	{[]string{"zon"}, "bool", func(c *c18Cfg, v any) { c.On = v.(bool) }},
	{[]string{"zsmall"}, "uint16", func(c *c18Cfg, v any) { c.Small = uint16(v.(int)) }},
	{[]string{"zbig"}, "int64", func(c *c18Cfg, v any) { c.Big = int64(v.(int)) }},
	{[]string{"ztags"}, "strs", func(c *c18Cfg, v any) { c.Tags = append([]string{}, v.([]string)...) }},
	{[]string{"znums"}, "ints", func(c *c18Cfg, v any) { c.Nums = append([]int{}, v.([]int)...) }},
	{[]string{"zlabels"}, "map", func(c *c18Cfg, v any) {
		m := map[string]string{}
		for k, x := range v.(map[string]string) {
			m[k] = x
		}
		c.Labels = m
	}},
	{[]string{"zdb", "zhost"}, "string", func(c *c18Cfg, v any) { c.DB.Host = v.(string) }},
	{[]string{"zdb", "zport"}, "int", func(c *c18Cfg, v any) { c.DB.Port = v.(int) }},
	{[]string{"zdb", "ztls"}, "bool", func(c *c18Cfg, v any) { c.DB.TLS = v.(bool) }},
	{[]string{"zblocked"}, "set", func(c *c18Cfg, v any) {
		m := map[string]struct{}{}
		for k := range v.(map[string]struct{}) {
			m[k] = struct{}{}
		}
		c.Blocked = m
	}},
	{[]string{"zneed"}, "string", func(c *c18Cfg, v any) { c.Need = v.(string) }},
	{[]string{"zpath"}, "string", func(c *c18Cfg, v any) { c.Path = v.(string) }},
	{[]string{"zdb", "zpool", "zsize"}, "int", func(c *c18Cfg, v any) { c.DB.Pool.Size = v.(int) }},
	{[]string{"zdb", "zpool", "zwarm"}, "bool", func(c *c18Cfg, v any) { c.DB.Pool.Warm = v.(bool) }},
}

const (
	c18LeafNeed = 13
	c18LeafPath = 14
)

// a layer: value per leaf (nil = the layer does not set the leaf)
type c18Layer []any

func (l c18Layer) apply(c *c18Cfg) {
	for i, v := range l {
		if v != nil {
			c18Leaves[i].set(c, v)
		}
	}
}

// c18Merge is the harness's own reference: last layer that sets a leaf wins
func c18Merge(rec *c18Rec, layers ...c18Layer) *c18Cfg {
	c := &c18Cfg{rec: rec, DB: &c18DB{}}
	for _, l := range layers {
		if l != nil {
			l.apply(c)
		}
	}
	return c
}

// distinct value for (leaf, layer, variant n)
func c18Value(r *RNG, leaf, layer, n int) any {
	lf := c18Leaves[leaf]
	tag := fmt.Sprintf("%s%d", c18LayerNames[layer][:2], n)
	// an explicitly EMPTY collection is an assignment too (file: `[]` / `{}`, environment and flags: empty text)
	empty := layer != lDefault && r.Chance(22)
	switch lf.kind {
	case "string":
		v := lf.key[len(lf.key)-1][1:] + "-" + tag
		if r.Chance(30) {
			// base64 padding, key=value lists, query strings: the separator of `NAME=value` inside the value
			v += []string{"==", "=", "=x=y", "?a=1&b=2", " k=v"}[r.Intn(5)]
		}
		return v
	case "int":
		v := 1000*(leaf+1) + 100*layer + n
		if r.Chance(6) {
			return -v
		}
		return v
	case "float":
		return float64(100*(leaf+1)+10*layer+n) + 0.5
	case "bool":
		return r.Bool()
	case "uint16":
		return 1000*(layer+1) + n
	case "int64":
		return (1 << 40) + 1000*layer + n
	case "set":
		k := 1 + r.Intn(3)
		if empty {
			k = 0
		}
		m := map[string]struct{}{}
		for i := 0; i < k; i++ {
			m[fmt.Sprintf("b%s%c", tag, 'a'+i)] = struct{}{}
		}
		return m
	case "strs":
		k := 1 + r.Intn(3)
		if empty {
			k = 0
		}
		o := make([]string, k)
		for i := range o {
			o[i] = fmt.Sprintf("t%s%c", tag, 'a'+i)
		}
		return o
	case "ints":
		k := 1 + r.Intn(3)
		if empty {
			k = 0
		}
		o := make([]int, k)
		for i := range o {
			o[i] = 10000*(layer+1) + 10*n + i
		}
		return o
	case "map":
		k := 1 + r.Intn(2)
		if empty {
			k = 0
		}
		m := map[string]string{}
		for i := 0; i < k; i++ {
			m[fmt.Sprintf("k%s%c", tag, 'a'+i)] = fmt.Sprintf("v%s%c", tag, 'a'+i)
		}
		return m
	}
	return nil
}

// ---------- rendering a layer for the sources ----------

func c18Text(v any) string {
	switch x := v.(type) {
	case string:
		return x
	case int:
		return strconv.Itoa(x)
	case float64:
		return strconv.FormatFloat(x, 'f', -1, 64)
	case bool:
		return strconv.FormatBool(x)
	case []string:
		return strings.Join(x, ",")
	case []int:
		o := make([]string, len(x))
		for i, n := range x {
			o[i] = strconv.Itoa(n)
		}
		return strings.Join(o, ",")
	case map[string]string:
		ks := make([]string, 0, len(x))
		for k := range x {
			ks = append(ks, k)
		}
		sort.Strings(ks)
		o := make([]string, len(ks))
		for i, k := range ks {
			o[i] = k + ":" + x[k]
		}
		return strings.Join(o, ",")
	case map[string]struct{}:
		return strings.Join(c18SetKeys(x), ",")
	}
	return fmt.Sprint(v)
}

func c18SetKeys(x map[string]struct{}) []string {
	ks := make([]string, 0, len(x))
	for k := range x {
		ks = append(ks, k)
	}
	sort.Strings(ks)
	return ks
}

func c18EnvName(leaf int) string {
	return strings.ToUpper(strings.Join(c18Leaves[leaf].key, "_"))
}
func c18FlagName(leaf int) string { return strings.Join(c18Leaves[leaf].key, "-") }

// document tree of a file layer
func c18Doc(l c18Layer) map[string]any {
	doc := map[string]any{}
	for i, v := range l {
		if v == nil {
			continue
		}
		m := doc
		k := c18Leaves[i].key
		for _, seg := range k[:len(k)-1] {
			sub, ok := m[seg].(map[string]any)
			if !ok {
				sub = map[string]any{}
				m[seg] = sub
			}
			m = sub
		}
		if set, ok := v.(map[string]struct{}); ok {
			v = c18SetKeys(set) // non-nil, possibly empty
		}
		m[k[len(k)-1]] = v
	}
	return doc
}

func c18Scalar(v any, format string) string {
	switch x := v.(type) {
	case string:
		b, _ := json.Marshal(x)
		return string(b)
	case int:
		return strconv.Itoa(x)
	case float64:
		return strconv.FormatFloat(x, 'f', 1, 64)
	case bool:
		return strconv.FormatBool(x)
	case []string:
		o := make([]string, len(x))
		for i, s := range x {
			o[i] = c18Scalar(s, format)
		}
		return "[" + strings.Join(o, ", ") + "]"
	case []int:
		o := make([]string, len(x))
		for i, s := range x {
			o[i] = strconv.Itoa(s)
		}
		return "[" + strings.Join(o, ", ") + "]"
	}
	return "null"
}

func c18SortedKeys(m map[string]any) []string {
	ks := make([]string, 0, len(m))
	for k := range m {
		ks = append(ks, k)
	}
	sort.Strings(ks)
	return ks
}

func c18AsTree(v any) (map[string]any, bool) {
	switch x := v.(type) {
	case map[string]any:
		return x, true
	case map[string]string:
		o := map[string]any{}
		for k, s := range x {
			o[k] = s
		}
		return o, true
	}
	return nil, false
}

// c18Render writes the document in the given format (block style YAML, TOML tables, CUE structs)
func c18Render(doc map[string]any, format string) string {
	var b strings.Builder
	switch format {
	case "json":
		// map[string]string values marshal as objects, slices as arrays
		j, _ := json.MarshalIndent(doc, "", " ")
		return string(j) + "\n"
	case "yaml":
		var w func(m map[string]any, ind string)
		w = func(m map[string]any, ind string) {
			for _, k := range c18SortedKeys(m) {
				v := m[k]
				if t, ok := c18AsTree(v); ok {
					if len(t) == 0 {
						fmt.Fprintf(&b, "%s%s: {}\n", ind, k)
						continue
					}
					fmt.Fprintf(&b, "%s%s:\n", ind, k)
					w(t, ind+"  ")
					continue
				}
				switch x := v.(type) {
				case []string:
					if len(x) == 0 {
						fmt.Fprintf(&b, "%s%s: []\n", ind, k)
						continue
					}
					fmt.Fprintf(&b, "%s%s:\n", ind, k)
					for _, s := range x {
						fmt.Fprintf(&b, "%s  - %s\n", ind, c18Scalar(s, format))
					}
				case []int:
					if len(x) == 0 {
						fmt.Fprintf(&b, "%s%s: []\n", ind, k)
						continue
					}
					fmt.Fprintf(&b, "%s%s:\n", ind, k)
					for _, s := range x {
						fmt.Fprintf(&b, "%s  - %d\n", ind, s)
					}
				default:
					fmt.Fprintf(&b, "%s%s: %s\n", ind, k, c18Scalar(v, format))
				}
			}
		}
		w(doc, "")
		if b.Len() == 0 {
			return "{}\n"
		}
	case "toml":
		// scalars of a table first, then its sub-tables under their dotted names
		var w func(m map[string]any, prefix string)
		w = func(m map[string]any, prefix string) {
			var tables []string
			for _, k := range c18SortedKeys(m) {
				if _, ok := c18AsTree(m[k]); ok {
					tables = append(tables, k)
					continue
				}
				fmt.Fprintf(&b, "%s = %s\n", k, c18Scalar(m[k], format))
			}
			for _, k := range tables {
				t, _ := c18AsTree(m[k])
				fmt.Fprintf(&b, "\n[%s%s]\n", prefix, k)
				w(t, prefix+k+".")
			}
		}
		w(doc, "")
	case "cue":
		var w func(m map[string]any, ind string)
		w = func(m map[string]any, ind string) {
			for _, k := range c18SortedKeys(m) {
				if t, ok := c18AsTree(m[k]); ok {
					fmt.Fprintf(&b, "%s%s: {\n", ind, k)
					w(t, ind+"\t")
					fmt.Fprintf(&b, "%s}\n", ind)
					continue
				}
				fmt.Fprintf(&b, "%s%s: %s\n", ind, k, c18Scalar(m[k], format))
			}
		}
		w(doc, "")
	}
	return b.String()
}

var c18Ext = map[string]string{"yaml": ".yaml", "json": ".json", "toml": ".toml", "cue": ".cue"}

func c18Decoder(format string) dials.Decoder {
	switch format {
	case "yaml":
		return &yaml.Decoder{}
	case "json":
		return &djson.Decoder{}
	case "toml":
		return &toml.Decoder{}
	case "cue":
		return &cue.Decoder{}
	}
	return nil
}

// ---------- one case ----------

type c18Case struct {
	Idx      int               `json:"idx"`
	Seed     uint64            `json:"seed"` // the run's seed: (seed, idx) regenerates the case
	Kind     string            `json:"kind"` // normal | nofile | missing | badsyntax | badtype | nodecoder | badenv | badflag
	Format   string            `json:"format"`
	Variant  string            `json:"variant"` // static | factory | factoryParams | extension
	Watch    bool              `json:"watch"`
	Defaults string            `json:"defaults"`
	Env      map[string]string `json:"env"`
	Args     []string          `json:"flag_args"`
	Files    map[string]string `json:"files"` // path -> content (the file ConfigPath must name is PathWanted)
	Wanted   string            `json:"path_wanted"`
	Rewrites []string          `json:"rewrites,omitempty"`
	Sched    string            `json:"model_schedule"`
	// where the flags come from: "fresh" = flag.NewSetWithArgs; "prereg" = a flag.Set over a FlagSet on which
	// the application already registered the flags listed in PreReg (same names, stdlib flag types);
	// "second" = a flag.Set over a FlagSet on which an earlier ez call already registered ALL flags
	FlagMode string   `json:"flag_mode"`
	PreReg   []string `json:"preregistered_flags,omitempty"`
}

var c18EnvMu sync.Mutex // the process environment is global: one ez call at a time

func c18Classify(err error) string {
	switch {
	case err == nil:
		return "none"
	case errors.Is(err, errC18Invalid):
		return "verify"
	case strings.Contains(err.Error(), "decoderFactory provided a nil decoder"):
		return "noDecoder"
	case strings.Contains(err.Error(), "failed to integrate file source") && strings.Contains(err.Error(), "initial call to Value failed"):
		return "fileValue"
	case strings.Contains(err.Error(), "failed to integrate file source"):
		return "integrate:other"
	}
	return "config"
}

func c18Join(xs []string) string {
	if len(xs) == 0 {
		return "."
	}
	return strings.Join(xs, ",")
}

func runC18(c *Ctx) {
	res := c.Res
	rule0 := res.Rule
	defer func() {
		if c.Prop != "C18" {
			res.Rule = rule0 // C09 borrows a slice of this stream (ez's use of the delay / suppress options)
		}
	}()
	res.Rule = "each case (own PRNG stream derived from seed and case index, so a single case replays alone): one config type (14 leaves: string/int/float/bool/uint16/int64/[]string/[]int/map/a nested section behind a POINTER with a non-nil default, the validity leaf zneed, the path leaf zpath; 30% of the string values contain '='); " +
		"every leaf is assigned to a random subset of {default, file, environment, flag} with a distinct value per layer - for the collection leaves an explicitly EMPTY collection (file: [] / {}, environment and flags: empty text) in 22% of the assignments above the defaults; flags come from flag.NewSetWithArgs, from a flag.Set over a FlagSet on which the application pre-registered a random subset of the scalar flags, or from a flag.Set over a FlagSet an earlier ez call already registered all flags on; the path leaf gets a different existing file per layer " +
		"(the file layer's own zpath names a decoy), every file other than the one ConfigPath(defaults+env+flags) names carries foreign values for all leaves; " +
		"formats yaml/json/toml/cue x entry points {<Format>ConfigEnvFlag, ConfigFileEnvFlag, ConfigFileEnvFlagDecoderFactoryParams, FileExtensionDecoderConfigEnvFlag} x WatchConfigFile on/off; " +
		"validity = zneed set and not bad-*: generated so that configs valid only with the file, valid only without it, never valid and always valid all occur; " +
		"error kinds: no path (ConfigPath false), missing file, syntax error, type error, unknown extension (nil decoder), unparsable environment value, unparsable flag; " +
		"with watching: 1-3 atomic rewrites (valid, invalid, valid again) awaited by polling (10 s deadline). " +
		"plus a stream with an embedded struct in the config, a YAML file and Params.FlattenAnonymousFields through YAMLConfigEnvFlag / FileExtensionDecoderConfigEnvFlag / ConfigFileEnvFlagDecoderFactoryParams(DecoderFromExtensionWithParams): per leaf any subset of {default, file, environment, flag}, configs valid only with the file. " +
		"non-trivial: ez reached the file and the file changes the stack (full != file-less) — distinct by (format, variant, watch, per-leaf layer subsets, kind)"
	n := c.scale(2500, 30000)
	c18EmptyPath(c, c.scale(40, 600))
	if c.Prop == "C18" {
		// the options ez hands to the file decoder, together: alias support AND Params.FileFieldNameEncoder (an aliased
		// key is written in the file's naming convention like any other key) - the C14 stream over the ez entry points
		c14Ez(c, c.scale(150, 3000))
	}
	if c.Prop != "C18" {
		n = c.scale(250, 3000)
	} else {
		c18Embedded(c, c.scale(300, 4000))
	}
	root := filepath.Join(c.WorkDir, "c18files")
	if c.WorkDir == "" {
		root, _ = os.MkdirTemp("", "c18files")
	}
	os.RemoveAll(root)
	os.MkdirAll(root, 0o755)
	defer os.RemoveAll(root)

	type lateCheck struct {
		cs      *c18Case
		rec     *c18Rec
		allowed int // number of callbacks legitimately recorded
	}
	var late []lateCheck

	formats := []string{"yaml", "json", "toml", "cue"}
	variants := []string{"static", "factory", "factoryParams", "extension"}
	kinds := []string{"normal", "normal", "normal", "normal", "normal", "normal", "normal", "normal", "normal", "normal", "normal", "normal",
		"nofile", "missing", "badsyntax", "badtype", "nodecoder", "badenv", "badflag"}

	// --replay FILE: run only the case recorded in the replay file (same seed, same index)
	seed := c.Seed
	only := -1
	if c.Replay != "" {
		var rp struct {
			Violation struct {
				Case struct {
					Idx  int    `json:"idx"`
					Seed uint64 `json:"seed"`
				} `json:"case"`
			} `json:"violation"`
		}
		if b, err := os.ReadFile(c.Replay); err == nil && json.Unmarshal(b, &rp) == nil {
			seed, only = rp.Violation.Case.Seed, rp.Violation.Case.Idx
			if only >= n {
				n = only + 1
			}
			res.Notes = append(res.Notes, fmt.Sprintf("replaying case %d of seed %d", only, seed))
		}
	}
	timeouts := 0
	for idx := 0; idx < n; idx++ {
		if only >= 0 && idx != only {
			continue
		}
		r := NewRNG(seed*0x9E3779B97F4A7C15 + uint64(idx)*0xD1B54A32D192ED03 + 18)
		if res.Bad() >= 150 {
			res.Notes = append(res.Notes, fmt.Sprintf("stopped after %d cases: 150 findings", idx))
			break
		}
		cs := &c18Case{Idx: idx, Seed: seed, Env: map[string]string{}, Files: map[string]string{}}
		cs.Kind = kinds[r.Intn(len(kinds))]
		cs.Format = formats[(idx+r.Intn(2))%4]
		cs.Variant = variants[r.Intn(4)]
		cs.Watch = r.Chance(35)
		if cs.Kind == "nodecoder" {
			cs.Variant = "extension"
		}
		cs.FlagMode = []string{"fresh", "fresh", "prereg", "prereg", "second"}[r.Intn(5)]
		if cs.Kind == "badflag" && cs.FlagMode == "second" {
			cs.FlagMode = "prereg" // a FlagSet whose first Parse failed is not parsed again
		}
		var preReg []int
		if cs.FlagMode == "prereg" {
			all := r.Chance(30)
			for li, lf := range c18Leaves {
				switch lf.kind {
				case "string", "int", "float", "bool", "uint16", "int64":
					if all || r.Bool() {
						preReg = append(preReg, li)
						cs.PreReg = append(cs.PreReg, c18FlagName(li))
					}
				}
			}
		}
		dir := filepath.Join(root, strconv.Itoa(idx))
		os.MkdirAll(dir, 0o755)
		rec := &c18Rec{}

		// ----- assignment of leaves to layers -----
		layers := [4]c18Layer{make(c18Layer, len(c18Leaves)), make(c18Layer, len(c18Leaves)), make(c18Layer, len(c18Leaves)), make(c18Layer, len(c18Leaves))}
		subsets := make([]int, len(c18Leaves))
		for li := range c18Leaves {
			if li == c18LeafPath || li == c18LeafNeed {
				continue
			}
			m := r.Intn(16)
			if r.Chance(30) {
				m = 15 // all four layers: the strongest precedence test
			}
			subsets[li] = m
			for L := 0; L < 4; L++ {
				if m&(1<<L) != 0 {
					layers[L][li] = c18Value(r, li, L, 1)
				}
			}
		}
		// validity leaf: scenario
		needScenario := r.Intn(7)
		setNeed := func(L int, good bool) {
			v := "ok-" + c18LayerNames[L]
			if !good {
				v = "bad-" + c18LayerNames[L]
			}
			layers[L][c18LeafNeed] = v
			subsets[c18LeafNeed] |= 1 << L
		}
		switch needScenario {
		case 0: // valid only with the file
			setNeed(lFile, true)
		case 1: // valid only with the file (a bad default below it)
			setNeed(lDefault, false)
			setNeed(lFile, true)
		case 2: // valid without the file, invalid with it
			setNeed(lDefault, true)
			setNeed(lFile, false)
		case 3: // never valid
			if r.Bool() {
				setNeed(lFile, false)
			}
		case 4: // valid from the default, file agrees
			setNeed(lDefault, true)
			setNeed(lFile, true)
		case 5: // environment decides
			setNeed(lFile, r.Bool())
			setNeed(lEnv, true)
		case 6: // flag decides over a good file
			setNeed(lFile, true)
			setNeed(lFlag, r.Chance(70))
		}
		// path leaf: a different file per layer; the file layer's own value names a decoy
		ext := c18Ext[cs.Format]
		if cs.Kind == "nodecoder" {
			ext = ".txt"
		}
		pathOf := func(L int) string { return filepath.Join(dir, "cfg-"+c18LayerNames[L]+ext) }
		pm := 1 + r.Intn(7) // non-empty subset of {default, env, flag} encoded on bits 0,1,2
		if cs.Kind == "nofile" {
			pm = 0
		}
		for bi, L := range []int{lDefault, lEnv, lFlag} {
			if pm&(1<<bi) != 0 {
				layers[L][c18LeafPath] = pathOf(L)
				subsets[c18LeafPath] |= 1 << L
			}
		}
		if r.Chance(50) && cs.Kind != "nofile" {
			layers[lFile][c18LeafPath] = pathOf(lFile) // decoy named by the file itself
			subsets[c18LeafPath] |= 1 << lFile
		}
		wantedLayer := -1
		for _, L := range []int{lDefault, lEnv, lFlag} {
			if layers[L][c18LeafPath] != nil {
				wantedLayer = L
			}
		}
		if wantedLayer >= 0 {
			cs.Wanted = pathOf(wantedLayer)
		}

		// ----- files -----
		foreign := func(tag int) c18Layer {
			l := make(c18Layer, len(c18Leaves))
			for li := range c18Leaves {
				if li == c18LeafPath {
					continue
				}
				l[li] = c18Value(r, li, lFile, 50+tag)
			}
			l[c18LeafNeed] = "ok-foreign"
			return l
		}
		fileContent := func(l c18Layer) string { return c18Render(c18Doc(l), cs.Format) }
		if cs.Kind != "nofile" {
			for t, L := range []int{lDefault, lFile, lEnv, lFlag} {
				p := pathOf(L)
				if p == cs.Wanted {
					continue
				}
				cs.Files[p] = fileContent(foreign(t))
			}
			switch cs.Kind {
			case "missing":
				// the wanted file does not exist
			case "badsyntax":
				cs.Files[cs.Wanted] = map[string]string{"yaml": "zname: [unclosed\n  - x: {\n", "json": "{\"zname\": ", "toml": "zname = = 3\n[", "cue": "zname: {{{\n"}[cs.Format]
			case "badtype":
				bad := make(c18Layer, len(c18Leaves))
				copy(bad, layers[lFile])
				doc := c18Doc(bad)
				doc["zcount"] = "not-a-number"
				cs.Files[cs.Wanted] = c18Render(doc, cs.Format)
			default:
				cs.Files[cs.Wanted] = fileContent(layers[lFile])
			}
		}
		for p, content := range cs.Files {
			os.WriteFile(p, []byte(content), 0o644)
		}

		// ----- defaults, environment, flags -----
		defaults := c18Merge(rec, layers[lDefault])
		cs.Defaults = c18Canon(defaults)
		for li, v := range layers[lEnv] {
			if v != nil {
				cs.Env[c18EnvName(li)] = c18Text(v)
			}
		}
		for li, v := range layers[lFlag] {
			if v != nil {
				cs.Args = append(cs.Args, "-"+c18FlagName(li)+"="+c18Text(v))
			}
		}
		if cs.Kind == "badenv" {
			cs.Env["ZCOUNT"] = "12x"
		}
		if cs.Kind == "badflag" {
			cs.Args = append(cs.Args, "-zdb-zport=nope")
		}

		// ----- reference results (harness's own merge) -----
		baseRef := c18Merge(nil, layers[lDefault], layers[lEnv], layers[lFlag])
		fullRef := c18Merge(nil, layers[lDefault], layers[lFile], layers[lEnv], layers[lFlag])
		reachesFile := cs.Kind == "normal"
		// rewrites (watch only): new file layers over the same leaf subset
		var rewLayers []c18Layer
		if cs.Watch && reachesFile {
			k := 1 + r.Intn(3)
			for j := 0; j < k; j++ {
				l := make(c18Layer, len(c18Leaves))
				for li := range c18Leaves {
					if li == c18LeafPath {
						l[li] = layers[lFile][li]
						continue
					}
					if li == 0 || layers[lFile][li] != nil || r.Chance(20) {
						l[li] = c18Value(r, li, lFile, 2+j) // zname always: every rewrite is a different text
					}
				}
				if r.Chance(35) {
					l[c18LeafNeed] = "bad-rewrite" + strconv.Itoa(j)
				} else if layers[lFile][c18LeafNeed] != nil || r.Chance(30) {
					l[c18LeafNeed] = "ok-rewrite" + strconv.Itoa(j)
				} else {
					l[c18LeafNeed] = nil
				}
				rewLayers = append(rewLayers, l)
				cs.Rewrites = append(cs.Rewrites, fileContent(l))
			}
		}

		// snapshot tables for the correspondence: slot values blank=0, env=4, flag=8, file=12, rewrites 16,20,24
		snapCfg := map[string]*c18Cfg{"0.4.8": baseRef}
		snapOrder := []string{"0.4.8"}
		if reachesFile {
			snapCfg["12.4.8"] = fullRef
			snapOrder = append(snapOrder, "12.4.8")
		}
		rewRefs := make([]*c18Cfg, len(rewLayers))
		for j, l := range rewLayers {
			rewRefs[j] = c18Merge(nil, layers[lDefault], l, layers[lEnv], layers[lFlag])
			s := fmt.Sprintf("%d.4.8", 16+4*j)
			snapCfg[s] = rewRefs[j]
			snapOrder = append(snapOrder, s)
		}
		snapOfContent := func(content string) string {
			for _, s := range snapOrder {
				if c18Canon(snapCfg[s]) == content {
					return s
				}
			}
			return "?" + content
		}
		canonSnap := func(s string) string {
			if cfg, ok := snapCfg[s]; ok {
				return snapOfContent(c18Canon(cfg))
			}
			return s
		}

		// ----- run the real entry point -----
		var onNew dials.NewConfigHandler[c18Cfg] = func(_ context.Context, o, nw *c18Cfg) {
			rec.mu.Lock()
			rec.cbs = append(rec.cbs, c18CB{Kind: "onNew", Old: c18Canon(o), New: c18Canon(nw)})
			rec.mu.Unlock()
		}
		var onErr dials.WatchedErrorHandler[c18Cfg] = func(_ context.Context, err error, o, nw *c18Cfg) {
			k := "other:" + err.Error()
			if errors.Is(err, errC18Invalid) {
				k = "verify"
			}
			rec.mu.Lock()
			rec.cbs = append(rec.cbs, c18CB{Kind: "onErr", Err: k, Old: c18Canon(o), New: c18Canon(nw)})
			rec.mu.Unlock()
		}
		ctx, cancel := context.WithCancel(context.Background())
		var d *dials.Dials[c18Cfg]
		var err error
		var panicked any
		func() {
			c18EnvMu.Lock()
			defer c18EnvMu.Unlock()
			for k, v := range cs.Env {
				os.Setenv(k, v)
			}
			defer func() {
				for k := range cs.Env {
					os.Unsetenv(k)
				}
				if p := recover(); p != nil {
					panicked = p
				}
			}()
			var fs dials.Source
			if cs.FlagMode == "fresh" {
				nfs, ferr := dflag.NewSetWithArgs(dflag.DefaultFlagNameConfig(), defaults, cs.Args)
				if ferr != nil {
					err = fmt.Errorf("harness: NewSetWithArgs: %v", ferr)
					panicked = err
					return
				}
				nfs.Flags.SetOutput(io.Discard)
				fs = nfs
			} else {
				raw := stdflag.NewFlagSet("", stdflag.ContinueOnError)
				raw.SetOutput(io.Discard)
				for _, li := range preReg {
					name := c18FlagName(li)
					switch c18Leaves[li].kind {
					case "string":
						raw.String(name, "app-default", "registered by the application")
					case "int":
						raw.Int(name, 7, "registered by the application")
					case "float":
						raw.Float64(name, 0.25, "registered by the application")
					case "bool":
						raw.Bool(name, false, "registered by the application")
					case "uint16":
						raw.Uint(name, 3, "registered by the application")
					case "int64":
						raw.Int64(name, 4, "registered by the application")
					}
				}
				mk := func() *dflag.Set {
					return &dflag.Set{Flags: raw, ParseFunc: func() error { return raw.Parse(cs.Args) }, NameCfg: dflag.DefaultFlagNameConfig()}
				}
				if cs.FlagMode == "second" {
					// an earlier, unrelated call of an ez entry point in the same process: it registers every flag on `raw`
					c0 := *defaults
					c0.rec = nil
					ctx0, cancel0 := context.WithCancel(context.Background())
					ez.ConfigFileEnvFlag(ctx0, &c0, func(string) dials.Decoder { return c18Decoder(cs.Format) }, ez.Params[c18Cfg]{FlagSource: mk()})
					cancel0()
				}
				fs = mk()
			}
			params := ez.Params[c18Cfg]{FlagSource: fs, WatchConfigFile: cs.Watch, OnNewConfig: onNew, OnWatchedError: onErr}
			df := func(p string) dials.Decoder {
				rec.mu.Lock()
				rec.dfPaths = append(rec.dfPaths, p)
				rec.mu.Unlock()
				return c18Decoder(cs.Format)
			}
			switch cs.Variant {
			case "static":
				switch cs.Format {
				case "yaml":
					d, err = ez.YAMLConfigEnvFlag(ctx, defaults, params)
				case "json":
					d, err = ez.JSONConfigEnvFlag(ctx, defaults, params)
				case "toml":
					d, err = ez.TOMLConfigEnvFlag(ctx, defaults, params)
				case "cue":
					d, err = ez.CueConfigEnvFlag(ctx, defaults, params)
				}
			case "factory":
				d, err = ez.ConfigFileEnvFlag(ctx, defaults, df, params)
			case "factoryParams":
				d, err = ez.ConfigFileEnvFlagDecoderFactoryParams(ctx, defaults, func(p string, _ ez.Params[c18Cfg]) dials.Decoder { return df(p) }, params)
			case "extension":
				d, err = ez.FileExtensionDecoderConfigEnvFlag(ctx, defaults, params)
			}
		}()
		caseJSON := cs
		if panicked != nil {
			res.Add(Finding{Kind: "violation", What: "ez entry point panicked (or the harness could not build its flag set)", Case: caseJSON, Observed: fmt.Sprint(panicked)})
			cancel()
			continue
		}
		errClass := c18Classify(err)

		// observations at return
		rec.mu.Lock()
		verAtReturn := append([]string{}, rec.verifies...)
		verdictAtReturn := append([]bool{}, rec.verdicts...)
		pathCalls := append([]c18PathCall{}, rec.paths...)
		cbsAtReturn := len(rec.cbs)
		rec.mu.Unlock()
		pending := false
		viewAtReturn := ""
		serialAtReturn := uint64(0)
		if d != nil {
			_, tok := d.ViewVersion()
			serialAtReturn = dials.VerifCfgSerial(tok)
			select {
			case <-d.Events():
				pending = true
			default:
			}
			viewAtReturn = c18Canon(d.View())
		}

		// ----- expected (direct oracles) -----
		expErr := "none"
		expVerify := []string{}
		switch cs.Kind {
		case "badenv", "badflag":
			expErr = "config"
		case "nofile":
			expVerify = []string{c18Canon(baseRef)}
			if !c18Valid(baseRef) {
				expErr = "verify"
			}
		case "nodecoder":
			expErr = "noDecoder"
		case "missing", "badsyntax", "badtype":
			expErr = "fileValue"
		default:
			expVerify = []string{c18Canon(fullRef)}
			if !c18Valid(fullRef) {
				expErr = "verify"
			}
		}
		viol := func(what string, exp, obs any) {
			res.Add(Finding{Kind: "violation", What: what, Case: caseJSON, Expected: exp, Observed: obs})
		}
		if errClass != expErr {
			viol("ez returned the wrong error class (verify failure / bad file / bad source must be the entry point's error, and only they)", expErr, fmt.Sprintf("%s (%v)", errClass, err))
		}
		if (err == nil) != (d != nil) {
			viol("ez returned a Dials together with an error, or neither", nil, fmt.Sprintf("d=%v err=%v", d != nil, err))
		}
		// Verify: exactly once, on the full stack, never on the file-less intermediate
		if !reflectDeepEqualStrings(verAtReturn, expVerify) {
			what := "Verify calls before ez returned differ from [full stack]"
			for _, v := range verAtReturn {
				if reachesFile && v == c18Canon(baseRef) && c18Canon(baseRef) != c18Canon(fullRef) {
					what = "Verify was called on the file-less intermediate config"
				}
			}
			viol(what, expVerify, verAtReturn)
		}
		// ConfigPath: evaluated on defaults+environment+flags, and its answer is the file that is read
		if cs.Kind != "badenv" && cs.Kind != "badflag" {
			if len(pathCalls) == 0 {
				viol("ConfigPath was never called", 1, 0)
			}
			for _, pc := range pathCalls {
				if pc.Receiver != c18Canon(baseRef) {
					viol("ConfigPath was evaluated on a config other than defaults+environment+flags", c18Canon(baseRef), pc.Receiver)
				}
				if pc.Returned != cs.Wanted {
					viol("ConfigPath answered another path than the top of {default, env, flag}", cs.Wanted, pc.Returned)
				}
			}
			rec.mu.Lock()
			for _, p := range rec.dfPaths {
				if p != cs.Wanted {
					viol("the decoder factory was asked for another path than ConfigPath(defaults+env+flags)", cs.Wanted, p)
				}
			}
			rec.mu.Unlock()
		}
		if d != nil {
			exp := fullRef
			if cs.Kind == "nofile" {
				exp = baseRef
			}
			if viewAtReturn != c18Canon(exp) {
				viol("first visible config is not defaults < file < environment < flags ("+c18DiffLeaves(exp, d.View(), layers)+")", c18Canon(exp), viewAtReturn)
			}
			if pending {
				viol("Events() had a value pending when ez returned", "empty", "pending")
			}
			if cbsAtReturn != 0 {
				viol("a global callback fired before ez returned", 0, rec.cbs)
			}
		}

		// ----- correspondence with the model -----
		sch := []int{r.Intn(2), r.Intn(2), r.Intn(3), r.Intn(3)}
		cs.Sched = fmt.Sprint(sch)
		mPath, mDec, mFile := "7", "1", "12"
		unst, inv := "-", []string{}
		switch cs.Kind {
		case "badenv", "badflag":
			unst = "0.4.8"
		case "nofile":
			mPath = "-"
		case "nodecoder":
			mDec = "0"
		case "missing", "badsyntax", "badtype":
			mFile = "-"
		}
		for _, s := range snapOrder {
			if !c18Valid(snapCfg[s]) {
				inv = append(inv, s)
			}
		}
		invS := "-"
		if len(inv) > 0 {
			invS = strings.Join(inv, ";")
		}
		laterS := "-"
		if len(rewLayers) > 0 {
			xs := make([]string, len(rewLayers))
			for j := range rewLayers {
				xs[j] = strconv.Itoa(16 + 4*j)
			}
			laterS = strings.Join(xs, ",")
		}
		b01 := func(b bool) string {
			if b {
				return "1"
			}
			return "0"
		}
		req := fmt.Sprintf("ez run %s %d %d %d %d 4 8 %s %s %s %s %s %s", b01(cs.Watch), sch[0], sch[1], sch[2], sch[3], mPath, mDec, mFile, unst, invS, laterS)
		modelRaw := c.Drv.Ask(req)
		// canonical forms ---------------------------------------------------
		renderVer := func(contents []string, oks []bool) string {
			o := make([]string, len(contents))
			for i, v := range contents {
				o[i] = snapOfContent(v) + ":" + b01(oks[i])
			}
			return c18Join(o)
		}
		renderCBs := func(cbs []c18CB) string {
			o := make([]string, len(cbs))
			for i, cb := range cbs {
				if cb.Kind == "onNew" {
					o[i] = "onNew:" + snapOfContent(cb.Old) + ":" + snapOfContent(cb.New)
				} else {
					nw := "-"
					if cb.New != "nil" {
						nw = snapOfContent(cb.New)
					}
					o[i] = "onErr:" + cb.Err + ":" + snapOfContent(cb.Old) + ":" + nw
				}
			}
			return c18Join(o)
		}
		canonModelList := func(s string, ncfg int) string {
			// entries `a:cfg…` whose cfg fields are slot snapshots: map each snapshot to the first snapshot with the same content
			if s == "." {
				return s
			}
			parts := strings.Split(s, ",")
			for i, p := range parts {
				fs := strings.Split(p, ":")
				for k := range fs {
					if _, ok := snapCfg[fs[k]]; ok {
						fs[k] = canonSnap(fs[k])
					}
				}
				parts[i] = strings.Join(fs, ":")
			}
			return strings.Join(parts, ",")
		}
		parseModel := func(seg string) map[string]string {
			m := map[string]string{}
			for _, f := range strings.Fields(seg) {
				if i := strings.IndexByte(f, '='); i > 0 {
					m[f[:i]] = f[i+1:]
				}
			}
			return m
		}
		segs := strings.Split(modelRaw, " | ")
		m0 := parseModel(segs[0])
		usedPath := "-"
		if len(pathCalls) > 0 && pathCalls[len(pathCalls)-1].Returned != "" {
			usedPath = "7"
			if pathCalls[len(pathCalls)-1].Returned != cs.Wanted {
				usedPath = pathCalls[len(pathCalls)-1].Returned
			}
		}
		implHead := fmt.Sprintf("err=%s path=%s verifies=%s", errClass, usedPath, renderVer(verAtReturn, verdictAtReturn))
		modelHead := fmt.Sprintf("err=%s path=%s verifies=%s", m0["err"], m0["path"], canonModelList(m0["verifies"], 1))
		if d != nil {
			implHead += fmt.Sprintf(" view=%d:%s ev=%s", serialAtReturn, snapOfContent(viewAtReturn), b01(pending))
			mv := m0["view"]
			if i := strings.IndexByte(mv, ':'); i >= 0 {
				mv = mv[:i+1] + canonSnap(mv[i+1:])
			}
			modelHead += fmt.Sprintf(" view=%s ev=%s", mv, m0["ev"])
		}
		if !strings.HasPrefix(modelRaw, "ok ") {
			res.Add(Finding{Kind: "disagreement", What: "driver rejected the ez request", Case: caseJSON, Model: modelRaw, Observed: req})
		} else if implHead != modelHead {
			res.Add(Finding{Kind: "disagreement", What: "ez at return: model != implementation", Case: caseJSON, Observed: implHead, Model: modelHead})
		}

		if os.Getenv("C18_DEBUG") != "" {
			fmt.Fprintf(os.Stderr, "case %d %s %s %s watch=%v\n  impl : %s\n  model: %s\n  raw  : %s\n", idx, cs.Kind, cs.Format, cs.Variant, cs.Watch, implHead, modelHead, modelRaw)
		}
		// ----- watching: later rewrites converge to the re-stack under the same precedence -----
		allowedCBs := 0
		if d != nil && cs.Watch && len(rewLayers) > 0 {
			cur := fullRef
			for j, l := range rewLayers {
				// atomic replace, so that the watcher never reads a half-written file
				tmp := cs.Wanted + ".tmp"
				os.WriteFile(tmp, []byte(fileContent(l)), 0o644)
				os.Rename(tmp, cs.Wanted)
				ref := rewRefs[j]
				valid := c18Valid(ref)
				allowedCBs++ // one OnNewConfig or OnWatchedError per reported file change
				expView := cur
				if valid {
					expView = ref
				}
				var modelSeg map[string]string
				if j+1 < len(segs) {
					modelSeg = parseModel(segs[j+1])
				}
				wait := 10 * time.Second
				if timeouts >= 3 {
					wait = 300 * time.Millisecond // something is broken: do not spend 10 s on every further rewrite
				}
				deadline := time.Now().Add(wait)
				var gotView, gotVer, gotCB string
				var gotSerial uint64
				for {
					rec.mu.Lock()
					gotVer = renderVer(rec.verifies, rec.verdicts)
					gotCB = renderCBs(rec.cbs)
					ncb := len(rec.cbs)
					rec.mu.Unlock()
					vw, tok := d.ViewVersion()
					gotView, gotSerial = c18Canon(vw), dials.VerifCfgSerial(tok)
					if gotView == c18Canon(expView) && ncb >= allowedCBs {
						break
					}
					if time.Now().After(deadline) {
						timeouts++
						break
					}
					time.Sleep(500 * time.Microsecond)
				}
				if gotView != c18Canon(expView) {
					viol(fmt.Sprintf("after rewrite %d the view did not converge to defaults < new file < environment < flags (%s)", j+1, c18DiffLeaves(expView, d.View(), layers)), c18Canon(expView), gotView)
				}
				if modelSeg != nil {
					mv := modelSeg["view"]
					if i := strings.IndexByte(mv, ':'); i >= 0 {
						mv = mv[:i+1] + canonSnap(mv[i+1:])
					}
					mSeg := fmt.Sprintf("view=%s verifies=%s globals=%s", mv, canonModelList(modelSeg["verifies"], 1), canonModelList(modelSeg["globals"], 2))
					iSeg := fmt.Sprintf("view=%d:%s verifies=%s globals=%s", gotSerial, snapOfContent(gotView), gotVer, gotCB)
					// a rewrite whose stack equals the current one is still a new version for the library (and the model)
					if os.Getenv("C18_DEBUG") != "" {
						fmt.Fprintf(os.Stderr, "  rewrite %d impl : %s\n  rewrite %d model: %s\n", j+1, iSeg, j+1, mSeg)
					}
					if mSeg != iSeg {
						res.Add(Finding{Kind: "disagreement", What: fmt.Sprintf("after rewrite %d: model != implementation", j+1), Case: caseJSON, Observed: iSeg, Model: mSeg})
					}
				}
				if valid {
					cur = ref
				}
				res.Count("rewrite/valid=" + b01(valid))
			}
			// the callbacks of the watch phase: OnNewConfig(old, new) per accepted rewrite, OnWatchedError(verify, old, rejected) per rejected one
			rec.mu.Lock()
			cbs := append([]c18CB{}, rec.cbs...)
			rec.mu.Unlock()
			cur = fullRef
			var want []string
			for j := range rewLayers {
				ref := rewRefs[j]
				if c18Valid(ref) {
					want = append(want, "onNew|"+c18Canon(cur)+"|"+c18Canon(ref))
					cur = ref
				} else {
					want = append(want, "onErr|verify|"+c18Canon(cur)+"|"+c18Canon(ref))
				}
			}
			var got []string
			for _, cb := range cbs {
				if cb.Kind == "onNew" {
					got = append(got, "onNew|"+cb.Old+"|"+cb.New)
				} else {
					got = append(got, "onErr|"+cb.Err+"|"+cb.Old+"|"+cb.New)
				}
			}
			if !reflectDeepEqualStrings(got, want) {
				what := "global callbacks after ez returned differ from one per later file change"
				for _, cb := range cbs {
					if cb.Old == c18Canon(baseRef) && c18Canon(baseRef) != c18Canon(fullRef) {
						what = "a global callback exposed the file-less intermediate config"
					}
				}
				viol(what, want, got)
			}
			allowedCBs = len(want)
		}
		late = append(late, lateCheck{cs, rec, allowedCBs})
		cancel()

		nontrivial := reachesFile && c18Canon(baseRef) != c18Canon(fullRef)
		res.Count("kind/" + cs.Kind)
		res.Count("format/" + cs.Format)
		res.Count("variant/" + cs.Variant)
		res.Count("watch=" + b01(cs.Watch))
		res.Count("flags/" + cs.FlagMode)
		res.Count("err/" + errClass)
		res.Count(fmt.Sprintf("need-scenario/%d", needScenario))
		if reachesFile {
			res.Count(fmt.Sprintf("base-valid=%s/full-valid=%s", b01(c18Valid(baseRef)), b01(c18Valid(fullRef))))
		}
		canon := fmt.Sprintf("%s|%s|%s|%v|%v|%s%v", cs.Kind, cs.Format, cs.Variant, cs.Watch, subsets, cs.FlagMode, cs.PreReg)
		res.Case(canon, nontrivial, map[string]any{"kind": cs.Kind, "format": cs.Format, "variant": cs.Variant, "watch": cs.Watch,
			"leaf_layer_subsets(bit0=default,1=file,2=env,3=flag)": fmt.Sprint(subsets), "env": cs.Env, "flags": cs.Args, "err": errClass})
		os.RemoveAll(dir)
	}

	// late pass: nothing may have been delivered for the bootstrap install after ez returned
	time.Sleep(30 * time.Millisecond)
	for _, lc := range late {
		lc.rec.mu.Lock()
		ncb := len(lc.rec.cbs)
		cbs := append([]c18CB{}, lc.rec.cbs...)
		lc.rec.mu.Unlock()
		if ncb > lc.allowed {
			res.Add(Finding{Kind: "violation", What: "a global callback (OnNewConfig/OnWatchedError) fired for ez's own bootstrap install", Case: lc.cs, Expected: lc.allowed, Observed: cbs})
		}
	}
}

func reflectDeepEqualStrings(a, b []string) bool {
	if len(a) != len(b) {
		return false
	}
	for i := range a {
		if a[i] != b[i] {
			return false
		}
	}
	return true
}

// c18DiffLeaves names the leaves on which two configs differ together with the layers that set them
func c18DiffLeaves(exp, got *c18Cfg, layers [4]c18Layer) string {
	var out []string
	for li, lf := range c18Leaves {
		a, b := &c18Cfg{}, &c18Cfg{}
		// project one leaf
		pe, pg := c18Project(exp, li), c18Project(got, li)
		_ = a
		_ = b
		if pe != pg {
			var who []string
			for L := 0; L < 4; L++ {
				if layers[L][li] != nil {
					who = append(who, c18LayerNames[L]+"="+c18Text(layers[L][li]))
				}
			}
			out = append(out, fmt.Sprintf("%s: expected %s got %s {%s}", strings.Join(lf.key, "."), pe, pg, strings.Join(who, " ")))
		}
	}
	return strings.Join(out, "; ")
}

func c18Project(c *c18Cfg, li int) string {
	if c == nil {
		return "nil"
	}
	if c.DB == nil {
		cp := *c
		cp.DB = &c18DB{}
		c = &cp
	}
	var v any
	switch li {
	case 0:
		v = c.Name
	case 1:
		v = c.Count
	case 2:
		v = c.Ratio
	case 3:
		v = c.On
	case 4:
		v = c.Small
	case 5:
		v = c.Big
	case 6:
		v = c.Tags
	case 7:
		v = c.Nums
	case 8:
		v = c.Labels
	case 9:
		v = c.DB.Host
	case 10:
		v = c.DB.Port
	case 11:
		v = c.DB.TLS
	case 12:
		v = c18SetKeys(c.Blocked)
	case 13:
		v = c.Need
	case 14:
		v = c.Path
	}
	if rv := reflect.ValueOf(v); (rv.Kind() == reflect.Slice || rv.Kind() == reflect.Map) && rv.Len() == 0 {
		return "empty"
	}
	b, _ := json.Marshal(v)
	return string(b)
}
