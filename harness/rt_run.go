package main

import (
	"context"
	"errors"
	"fmt"
	"os"
	"path/filepath"
	"runtime"
	"strings"
	"time"

	"github.com/vimeo/dials"
)

// extra fields of rtRun live here to keep rt_sched.go readable
type rtExtra struct{}

func (r *rtRun) clientLoop(c *rtClient) {
	for op := range c.cmd {
		res := r.exec(c, op)
		c.mu.Lock()
		c.status, c.result, c.retAt = "returned", res, r.stepNo // the scheduler step in which the call returned
		c.mu.Unlock()
	}
}

func (r *rtRun) ctxFor(id int) context.Context {
	if ctx, ok := r.ctxs[id]; ok {
		return ctx
	}
	if id%2 == 1 {
		// a context that ends with an application-supplied cause: what the callee returns must still be a context
		// error (errors.Is(err, context.Canceled)), the cause is the application's business
		ctx, cancel := context.WithCancelCause(context.Background())
		r.ctxs[id], r.cancels[id] = ctx, func() { cancel(errRtAppCause) }
		return ctx
	}
	ctx, cancel := context.WithCancel(context.Background())
	r.ctxs[id], r.cancels[id] = ctx, cancel
	return ctx
}

var errRtAppCause = errors.New("rt: the application is shutting down")

func (r *rtRun) errRes(err error) string {
	switch {
	case err == nil:
		return "nil"
	case errors.Is(err, context.Canceled):
		return "ctxErr"
	case errors.Is(err, errInvalid):
		return "verifyErr"
	default:
		return "stackErr"
	}
}

func (r *rtRun) exec(c *rtClient, op rtOp) (res string) {
	defer func() {
		if p := recover(); p != nil {
			res = fmt.Sprintf("panic:%v", p)
			r.panics = append(r.panics, res)
		}
	}()
	ctx := r.ctxFor(op.Ctx)
	switch op.Kind {
	case "view":
		cfg, tok := r.d.ViewVersion()
		c.seen = append(c.seen, seenVersion{cfg: cfg, tok: tok, ser: dials.VerifCfgSerial(tok)})
		r.observed(cfg, "view")
		return fmt.Sprintf("ver:%d:%s", dials.VerifCfgSerial(tok), r.cfgStr(cfg))
	case "events":
		select {
		case cfg := <-r.d.Events():
			r.observed(cfg, "events")
			return "ev:" + r.cfgStr(cfg)
		default:
			return "noev"
		}
	case "report":
		s := r.sources[op.Src]
		val := s.valueFor(s.typ, op.V)
		if op.Blocking {
			return r.errRes(s.wa.BlockingReportNewValue(ctx, val))
		}
		return r.errRes(s.wa.ReportNewValue(ctx, val))
	case "reportErr":
		return r.errRes(r.sources[op.Src].wa.ReportError(ctx, &rtSrcErr{code: op.V}))
	case "done":
		r.sources[op.Src].wa.Done(ctx)
		if ctx.Err() != nil {
			return "ctxErr"
		}
		return "nil"
	case "register":
		var cfg *RC
		if op.CfgIdx >= 0 {
			cfg = c.seen[op.CfgIdx].cfg
		}
		h := op.H
		r.amu.Lock()
		r.regOrder = append(r.regOrder, h)
		r.amu.Unlock()
		un := r.d.RegisterCallback(ctx, dials.VerifMakeSerial(op.Ser, cfg), func(_ context.Context, o, n *RC) { r.onCall(h, o, n, nil) })
		if un == nil {
			r.amu.Lock()
			for i, x := range r.regOrder {
				if x == h {
					r.regOrder = append(r.regOrder[:i:i], r.regOrder[i+1:]...)
					break
				}
			}
			r.amu.Unlock()
			return "regFail"
		}
		c.unreg[h] = un
		return "regOk"
	case "unregister":
		if c.unreg[op.H](ctx) {
			return "unregTrue"
		}
		return "unregFalse"
	case "enable":
		cfg, tok, err := r.d.EnableVerification(ctx)
		if err != nil {
			if errors.Is(err, context.Canceled) {
				return "ctxErr"
			}
			return "enErr"
		}
		r.observed(cfg, "enable")
		return fmt.Sprintf("enOk:%d:%s", dials.VerifCfgSerial(tok), r.cfgStr(cfg))
	}
	return "?"
}

type rtObserved struct {
	cfg  string
	via  string
	step int
}

func (r *rtRun) observed(cfg *RC, via string) {
	r.lmu.Lock()
	r.seenCfgs = append(r.seenCfgs, rtObserved{cfg: r.cfgStr(cfg), via: via, step: r.stepNo})
	r.lmu.Unlock()
}

// onCall is every callback body: h >= 0 registered callback, -1 OnNewConfig, -2 OnWatchedError.
func (r *rtRun) onCall(h int, o, n *RC, err error) {
	d := rtDelivery{h: h, old: r.cfgStr(o), new: r.cfgStr(n), oldC: o, newC: n, step: r.stepNo}
	var data string
	switch h {
	case -1:
		data = fmt.Sprintf("onNew:%s:%s", d.old, d.new)
	case -2:
		d.err = r.errClass(err)
		data = fmt.Sprintf("onErr:%s:%s:%s", d.err, d.old, d.new)
	default:
		data = fmt.Sprintf("user:%d:%s:%s", h, d.old, d.new)
	}
	r.inCallback++
	if r.inCallback > 1 {
		r.panics = append(r.panics, "two callbacks running at once")
	}
	r.deliveries = append(r.deliveries, d)
	if n != nil && h != -2 {
		r.observed(n, "callback")
	}
	r.logf("callback %s", data)
	r.actor("cb").park("calling", data)
	r.inCallback--
}

// ---------- one schedule ----------

type rtProfile struct {
	name                                      string
	mon, cb, begin, cli, ack, cancel, cancel0 int
}

var rtProfiles = []rtProfile{
	{"uniform", 10, 10, 10, 10, 10, 1, 0},
	{"lazy-monitor", 2, 10, 12, 12, 10, 1, 0},
	{"lazy-callbacks", 10, 1, 10, 10, 10, 1, 0},
	{"eager-library", 30, 30, 8, 8, 8, 1, 0},
	{"cancel-happy", 10, 10, 10, 10, 10, 8, 1},
	{"client-burst", 4, 4, 30, 20, 10, 1, 0},
}

type rtConfig struct {
	nsrc, nclients, steps     int
	skipInit, delay, suppress bool
	profile                   rtProfile
	init                      []int
	stuck                     bool // a callback that never returns
	noDone                    bool
	focus                     string
	saturate                  bool // mostly non-blocking reports; the first callback entered never returns
}

func (r *rtRun) ask(s string) string { return r.c.Drv.Ask(s) }

// doStep executes one label on the implementation (act), waits for quiescence and makes the model
// take the same step (trying the possible `choice` values where Go's select is random).
func (r *rtRun) doStep(label string, hasChoice bool, act func()) bool {
	r.stepNo++
	if r.traceFile != nil {
		fmt.Fprintf(r.traceFile, "%d %s\n", r.stepNo, label)
	}
	act()
	ok, dump := quiesce(3 * time.Second)
	if !ok {
		r.hang = "no quiescence within 3s after " + label + "\n" + dump
		return false
	}
	obsI := r.obs()
	if parked, point, _, fin := r.actors["mon"].status(); !parked && !fin && point != "top" && point != "" && r.monBlockedAt == "" {
		// everything is quiescent and the monitor is neither parked at a hook nor waiting in its top-level
		// select: it is blocked inside the step that follows `point`
		r.monBlockedAt = fmt.Sprintf("%s (step %d, %s)", point, r.stepNo, obsI)
	}
	if len(r.doneOK) == r.nsrc && !r.rootCancelled && r.monAfterAllDone == "" {
		if parked, point, _, _ := r.actors["mon"].status(); parked && point == "top" {
			r.monAfterAllDone = fmt.Sprintf("step %d (%s)", r.stepNo, obsI)
		}
	}
	if r.mismatch != "" {
		// the model has already disagreed: continue on the implementation alone so that the
		// shutdown phase and the direct oracles can turn the disagreement into a concrete violation
		r.trace = append(r.trace, label+"  => IMPL-ONLY "+obsI)
		return true
	}
	tries := []string{label}
	if hasChoice {
		tries = nil
		for k := 0; k < 9; k++ {
			tries = append(tries, fmt.Sprintf("%s %d", label, k))
		}
	}
	var first string
	for i, l := range tries {
		rep := r.ask("rt peek " + l)
		if i == 0 {
			first = rep
		}
		if rep == "ok "+obsI {
			r.ask("rt do " + l)
			r.trace = append(r.trace, l+"  => "+obsI)
			return true
		}
		if rep == "disabled" && !hasChoice {
			break
		}
	}
	r.trace = append(r.trace, label+"  => IMPL "+obsI+"  MODEL "+first)
	r.mismatch = fmt.Sprintf("after %q: implementation %q, model %q", label, obsI, first)
	return false
}

func (r *rtRun) genOp(rng *RNG, c *rtClient, cfg rtConfig) rtOp {
	r.nextCtx++
	op := rtOp{Ctx: r.nextCtx}
	val := func() int {
		// distinct per operation (the oracles pair a report with the monitor's outcome by source and value)
		k := (r.nextCtx*8 + rng.Intn(8)) * 4
		switch x := rng.Intn(100); {
		case x < 62:
			return k // good
		case x < 70:
			return k + 3 // good
		case x < 86:
			return k + 1 // invalid
		default:
			return k + 2 // unstackable
		}
	}
	for {
		if cfg.saturate && rng.Chance(10) {
			// a source error into the (soon full) queue: dropped like every other event, never waited for
			op.Kind, op.Src, op.V = "reportErr", rng.Intn(cfg.nsrc), 1+rng.Intn(9)
			return op
		}
		if cfg.saturate && rng.Chance(85) {
			v := (r.nextCtx*8 + rng.Intn(8)) * 4
			if rng.Chance(15) {
				v++ // invalid: rejected by Verify
			}
			op.Kind, op.Src, op.V, op.Blocking = "report", rng.Intn(cfg.nsrc), v, rng.Chance(25)
			return op
		}
		switch x := rng.Intn(100); {
		case x < 34:
			op.Kind, op.Src, op.V, op.Blocking = "report", rng.Intn(cfg.nsrc), val(), rng.Chance(40)
		case x < 44:
			op.Kind = "view"
		case x < 50:
			op.Kind = "events"
		case x < 56:
			op.Kind, op.Src, op.V = "reportErr", rng.Intn(cfg.nsrc), 1+rng.Intn(9)
		case x < 58:
			if cfg.noDone {
				continue
			}
			op.Kind, op.Src = "done", rng.Intn(cfg.nsrc)
		case x < 74:
			op.Kind = "register"
			r.nextHandle++
			op.H = r.nextHandle
			op.CfgIdx = -1
			if len(c.seen) > 0 && rng.Chance(85) {
				op.CfgIdx = rng.Intn(len(c.seen))
				if rng.Chance(70) {
					op.CfgIdx = len(c.seen) - 1
				}
				op.Ser = c.seen[op.CfgIdx].ser
				if rng.Chance(8) {
					op.Ser += uint64(1 + rng.Intn(3)) // a serial from the future
				} else if rng.Chance(8) && op.Ser > 0 {
					op.Ser -= 1
				}
			} else if rng.Chance(30) {
				op.Ser = uint64(rng.Intn(4))
			}
		case x < 86:
			if len(c.unreg) == 0 {
				continue
			}
			op.Kind = "unregister"
			// any handle this client registered (possibly already unregistered: "even twice")
			k := rng.Intn(len(c.unreg))
			for h := range c.unreg {
				if k == 0 {
					op.H = h
				}
				k--
			}
			_ = k
		default:
			if !cfg.delay && rng.Chance(70) {
				continue
			}
			op.Kind = "enable"
		}
		return op
	}
}

func pickWeighted(rng *RNG, ws []int) int {
	tot := 0
	for _, w := range ws {
		tot += w
	}
	if tot == 0 {
		return -1
	}
	x := rng.Intn(tot)
	for i, w := range ws {
		if x < w {
			return i
		}
		x -= w
	}
	return -1
}

type rtAction struct {
	kind string
	c    *rtClient
	ctx  int
	op   *rtOp // begin: a prescribed operation instead of a generated one
}

func runSchedule(c *Ctx, rng *RNG, cfg rtConfig) *rtRun {
	r := &rtRun{c: c, nsrc: cfg.nsrc, actors: map[string]*actor{}, ctxs: map[int]context.Context{}, cancels: map[int]context.CancelFunc{},
		unregDone: map[int]int{}, regSerial: map[int]uint64{}, regHasCfg: map[int]bool{}, handleIDs: map[any]int{}, enableOKStep: -1, stuckHandle: -1,
		skipInit: cfg.skipInit, delay: cfg.delay, suppress: cfg.suppress, cfg: cfg, kindCount: map[string]int{}, opCount: map[string]int{}}
	// the implementation-only streams that ran before (and the previous schedule's callbacks) may have left
	// goroutines of the library that are still on their way out: they would arrive at THIS schedule's hooks (a stale
	// monitor's exit hook) and show up in its leak check.  Wait until none is left.
	if left := rtDrainStale(5 * time.Second); left != "" {
		c.Res.Count("stale-library-goroutines-at-schedule-start")
	}
	rtCur = r
	defer func() { rtCur = nil }()
	if c.WorkDir != "" {
		// the labels executed so far, written through step by step: what ./check shows when the process dies
		if f, err := os.Create(filepath.Join(c.WorkDir, "current-trace.log")); err == nil {
			r.traceFile = f
			defer f.Close()
		}
	}
	dials.SetVerifHook(r.hook)
	defer dials.SetVerifHook(nil)
	root, rootCancel := context.WithCancel(context.Background())
	r.ctxs[0], r.cancels[0] = root, rootCancel
	r.nextCtx = 0
	srcs := make([]dials.Source, cfg.nsrc)
	for i := 0; i < cfg.nsrc; i++ {
		s := &rtSource{idx: i, run: r, init: cfg.init[i]}
		r.sources = append(r.sources, s)
		srcs[i] = s
	}
	p := dials.Params[RC]{
		SkipInitialVerification: cfg.skipInit, DelayInitialVerification: cfg.delay,
		CallGlobalCallbacksAfterVerificationEnabled: cfg.suppress,
		OnNewConfig:    func(_ context.Context, o, n *RC) { r.onCall(-1, o, n, nil) },
		OnWatchedError: func(_ context.Context, err error, o, n *RC) { r.onCall(-2, o, n, err) },
	}
	slots := make([]string, cfg.nsrc)
	watching := make([]string, cfg.nsrc)
	for i := range slots {
		slots[i] = fmt.Sprint(cfg.init[i])
		watching[i] = "1"
	}
	initLabel := fmt.Sprintf("rt init %s %s %s %s %s", b01(cfg.skipInit), b01(cfg.delay), b01(cfg.suppress), strings.Join(slots, "."), strings.Join(watching, "."))
	r.trace = append(r.trace, initLabel)
	var d *dials.Dials[RC]
	var err error
	func() {
		defer func() {
			if pn := recover(); pn != nil {
				err = fmt.Errorf("panic: %v", pn)
				r.panics = append(r.panics, fmt.Sprint(pn))
			}
		}()
		d, err = p.Config(root, &RC{N: &RCN{}, Ṅ: &RCN{}}, srcs...)
	}()
	rep := r.ask(initLabel)
	if err != nil {
		r.configErr = r.errClass(err)
		if rep != "configErr "+r.configErr {
			r.mismatch = fmt.Sprintf("Config returned error class %q (%v), model %q", r.configErr, err, rep)
		}
		// Config refused the initial stack: there is no Dials, so nothing of the library may be running for it (the
		// Config context is still alive here: a monitor started too early would sit there with the refused config)
		if left := rtDrainStale(150 * time.Millisecond); left != "" {
			r.failedCfgLeak = strings.SplitN(left, "\n", 4)[0] + " " + strings.Join(strings.Fields(strings.SplitN(left+"\n\n\n", "\n", 4)[1]), " ")
		}
		rootCancel()
		return r
	}
	r.d = d
	r.initCfg = r.cfgStr(d.View())
	r.initPtr = d.View()
	ok, dump := quiesce(3 * time.Second)
	if !ok {
		r.hang = "no quiescence after Config\n" + dump
		return r
	}
	if obsI := r.obs(); rep != "ok "+obsI {
		// continue on the implementation alone (see doStep): the direct oracles may turn this into a violation
		r.mismatch = fmt.Sprintf("after Config: implementation %q, model %q", obsI, rep)
	}
	for i := 1; i <= cfg.nclients; i++ {
		cl := &rtClient{id: i, status: "idle", cmd: make(chan rtOp), unreg: map[int]dials.UnregisterCBFunc{}}
		r.clients = append(r.clients, cl)
		go r.clientLoop(cl)
	}
	defer func() {
		for _, cl := range r.clients {
			close(cl.cmd)
		}
	}()
	prof := cfg.profile
	stuckActive := false
	for n := 0; n < cfg.steps && r.hang == ""; n++ {
		var acts []rtAction
		var ws []int
		if p, _, _, _ := r.actors["mon"].status(); p {
			acts, ws = append(acts, rtAction{kind: "mon"}), append(ws, prof.mon)
		}
		if p, pt, data, _ := r.actors["cb"].status(); p {
			stuckHere := cfg.stuck && pt == "calling" && (strings.HasPrefix(data, "user:") || cfg.saturate)
			if stuckHere && !stuckActive && (cfg.saturate || rng.Chance(30)) {
				stuckActive = true // this callback never returns (until shutdown)
				r.logf("callback %s is now stuck", data)
			}
			if !(stuckActive && pt == "calling") {
				acts, ws = append(acts, rtAction{kind: "cb"}), append(ws, prof.cb)
			}
		}
		for _, cl := range r.clients {
			switch cl.statusNow() {
			case "idle":
				acts, ws = append(acts, rtAction{kind: "begin", c: cl}), append(ws, prof.begin)
			case "ready":
				acts, ws = append(acts, rtAction{kind: "cli", c: cl}), append(ws, prof.cli)
				if cl.op.Kind != "done" {
					acts, ws = append(acts, rtAction{kind: "cancel", ctx: cl.op.Ctx}), append(ws, prof.cancel/2)
				}
			case "running":
				acts, ws = append(acts, rtAction{kind: "cancel", ctx: cl.op.Ctx}), append(ws, prof.cancel)
			case "returned":
				acts, ws = append(acts, rtAction{kind: "ack", c: cl}), append(ws, prof.ack)
			}
		}
		if !r.rootCancelled {
			acts, ws = append(acts, rtAction{kind: "cancel", ctx: 0}), append(ws, prof.cancel0)
		}
		i := pickWeighted(rng, ws)
		if i < 0 {
			break
		}
		r.perform(rng, acts[i], cfg)
	}
	if r.hang == "" {
		r.shutdown(rng, cfg)
	}
	if !r.shutdownOK {
		r.freeRun()
	}
	return r
}

// freeRun lets every goroutine of an abandoned schedule run to its end (hooks stop parking), so that
// failed schedules do not leave parked goroutines behind.
func (r *rtRun) freeRun() {
	r.free.Store(true)
	for _, cf := range r.cancels {
		cf()
	}
	for i := 0; i < 50; i++ {
		r.amu.Lock()
		var parked []*actor
		for _, a := range r.actors {
			if p, _, _, _ := a.status(); p {
				parked = append(parked, a)
			}
		}
		r.amu.Unlock()
		if len(parked) == 0 && i > 2 {
			break
		}
		for _, a := range parked {
			select {
			case a.release <- struct{}{}:
			default:
			}
		}
		quiesce(200 * time.Millisecond)
	}
}

func (c *rtClient) statusNow() string {
	c.mu.Lock()
	defer c.mu.Unlock()
	return c.status
}

func (r *rtRun) perform(rng *RNG, a rtAction, cfg rtConfig) bool {
	r.kindCount[a.kind]++
	switch a.kind {
	case "mon":
		return r.doStep("mon", true, func() { r.actors["mon"].releaseNow() })
	case "cb":
		return r.doStep("cb", false, func() { r.actors["cb"].releaseNow() })
	case "begin":
		op := rtOp{}
		if a.op != nil {
			r.nextCtx++
			op = *a.op
			op.Ctx = r.nextCtx
		} else {
			op = r.genOp(rng, a.c, cfg)
		}
		op.Begin = r.stepNo + 1
		a.c.op = op
		r.opCount[op.Kind]++
		return r.doStep(fmt.Sprintf("begin %d %s %d", a.c.id, op.label(r, a.c), op.Ctx), false, func() {
			a.c.mu.Lock()
			a.c.status = "ready"
			a.c.mu.Unlock()
		})
	case "cli":
		if a.c.op.Kind == "enable" {
			r.enableCalled = true
		}
		return r.doStep(fmt.Sprintf("cli %d", a.c.id), true, func() {
			a.c.mu.Lock()
			a.c.status = "running"
			a.c.mu.Unlock()
			a.c.cmd <- a.c.op
		})
	case "ack":
		res := a.c.result
		r.logf("client %d %s returned %s", a.c.id, a.c.op.Kind, res)
		a.c.mu.Lock()
		retAt := a.c.retAt
		a.c.mu.Unlock()
		r.returns = append(r.returns, rtReturn{client: a.c.id, op: a.c.op, res: res, step: r.stepNo, retAt: retAt})
		if a.c.op.Kind == "done" && res == "nil" {
			if r.doneOK == nil {
				r.doneOK = map[int]bool{}
			}
			r.doneOK[a.c.op.Src] = true
		}
		if a.c.op.Kind == "unregister" && res == "unregTrue" {
			if _, ok := r.unregDone[a.c.op.H]; !ok {
				r.unregDone[a.c.op.H] = r.retStep(a.c)
			}
		}
		return r.doStep(fmt.Sprintf("ack %d", a.c.id), false, func() {
			a.c.mu.Lock()
			a.c.status = "idle"
			a.c.mu.Unlock()
		})
	case "cancel":
		if a.ctx == 0 && !r.rootCancelled {
			r.rootCancelled = true
			r.rootCancelStep = r.stepNo + 1
		}
		r.ctxFor(a.ctx)
		return r.doStep(fmt.Sprintf("cancel %d", a.ctx), false, func() { r.cancels[a.ctx]() })
	}
	return false
}

// drainOnce: one round of "release whatever is parked / ready / returned"; false when nothing moved
func (r *rtRun) drainOnce(rng *RNG, cfg rtConfig) bool {
	progressed := false
	if p, _, _, _ := r.actors["mon"].status(); p {
		r.perform(rng, rtAction{kind: "mon"}, cfg)
		progressed = true
	}
	if p, pt, _, _ := r.actors["cb"].status(); p && !(cfg.stuck && pt == "calling" && r.stuckHandle >= 0) {
		r.perform(rng, rtAction{kind: "cb"}, cfg)
		progressed = true
	}
	for _, cl := range r.clients {
		switch cl.statusNow() {
		case "ready":
			r.perform(rng, rtAction{kind: "cli", c: cl}, cfg)
			progressed = true
		case "returned":
			r.perform(rng, rtAction{kind: "ack", c: cl}, cfg)
			progressed = true
		}
	}
	return progressed && r.hang == ""
}

// retStep: the step at which the client's call was observed to have returned
func (r *rtRun) retStep(c *rtClient) int { return r.stepNo }

type rtReturn struct {
	client int
	op     rtOp
	res    string
	step   int // the step in which the harness acknowledged the result
	retAt  int // the step in which the call itself returned (results are acknowledged later, in any order)
}

// shutdown: cancel the Config context, then every client context, and run everything to the end.
func (r *rtRun) shutdown(rng *RNG, cfg rtConfig) {
	r.logf("shutdown phase")
	// two ways to end: cancel the Config context, or let every watching source call Done (in a random order;
	// the monitor must then exit by itself)
	byDone := !cfg.noDone && !r.rootCancelled && r.mismatch == "" && len(r.clients) > 0 && rng.Chance(35)
	if byDone {
		r.logf("shutdown: every source calls Done")
		order := make([]int, cfg.nsrc)
		for i := range order {
			order[i] = i
		}
		for i := len(order) - 1; i > 0; i-- {
			j := rng.Intn(i + 1)
			order[i], order[j] = order[j], order[i]
		}
		for _, src := range order {
			// find (or free) a client, then run its Done call to completion
			var cl *rtClient
			for guard := 0; guard < 400 && cl == nil; guard++ {
				for _, c := range r.clients {
					if c.statusNow() == "idle" {
						cl = c
						break
					}
				}
				if cl != nil {
					break
				}
				if !r.drainOnce(rng, cfg) {
					break
				}
			}
			if cl == nil || r.hang != "" {
				byDone = false
				break
			}
			op := rtOp{Kind: "done", Src: src}
			if !r.perform(rng, rtAction{kind: "begin", c: cl, op: &op}, cfg) && r.mismatch == "" {
				return
			}
		}
		r.byDone = byDone
	}
	if !byDone && !r.rootCancelled {
		if !r.perform(rng, rtAction{kind: "cancel", ctx: 0}, cfg) {
			return
		}
	}
	for guard := 0; guard < 2000; guard++ {
		progressed := false
		if p, _, _, _ := r.actors["mon"].status(); p {
			if !r.perform(rng, rtAction{kind: "mon"}, cfg) {
				return
			}
			progressed = true
		}
		if p, _, _, _ := r.actors["cb"].status(); p {
			if !r.perform(rng, rtAction{kind: "cb"}, cfg) {
				return
			}
			progressed = true
		}
		for _, cl := range r.clients {
			switch cl.statusNow() {
			case "ready":
				if !r.perform(rng, rtAction{kind: "cli", c: cl}, cfg) {
					return
				}
				progressed = true
			case "running":
				if _, _, _, monFin := r.actors["mon"].status(); r.byDone && cl.op.Kind == "done" && !monFin {
					continue // a Done call waits for the monitor to take it; it is not abandoned
				}
				if !r.perform(rng, rtAction{kind: "cancel", ctx: cl.op.Ctx}, cfg) {
					return
				}
				if cl.statusNow() == "running" {
					r.hang = fmt.Sprintf("client %d (%s) still blocked after its context was cancelled", cl.id, cl.op.Kind)
					return
				}
				progressed = true
			case "returned":
				if !r.perform(rng, rtAction{kind: "ack", c: cl}, cfg) {
					return
				}
				progressed = true
			}
		}
		if !progressed {
			break
		}
	}
	_, _, _, monFin := r.actors["mon"].status()
	_, _, _, cbFin := r.actors["cb"].status()
	if !monFin || !cbFin {
		how := "after shutdown"
		if r.byDone {
			how = "after every watching source called Done (the Config context is still alive)"
		}
		r.hang = fmt.Sprintf("%s: monitor finished=%v callback goroutine finished=%v (%s)", how, monFin, cbFin, r.obs())
		return
	}
	if r.byDone && !r.rootCancelled {
		r.perform(rng, rtAction{kind: "cancel", ctx: 0}, cfg) // release the contexts
	}
	// API calls issued after shutdown must fail (never panic, never report success, never block past their context)
	for _, cl := range r.clients {
		if len(r.clients) == 0 {
			break
		}
		for _, kind := range []string{"register", "unregister", "unregister", "view"} {
			r.nextCtx++
			op := rtOp{Kind: kind, Ctx: r.nextCtx, CfgIdx: -1}
			if kind == "register" {
				r.nextHandle++
				op.H = r.nextHandle
			}
			if kind == "unregister" {
				if len(cl.unreg) == 0 {
					continue
				}
				for h := range cl.unreg {
					op.H = h
				}
			}
			cl.op = op
			if !r.doStep(fmt.Sprintf("begin %d %s %d", cl.id, op.label(r, cl), op.Ctx), false, func() { cl.mu.Lock(); cl.status = "ready"; cl.mu.Unlock() }) {
				return
			}
			if !r.perform(rng, rtAction{kind: "cli", c: cl}, cfg) {
				return
			}
			if cl.statusNow() == "running" {
				if !r.perform(rng, rtAction{kind: "cancel", ctx: op.Ctx}, cfg) {
					return
				}
			}
			if cl.statusNow() != "returned" {
				r.lateResults = append(r.lateResults, kind+" blocked past its context")
				return
			}
			res := cl.result
			if (kind == "register" && res != "regFail") || (kind == "unregister" && res != "unregFalse") || strings.HasPrefix(res, "panic") {
				r.lateResults = append(r.lateResults, fmt.Sprintf("%s returned %s", kind, res))
			}
			if !r.perform(rng, rtAction{kind: "ack", c: cl}, cfg) {
				return
			}
		}
		break // one client is enough
	}
	// leak check: no goroutine with a vimeo/dials frame survives
	quiesce(time.Second)
	buf := make([]byte, 1<<18)
	n := runtime.Stack(buf, true)
	for _, blk := range strings.Split(string(buf[:n]), "\n\n") {
		if strings.Contains(blk, "github.com/vimeo/dials.") && !strings.Contains(blk, "runSchedule") {
			r.leak = blk
		}
	}
	r.shutdownOK = true
}

// rtDrainStale waits until no goroutine other than the caller has a frame of the library's root package; it returns
// the stack of one that is still there when the time is up ("" = none)
func rtDrainStale(maxWait time.Duration) string {
	buf := make([]byte, 1<<18)
	deadline := time.Now().Add(maxWait)
	me := fmt.Sprintf("goroutine %d [", curGoid())
	for {
		n := runtime.Stack(buf, true)
		for n == len(buf) {
			buf = make([]byte, 2*len(buf))
			n = runtime.Stack(buf, true)
		}
		left := ""
		for _, blk := range strings.Split(string(buf[:n]), "\n\n") {
			if strings.HasPrefix(blk, me) {
				continue
			}
			if strings.Contains(blk, "github.com/vimeo/dials.") {
				left = blk
				break
			}
		}
		if left == "" || time.Now().After(deadline) {
			return left
		}
		time.Sleep(200 * time.Microsecond)
	}
}
