package main

import (
	"fmt"
	"reflect"
	"strings"

	cc "github.com/vimeo/dials/tagformat/caseconversion"
)

type ccScheme struct {
	name string
	enc  cc.EncodeCasingFunc
	dec  cc.DecodeCasingFunc
}

var ccSchemes = []ccScheme{
	{"upperCamel", cc.EncodeUpperCamelCase, cc.DecodeUpperCamelCase},
	{"lowerCamel", cc.EncodeLowerCamelCase, cc.DecodeLowerCamelCase},
	{"lowerSnake", cc.EncodeLowerSnakeCase, cc.DecodeLowerSnakeCase},
	{"upperSnake", cc.EncodeUpperSnakeCase, cc.DecodeUpperSnakeCase},
	{"kebab", cc.EncodeKebabCase, cc.DecodeKebabCase},
	{"casePreservingSnake", cc.EncodeCasePreservingSnakeCase, cc.DecodeCasePreservingSnakeCase},
}

var ccDecoders = map[string]cc.DecodeCasingFunc{
	"goCamel": cc.DecodeGoCamelCase, "goTags": cc.DecodeGoTags,
}

// harness-owned copy of the golint initialism list (NOT read from /repo: the oracle and the
// known-finding predicate must not move with the code under test).
var refInitialisms = []string{"ACL", "API", "ASCII", "CPU", "CSS", "DNS", "EOF", "GUID", "HTML", "HTTP", "HTTPS", "ID", "IP", "JSON", "LHS", "QPS", "RAM", "RHS", "RPC", "SLA", "SMTP", "SQL", "SSH", "TCP", "TLS", "TTL", "UDP", "UI", "UID", "UUID", "URI", "URL", "UTF8", "VM", "XML", "XMPP", "XSRF", "XSS"}

// refScanOrder is the listed (D11) behaviour: sequential scan-order prefix stripping.
func refScanOrder(s string) []string {
	words := []string{}
	for {
		found := false
		for _, in := range refInitialisms {
			if strings.HasPrefix(s, in) {
				found = true
				words = append(words, strings.ToLower(in))
				s = s[len(in):]
			}
		}
		if !found {
			break
		}
	}
	if s != "" {
		words = append(words, strings.ToLower(s))
	}
	return words
}

func genWord(r *RNG) string {
	n := 1 + r.Intn(7)
	if r.Chance(10) {
		n = 1
	}
	b := make([]byte, n)
	b[0] = byte('a' + r.Intn(26))
	for i := 1; i < n; i++ {
		if r.Chance(15) {
			b[i] = byte('0' + r.Intn(10))
		} else {
			b[i] = byte('a' + r.Intn(26))
		}
	}
	return string(b)
}

type goTok struct {
	S    string
	Init bool
}

var capWordPool = []string{"User", "File", "Port", "Name", "Config", "Server", "Host", "Path", "Timeout", "Max", "Min",
	"Count", "Enable", "Disable", "Log", "Level", "Retry", "Limit", "Cache", "Size", "Key", "Value", "Addr", "Proxy",
	"Token", "Secret", "Mode", "Debug", "Verbose", "Env", "Var", "Flag", "Set", "Get", "Put", "Do", "Go", "Is", "On", "My"}

func genCapWord(r *RNG, digits bool) string {
	var w string
	if r.Chance(60) {
		w = capWordPool[r.Intn(len(capWordPool))]
	} else {
		n := 2 + r.Intn(6)
		b := make([]byte, n)
		b[0] = byte('A' + r.Intn(26))
		for i := 1; i < n; i++ {
			b[i] = byte('a' + r.Intn(26))
		}
		w = string(b)
	}
	if digits && r.Chance(50) {
		w += fmt.Sprint(r.Intn(100))
	}
	return w
}

func genIdent(r *RNG, digits bool) []goTok {
	n := 1 + r.Intn(6)
	ts := make([]goTok, n)
	for i := range ts {
		if r.Chance(40) {
			ts[i] = goTok{refInitialisms[r.Intn(len(refInitialisms))], true}
		} else {
			ts[i] = goTok{genCapWord(r, digits), false}
		}
	}
	return ts
}

func render(ts []goTok) (string, []string) {
	var b strings.Builder
	want := make([]string, len(ts))
	for i, t := range ts {
		b.WriteString(t.S)
		want[i] = strings.ToLower(t.S)
	}
	return b.String(), want
}

// d11Predicate: some maximal run of adjacent initialisms is not tokenised as intended by the
// scan-order matcher (KNOWN_FINDINGS D11).
func d11Predicate(ts []goTok) bool {
	for i := 0; i < len(ts); {
		if !ts[i].Init {
			i++
			continue
		}
		j := i
		run := ""
		var want []string
		for j < len(ts) && ts[j].Init {
			run += ts[j].S
			want = append(want, strings.ToLower(ts[j].S))
			j++
		}
		if !reflect.DeepEqual(refScanOrder(run), want) {
			return true
		}
		i = j
	}
	return false
}

// d14Predicate: a capitalised word of fewer than three characters directly after an initialism
// at the very end of the identifier (the decoder deliberately keeps "URLs"/"IDs" together).
func d14Predicate(ts []goTok) bool {
	n := len(ts)
	return n >= 2 && !ts[n-1].Init && len(ts[n-1].S) < 3 && ts[n-2].Init
}

// d16Predicate: the identifier ends in a run of >= 2 initialisms whose last character is a digit.
func d16Predicate(ts []goTok) bool {
	n := len(ts)
	return n >= 2 && ts[n-1].Init && ts[n-2].Init && hasDigit(ts[n-1].S[len(ts[n-1].S)-1:])
}

func hasDigit(s string) bool { return strings.ContainsAny(s, "0123456789") }

// d15Predicate: a word ending in digits is directly followed by an upper-case letter
// (the three boundary predicates need a lower-case neighbour).
func d15Predicate(ts []goTok) bool {
	for i := 0; i+1 < len(ts); i++ {
		if !ts[i].Init && hasDigit(ts[i].S) {
			return true
		}
	}
	return false
}

func implDecode(f cc.DecodeCasingFunc, s string) (out string) {
	defer func() {
		if p := recover(); p != nil {
			out = "panic"
		}
	}()
	ws, err := f(s)
	if err != nil {
		return "err"
	}
	out = "ok " + hexList(ws)
	// result ownership: the returned words are the caller's - overwriting them must not change what the same
	// identifier decodes to afterwards (a decoder that hands out a cached or shared slice would)
	for i := range ws {
		ws[i] = "scribbled"
	}
	for i, j := 0, len(ws)-1; i < j; i, j = i+1, j-1 {
		ws[i], ws[j] = ws[j], ws[i]
	}
	again := "err"
	if ws2, err2 := f(s); err2 == nil {
		again = "ok " + hexList(ws2)
	}
	if again != out && c19Shared != nil {
		c19Shared(s, out, again)
	}
	return out
}

// c19Shared reports a decoder whose second answer for the same identifier changed after the caller wrote to the first
var c19Shared func(ident, first, second string)

func implEncode(f cc.EncodeCasingFunc, ws []string) (out string) {
	defer func() {
		if p := recover(); p != nil {
			out = "panic"
		}
	}()
	before := hexList(ws)
	out = "ok " + hexEnc(f(ws))
	if after := hexList(ws); after != before && c19Shared != nil {
		c19Shared("(encoder input) "+before, before, after)
	}
	return out
}

func init() { register("C19", checkC19) }

func checkC19(c *Ctx) {
	r := c.RNG
	res := c.Res
	c19Shared = func(ident, first, second string) {
		res.Add(Finding{Kind: "violation", What: "the decoded words are not the caller's own (or an encoder wrote to its input): after the caller overwrote the first result, the same identifier decodes differently",
			Case: map[string]any{"identifier": ident}, Expected: first, Observed: second})
	}
	defer func() { c19Shared = nil }()
	res.Rule = "stream A: word lists over [a-z][a-z0-9]* (0-12 words) x six schemes, encode then decode, implementation vs model and vs the round-trip oracle; " +
		"stream B: Go identifiers from capitalised words and the initialism list (1-6 tokens), DecodeGoCamelCase vs model and vs the token oracle; " +
		"stream C: arbitrary ASCII strings into all eight decoders, implementation vs model. " +
		"non-trivial: A = at least 2 words; B = at least 2 tokens with at least one initialism; C = decodes without error. distinct = by canonical case text"
	nA := c.scale(6000, 600000)
	nB := c.scale(8000, 800000)
	nC := c.scale(6000, 600000)

	// stream A
	for i := 0; i < nA; i++ {
		nw := r.Intn(13)
		if r.Chance(70) {
			nw = r.Intn(5)
		}
		ws := make([]string, nw)
		for k := range ws {
			ws[k] = genWord(r)
		}
		sc := ccSchemes[r.Intn(len(ccSchemes))]
		encI := implEncode(sc.enc, ws)
		encM := c.Drv.Ask("cc enc " + sc.name + " " + hexList(ws))
		cs := map[string]any{"stream": "roundtrip", "scheme": sc.name, "words": ws}
		res.Count("A/" + sc.name)
		res.Count(fmt.Sprintf("A/words=%d", nw))
		if encI != encM {
			res.Add(Finding{Kind: "disagreement", What: "encode: model != implementation", Case: cs, Observed: encI, Model: encM})
		}
		var encoded string
		if strings.HasPrefix(encI, "ok ") {
			encoded, _ = hexDec(encI[3:])
		}
		decI := implDecode(sc.dec, encoded)
		decM := c.Drv.Ask("cc dec " + sc.name + " " + hexEnc(encoded))
		if decI != decM {
			res.Add(Finding{Kind: "disagreement", What: "decode: model != implementation", Case: cs, Observed: decI, Model: decM})
		}
		// oracle
		if nw == 0 {
			if decI != "err" {
				res.Add(Finding{Kind: "violation", What: "decoding the encoding of the empty word list is not rejected", Case: cs, Observed: decI})
			}
		} else if decI != "ok "+hexList(ws) {
			res.Add(Finding{Kind: "violation", What: "decode(encode(words)) != words", Case: cs, Expected: ws, Observed: decI})
		}
		res.Case("A|"+sc.name+"|"+strings.Join(ws, ","), nw >= 2, cs)
	}

	// stream B
	for i := 0; i < nB; i++ {
		digits := r.Chance(15)
		ts := genIdent(r, digits)
		id, want := render(ts)
		decI := implDecode(cc.DecodeGoCamelCase, id)
		decM := c.Drv.Ask("cc dec goCamel " + hexEnc(id))
		cs := map[string]any{"stream": "goident", "ident": id, "tokens": want}
		ninit := 0
		for _, t := range ts {
			if t.Init {
				ninit++
			}
		}
		res.Count(fmt.Sprintf("B/tokens=%d", len(ts)))
		res.Count(fmt.Sprintf("B/initialisms=%d", ninit))
		if decI != decM {
			res.Add(Finding{Kind: "disagreement", What: "DecodeGoCamelCase: model != implementation", Case: cs, Observed: decI, Model: decM})
		}
		if decI != "ok "+hexList(want) {
			kid := ""
			switch {
			case d11Predicate(ts):
				kid = "D11-scan-order"
			case d15Predicate(ts):
				kid = "D15-digit-word"
			case d14Predicate(ts):
				kid = "D14-short-tail"
			case d16Predicate(ts):
				kid = "D16-digit-tail"
			}
			res.Count("B/fail/" + kid)
			// a listed finding covers the case only when the implementation still shows the listed behaviour (= the model's)
			if kid != "" && isKnown("C19", kid) && decI == decM {
				res.Add(Finding{Kind: "known", KnownID: kid, What: "DecodeGoCamelCase splits differently from the identifier's tokens", Case: cs, Expected: want, Observed: decI})
			} else {
				res.Add(Finding{Kind: "violation", What: "DecodeGoCamelCase(render tokens) != tokens", Case: cs, Expected: want, Observed: decI})
			}
		}
		res.Case("B|"+id+"|"+strings.Join(want, ","), len(ts) >= 2 && ninit >= 1, cs)
	}

	// stream C
	alpha := "abcxyzABCXYZIDHTPSUL019_-_-. /"
	decs := []string{"upperCamel", "lowerCamel", "lowerSnake", "upperSnake", "kebab", "casePreservingSnake", "goCamel", "goTags"}
	for i := 0; i < nC; i++ {
		n := r.Intn(12)
		b := make([]byte, n)
		for k := range b {
			if r.Chance(3) {
				b[k] = byte(r.Intn(128))
			} else {
				b[k] = alpha[r.Intn(len(alpha))]
			}
		}
		s := string(b)
		if r.Chance(5) {
			s = CaseKeywords[r.Intn(len(CaseKeywords))]
		}
		dn := decs[r.Intn(len(decs))]
		var f cc.DecodeCasingFunc
		if g, ok := ccDecoders[dn]; ok {
			f = g
		} else {
			for _, sc := range ccSchemes {
				if sc.name == dn {
					f = sc.dec
				}
			}
		}
		decI := implDecode(f, s)
		decM := c.Drv.Ask("cc dec " + dn + " " + hexEnc(s))
		cs := map[string]any{"stream": "arbitrary", "decoder": dn, "input": s}
		res.Count("C/" + dn + "/" + strings.SplitN(decI, " ", 2)[0])
		if decI != decM {
			res.Add(Finding{Kind: "disagreement", What: "decoder on arbitrary ASCII: model != implementation", Case: cs, Observed: decI, Model: decM})
		}
		if decI == "panic" {
			res.Add(Finding{Kind: "violation", What: "decoder panicked", Case: cs, Observed: decI})
		}
		res.Case("C|"+dn+"|"+s, strings.HasPrefix(decI, "ok"), cs)
	}
}

var CaseKeywords = []string{"type", "func", "map", "go", "if", "Type", "range_", "_", "__", "a_", "_a", "A", "ID", "IDs", "URLs", "aID"}
