package main

// C13: the harness's own emitters (abstract document → JSON / YAML / TOML / Cue text as a token list, so that
// single-token corruptions are well defined) and generic parses with the third-party libraries (presence oracle).

import (
	"bytes"
	stdjson "encoding/json"
	"fmt"
	"regexp"
	"strings"

	"cuelang.org/go/cue"
	"cuelang.org/go/cue/cuecontext"
	tomlparser "github.com/pelletier/go-toml"
	yamlv2 "gopkg.in/yaml.v2"
)

// abstract document
type c13Doc struct {
	kind string // s i B f t list map
	s    string // string / int decimal / float text / time text
	b    bool
	tm   bool // a time.Time text (the JSON emitter writes it without ASCII escapes)
	list []*c13Doc
	keys []string
	vals []*c13Doc
}

func (d *c13Doc) toks(out *[]string) {
	switch d.kind {
	case "s":
		*out = append(*out, "s:"+hexEnc(d.s))
	case "i":
		*out = append(*out, "i:"+d.s)
	case "B":
		if d.b {
			*out = append(*out, "B1")
		} else {
			*out = append(*out, "B0")
		}
	case "f":
		*out = append(*out, "f:"+hexEnc(d.s))
	case "t":
		*out = append(*out, "t:"+hexEnc(d.s))
	case "list":
		*out = append(*out, "[")
		for _, e := range d.list {
			e.toks(out)
		}
		*out = append(*out, "]")
	case "map":
		*out = append(*out, "{")
		for i, k := range d.keys {
			*out = append(*out, hexEnc(k))
			d.vals[i].toks(out)
		}
		*out = append(*out, "}")
	}
}

type c13Tok struct {
	s    string
	glue bool
}

type c13Emitter struct {
	r   *RNG
	out []c13Tok
}

func (e *c13Emitter) t(s string) { e.out = append(e.out, c13Tok{s, false}) }
func (e *c13Emitter) g(s string) { e.out = append(e.out, c13Tok{s, true}) }
func (e *c13Emitter) sp()        { e.g([]string{"", " ", " ", "  "}[e.r.Intn(4)]) }
func (e *c13Emitter) sp1()       { e.g([]string{" ", " ", "  "}[e.r.Intn(3)]) }
func c13Text(ts []c13Tok) string {
	var b strings.Builder
	for _, t := range ts {
		b.WriteString(t.s)
	}
	return b.String()
}

// c13Quote: a double-quoted string valid in JSON, YAML (double-quoted style), TOML (basic string) and Cue.
// c13NoASCIIEscapes: set while a time.Time text is written.  encoding/json hands time.Time.UnmarshalJSON the RAW bytes
// of the string token, and that method does not interpret escapes: an escaped RFC 3339 text is rejected by the standard
// library itself, in every JSON-based decoder - not something the dials decoders decide.
var c13NoASCIIEscapes bool

func c13Quote(r *RNG, s string) string {
	var b strings.Builder
	b.WriteByte('"')
	for _, c := range s {
		switch {
		case c == '"':
			b.WriteString(`\"`)
		case c == '\\':
			b.WriteString(`\\`)
		case c == '\n':
			b.WriteString(`\n`)
		case c == '\t':
			b.WriteString(`\t`)
		case c < 0x20 || c == 0x7f:
			fmt.Fprintf(&b, `\u%04x`, c)
		case c >= 0x80 && c <= 0xffff && (c < 0xa0 || r.Chance(50)):
			fmt.Fprintf(&b, `\u%04x`, c)
		case c < 0x80 && r.Chance(2) && !c13NoASCIIEscapes:
			fmt.Fprintf(&b, `\u%04x`, c) // any character may be written as an escape: the string is the same string
		default:
			b.WriteRune(c)
		}
	}
	b.WriteByte('"')
	return b.String()
}

func c13FloatText(s string) string {
	if strings.ContainsAny(s, ".eE") {
		return s
	}
	return s + ".0"
}

// ---------- JSON ----------

func (e *c13Emitter) json(d *c13Doc) {
	switch d.kind {
	case "s", "t":
		c13NoASCIIEscapes = d.kind == "t" || d.tm
		e.t(c13Quote(e.r, d.s))
		c13NoASCIIEscapes = false
	case "i":
		e.t(d.s)
	case "f":
		e.t(c13FloatText(d.s))
	case "B":
		e.t(fmt.Sprint(d.b))
	case "list":
		e.t("[")
		for i, x := range d.list {
			if i > 0 {
				e.t(",")
			}
			e.sp()
			e.json(x)
		}
		e.sp()
		e.t("]")
	case "map":
		e.t("{")
		for i, k := range d.keys {
			if i > 0 {
				e.t(",")
			}
			e.jsonNL()
			e.t(c13Quote(e.r, k))
			e.sp()
			e.t(":")
			e.sp()
			e.json(d.vals[i])
		}
		e.jsonNL()
		e.t("}")
	}
}
func (e *c13Emitter) jsonNL() {
	if e.r.Chance(30) {
		e.g("\n  ")
	} else {
		e.sp()
	}
}

// ---------- Cue ----------

var c13CueIdent = regexp.MustCompile(`^[A-Za-z][A-Za-z0-9]*$`)
var c13CueReserved = map[string]bool{"null": true, "true": true, "false": true, "if": true, "for": true, "in": true, "let": true,
	"import": true, "package": true, "or": true, "and": true, "div": true, "mod": true, "quo": true, "rem": true, "len": true, "close": true,
	"int": true, "float": true, "string": true, "bytes": true, "bool": true, "number": true, "uint": true, "func": true}

func (e *c13Emitter) cueKey(k string) {
	if c13CueIdent.MatchString(k) && !c13CueReserved[k] && e.r.Chance(70) {
		e.t(k)
	} else {
		e.t(c13Quote(e.r, k))
	}
}

func (e *c13Emitter) cueFields(d *c13Doc, top bool) {
	for i, k := range d.keys {
		if i > 0 {
			if top && e.r.Chance(60) {
				e.g("\n")
			} else {
				e.t(",")
				e.sp()
			}
		}
		e.cueKey(k)
		e.t(":")
		e.sp1()
		e.cue(d.vals[i])
	}
}

func (e *c13Emitter) cue(d *c13Doc) {
	switch d.kind {
	case "s", "t":
		e.t(c13Quote(e.r, d.s))
	case "i":
		e.t(d.s)
	case "f":
		e.t(c13FloatText(d.s))
	case "B":
		e.t(fmt.Sprint(d.b))
	case "list":
		e.t("[")
		for i, x := range d.list {
			if i > 0 {
				e.t(",")
				e.sp()
			}
			e.cue(x)
		}
		e.t("]")
	case "map":
		e.t("{")
		e.cueFields(d, false)
		e.t("}")
	}
}

func (e *c13Emitter) cueTop(d *c13Doc) {
	if e.r.Chance(25) || len(d.keys) == 0 {
		e.cue(d)
	} else {
		e.cueFields(d, true)
	}
	e.g("\n")
}

// ---------- TOML ----------

var c13TomlBare = regexp.MustCompile(`^[A-Za-z0-9_-]+$`)

func (e *c13Emitter) tomlKey(k string) {
	if c13TomlBare.MatchString(k) && e.r.Chance(85) {
		e.t(k)
	} else {
		e.t(c13Quote(e.r, k))
	}
}

// go-toml does not unescape \uXXXX in the quoted keys of a table header: header keys are written literally
func (e *c13Emitter) tomlHeaderKey(k string) {
	if c13TomlBare.MatchString(k) && e.r.Chance(85) {
		e.t(k)
	} else {
		e.t(`"` + k + `"`)
	}
}

func (e *c13Emitter) tomlInline(d *c13Doc) {
	switch d.kind {
	case "s":
		e.t(c13Quote(e.r, d.s))
	case "t":
		e.t(d.s)
	case "i":
		e.t(d.s)
	case "f":
		e.t(c13FloatText(d.s))
	case "B":
		e.t(fmt.Sprint(d.b))
	case "list":
		e.t("[")
		for i, x := range d.list {
			if i > 0 {
				e.t(",")
				e.sp()
			}
			e.tomlInline(x)
		}
		e.t("]")
	case "map":
		e.t("{")
		for i, k := range d.keys {
			if i > 0 {
				e.t(",")
			}
			e.sp()
			e.tomlKey(k)
			e.sp1()
			e.t("=")
			e.sp1()
			e.tomlInline(d.vals[i])
		}
		e.sp()
		e.t("}")
	}
}

func c13AllMaps(d *c13Doc) bool {
	if d.kind != "list" || len(d.list) == 0 {
		return false
	}
	for _, x := range d.list {
		if x.kind != "map" {
			return false
		}
	}
	return true
}

func (e *c13Emitter) tomlHeader(path []string, double bool) {
	if double {
		e.t("[[")
	} else {
		e.t("[")
	}
	for i, p := range path {
		if i > 0 {
			e.t(".")
		}
		e.tomlHeaderKey(p)
	}
	if double {
		e.t("]]")
	} else {
		e.t("]")
	}
	e.g("\n")
}

// tomlTable emits the body of table d (whose header, if any, is already out): plain entries first, then sections.
func (e *c13Emitter) tomlTable(path []string, d *c13Doc, allowSections bool) {
	type later struct {
		k   string
		v   *c13Doc
		aot bool
	}
	var secs []later
	for i, k := range d.keys {
		v := d.vals[i]
		if allowSections && v.kind == "map" && e.r.Chance(65) {
			secs = append(secs, later{k, v, false})
			continue
		}
		if allowSections && c13AllMaps(v) && e.r.Chance(45) {
			secs = append(secs, later{k, v, true})
			continue
		}
		e.tomlKey(k)
		e.sp1()
		e.t("=")
		e.sp1()
		e.tomlInline(v)
		e.g("\n")
	}
	for _, s := range secs {
		p := append(append([]string{}, path...), s.k)
		if s.aot {
			for _, el := range s.v.list {
				e.tomlHeader(p, true)
				e.tomlTable(p, el, false)
			}
		} else {
			e.tomlHeader(p, false)
			e.tomlTable(p, s.v, true)
		}
	}
}

// ---------- YAML ----------

var c13YamlPlain = regexp.MustCompile(`^[a-z][a-z0-9_]*$`)
var c13YamlReserved = map[string]bool{"y": true, "n": true, "yes": true, "no": true, "on": true, "off": true, "true": true, "false": true, "null": true}

func (e *c13Emitter) yamlStr(s string) {
	if c13YamlPlain.MatchString(s) && !c13YamlReserved[s] && e.r.Chance(60) {
		e.t(s)
	} else {
		e.t(c13Quote(e.r, s))
	}
}

func (e *c13Emitter) yamlFlow(d *c13Doc) {
	switch d.kind {
	case "s", "t":
		e.yamlStr(d.s)
	case "i":
		e.t(d.s)
	case "f":
		e.t(c13FloatText(d.s))
	case "B":
		e.t(fmt.Sprint(d.b))
	case "list":
		e.t("[")
		for i, x := range d.list {
			if i > 0 {
				e.t(",")
				e.sp1()
			}
			e.yamlFlow(x)
		}
		e.t("]")
	case "map":
		e.t("{")
		for i, k := range d.keys {
			if i > 0 {
				e.t(",")
				e.sp1()
			}
			e.yamlStr(k)
			e.t(":")
			e.sp1()
			e.yamlFlow(d.vals[i])
		}
		e.t("}")
	}
}

func (e *c13Emitter) yamlBlock(indent string, d *c13Doc) {
	for i, k := range d.keys {
		v := d.vals[i]
		e.g(indent)
		e.yamlStr(k)
		e.t(":")
		switch {
		case v.kind == "map" && len(v.keys) > 0 && e.r.Chance(60):
			e.g("\n")
			e.yamlBlock(indent+"  ", v)
		case v.kind == "list" && len(v.list) > 0 && e.r.Chance(50):
			e.g("\n")
			for _, x := range v.list {
				e.g(indent + "  ")
				e.t("-")
				e.g(" ")
				e.yamlFlow(x)
				e.g("\n")
			}
		default:
			e.g(" ")
			e.yamlFlow(v)
			e.g("\n")
		}
	}
}

// c13Emit renders the (map) document d in the given format.
func c13Emit(r *RNG, format string, d *c13Doc) []c13Tok {
	e := &c13Emitter{r: r}
	switch format {
	case "json":
		e.json(d)
		e.g("\n")
	case "cue":
		e.cueTop(d)
	case "toml":
		e.tomlTable(nil, d, true)
	case "yaml":
		if len(d.keys) == 0 || e.r.Chance(15) {
			e.yamlFlow(d)
			e.g("\n")
		} else {
			e.yamlBlock("", d)
		}
	}
	return e.out
}

// ---------- generic parses with the third-party libraries (presence oracle) ----------

// a Cue text that compiles but has non-concrete values (references to itself, types): cue's Decode skips such fields
var errC13NonConcrete = fmt.Errorf("non-concrete cue value")

// c13Generic parses text with the format's own library into a tree of map[string]any / []any / scalars.
func c13Generic(format, text string) (tree any, err error) {
	defer func() {
		if p := recover(); p != nil {
			err = fmt.Errorf("panic: %v", p)
		}
	}()
	switch format {
	case "json":
		if !stdjson.Valid([]byte(text)) {
			var v any
			return nil, stdjson.Unmarshal([]byte(text), &v)
		}
		dec := stdjson.NewDecoder(bytes.NewReader([]byte(text)))
		dec.UseNumber()
		return c13JSONValue(dec)
	case "yaml":
		var v yamlv2.MapSlice
		if err := yamlv2.Unmarshal([]byte(text), &v); err != nil {
			// not a mapping at the top: let the generic decode decide
			var w any
			if err2 := yamlv2.Unmarshal([]byte(text), &w); err2 != nil {
				return nil, err2
			}
			return c13NormYAML(w), nil
		}
		return c13NormYAML(v), nil
	case "toml":
		t, err := tomlparser.Load(text)
		if err != nil {
			return nil, err
		}
		return t.ToMap(), nil
	case "cue":
		val := cuecontext.New().CompileString(text)
		if err := val.Err(); err != nil {
			return nil, err
		}
		if err := val.Validate(cue.Concrete(true)); err != nil {
			return nil, errC13NonConcrete
		}
		var v any
		if err := val.Decode(&v); err != nil {
			return nil, err
		}
		return v, nil
	}
	return nil, fmt.Errorf("unknown format")
}

// c13Merge: a key that occurs twice — encoding/json and yaml.v2 decode both occurrences into the same struct field
// (the second into the struct the first allocated), so for presence the two maps are united; otherwise the last wins.
func c13Merge(m map[string]any, k string, v any) {
	if old, ok := m[k].(map[string]any); ok {
		if nw, ok := v.(map[string]any); ok {
			for kk, vv := range nw {
				c13Merge(old, kk, vv)
			}
			return
		}
	}
	m[k] = v
}

func c13JSONValue(dec *stdjson.Decoder) (any, error) {
	tok, err := dec.Token()
	if err != nil {
		return nil, err
	}
	if d, ok := tok.(stdjson.Delim); ok {
		switch d {
		case '{':
			m := map[string]any{}
			for dec.More() {
				kt, err := dec.Token()
				if err != nil {
					return nil, err
				}
				v, err := c13JSONValue(dec)
				if err != nil {
					return nil, err
				}
				c13Merge(m, kt.(string), v)
			}
			_, err := dec.Token()
			return m, err
		case '[':
			l := []any{}
			for dec.More() {
				v, err := c13JSONValue(dec)
				if err != nil {
					return nil, err
				}
				l = append(l, v)
			}
			_, err := dec.Token()
			return l, err
		}
	}
	return tok, nil
}

func c13NormYAML(v any) any {
	switch x := v.(type) {
	case yamlv2.MapSlice:
		m := map[string]any{}
		for _, it := range x {
			c13Merge(m, fmt.Sprint(it.Key), c13NormYAML(it.Value))
		}
		return m
	case map[interface{}]interface{}:
		m := map[string]any{}
		for k, e := range x {
			m[fmt.Sprint(k)] = c13NormYAML(e)
		}
		return m
	case []interface{}:
		for i := range x {
			x[i] = c13NormYAML(x[i])
		}
		return x
	}
	return v
}

// c13KeyMatches: does a document key address a field key for this library? (exact for yaml.v2; encoding/json and
// cue fold case; go-toml tries the key, its lower case, its upper case and the lower-cased first letter: finding D30)
func c13KeyMatches(format, fieldKey, docKey string) bool {
	if fieldKey == docKey {
		return true
	}
	switch format {
	case "json", "cue":
		return strings.EqualFold(fieldKey, docKey)
	case "toml":
		if docKey == strings.ToLower(fieldKey) || docKey == strings.ToUpper(fieldKey) {
			return true
		}
		if fieldKey != "" && docKey == strings.ToLower(fieldKey[:1])+fieldKey[1:] {
			return true
		}
	}
	return false
}
