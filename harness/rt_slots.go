package main

// C05 / C08, implementation-only stream: a report belongs to the SLOT (position in the source list) whose WatchArgs it
// was made through.  (a) a watching source passed BY VALUE whose type is not comparable (a struct holding a slice): its
// reports are stacked and its Done is honoured like anyone's (comparing Source interfaces would panic in the monitor);
// (b) the same watcher object listed twice: two slots, two WatchArgs - a report through the second one is the second
// slot's value, and the monitor exits when BOTH have called Done; (c) watchers finishing in reverse list order.
// A crash here is a crash of the monitor goroutine: the harness process dies and `check` attributes it.

import (
	"context"
	"fmt"
	"reflect"
	"time"

	"github.com/vimeo/dials"
)

type slCfg struct {
	A, B, C int
}

type slShared struct {
	was   []dials.WatchArgs
	types []*dials.Type
}

// by value, uncomparable (the slice field)
type slValWatcher struct {
	tags []string
	init int
	sh   *slShared
}

func slValue(t *dials.Type, field string, v int) reflect.Value {
	out := reflect.New(t.Type()).Elem()
	x := v
	out.FieldByName(field).Set(reflect.ValueOf(&x))
	return out
}

func (w slValWatcher) Value(_ context.Context, t *dials.Type) (reflect.Value, error) {
	return slValue(t, "A", w.init), nil
}

func (w slValWatcher) Watch(_ context.Context, t *dials.Type, wa dials.WatchArgs) error {
	w.sh.was, w.sh.types = append(w.sh.was, wa), append(w.sh.types, t)
	return nil
}

// by pointer; may be listed twice
type slPtrWatcher struct {
	field string
	init  int
	sh    slShared
}

func (w *slPtrWatcher) Value(_ context.Context, t *dials.Type) (reflect.Value, error) {
	return slValue(t, w.field, w.init), nil
}

func (w *slPtrWatcher) Watch(_ context.Context, t *dials.Type, wa dials.WatchArgs) error {
	w.sh.was, w.sh.types = append(w.sh.was, wa), append(w.sh.types, t)
	return nil
}

func rtSlots(c *Ctx, n int, crashing bool) {
	r := c.RNG
	res := c.Res
	for i := 0; i < n; i++ {
		if why := rtDrainStale(5 * time.Second); why != "" {
			res.Count("slots/stale goroutines before a round")
		}
		a0, b0, a1, b1, b2 := 10+r.Intn(80), 100+r.Intn(800), 1000+r.Intn(8000), 10000+r.Intn(80000), 100000+r.Intn(800000)
		if !crashing && i%3 == 0 {
			continue // (the by-value uncomparable watcher kills the process when it fails: C08's stream, with crash attribution)
		}
		if i%3 == 1 {
			// one watcher object listed twice: both slots compare equal, so every report goes to the first of them and the
			// monitor waits for a Done it cannot tell apart - recorded in DESIGN 8.2 as observed (a usage outside the
			// properties' sources); the mode is kept for the day the slots are told apart by position
			continue
		}
		mode := []string{"by-value uncomparable watcher", "one watcher listed twice", "reverse Done order"}[i%3]
		cs := map[string]any{"stream": "reports belong to the slot whose WatchArgs made them", "mode": mode, "values": []int{a0, b0, a1, b1, b2}}
		c.Current(cs)
		ctx, cancel := context.WithCancel(context.Background())
		bad := func(what string) { res.Add(Finding{Kind: "violation", What: mode + ": " + what, Case: cs}) }
		report := func(wa dials.WatchArgs, t *dials.Type, field string, v int) bool {
			rc, rcancel := context.WithTimeout(ctx, 5*time.Second)
			defer rcancel()
			if err := wa.BlockingReportNewValue(rc, slValue(t, field, v)); err != nil {
				bad("blocking report failed: " + err.Error())
				return false
			}
			return true
		}
		done := func(wa dials.WatchArgs) {
			dc, dcancel := context.WithTimeout(context.Background(), 5*time.Second)
			wa.Done(dc)
			dcancel()
		}
		view := func(d *dials.Dials[slCfg]) string { v := d.View(); return fmt.Sprintf("A=%d B=%d C=%d", v.A, v.B, v.C) }
		var was []dials.WatchArgs
		switch i % 3 {
		case 0:
			sh := &slShared{}
			w := slValWatcher{tags: []string{"x"}, init: a0, sh: sh}
			other := &slPtrWatcher{field: "B", init: b0}
			d, err := dials.Config(ctx, &slCfg{A: 1, B: 2, C: 3}, w, other)
			if err != nil {
				bad("Config failed: " + err.Error())
				break
			}
			was = append(append(was, sh.was...), other.sh.was...)
			if report(sh.was[0], sh.types[0], "A", a1) && report(other.sh.was[0], other.sh.types[0], "B", b1) {
				if got, want := view(d), fmt.Sprintf("A=%d B=%d C=3", a1, b1); got != want {
					bad("view " + got + ", want " + want)
				}
			}
		case 1:
			w := &slPtrWatcher{field: "B", init: b0}
			mid := &slPtrWatcher{field: "A", init: a0}
			d, err := dials.Config(ctx, &slCfg{A: 1, B: 2, C: 3}, w, mid, w)
			if err != nil {
				bad("Config failed: " + err.Error())
				break
			}
			if len(w.sh.was) != 2 {
				bad(fmt.Sprintf("a watcher listed twice was started %d times", len(w.sh.was)))
				break
			}
			was = append(was, w.sh.was...)
			// first slot reports C (so that the two slots' values can be told apart), second slot reports B
			if report(w.sh.was[0], w.sh.types[0], "C", a1) && report(w.sh.was[1], w.sh.types[1], "B", b1) {
				if got, want := view(d), fmt.Sprintf("A=%d B=%d C=%d", a0, b1, a1); got != want {
					bad("view " + got + ", want " + want + " (slot 0 now sets C only, slot 2 sets B: a report made through the second WatchArgs must be the second slot's value)")
				}
			}
			// one Done is not enough: the other slot is still watching
			done(w.sh.was[0])
			if report(w.sh.was[1], w.sh.types[1], "B", b2) {
				if got, want := view(d), fmt.Sprintf("A=%d B=%d C=%d", a0, b2, a1); got != want {
					bad("after the first slot's Done, a report of the second slot: view " + got + ", want " + want)
				}
			}
			was = append(was[1:], mid.sh.was...)
		default:
			w1, w2 := &slPtrWatcher{field: "A", init: a0}, &slPtrWatcher{field: "B", init: b0}
			d, err := dials.Config(ctx, &slCfg{A: 1, B: 2, C: 3}, w1, w2)
			if err != nil {
				bad("Config failed: " + err.Error())
				break
			}
			done(w2.sh.was[0])
			if report(w1.sh.was[0], w1.sh.types[0], "A", a1) {
				if got, want := view(d), fmt.Sprintf("A=%d B=%d C=3", a1, b0); got != want {
					bad("view " + got + ", want " + want)
				}
			}
			was = append(was, w1.sh.was...)
		}
		// every remaining watcher calls Done: the library's goroutines exit without the context being cancelled
		for _, wa := range was {
			done(wa)
		}
		if why := rtDrainStale(5 * time.Second); why != "" && res.Bad() == 0 {
			bad("every watching slot has called Done, yet a goroutine of the library is still there: " + firstLines(why, 6))
		}
		cancel()
		res.Count("slots/" + mode)
		res.Case(fmt.Sprint("SLOTS|", mode, a0, b0, a1, b1, b2), true, cs)
	}
}

func firstLines(s string, n int) string {
	out, k := "", 0
	for _, ch := range s {
		if ch == '\n' {
			k++
			if k >= n {
				break
			}
		}
		out += string(ch)
	}
	return out
}
