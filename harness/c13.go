package main

// C13: file decoders agree.
//
//  stream 1 (agreement)   a corpus config type, generated data with a random subset of keys present; the SAME data is
//                         written as JSON, YAML, TOML and Cue by the harness's own renderer (key = format tag, else
//                         dials tag: the rule of the property, implemented here independently of /repo) and emitters;
//                         each text is decoded through static.StringSource inside
//                         sourcewrap.NewTransformingDecoder(dec, &transform.SetSliceMangler{}) (a) as the source's Value on the
//                         pointerified type and (b) through dials.Config + View on random defaults.
//                         oracle: each format's value == the data; the four agree; each view == the view obtained from a
//                         plain Go-value source carrying the same data.   model: `dc dec` on the same abstract document,
//                         `dc render` == the harness's document, `dc view` == the harness's key rule.
//  stream 2 (ill-typed)   one node of the document replaced by a value no library accepts for the field's type:
//                         all four must fail (Value and Config), the model must say err.
//  stream 3 (tokens)      every single-token deletion / duplication / replacement of each text: an error, or a value that
//                         is stable under re-decoding and complete: a field is set iff the library's own generic parse of the
//                         corrupted text has a (non-null) key for it — never a partly filled value; Config fails iff Value fails.
//  stream 4 (findings)    probes for the listed known findings (case-folded keys, tags under maps / pointer slices,
//                         embedded structs): known while listed and still observed.

import (
	"context"
	"fmt"
	"math"
	"math/big"
	"net"
	"reflect"
	"sort"
	"strconv"
	"strings"
	"time"

	"github.com/vimeo/dials"
	cuedec "github.com/vimeo/dials/decoders/cue"
	jsondec "github.com/vimeo/dials/decoders/json"
	tomldec "github.com/vimeo/dials/decoders/toml"
	yamldec "github.com/vimeo/dials/decoders/yaml"
	"github.com/vimeo/dials/ptrify"
	"github.com/vimeo/dials/sources/static"
	"github.com/vimeo/dials/sourcewrap"
	"github.com/vimeo/dials/transform"
)

func init() { register("C13", checkC13) }

var c13Formats = []string{"json", "yaml", "toml", "cue"}

func c13LibTag(format string) string {
	if format == "cue" {
		return "json"
	}
	return format
}

// ---------- types ----------

type c13Field struct {
	name string
	anon bool
	tags [][2]string
	ty   *c13Ty
	idx  int
}

type c13Ty struct {
	kind   string // bool int uint float str dur time ip slice map set ptr struct
	bits   int
	elem   *c13Ty
	fields []c13Field
	rt     reflect.Type
}

// c13ParseTag: the key:"value" pairs of a conventional struct tag, in order (reflect.StructTag.Lookup's scan).
func c13ParseTag(tag string) [][2]string {
	var out [][2]string
	for tag != "" {
		i := 0
		for i < len(tag) && tag[i] == ' ' {
			i++
		}
		tag = tag[i:]
		if tag == "" {
			break
		}
		i = 0
		for i < len(tag) && tag[i] > ' ' && tag[i] != ':' && tag[i] != '"' && tag[i] != 0x7f {
			i++
		}
		if i == 0 || i+1 >= len(tag) || tag[i] != ':' || tag[i+1] != '"' {
			break
		}
		name := tag[:i]
		tag = tag[i+1:]
		i = 1
		for i < len(tag) && tag[i] != '"' {
			if tag[i] == '\\' {
				i++
			}
			i++
		}
		if i >= len(tag) {
			break
		}
		q := tag[:i+1]
		tag = tag[i+1:]
		v, err := strconv.Unquote(q)
		if err != nil {
			break
		}
		out = append(out, [2]string{name, v})
	}
	return out
}

func c13TagGet(tags [][2]string, k string) (string, bool) {
	for _, t := range tags {
		if t[0] == k {
			return t[1], true
		}
	}
	return "", false
}

func c13TypeOf(rt reflect.Type) *c13Ty {
	switch rt {
	case c13DurType:
		return &c13Ty{kind: "dur", rt: rt}
	case c13TimeType:
		return &c13Ty{kind: "time", rt: rt}
	case c13IPType:
		return &c13Ty{kind: "ip", rt: rt}
	}
	switch rt.Kind() {
	case reflect.Bool:
		return &c13Ty{kind: "bool", rt: rt}
	case reflect.Int, reflect.Int8, reflect.Int16, reflect.Int32, reflect.Int64:
		return &c13Ty{kind: "int", bits: rt.Bits(), rt: rt}
	case reflect.Uint, reflect.Uint8, reflect.Uint16, reflect.Uint32, reflect.Uint64:
		return &c13Ty{kind: "uint", bits: rt.Bits(), rt: rt}
	case reflect.Float64:
		return &c13Ty{kind: "float", rt: rt}
	case reflect.String:
		return &c13Ty{kind: "str", rt: rt}
	case reflect.Slice:
		return &c13Ty{kind: "slice", elem: c13TypeOf(rt.Elem()), rt: rt}
	case reflect.Map:
		if rt.Key().Kind() != reflect.String {
			panic("c13: map key")
		}
		if rt.Elem() == c13SetElem {
			return &c13Ty{kind: "set", rt: rt}
		}
		return &c13Ty{kind: "map", elem: c13TypeOf(rt.Elem()), rt: rt}
	case reflect.Ptr:
		return &c13Ty{kind: "ptr", elem: c13TypeOf(rt.Elem()), rt: rt}
	case reflect.Struct:
		t := &c13Ty{kind: "struct", rt: rt}
		for i := 0; i < rt.NumField(); i++ {
			f := rt.Field(i)
			if !f.IsExported() {
				continue
			}
			t.fields = append(t.fields, c13Field{name: f.Name, anon: f.Anonymous, tags: c13ParseTag(string(f.Tag)), ty: c13TypeOf(f.Type), idx: i})
		}
		return t
	}
	panic("c13: unsupported kind " + rt.String())
}

func (t *c13Ty) toks(out *[]string) {
	switch t.kind {
	case "bool":
		*out = append(*out, "b")
	case "int":
		*out = append(*out, fmt.Sprintf("i%d", t.bits))
	case "uint":
		*out = append(*out, fmt.Sprintf("u%d", t.bits))
	case "float":
		*out = append(*out, "f")
	case "str":
		*out = append(*out, "s")
	case "dur":
		*out = append(*out, "D")
	case "time":
		*out = append(*out, "Tt")
	case "ip":
		*out = append(*out, "Ti")
	case "set":
		*out = append(*out, "S")
	case "slice":
		*out = append(*out, "L")
		t.elem.toks(out)
	case "map":
		*out = append(*out, "M")
		t.elem.toks(out)
	case "ptr":
		*out = append(*out, "P")
		t.elem.toks(out)
	case "struct":
		*out = append(*out, "{")
		for _, f := range t.fields {
			a := "n"
			if f.anon {
				a = "a"
			}
			*out = append(*out, "F", hexEnc(f.name), a, fmt.Sprint(len(f.tags)))
			for _, tg := range f.tags {
				*out = append(*out, hexEnc(tg[0]), hexEnc(tg[1]))
			}
			f.ty.toks(out)
		}
		*out = append(*out, "}")
	}
}

func (t *c13Ty) nilable() bool {
	switch t.kind {
	case "ptr", "slice", "map", "set", "ip":
		return true
	}
	return false
}

// the struct type behind t (t itself, or behind one pointer), else nil
func (t *c13Ty) structOf() *c13Ty {
	if t.kind == "struct" {
		return t
	}
	if t.kind == "ptr" && t.elem.kind == "struct" {
		return t.elem
	}
	return nil
}

// c13Key: the rule of the property — the format's own tag when the field has one, else the dials tag
func c13Key(format string, f *c13Field) string {
	if v, _ := c13TagGet(f.tags, c13LibTag(format)); v != "" {
		return v
	}
	v, _ := c13TagGet(f.tags, "dials")
	return v
}

// c13KView: the keyed view by the rule of the property, in the driver's token format
func (t *c13Ty) kviewToks(format string, wrap bool, out *[]string) {
	switch t.kind {
	case "dur":
		if format == "json" || format == "cue" {
			*out = append(*out, "PD")
		} else {
			*out = append(*out, "D")
		}
	case "set":
		if wrap {
			*out = append(*out, "L", "s")
		} else {
			*out = append(*out, "S")
		}
	case "slice":
		*out = append(*out, "L")
		t.elem.kviewToks(format, wrap, out)
	case "map":
		*out = append(*out, "M")
		t.elem.kviewToks(format, wrap, out)
	case "ptr":
		*out = append(*out, "P")
		t.elem.kviewToks(format, wrap, out)
	case "struct":
		*out = append(*out, "{")
		for i := range t.fields {
			f := &t.fields[i]
			a := "n"
			if f.anon {
				a = "a"
			}
			*out = append(*out, "K", hexEnc(c13Key(format, f)), a)
			f.ty.kviewToks(format, wrap, out)
		}
		*out = append(*out, "}")
	default:
		t.toks(out)
	}
}

// ---------- values (data) ----------

type c13Val struct {
	k    string // nil bool int float str dur text list map set ptr struct
	b    bool
	s    string // int decimal / float text / string / text canon / dur ns decimal
	vs   []*c13Val
	keys []string
	omit bool // a zero value of a non-nil-able field whose key is left out of the document
}

func (v *c13Val) toks(out *[]string)    { v.toksO(out, true) }
func (v *c13Val) toksRaw(out *[]string) { v.toksO(out, false) }

func (v *c13Val) toksO(out *[]string, sorted bool) {
	switch v.k {
	case "nil":
		*out = append(*out, "-")
	case "bool":
		if v.b {
			*out = append(*out, "B1")
		} else {
			*out = append(*out, "B0")
		}
	case "int":
		*out = append(*out, "i:"+v.s)
	case "float":
		*out = append(*out, "f:"+hexEnc(v.s))
	case "str":
		*out = append(*out, "s:"+hexEnc(v.s))
	case "dur":
		*out = append(*out, "d:"+v.s)
	case "text":
		*out = append(*out, "x:"+hexEnc(v.s))
	case "list":
		*out = append(*out, "[")
		for _, e := range v.vs {
			e.toksO(out, sorted)
		}
		*out = append(*out, "]")
	case "struct":
		*out = append(*out, "(")
		for _, e := range v.vs {
			e.toksO(out, sorted)
		}
		*out = append(*out, ")")
	case "ptr":
		*out = append(*out, "&")
		v.vs[0].toksO(out, sorted)
	case "map":
		*out = append(*out, "m{")
		idx := make([]int, len(v.keys))
		for i := range idx {
			idx[i] = i
		}
		if sorted {
			sort.Slice(idx, func(a, b int) bool { return v.keys[idx[a]] < v.keys[idx[b]] })
		}
		for _, i := range idx {
			*out = append(*out, hexEnc(v.keys[i]))
			v.vs[i].toksO(out, sorted)
		}
		*out = append(*out, "}")
	case "set":
		ks := append([]string{}, v.keys...)
		if sorted {
			sort.Strings(ks)
		}
		*out = append(*out, "S{")
		for _, k := range ks {
			*out = append(*out, hexEnc(k))
		}
		*out = append(*out, "}")
	}
}

func c13Join(f func(*[]string)) string {
	var out []string
	f(&out)
	return strings.Join(out, " ")
}

// ---------- external tables (explicit inputs of the model) ----------

type c13Ext struct {
	pd map[string]string // duration text → ns
	dt map[string]string // ns → text
	pt map[string]string // kind|text → canon
	tm map[string]string // toml datetime literal → canon
	di map[string]bool   // ns written as integers (JSON / Cue)
}

func newC13Ext() *c13Ext {
	return &c13Ext{pd: map[string]string{}, dt: map[string]string{}, pt: map[string]string{}, tm: map[string]string{}, di: map[string]bool{}}
}

func (x *c13Ext) toks() string {
	out := []string{"E"}
	ks := func(m map[string]string) []string {
		o := make([]string, 0, len(m))
		for k := range m {
			o = append(o, k)
		}
		sort.Strings(o)
		return o
	}
	for _, k := range ks(x.pd) {
		out = append(out, "pd", hexEnc(k), x.pd[k])
	}
	for _, k := range ks(x.dt) {
		out = append(out, "dt", k, hexEnc(x.dt[k]))
	}
	for _, k := range ks(x.pt) {
		out = append(out, "pt", k[:1], hexEnc(k[2:]), hexEnc(x.pt[k]))
	}
	for _, k := range ks(x.tm) {
		out = append(out, "tm", hexEnc(k), hexEnc(x.tm[k]))
	}
	var dis []string
	for k := range x.di {
		dis = append(dis, k)
	}
	sort.Strings(dis)
	for _, k := range dis {
		out = append(out, "di", k)
	}
	out = append(out, ".")
	return strings.Join(out, " ")
}

// ---------- generation ----------

type c13Gen struct {
	r       *RNG
	ext     *c13Ext
	pAbsent int
}

var c13StrAlphabet = []rune("abcxyz019 #:{}[],'\"\\\n\t-_./=é世\u0001")
var c13StrPool = []string{"", "yes", "no", "null", "~", "true", "1", "1.5", "0x1F", "1e3", "2020-01-02", "-", " lead", "trail ", "a: b", "[x]", "{y}", "#c", "é", "日本"}

func (g *c13Gen) str() string {
	if g.r.Chance(25) {
		return c13StrPool[g.r.Intn(len(c13StrPool))]
	}
	n := g.r.Intn(9)
	rs := make([]rune, n)
	for i := range rs {
		rs[i] = c13StrAlphabet[g.r.Intn(len(c13StrAlphabet))]
	}
	return string(rs)
}

var c13KeyAlphabet = []rune("abcXYZ019 _-./:#é")

func (g *c13Gen) mapKey() string {
	if g.r.Chance(10) {
		return []string{"", "a.b", "a b", "A", "a", "yes", "1", "é"}[g.r.Intn(8)]
	}
	n := 1 + g.r.Intn(5)
	rs := make([]rune, n)
	for i := range rs {
		rs[i] = c13KeyAlphabet[g.r.Intn(len(c13KeyAlphabet))]
	}
	return string(rs)
}

func (g *c13Gen) intIn(bits int, signed bool) string {
	one := big.NewInt(1)
	var lo, hi *big.Int
	if signed {
		hi = new(big.Int).Lsh(one, uint(bits-1))
		lo = new(big.Int).Neg(hi)
		hi.Sub(hi, one)
	} else {
		lo = big.NewInt(0)
		hi = new(big.Int).Sub(new(big.Int).Lsh(one, uint(bits)), one)
	}
	switch g.r.Intn(6) {
	case 0:
		return hi.String()
	case 1:
		if signed && bits == 64 && g.r.Chance(80) {
			return new(big.Int).Add(lo, one).String() // math.MinInt64 itself is finding D35 for Cue: keep it rare
		}
		return lo.String()
	case 2:
		return new(big.Int).Sub(hi, big.NewInt(int64(g.r.Intn(3)))).String()
	case 3:
		v := int64(g.r.Intn(200))
		if signed && g.r.Bool() && bits > 8 {
			v = -v
		} else if signed && g.r.Bool() {
			v = -(v % 128)
		}
		if !signed || bits > 8 {
			return strconv.FormatInt(v, 10)
		}
		return strconv.FormatInt(v%128, 10)
	default:
		span := new(big.Int).Sub(hi, lo)
		v := new(big.Int).SetUint64(g.r.U64())
		v.Mod(v, span.Add(span, one))
		return v.Add(v, lo).String()
	}
}

var c13FloatPool = []float64{0, 1, -1, 0.1, -2.5e-7, 1e21, 3, 1.7976931348623157e308, 2.2250738585072014e-308, 1e-7, 123456789.125, -0.5, 1e22, 6.02214076e23, 5e-324, 1e-320, -2.2250738585072009e-308}

func (g *c13Gen) float() string {
	var f float64
	if g.r.Chance(50) {
		f = c13FloatPool[g.r.Intn(len(c13FloatPool))]
	} else {
		for {
			f = math.Float64frombits(g.r.U64())
			if !math.IsNaN(f) && !math.IsInf(f, 0) {
				break
			}
		}
		if f == 0 {
			f = 0 // no negative zero
		}
	}
	return strconv.FormatFloat(f, 'g', -1, 64)
}

func (g *c13Gen) dur() *c13Val {
	var d time.Duration
	switch g.r.Intn(8) {
	case 0:
		d = 0
	case 1:
		d = math.MaxInt64
	case 2:
		d = math.MinInt64
	case 3:
		d = time.Duration(g.r.Intn(100000)) * time.Millisecond
	case 4:
		d = -time.Duration(g.r.Intn(100000)) * time.Second
	case 5:
		// below a millisecond: the text carries the micro sign ("250µs"), which writers of ASCII-only documents escape
		d = time.Duration(g.r.Intn(1000000))
	default:
		d = time.Duration(int64(g.r.U64()))
	}
	ns := strconv.FormatInt(int64(d), 10)
	txt := d.String()
	if back, err := time.ParseDuration(txt); err == nil && back == d {
		g.ext.pd[txt] = ns
	}
	g.ext.dt[ns] = txt
	if g.r.Chance(40) {
		g.ext.di[ns] = true
	}
	return &c13Val{k: "dur", s: ns}
}

func (g *c13Gen) timeVal() *c13Val {
	var t time.Time
	switch g.r.Intn(6) {
	case 0:
		t = time.Date(1, 1, 1, 0, 0, 0, 0, time.UTC)
	case 1:
		t = time.Date(9999, 12, 31, 23, 59, 59, 999999999, time.UTC)
	default:
		t = time.Unix(int64(g.r.Intn(4102444800)), 0).UTC()
		if g.r.Bool() {
			t = t.Add(time.Duration(g.r.Intn(1000000000)))
		}
	}
	c := t.Format(time.RFC3339Nano)
	g.ext.pt["t|"+c] = c
	g.ext.tm[c] = c
	return &c13Val{k: "text", s: c}
}

func (g *c13Gen) ipVal() *c13Val {
	var ip net.IP
	if g.r.Bool() {
		ip = net.IPv4(byte(g.r.Intn(256)), byte(g.r.Intn(256)), byte(g.r.Intn(256)), byte(g.r.Intn(256)))
	} else {
		ip = make(net.IP, 16)
		for i := range ip {
			if g.r.Chance(60) {
				ip[i] = byte(g.r.Intn(256))
			}
		}
		ip[0] = 0x20
	}
	c := ip.String()
	if back := net.ParseIP(c); back != nil && back.String() == c {
		g.ext.pt["i|"+c] = c
	}
	return &c13Val{k: "text", s: c}
}

func (g *c13Gen) zero(t *c13Ty) *c13Val {
	switch t.kind {
	case "bool":
		return &c13Val{k: "bool"}
	case "int", "uint":
		return &c13Val{k: "int", s: "0"}
	case "float":
		return &c13Val{k: "float", s: "0"}
	case "str":
		return &c13Val{k: "str"}
	case "dur":
		return &c13Val{k: "dur", s: "0"}
	case "time":
		return &c13Val{k: "text", s: "0001-01-01T00:00:00Z"}
	case "struct":
		v := &c13Val{k: "struct"}
		for _, f := range t.fields {
			v.vs = append(v.vs, g.zero(f.ty))
		}
		return v
	}
	return &c13Val{k: "nil"}
}

// val generates data of type t; field = t is the type of a struct field (nil = key absent)
func (g *c13Gen) val(t *c13Ty, field bool, depth int) *c13Val {
	if field && t.nilable() && g.r.Chance(g.pAbsent) {
		return &c13Val{k: "nil"}
	}
	if field && !t.nilable() && g.r.Chance(g.pAbsent/2) {
		z := g.zero(t)
		z.omit = true
		return z
	}
	switch t.kind {
	case "bool":
		return &c13Val{k: "bool", b: g.r.Bool()}
	case "int":
		return &c13Val{k: "int", s: g.intIn(t.bits, true)}
	case "uint":
		return &c13Val{k: "int", s: g.intIn(t.bits, false)}
	case "float":
		return &c13Val{k: "float", s: g.float()}
	case "str":
		return &c13Val{k: "str", s: g.str()}
	case "dur":
		return g.dur()
	case "time":
		return g.timeVal()
	case "ip":
		return g.ipVal()
	case "slice":
		n := g.r.Intn(4)
		v := &c13Val{k: "list", vs: []*c13Val{}}
		for i := 0; i < n; i++ {
			v.vs = append(v.vs, g.val(t.elem, false, depth+1))
		}
		return v
	case "map":
		n := g.r.Intn(4)
		v := &c13Val{k: "map", vs: []*c13Val{}}
		seen := map[string]bool{}
		for i := 0; i < n; i++ {
			k := g.mapKey()
			if seen[k] {
				continue
			}
			seen[k] = true
			v.keys = append(v.keys, k)
			v.vs = append(v.vs, g.val(t.elem, false, depth+1))
		}
		return v
	case "set":
		n := g.r.Intn(4)
		v := &c13Val{k: "set"}
		seen := map[string]bool{}
		for i := 0; i < n; i++ {
			k := g.mapKey()
			if seen[k] {
				continue
			}
			seen[k] = true
			v.keys = append(v.keys, k)
		}
		return v
	case "ptr":
		return &c13Val{k: "ptr", vs: []*c13Val{g.val(t.elem, false, depth+1)}}
	case "struct":
		v := &c13Val{k: "struct"}
		for _, f := range t.fields {
			v.vs = append(v.vs, g.val(f.ty, true, depth+1))
		}
		return v
	}
	panic("c13 gen " + t.kind)
}

// ---------- rendering by the rule of the property ----------

type c13Render struct {
	format string
	ext    *c13Ext
	// ill-typed stream: replace the n-th rendered node (counting from 0) by a value no library accepts
	badAt   int
	counter int
	badDone string // description of what was replaced
	r       *RNG
}

func (rd *c13Render) bad(t *c13Ty) *c13Doc {
	strDoc := &c13Doc{kind: "s", s: "zz"}
	listDoc := &c13Doc{kind: "list", list: []*c13Doc{{kind: "s", s: "zz"}}}
	mapDoc := &c13Doc{kind: "map", keys: []string{"zz"}, vals: []*c13Doc{{kind: "s", s: "q"}}}
	pick := func(ds ...*c13Doc) *c13Doc { return ds[rd.r.Intn(len(ds))] }
	switch t.kind {
	case "bool", "int", "uint", "float", "dur", "ip":
		return pick(strDoc, listDoc, mapDoc)
	case "time": // yaml.v2 fills a mapping into time.Time as into any struct (no exported fields: nothing happens)
		return pick(strDoc, listDoc)
	case "str":
		return pick(listDoc, mapDoc)
	case "slice", "set":
		return pick(strDoc, mapDoc)
	case "map", "struct":
		return pick(strDoc, listDoc)
	case "ptr":
		return rd.bad(t.elem)
	}
	return strDoc
}

func (rd *c13Render) node(t *c13Ty, v *c13Val) *c13Doc {
	if t.kind == "ptr" { // the pointer is not a node of its own
		return rd.node(t.elem, v.vs[0])
	}
	if rd.badAt >= 0 {
		if rd.counter == rd.badAt {
			rd.counter++
			rd.badDone = t.kind
			return rd.bad(t)
		}
		rd.counter++
	}
	switch t.kind {
	case "bool":
		return &c13Doc{kind: "B", b: v.b}
	case "int", "uint":
		return &c13Doc{kind: "i", s: v.s}
	case "float":
		return &c13Doc{kind: "f", s: v.s}
	case "str":
		return &c13Doc{kind: "s", s: v.s}
	case "dur":
		if (rd.format == "json" || rd.format == "cue") && rd.ext.di[v.s] {
			return &c13Doc{kind: "i", s: v.s}
		}
		return &c13Doc{kind: "s", s: rd.ext.dt[v.s]}
	case "time":
		if rd.format == "toml" {
			return &c13Doc{kind: "t", s: v.s}
		}
		return &c13Doc{kind: "s", s: v.s, tm: true}
	case "ip":
		return &c13Doc{kind: "s", s: v.s}
	case "slice":
		d := &c13Doc{kind: "list", list: []*c13Doc{}}
		for _, e := range v.vs {
			d.list = append(d.list, rd.node(t.elem, e))
		}
		return d
	case "set":
		d := &c13Doc{kind: "list", list: []*c13Doc{}}
		for _, k := range v.keys {
			d.list = append(d.list, &c13Doc{kind: "s", s: k})
		}
		return d
	case "map":
		d := &c13Doc{kind: "map"}
		for i, k := range v.keys {
			d.keys = append(d.keys, k)
			d.vals = append(d.vals, rd.node(t.elem, v.vs[i]))
		}
		return d
	case "struct":
		d := &c13Doc{kind: "map"}
		rd.fields(t, v, d)
		return d
	}
	panic("c13 render " + t.kind)
}

// fields renders the fields of struct value v into map document d; an untagged anonymous struct field is promoted
func (rd *c13Render) fields(t *c13Ty, v *c13Val, d *c13Doc) {
	for i := range t.fields {
		f := &t.fields[i]
		fv := v.vs[i]
		if fv.k == "nil" || fv.omit {
			continue
		}
		key := c13Key(rd.format, f)
		if key == "" && f.anon && f.ty.structOf() != nil {
			inner := fv
			if f.ty.kind == "ptr" {
				inner = fv.vs[0]
			}
			rd.fields(f.ty.structOf(), inner, d)
			continue
		}
		d.keys = append(d.keys, key)
		d.vals = append(d.vals, rd.node(f.ty, fv))
	}
}

// ---------- running the implementation ----------

func c13Decoder(format string, flatten, wrap bool) dials.Decoder {
	var d dials.Decoder
	switch format {
	case "json":
		d = &jsondec.Decoder{}
	case "yaml":
		d = &yamldec.Decoder{FlattenAnonymous: flatten}
	case "toml":
		d = &tomldec.Decoder{}
	case "cue":
		d = &cuedec.Decoder{}
	}
	if wrap {
		d = sourcewrap.NewTransformingDecoder(d, &transform.SetSliceMangler{})
	}
	return d
}

func c13ImplToks(t *c13Ty, v reflect.Value, out *[]string) {
	switch t.kind {
	case "bool":
		if v.Bool() {
			*out = append(*out, "B1")
		} else {
			*out = append(*out, "B0")
		}
	case "int":
		*out = append(*out, "i:"+strconv.FormatInt(v.Int(), 10))
	case "uint":
		*out = append(*out, "i:"+strconv.FormatUint(v.Uint(), 10))
	case "float":
		*out = append(*out, "f:"+hexEnc(strconv.FormatFloat(v.Float(), 'g', -1, 64)))
	case "str":
		*out = append(*out, "s:"+hexEnc(v.String()))
	case "dur":
		*out = append(*out, "d:"+strconv.FormatInt(v.Int(), 10))
	case "time":
		*out = append(*out, "x:"+hexEnc(v.Interface().(time.Time).UTC().Format(time.RFC3339Nano)))
	case "ip":
		if v.IsNil() {
			*out = append(*out, "-")
		} else {
			*out = append(*out, "x:"+hexEnc(v.Interface().(net.IP).String()))
		}
	case "slice":
		if v.IsNil() {
			*out = append(*out, "-")
			return
		}
		*out = append(*out, "[")
		for i := 0; i < v.Len(); i++ {
			c13ImplToks(t.elem, v.Index(i), out)
		}
		*out = append(*out, "]")
	case "map":
		if v.IsNil() {
			*out = append(*out, "-")
			return
		}
		ks := v.MapKeys()
		sort.Slice(ks, func(a, b int) bool { return ks[a].String() < ks[b].String() })
		*out = append(*out, "m{")
		for _, k := range ks {
			*out = append(*out, hexEnc(k.String()))
			c13ImplToks(t.elem, v.MapIndex(k), out)
		}
		*out = append(*out, "}")
	case "set":
		if v.IsNil() {
			*out = append(*out, "-")
			return
		}
		ks := v.MapKeys()
		sort.Slice(ks, func(a, b int) bool { return ks[a].String() < ks[b].String() })
		*out = append(*out, "S{")
		for _, k := range ks {
			*out = append(*out, hexEnc(k.String()))
		}
		*out = append(*out, "}")
	case "ptr":
		if v.IsNil() {
			*out = append(*out, "-")
			return
		}
		*out = append(*out, "&")
		c13ImplToks(t.elem, v.Elem(), out)
	case "struct":
		*out = append(*out, "(")
		for _, f := range t.fields {
			c13ImplToks(f.ty, v.Field(f.idx), out)
		}
		*out = append(*out, ")")
	}
}

// c13Value: the decoder's value for the pointerified type, as canonical tokens ("err: …" / "panic: …" otherwise)
func c13Value(format string, flatten, wrap bool, pt *c13Ty, text string) (res string, val reflect.Value) {
	defer func() {
		if p := recover(); p != nil {
			res = fmt.Sprintf("panic: %v", p)
		}
	}()
	src := &static.StringSource{Data: text, Decoder: c13Decoder(format, flatten, wrap)}
	v, err := src.Value(context.Background(), dials.NewType(pt.rt))
	if err != nil {
		if v.IsValid() {
			return "violation: error together with a valid value: " + err.Error(), v
		}
		return "err: " + err.Error(), v
	}
	if !v.IsValid() {
		return "violation: nil error with an invalid value", v
	}
	if v.Type() != pt.rt {
		return "violation: value of type " + v.Type().String(), v
	}
	return "ok " + c13Join(func(o *[]string) { c13ImplToks(pt, v, o) }), v
}

func c13IsErr(s string) bool { return strings.HasPrefix(s, "err: ") }

// c13Build: the Go value of type rt that carries data v
func c13Build(t *c13Ty, rt reflect.Type, v *c13Val) reflect.Value {
	out := reflect.New(rt).Elem()
	if v.k == "nil" {
		return out
	}
	switch t.kind {
	case "bool":
		out.SetBool(v.b)
	case "int":
		n, _ := strconv.ParseInt(v.s, 10, 64)
		out.SetInt(n)
	case "uint":
		n, _ := strconv.ParseUint(v.s, 10, 64)
		out.SetUint(n)
	case "float":
		f, _ := strconv.ParseFloat(v.s, 64)
		out.SetFloat(f)
	case "str":
		out.SetString(v.s)
	case "dur":
		n, _ := strconv.ParseInt(v.s, 10, 64)
		out.SetInt(n)
	case "time":
		tm, err := time.Parse(time.RFC3339Nano, v.s)
		if err != nil {
			panic(err)
		}
		out.Set(reflect.ValueOf(tm))
	case "ip":
		out.Set(reflect.ValueOf(net.ParseIP(v.s)))
	case "slice":
		s := reflect.MakeSlice(rt, len(v.vs), len(v.vs))
		for i, e := range v.vs {
			s.Index(i).Set(c13Build(t.elem, rt.Elem(), e))
		}
		out.Set(s)
	case "map":
		m := reflect.MakeMapWithSize(rt, len(v.keys))
		for i, k := range v.keys {
			m.SetMapIndex(reflect.ValueOf(k), c13Build(t.elem, rt.Elem(), v.vs[i]))
		}
		out.Set(m)
	case "set":
		m := reflect.MakeMapWithSize(rt, len(v.keys))
		for _, k := range v.keys {
			m.SetMapIndex(reflect.ValueOf(k), reflect.ValueOf(struct{}{}))
		}
		out.Set(m)
	case "ptr":
		p := reflect.New(rt.Elem())
		p.Elem().Set(c13Build(t.elem, rt.Elem(), v.vs[0]))
		out.Set(p)
	case "struct":
		for i, f := range t.fields {
			out.Field(f.idx).Set(c13Build(f.ty, rt.Field(f.idx).Type, v.vs[i]))
		}
	}
	return out
}

// a source that hands dials the data as a plain Go value of the pointerified type (no decoder involved)
type c13RefSource struct{ data *c13Val }

func (s *c13RefSource) Value(_ context.Context, t *dials.Type) (reflect.Value, error) {
	rt := t.Type()
	return c13Build(c13TypeOf(rt), rt, s.data), nil
}

type c13Runner func(defaults reflect.Value, src dials.Source) (view reflect.Value, err error)

func c13MakeRunner[T any]() c13Runner {
	return func(defaults reflect.Value, src dials.Source) (view reflect.Value, err error) {
		defer func() {
			if p := recover(); p != nil {
				err = fmt.Errorf("panic: %v", p)
			}
		}()
		d := defaults.Addr().Interface().(*T)
		ctx, cancel := context.WithCancel(context.Background())
		defer cancel()
		dd, cerr := dials.Config(ctx, d, src)
		if cerr != nil {
			return reflect.Value{}, cerr
		}
		return reflect.ValueOf(dd.View()).Elem(), nil
	}
}

var c13Runners = map[string]c13Runner{
	"Scalars": c13MakeRunner[c13Scalars](), "Times": c13MakeRunner[c13Times](), "Colls": c13MakeRunner[c13Colls](),
	"Nested": c13MakeRunner[c13Nested](), "FmtTags": c13MakeRunner[c13FmtTags](), "SliceStruct": c13MakeRunner[c13SliceStruct](),
	"Inner": c13MakeRunner[c13Inner](), "EmbTagged": c13MakeRunner[c13EmbTagged](), "EmbFlat": c13MakeRunner[c13EmbFlat](),
	"Emb2": c13MakeRunner[c13Emb2](), "MapStruct": c13MakeRunner[c13MapStruct](), "SlicePtr": c13MakeRunner[c13SlicePtr](),
	"SliceTime": c13MakeRunner[c13SliceTime](),
}

// ---------- the check ----------

type c13Type struct {
	c13Corpus
	orig    *c13Ty // the declared type
	pt      *c13Ty // Pointerify(type)
	ptToks  string
	runner  c13Runner
	viewsOK map[string]bool
}

type c13Case struct {
	Type    string            `json:"type"`
	Format  string            `json:"format,omitempty"`
	Flatten bool              `json:"yaml_flatten"`
	Data    string            `json:"data"`
	Docs    map[string]string `json:"documents,omitempty"`
	Text    string            `json:"text,omitempty"`
	Note    string            `json:"note,omitempty"`
}

func checkC13(c *Ctx) {
	res := c.Res
	res.Rule = "stream 1: corpus type (13 declared struct types: all integer widths, float64, bool, strings, time.Duration (plain, pointer, pointer-to-pointer, in slices, maps and pointers to them), time.Time (also []time.Time), net.IP, " +
		"[]string/[]int/[][]int, string-keyed maps incl. nested, map[string]struct{} sets, nested / pointer / slice-of structs, format-specific tags, embedded structs) x generated data " +
		"(any subset of keys present at every depth, boundary integers, awkward strings and map keys, durations as strings or integer ns for JSON/Cue) rendered by the harness into all four formats " +
		"with randomised concrete syntax (block/flow YAML, TOML sections / inline tables / arrays of tables, bare/quoted keys, escapes); a case is non-trivial when at least one key is present; " +
		"distinct = distinct (type, data, four texts). stream 2: one node made ill-typed. stream 3: every single-token delete/duplicate/replace of each text (quick: a sample of cases). stream 4: finding probes."
	ctxTypes := map[string]*c13Type{}
	var types []*c13Type
	for _, ct := range c13Types {
		rt := reflect.TypeOf(ct.zero)
		prt := ptrify.Pointerify(rt, reflect.Value{})
		t := &c13Type{c13Corpus: ct, orig: c13TypeOf(rt), pt: c13TypeOf(prt), runner: c13Runners[ct.name], viewsOK: map[string]bool{}}
		t.ptToks = c13Join(t.pt.toks)
		ctxTypes[ct.name] = t
		types = append(types, t)
	}
	h := &c13Harness{c: c, res: res, types: ctxTypes}

	// key paths: the model's view of the translated type == the rule of the property (harness's own) == the model's kview
	for _, t := range types {
		for _, f := range c13Formats {
			h.checkViews(t, f)
		}
	}

	var plain, special []*c13Type
	for _, t := range types {
		if t.class == "" {
			plain = append(plain, t)
		} else {
			special = append(special, t)
		}
	}
	n := c.scale(1500, 24000)
	tokEvery := 6
	if c.Tier == "thorough" {
		tokEvery = 3
	}
	for i := 0; i < n; i++ {
		r := c.RNG.Fork()
		var t *c13Type
		if r.Chance(82) {
			t = plain[r.Intn(len(plain))]
		} else {
			t = special[r.Intn(len(special))]
		}
		h.agreementCase(r, t, i%tokEvery == 0)
	}
	h.emptyDocuments(types)
	c13OpaqueText(c, c.scale(40, 1500))
	h.probeCaseFold(c.RNG.Fork())
	res.Notes = append(res.Notes, fmt.Sprintf("token corruptions decoded: %d (errors %d, complete values %d); ill-typed documents: %d", h.nTok, h.nTokErr, h.nTokOK, h.nBad))
}

type c13Harness struct {
	wrap                        bool // the current case decodes inside the set->slice wrapper
	c                           *Ctx
	res                         *Result
	types                       map[string]*c13Type
	nTok, nTokErr, nTokOK, nBad int
}

func (h *c13Harness) ask(line string) string {
	if h.c.Drv == nil {
		return "no-driver"
	}
	return h.c.Drv.Ask(line)
}

func (h *c13Harness) checkViews(t *c13Type, format string) {
	if t.class == "embflat" || t.class == "emb2" {
		return // untagged anonymous fields: key "" in the rule; promotion is library behaviour
	}
	rule := c13Join(func(o *[]string) { t.pt.kviewToks(format, true, o) })
	mk := h.ask("dc kview " + format + " 1 " + t.ptToks)
	mv := h.ask("dc view " + format + " 0 1 " + t.ptToks)
	h.res.Count("view:" + t.class)
	if mk != "ok "+rule {
		h.res.Add(Finding{Kind: "disagreement", What: "model kview differs from the harness's key rule", Case: c13Case{Type: t.name, Format: format}, Expected: rule, Model: mk})
	}
	switch t.class {
	case "", "embtagged":
		if mv != "ok "+rule {
			h.res.Add(Finding{Kind: "disagreement", What: "model: the translated type seen by the library differs from the key rule on a supported type", Case: c13Case{Type: t.name, Format: format}, Expected: rule, Model: mv})
		}
	default:
		if mv == "ok "+rule {
			h.res.Add(Finding{Kind: "disagreement", What: "model: translated type equals the key rule on a type listed as a known finding", Case: c13Case{Type: t.name, Format: format}, Model: mv})
		}
	}
}

type c13Out struct {
	doc   *c13Doc
	toks  []c13Tok
	text  string
	value string // canonical Value result
	view  string // canonical Config/View result
	model string
}

func (h *c13Harness) finding(kind, what string, cs c13Case, exp, obs, model any) {
	h.res.Add(Finding{Kind: kind, What: what, Case: cs, Expected: exp, Observed: obs, Model: model})
}

func (h *c13Harness) known(id, what string, cs c13Case, exp, obs any) {
	if isKnown("C13", id) {
		h.res.Add(Finding{Kind: "known", What: what, Case: cs, Expected: exp, Observed: obs, KnownID: id})
	} else {
		h.res.Add(Finding{Kind: "violation", What: what + " (not a listed finding: " + id + ")", Case: cs, Expected: exp, Observed: obs})
	}
}

func (h *c13Harness) viewOf(t *c13Type, defaults *c13Val, src dials.Source) string {
	dv := c13Build(t.orig, t.orig.rt, defaults)
	view, err := t.runner(dv, src)
	if err != nil {
		return "err: " + err.Error()
	}
	return "ok " + c13Join(func(o *[]string) { c13ImplToks(t.orig, view, o) })
}

func (h *c13Harness) agreementCase(r *RNG, t *c13Type, tokenSweep bool) {
	ext := newC13Ext()
	g := &c13Gen{r: r, ext: ext, pAbsent: []int{10, 35, 35, 60, 90}[r.Intn(5)]}
	data := g.val(t.pt, false, 0)
	c13NormAnon(t.pt, data)
	expect := "ok " + c13Join(data.toks)
	// defaults for the Config route: random data of the declared type
	gd := &c13Gen{r: r.Fork(), ext: newC13Ext(), pAbsent: 30}
	defaults := gd.val(t.orig, false, 0)
	h.wrap = c13HasSet(t.pt) || r.Chance(70)
	if h.wrap {
		h.res.Count("wrapper:on")
	} else {
		h.res.Count("wrapper:off")
	}
	flatten := r.Bool()
	switch t.class {
	case "embflat", "emb2":
		flatten = true
	case "embtagged":
		flatten = false
	}
	extToks := ext.toks()
	cs := c13Case{Type: t.name, Flatten: flatten, Data: expect, Docs: map[string]string{}}
	outs := map[string]*c13Out{}
	present := false
	for _, f := range c13Formats {
		rd := &c13Render{format: f, ext: ext, badAt: -1, r: r}
		d := rd.node(t.pt, data)
		if len(d.keys) > 0 {
			present = true
		}
		o := &c13Out{doc: d}
		o.toks = c13Emit(r, f, d)
		o.text = c13Text(o.toks)
		cs.Docs[f] = o.text
		o.value, _ = c13Value(f, flatten, h.wrap, t.pt, o.text)
		outs[f] = o
	}
	canon := t.name + "|" + expect + "|" + cs.Docs["json"] + cs.Docs["yaml"] + cs.Docs["toml"] + cs.Docs["cue"]
	h.res.Case(canon, present, cs)
	h.res.Count("type:" + t.name)
	h.res.Count(fmt.Sprintf("absent%%:%d", g.pAbsent))

	// ----- model -----
	modelled := t.class == "" || t.class == "embtagged" || t.class == "embflat" || t.class == "emb2"
	if h.c.Drv != nil {
		for _, f := range c13Formats {
			o := outs[f]
			cf := cs
			cf.Format = f
			if !modelled {
				h.res.OutOfDomain++
				continue
			}
			fl := flatten && f == "yaml"
			m := h.ask("dc dec " + f + " " + b01(fl) + " " + b01(h.wrap) + " " + t.ptToks + " " + c13Join(o.doc.toks) + " " + extToks)
			o.model = m
			iv := o.value
			if c13IsErr(iv) {
				iv = "err"
			}
			if m != iv {
				h.finding("disagreement", "model and implementation differ on a valid document", cf, nil, o.value, m)
			}
			if t.class == "" || t.class == "embtagged" {
				mr := h.ask("dc render " + f + " " + b01(h.wrap) + " " + t.ptToks + " " + c13Join(data.toksRaw) + " " + extToks)
				if mr != "ok "+c13Join(o.doc.toks) && !c13HasOmit(data) {
					h.finding("disagreement", "model render differs from the harness's document", cf, c13Join(o.doc.toks), nil, mr)
				}
			}
		}
	}
	// ----- direct oracle on the source values: each format's value is the data; hence the four agree -----
	cueMin := c13HasMinInt64(t.pt, data)
	for _, f := range c13Formats {
		o := outs[f]
		cf := cs
		cf.Format = f
		if strings.HasPrefix(o.value, "violation") || strings.HasPrefix(o.value, "panic") {
			h.finding("violation", "decoder misbehaved on a valid document: "+o.value, cf, expect, o.value, nil)
			continue
		}
		if o.value != expect {
			h.classify(t, f, cueMin, cf, expect, o.value, o.model)
		}
	}
	if t.class == "embtagged" {
		// the same YAML document with FlattenAnonymous: by the property the tagged embedded struct is still read under its key
		cf := cs
		cf.Format, cf.Flatten = "yaml", true
		if got, _ := c13Value("yaml", true, h.wrap, t.pt, outs["yaml"].text); got != expect {
			m := ""
			if h.c.Drv != nil {
				m = h.ask("dc dec yaml 1 " + b01(h.wrap) + " " + t.ptToks + " " + c13Join(outs["yaml"].doc.toks) + " " + extToks)
			}
			if m != "" && m != got {
				h.finding("disagreement", "model and implementation differ (YAML FlattenAnonymous on a tagged embedded struct)", cf, nil, got, m)
			}
			h.known("D33b-yaml-flatten-tagged", "YAML FlattenAnonymous hoists an embedded struct that carries a dials tag: its key is ignored and its fields are read from the parent level, while JSON, TOML, Cue (and YAML without the option) read it under its key", cf, expect, got)
		}
	}
	// ----- Config + View: every format's view == the view from a plain Go value with the same data -----
	if t.class == "" || t.class == "embtagged" {
		ref := h.viewOf(t, defaults, &c13RefSource{data: data})
		if !strings.HasPrefix(ref, "ok ") {
			h.finding("violation", "dials.Config fails on a plain Go-value source", cs, nil, ref, nil)
		}
		for _, f := range c13Formats {
			cf := cs
			cf.Format = f
			v := h.viewOf(t, defaults, &static.StringSource{Data: outs[f].text, Decoder: c13Decoder(f, flatten, h.wrap)})
			if v != ref && !(f == "cue" && cueMin && c13IsErr(v)) && !(f == "toml" && strings.Contains(v, "Can't convert []([]interface {}) to a slice")) {
				h.finding("violation", "the view decoded from the document differs from the view of the same data given as a Go value", cf, ref, v, nil)
			}
		}
		h.res.Count("config-route")
	}
	if t.class != "" {
		return
	}
	// ----- stream 2: ill-typed -----
	h.illTyped(r, t, data, ext, flatten, cs)
	// ----- stream 3: single-token corruptions -----
	if tokenSweep {
		for _, f := range c13Formats {
			h.tokenSweep(r, t, f, flatten, outs[f], cs)
		}
	}
}

// c13NormAnon: an untagged embedded pointer-to-struct whose fields are all absent is itself absent (no key expresses it)
func c13NormAnon(t *c13Ty, v *c13Val) {
	if v.k == "nil" {
		return
	}
	switch t.kind {
	case "ptr":
		c13NormAnon(t.elem, v.vs[0])
	case "struct":
		for i := range t.fields {
			f := &t.fields[i]
			c13NormAnon(f.ty, v.vs[i])
			if d, _ := c13TagGet(f.tags, "dials"); f.anon && d == "" && f.ty.kind == "ptr" && v.vs[i].k == "ptr" {
				all := true
				for _, e := range v.vs[i].vs[0].vs {
					if e.k != "nil" {
						all = false
					}
				}
				if all {
					*v.vs[i] = c13Val{k: "nil"}
				}
			}
		}
	}
}

func c13HasSet(t *c13Ty) bool {
	switch t.kind {
	case "set":
		return true
	case "slice", "map", "ptr":
		return c13HasSet(t.elem)
	case "struct":
		for _, f := range t.fields {
			if c13HasSet(f.ty) {
				return true
			}
		}
	}
	return false
}

func c13HasOmit(v *c13Val) bool {
	if v.omit {
		return true
	}
	for _, e := range v.vs {
		if c13HasOmit(e) {
			return true
		}
	}
	return false
}

// c13HasMinInt64: the data has math.MinInt64 at a 64-bit signed integer leaf (predicate of finding D35)
func c13HasMinInt64(t *c13Ty, v *c13Val) bool {
	if v.k == "nil" {
		return false
	}
	switch t.kind {
	case "int":
		return t.bits == 64 && v.s == "-9223372036854775808"
	case "slice", "map":
		for _, e := range v.vs {
			if c13HasMinInt64(t.elem, e) {
				return true
			}
		}
	case "ptr":
		return c13HasMinInt64(t.elem, v.vs[0])
	case "struct":
		for i, f := range t.fields {
			if !v.vs[i].omit && c13HasMinInt64(f.ty, v.vs[i]) {
				return true
			}
		}
	}
	return false
}

// classify a difference between a decoder's value and the data on a valid document: a listed known finding when the
// case matches its predicate and shows the listed behaviour (for the embedded-struct findings: exactly what the model,
// which has no promotion for TOML / one-level hoisting for YAML, predicts), else a violation
func (h *c13Harness) classify(t *c13Type, f string, cueMin bool, cf c13Case, expect, got, model string) {
	ng := got
	if c13IsErr(ng) {
		ng = "err"
	}
	asModel := model == "" || model == ng
	emptyStructs := f == "toml" && strings.Contains(got, "Can't convert []([]interface {}) to a slice")
	switch {
	case f == "cue" && cueMin && c13IsErr(got) && strings.Contains(got, "rounded"):
		h.known("D35-cue-min-int64", "cue v0.6.0 cannot decode math.MinInt64 into an int / int64 field (Value.Int64 tests the magnitude): the Cue decoder fails on data the other three decoders read", cf, expect, got)
	case emptyStructs && asModel:
		h.known("D36-toml-empty-struct-array", "go-toml v1.9.5 cannot unmarshal an empty array into a slice of structs (it expects an array of tables): the TOML decoder fails on `ls = []` for a []struct field that JSON, YAML and Cue read as an empty slice", cf, expect, got)
	case t.class == "embflat" && f == "toml" && !c13IsErr(got) && asModel:
		h.known("D32-toml-embedded", "go-toml does not promote the fields of an (untagged) embedded struct once Pointerify has made it a pointer: the keys are ignored, the embedded struct stays unset, while JSON, Cue and YAML (FlattenAnonymous) fill it", cf, expect, got)
	case t.class == "emb2" && f == "toml" && !c13IsErr(got) && asModel:
		h.known("D32-toml-embedded", "go-toml does not promote the fields of an (untagged) embedded struct once Pointerify has made it a pointer: the keys are ignored, the embedded struct stays unset, while JSON, Cue and YAML (FlattenAnonymous) fill it", cf, expect, got)
	case t.class == "emb2" && f == "yaml" && !c13IsErr(got) && asModel:
		h.known("D33-yaml-flatten-one-level", "YAML FlattenAnonymous hoists one level only: the fields of a struct embedded in an embedded struct are not read, while JSON and Cue promote them", cf, expect, got)
	case (t.class == "mapstruct" || t.class == "sliceptr") && !strings.HasPrefix(got, "panic"):
		h.known("D31-tags-not-reached", "dials tags (and the duration substitution) are not applied to struct types that are map values or elements of a slice of pointers (transformer.go isStructishTypedField): the keys given by the tags are ignored / string durations fail in JSON and Cue only", cf, expect, got)
	default:
		h.finding("violation", "decoded value differs from the data the document expresses", cf, expect, got, nil)
	}
}

// ---------- stream 2 ----------

func (h *c13Harness) illTyped(r *RNG, t *c13Type, data *c13Val, ext *c13Ext, flatten bool, cs c13Case) {
	// count nodes
	cnt := &c13Render{format: "json", ext: ext, badAt: 1 << 30, r: r}
	cnt.node(t.pt, data)
	total := cnt.counter
	if total <= 1 {
		return
	}
	at := 1 + r.Intn(total-1) // never the root
	extToks := ext.toks()
	for _, f := range c13Formats {
		rd := &c13Render{format: f, ext: ext, badAt: at, r: r.Fork()}
		d := rd.node(t.pt, data)
		toks := c13Emit(r, f, d)
		text := c13Text(toks)
		cf := cs
		cf.Format, cf.Text, cf.Docs = f, text, nil
		cf.Note = "node " + fmt.Sprint(at) + " (a " + rd.badDone + ") replaced by an ill-typed value"
		got, _ := c13Value(f, flatten, h.wrap, t.pt, text)
		h.nBad++
		h.res.Count("illtyped:" + rd.badDone)
		if !c13IsErr(got) {
			h.finding("violation", "an ill-typed document did not give an error", cf, "err", got, nil)
		}
		if v := h.viewOf(t, &c13Val{k: "struct", vs: c13Zeros(t.orig)}, &static.StringSource{Data: text, Decoder: c13Decoder(f, flatten, h.wrap)}); !c13IsErr(v) {
			h.finding("violation", "dials.Config accepted an ill-typed document: a value reached the view", cf, "err", v, nil)
		}
		if h.c.Drv != nil {
			m := h.ask("dc dec " + f + " " + b01(flatten && f == "yaml") + " " + b01(h.wrap) + " " + t.ptToks + " " + c13Join(d.toks) + " " + extToks)
			if m != "err" {
				h.finding("disagreement", "model does not reject an ill-typed document", cf, "err", got, m)
			}
		}
	}
}

func c13Zeros(t *c13Ty) []*c13Val {
	g := &c13Gen{}
	var out []*c13Val
	for _, f := range t.fields {
		out = append(out, g.zero(f.ty))
	}
	return out
}

// ---------- stream 3 ----------

var c13ReplacePool = []string{`"zz"`, "0", "-1", "true", "null", "[", "]", "{", "}", ":", ",", "=", "1.5", `""`, "zz"}

func (h *c13Harness) tokenSweep(r *RNG, t *c13Type, f string, flatten bool, o *c13Out, cs c13Case) {
	var idx []int
	for i, tk := range o.toks {
		if !tk.glue {
			idx = append(idx, i)
		}
	}
	for _, i := range idx {
		for op := 0; op < 3; op++ {
			mut := make([]c13Tok, 0, len(o.toks)+1)
			mut = append(mut, o.toks[:i]...)
			note := ""
			switch op {
			case 0:
				note = "delete"
			case 1:
				mut = append(mut, o.toks[i], c13Tok{" ", true}, o.toks[i])
				note = "duplicate"
			case 2:
				var rep string
				if r.Bool() {
					rep = o.toks[idx[r.Intn(len(idx))]].s
				} else {
					rep = c13ReplacePool[r.Intn(len(c13ReplacePool))]
				}
				if rep == o.toks[i].s {
					rep = `"zz"`
				}
				mut = append(mut, c13Tok{rep, false})
				note = "replace by " + rep
			}
			mut = append(mut, o.toks[i+1:]...)
			text := c13Text(mut)
			cf := cs
			cf.Format, cf.Text, cf.Docs = f, text, nil
			cf.Note = fmt.Sprintf("token %d (%q): %s", i, o.toks[i].s, note)
			h.tokenCase(t, f, flatten, text, cf)
		}
	}
}

func (h *c13Harness) tokenCase(t *c13Type, f string, flatten bool, text string, cf c13Case) {
	h.nTok++
	got, val := c13Value(f, flatten, h.wrap, t.pt, text)
	h.res.Evaluations++
	if strings.HasPrefix(got, "violation") || strings.HasPrefix(got, "panic") {
		h.finding("violation", "decoder misbehaved on a corrupted document: "+got, cf, "an error, or a complete value", got, nil)
		return
	}
	cfgEvery := h.nTok%16 == 0
	if c13IsErr(got) {
		h.nTokErr++
		h.res.Count("tok:" + f + ":err")
		if cfgEvery {
			if v := h.viewOf(t, &c13Val{k: "struct", vs: c13Zeros(t.orig)}, &static.StringSource{Data: text, Decoder: c13Decoder(f, flatten, h.wrap)}); !c13IsErr(v) {
				h.finding("violation", "dials.Config succeeded although the source's decoder fails: a value reached the view", cf, "err", v, nil)
			}
		}
		return
	}
	h.nTokOK++
	h.res.Count("tok:" + f + ":value")
	// stable under re-decoding
	again, _ := c13Value(f, flatten, h.wrap, t.pt, text)
	if again != got {
		h.finding("violation", "re-decoding the same text gives another value", cf, got, again, nil)
	}
	// complete: set fields <-> keys of the library's own generic parse
	tree, err := c13Generic(f, text)
	if err == errC13NonConcrete {
		h.res.Count("tok:cue:non-concrete")
		return
	}
	if err != nil {
		h.finding("violation", "the decoder returned a value for a text its own library rejects", cf, "err: "+err.Error(), got, nil)
		return
	}
	m, ok := tree.(map[string]any)
	if !ok {
		if tree == nil {
			m = map[string]any{}
		} else {
			h.finding("violation", "the decoder returned a value for a document that is not a map", cf, "err", got, nil)
			return
		}
	}
	if why := c13Presence(f, t.pt, val, m, ""); why != "" {
		h.finding("violation", "partly filled value: "+why, cf, "every field set iff its key is in the document", got, nil)
	}
	if cfgEvery {
		if v := h.viewOf(t, &c13Val{k: "struct", vs: c13Zeros(t.orig)}, &static.StringSource{Data: text, Decoder: c13Decoder(f, flatten, h.wrap)}); c13IsErr(v) {
			h.finding("violation", "dials.Config fails although the source's decoder gives a value", cf, got, v, nil)
		}
	}
}

// c13Presence: a nil-able field of the decoded struct value v is set iff the generic parse has a non-null entry whose key
// addresses it (per the library's matching); recursion through struct / pointer-to-struct fields.
func c13Presence(format string, t *c13Ty, v reflect.Value, m map[string]any, path string) string {
	for i := range t.fields {
		f := &t.fields[i]
		key := c13Key(format, f)
		var entry any
		found, nonNull := false, false
		for dk, dv := range m {
			if c13KeyMatches(format, key, dk) {
				found = true
				if dv != nil {
					nonNull = true
					if entry == nil || dk == key {
						entry = dv
					}
				}
			}
		}
		fv := v.Field(f.idx)
		if !f.ty.nilable() {
			continue
		}
		set := !fv.IsNil()
		if set && !found {
			return fmt.Sprintf("field %s%s is set but the document has no key %q", path, f.name, key)
		}
		if es, isStr := entry.(string); f.ty.kind == "ip" && isStr && es == "" {
			continue // net.IP.UnmarshalText("") leaves a nil IP
		}
		if !set && nonNull {
			return fmt.Sprintf("field %s%s is unset but the document has key %q with a value", path, f.name, key)
		}
		if st := f.ty.structOf(); st != nil && set {
			if sub, ok := entry.(map[string]any); ok {
				if why := c13Presence(format, st, fv.Elem(), sub, path+f.name+"."); why != "" {
					return why
				}
			}
		}
	}
	return ""
}

// ---------- stream 4: case-folded keys ----------

func (h *c13Harness) probeCaseFold(r *RNG) {
	t := h.types["Scalars"]
	text := map[string]string{"json": `{"S": "x", "i8": 1}`, "yaml": "S: x\ni8: 1\n", "toml": "S = \"x\"\ni8 = 1\n", "cue": "S: \"x\"\ni8: 1\n"}
	// the document has no key "s": by the property the leaf S stays unset in all four
	want := &c13Val{k: "struct"}
	for i := range t.pt.fields {
		if t.pt.fields[i].name == "I8" {
			want.vs = append(want.vs, &c13Val{k: "ptr", vs: []*c13Val{{k: "int", s: "1"}}})
		} else {
			want.vs = append(want.vs, &c13Val{k: "nil"})
		}
	}
	exp := "ok " + c13Join(want.toks)
	cs := c13Case{Type: t.name, Docs: text, Note: `key "S" where the field's key is "s"`}
	var differing []string
	for _, f := range c13Formats {
		got, _ := c13Value(f, false, true, t.pt, text[f])
		if got != exp {
			differing = append(differing, f+": "+got)
		}
	}
	h.res.Case("casefold", true, cs)
	if len(differing) > 0 {
		h.known("D30-case-folded-keys", "encoding/json, cue and go-toml match a document key that differs from the field's key only in letter case, yaml.v2 does not: the same document sets the leaf in three decoders and leaves it unset in one", cs, exp, differing)
	}
}

// emptyDocuments: a document that expresses NO data (the file is there, but empty, or holds only white space or a
// comment; `{}` for JSON, which has no empty document) decodes to the all-unset value in every format - a present but
// empty file is not an error, and all four decoders agree on it.  An empty text is not a JSON document: an error.
func (h *c13Harness) emptyDocuments(types []*c13Type) {
	docs := map[string][]string{
		"yaml": {"", "\n", "# nothing configured yet\n", "  \n\n", "{}\n", "---\n"},
		"toml": {"", "\n", "# nothing configured yet\n"},
		"cue":  {"", "\n", "// nothing configured yet\n", "{}\n"},
		"json": {"{}", " { } \n"},
	}
	for _, t := range types {
		if t.class != "" {
			continue
		}
		for _, f := range c13Formats {
			for _, text := range docs[f] {
				got, v := c13Value(f, false, false, t.pt, text)
				cs := c13Case{Type: t.name, Format: f, Docs: map[string]string{f: text}}
				h.res.Count("empty-document/" + f)
				switch {
				case !strings.HasPrefix(got, "ok "):
					h.finding("violation", "a document that holds no data (present but empty) did not decode to the all-unset value", cs, "ok, every leaf unset", got, nil)
				case !v.IsZero():
					h.finding("violation", "a document that holds no data set a leaf", cs, "every leaf unset", got, nil)
				}
				h.res.Case("EMPTY|"+t.name+"|"+f+"|"+text, false, map[string]any{"type": t.name, "format": f, "document": text})
			}
		}
		if got, _ := c13Value("json", false, false, t.pt, ""); !c13IsErr(got) {
			h.finding("violation", "the empty text is not a JSON document, but the JSON decoder accepted it", c13Case{Type: t.name, Format: "json", Docs: map[string]string{"json": ""}}, "error", got, nil)
		}
	}
}
