package main

// C15 stream 6 and 7 (oracle only: strconv is external to the model).
//
// stream 6: slices and maps over EVERY scalar kind through parse.String: []S and map[K]V for S, K, V drawn
// from bool, string, the ten integer kinds, float32/64 and complex64/128 (values incl. the extremes of the
// kind), written as the comma / colon separated list of the elements' canonical texts.  The result must be
// exactly the generating collection; one element just outside its kind's range must make the whole parse
// fail.
//
// stream 7: complex64 / complex128 through every entry point that parses them: parse.Complex64/128,
// parse.String and the flag helpers' Complex64Var / Complex128Var Set: canonical text of a value (incl.
// parts at the extremes of float32 / float64) comes back exactly; a part outside the kind's range is an
// error at every entry point, never an infinity.

import (
	"fmt"
	"math"
	"math/big"
	"reflect"
	"strconv"
	"strings"

	"github.com/vimeo/dials/parse"
	"github.com/vimeo/dials/sources/flag/flaghelper"
)

var c15ScalarTypes = []reflect.Type{
	reflect.TypeOf(false), reflect.TypeOf(""),
	reflect.TypeOf(int(0)), reflect.TypeOf(int8(0)), reflect.TypeOf(int16(0)), reflect.TypeOf(int32(0)), reflect.TypeOf(int64(0)),
	reflect.TypeOf(uint(0)), reflect.TypeOf(uint8(0)), reflect.TypeOf(uint16(0)), reflect.TypeOf(uint32(0)), reflect.TypeOf(uint64(0)),
	reflect.TypeOf(float32(0)), reflect.TypeOf(float64(0)), reflect.TypeOf(complex64(0)), reflect.TypeOf(complex128(0)),
}

func c15F32(r *RNG) float32 {
	switch r.Intn(6) {
	case 0:
		return []float32{math.MaxFloat32, -math.MaxFloat32, math.SmallestNonzeroFloat32, 0}[r.Intn(4)]
	case 1:
		f := math.Float32frombits(uint32(r.U64()))
		if f == f && !math.IsInf(float64(f), 0) {
			return f
		}
	}
	return float32(r.Intn(4000)-2000) / 16
}

func c15F64(r *RNG) float64 {
	switch r.Intn(6) {
	case 0:
		return []float64{math.MaxFloat64, -math.MaxFloat64, math.SmallestNonzeroFloat64, 0}[r.Intn(4)]
	case 1:
		f := math.Float64frombits(r.U64())
		if f == f && !math.IsInf(f, 0) {
			return f
		}
	}
	return float64(r.Intn(4000)-2000) / 16
}

// c15Scalar: a random value of the kind with its canonical text, and a text just outside the kind's
// range ("" when the kind has none)
func c15Scalar(r *RNG, t reflect.Type, idx int) (v reflect.Value, text, outside string) {
	v = reflect.New(t).Elem()
	switch t.Kind() {
	case reflect.Bool:
		v.SetBool(r.Bool())
		return v, strconv.FormatBool(v.Bool()), ""
	case reflect.String:
		s := fmt.Sprintf("w%d%s", idx, genWord(r))
		v.SetString(s)
		return v, s, ""
	case reflect.Int, reflect.Int8, reflect.Int16, reflect.Int32, reflect.Int64:
		k := intKind{signed: true, bits: t.Bits()}
		lo, hi := k.rng()
		x := genNear(r, k)
		if x.Cmp(lo) < 0 {
			x = lo
		}
		if x.Cmp(hi) > 0 {
			x = hi
		}
		v.SetInt(x.Int64())
		out := new(big.Int).Add(hi, big.NewInt(1)).String()
		if r.Bool() {
			out = new(big.Int).Sub(lo, big.NewInt(1)).String()
		}
		return v, x.String(), out
	case reflect.Uint, reflect.Uint8, reflect.Uint16, reflect.Uint32, reflect.Uint64:
		k := intKind{signed: false, bits: t.Bits()}
		lo, hi := k.rng()
		x := genNear(r, k)
		if x.Cmp(lo) < 0 {
			x = lo
		}
		if x.Cmp(hi) > 0 {
			x = hi
		}
		v.SetUint(x.Uint64())
		return v, x.String(), new(big.Int).Add(hi, big.NewInt(1)).String()
	case reflect.Float32:
		f := c15F32(r)
		v.SetFloat(float64(f))
		return v, strconv.FormatFloat(float64(f), 'g', -1, 32), []string{"3.5e38", "-1e39", "1e300"}[r.Intn(3)]
	case reflect.Float64:
		f := c15F64(r)
		v.SetFloat(f)
		return v, strconv.FormatFloat(f, 'g', -1, 64), []string{"1e309", "-1e400"}[r.Intn(2)]
	case reflect.Complex64:
		c := complex(c15F32(r), c15F32(r))
		v.SetComplex(complex128(c))
		return v, strconv.FormatComplex(complex128(c), 'g', -1, 64), []string{"(1e39+1i)", "(1-3.5e38i)", "(3.4028236e+38+0i)", "(1e300+2i)"}[r.Intn(4)]
	default:
		c := complex(c15F64(r), c15F64(r))
		v.SetComplex(c)
		return v, strconv.FormatComplex(c, 'g', -1, 128), []string{"(1e309+1i)", "(1-1e400i)"}[r.Intn(2)]
	}
}

func c15Generic(c *Ctx, n6, n7 int) {
	r := c.RNG
	res := c.Res
	for i := 0; i < n6; i++ {
		asMap := r.Bool()
		size := r.Intn(5)
		if r.Chance(10) {
			size = r.Intn(30)
		}
		var t reflect.Type
		var want reflect.Value
		var parts []string
		bad := r.Chance(15) && size > 0
		badAt, hasBad := r.Intn(size+1), false
		if asMap {
			kt, vt := c15ScalarTypes[r.Intn(len(c15ScalarTypes))], c15ScalarTypes[r.Intn(len(c15ScalarTypes))]
			t = reflect.MapOf(kt, vt)
			if t == reflect.TypeOf(map[string]string(nil)) {
				continue // stream 3 (quoting rules of its own)
			}
			want = reflect.MakeMap(t)
			for j := 0; j < size; j++ {
				k, ktxt, kout := c15Scalar(r, kt, j)
				v, vtxt, vout := c15Scalar(r, vt, j)
				if want.MapIndex(k).IsValid() {
					continue
				}
				want.SetMapIndex(k, v)
				if bad && j == badAt%size {
					if vout != "" && (kout == "" || r.Bool()) {
						vtxt, hasBad = vout, true
					} else if kout != "" {
						ktxt, hasBad = kout, true
					}
				}
				parts = append(parts, ktxt+":"+vtxt)
			}
		} else {
			et := c15ScalarTypes[r.Intn(len(c15ScalarTypes))]
			if et.Kind() == reflect.String {
				continue // stream 3
			}
			t = reflect.SliceOf(et)
			want = reflect.MakeSlice(t, 0, size)
			for j := 0; j < size; j++ {
				v, txt, out := c15Scalar(r, et, j)
				want = reflect.Append(want, v)
				if bad && j == badAt%size && out != "" {
					txt, hasBad = out, true
				}
				parts = append(parts, txt)
			}
		}
		text := strings.Join(parts, ",")
		cs := map[string]any{"stream": "generic collection", "type": t.String(), "text": text}
		var got reflect.Value
		var err error
		pn := catch(func() { got, err = parse.String(text, t) })
		res.Count("generic/" + map[bool]string{true: "map", false: "slice"}[asMap] + "/" + map[bool]string{true: "err", false: "ok"}[err != nil])
		res.Count("generic/kind/" + t.Elem().Kind().String())
		switch {
		case pn != "":
			res.Add(Finding{Kind: "violation", What: "parse.String panicked on a collection of scalars: " + pn, Case: cs})
		case hasBad:
			if err == nil {
				res.Add(Finding{Kind: "violation", What: "a collection with one element outside its kind's range was accepted (wrapped / truncated / saturated)", Case: cs, Observed: fmt.Sprint(got.Interface())})
			}
		case err != nil:
			res.Add(Finding{Kind: "violation", What: "the canonical text of a " + t.String() + " was rejected", Case: cs, Observed: err.Error()})
		default:
			if got.Kind() == reflect.Ptr {
				got = got.Elem()
			}
			if got.Type() != t || got.Len() != want.Len() || (want.Len() > 0 && !reflect.DeepEqual(got.Interface(), want.Interface())) {
				res.Add(Finding{Kind: "violation", What: "a " + t.String() + " does not parse back from its canonical text", Case: cs, Expected: fmt.Sprint(want.Interface()), Observed: fmt.Sprint(got.Interface())})
			}
		}
		res.Case("6|"+t.String()+"|"+text, want.Len() >= 2, cs)
	}

	for i := 0; i < n7; i++ {
		is64 := r.Bool()
		var want complex128
		var text, out string
		if is64 {
			v, t, o := c15Scalar(r, reflect.TypeOf(complex64(0)), 0)
			want, text, out = v.Complex(), t, o
		} else {
			v, t, o := c15Scalar(r, reflect.TypeOf(complex128(0)), 0)
			want, text, out = v.Complex(), t, o
		}
		if r.Chance(30) {
			text = strings.Trim(text, "()")
			out = strings.Trim(out, "()")
		}
		cs := map[string]any{"stream": "complex", "bits": map[bool]int{true: 64, false: 128}[is64], "text": text, "outside": out}
		type entry struct {
			name string
			run  func(s string) (complex128, error)
		}
		var entries []entry
		if is64 {
			entries = []entry{
				{"parse.Complex64", func(s string) (complex128, error) { v, err := parse.Complex64(s); return complex128(v), err }},
				{"parse.String(complex64)", func(s string) (complex128, error) {
					v, err := parse.String(s, reflect.TypeOf(complex64(0)))
					if err != nil {
						return 0, err
					}
					return v.Elem().Complex(), nil
				}},
				{"flaghelper.Complex64Var.Set", func(s string) (complex128, error) {
					var x complex64
					err := flaghelper.NewComplex64Var(&x).Set(s)
					return complex128(x), err
				}},
			}
		} else {
			entries = []entry{
				{"parse.Complex128", func(s string) (complex128, error) { return parse.Complex128(s) }},
				{"parse.String(complex128)", func(s string) (complex128, error) {
					v, err := parse.String(s, reflect.TypeOf(complex128(0)))
					if err != nil {
						return 0, err
					}
					return v.Elem().Complex(), nil
				}},
				{"flaghelper.Complex128Var.Set", func(s string) (complex128, error) {
					var x complex128
					err := flaghelper.NewComplex128Var(&x).Set(s)
					return x, err
				}},
			}
		}
		for _, e := range entries {
			var got complex128
			var err error
			if pn := catch(func() { got, err = e.run(text) }); pn != "" {
				res.Add(Finding{Kind: "violation", What: e.name + " panicked: " + pn, Case: cs})
				continue
			}
			if err != nil || got != want {
				res.Add(Finding{Kind: "violation", What: e.name + ": a complex value does not parse back from its canonical text", Case: cs, Expected: fmt.Sprint(want), Observed: fmt.Sprint(got, err)})
			}
			got, err = e.run(out)
			if err == nil {
				res.Add(Finding{Kind: "violation", What: e.name + ": a complex literal with a part outside the kind's range was accepted (saturated)", Case: cs, Observed: fmt.Sprint(got)})
			}
		}
		res.Count(fmt.Sprintf("complex/%d", cs["bits"]))
		res.Case("7|"+text+"|"+out, want != 0, cs)
	}

	// stream 8: a parse result belongs to its caller.  Writing into it (what the flag helpers do when a flag is
	// repeated, what a program does with its config) must not change what a later parse of the same text returns -
	// in particular for the EMPTY text, whose result invites sharing.
	ownTypes := []reflect.Type{reflect.TypeOf(map[string]struct{}(nil)), reflect.TypeOf(map[string]string(nil)), reflect.TypeOf(map[string][]string(nil)),
		reflect.TypeOf(map[string]int(nil)), reflect.TypeOf([]string(nil)), reflect.TypeOf([]int(nil)), reflect.TypeOf(map[int]bool(nil))}
	ownTexts := map[reflect.Type][]string{
		ownTypes[0]: {"", "a", "a,b"}, ownTypes[1]: {"", "a:1", "a:1,b:2"}, ownTypes[2]: {"", "a:1", "a:1,a:2,b:3"},
		ownTypes[3]: {"", "a:1", "a:1,b:2"}, ownTypes[4]: {"", "a", "a,b"}, ownTypes[5]: {"", "1", "1,2"}, ownTypes[6]: {"", "1:true"},
	}
	for i := 0; i < n7/4+1; i++ {
		t := ownTypes[r.Intn(len(ownTypes))]
		text := ownTexts[t][r.Intn(len(ownTexts[t]))]
		if r.Chance(40) {
			text = ""
		}
		cs := map[string]any{"stream": "result ownership", "type": t.String(), "text": text}
		var first, second reflect.Value
		var err1, err2 error
		before, after := "", ""
		pn := catch(func() {
			first, err1 = parse.String(text, t)
			if err1 != nil {
				return
			}
			before = fmt.Sprint(first.Interface())
			// the caller writes into its result
			switch t.Kind() {
			case reflect.Map:
				k := reflect.New(t.Key()).Elem()
				if t.Key().Kind() == reflect.String {
					k.SetString("written-by-the-caller")
				} else {
					k.SetInt(77)
				}
				first.SetMapIndex(k, reflect.New(t.Elem()).Elem())
			case reflect.Slice:
				if first.Len() > 0 {
					first.Index(0).Set(reflect.Zero(t.Elem()))
				}
			}
			second, err2 = parse.String(text, t)
			if err2 == nil {
				after = fmt.Sprint(second.Interface())
			}
		})
		switch {
		case pn != "":
			res.Add(Finding{Kind: "violation", What: "parse.String panicked: " + pn, Case: cs})
		case err1 != nil || err2 != nil:
			res.Add(Finding{Kind: "violation", What: "a canonical collection text was rejected", Case: cs, Observed: fmt.Sprint(err1, err2)})
		case before != after:
			res.Add(Finding{Kind: "violation", What: "parsing the same text again gave a different value after the caller wrote into the first result (results share memory)", Case: cs, Expected: before, Observed: after})
		}
		res.Count("ownership/" + t.String())
		res.Case("8|"+t.String()+"|"+text+"|"+strconv.Itoa(i%3), text == "", cs)
	}
}
