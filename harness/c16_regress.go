package main

// C16 regression stream: one concrete (type, input) per repaired finding (P02–P11, P14), run once per check
// run.  Each input used to panic; now it must return a value or an error (and, where the repair makes the
// shape work, the expected value).  Reverting a repair is reported as a violation with exactly this input.

import (
	"context"
	"fmt"
	"io"
	"os"
	"os/exec"
	"reflect"
	"runtime/debug"
	"strings"
	"time"

	"github.com/vimeo/dials"
	"github.com/vimeo/dials/decoders/cue"
	jsondec "github.com/vimeo/dials/decoders/json"
	"github.com/vimeo/dials/decoders/toml"
	"github.com/vimeo/dials/decoders/yaml"
	"github.com/vimeo/dials/ptrify"
	"github.com/vimeo/dials/sources/env"
	dflag "github.com/vimeo/dials/sources/flag"
	dpflag "github.com/vimeo/dials/sources/pflag"
	"github.com/vimeo/dials/sources/static"
	"github.com/vimeo/dials/transform"
)

type c16RegP02a struct{ P **struct{ A int } }
type c16RegP02b struct {
	P **struct{ X struct{ A *int } }
}
type c16RegP03 struct{ F *PInP }
type c16RegP04a struct{ P **int }
type c16RegP04b struct{ P **NBool }
type c16RegP04c struct{ P ***bool }
type c16RegP05a struct {
	A int `dials:"_"`
}
type c16RegP05b struct {
	A int `dialsenv:""`
}
type c16RegP06a struct {
	A int `dials:"-x"`
}
type c16RegP06b struct {
	A int `dialsflag:"a=b"`
}
type c16RegP07 struct {
	A int `dialspflagshort:"ab"`
}
type c16RegP15a struct {
	A int `dialspflagshort:"v"`
	B int `dialspflagshort:"v"`
}
type c16RegP15b struct {
	Log struct {
		Level int `dialspflagshort:"l"`
	} `dialsalias:"logging"`
}
type c16RegP16Item struct {
	A      int
	hidden int
	C      string
}
type c16RegP16 struct {
	Name  string
	Items []c16RegP16Item
}
type c16RegP13 struct {
	Sub struct {
		NInt8
		NStr
	}
}
type c16RegP08a struct {
	NInt
	B int
}
type c16RegP08b struct{ time.Time }
type c16RegP10 struct {
	InV `dialsalias:"old"`
	X   int
}
type c16RegP11 struct{ F PNStr }
type c16RegP09a struct{ L NInt8 }
type c16RegP09b struct{ M map[int]bool }
type c16RegP14 struct{ A string }

func regType[T any]() (*T, *dials.Type) {
	var c T
	return &c, dials.NewType(ptrify.Pointerify(reflect.TypeOf(c), reflect.ValueOf(c)))
}

func regEnv[T any](vars map[string]string, check func(reflect.Value) error) func() error {
	return func() error {
		for k, v := range vars {
			os.Setenv(k, v)
			defer os.Unsetenv(k)
		}
		_, dt := regType[T]()
		v, err := (&env.Source{}).Value(context.Background(), dt)
		if err != nil {
			return err
		}
		if check != nil {
			if cerr := check(v); cerr != nil {
				return fmt.Errorf("WRONG VALUE: %w", cerr)
			}
		}
		return nil
	}
}

func regFlag[T any](args []string, p bool) func() error {
	return func() error {
		tmpl, dt := regType[T]()
		if p {
			s, err := dpflag.NewSetWithArgs(dpflag.DefaultFlagNameConfig(), tmpl, args)
			if err != nil {
				return err
			}
			s.Flags.SetOutput(io.Discard)
			_, err = s.Value(context.Background(), dt)
			return err
		}
		s, err := dflag.NewSetWithArgs(dflag.DefaultFlagNameConfig(), tmpl, args)
		if err != nil {
			return err
		}
		s.Flags.SetOutput(io.Discard)
		_, err = s.Value(context.Background(), dt)
		return err
	}
}

func regDecode[T any](dec dials.Decoder, doc string) func() error {
	return func() error {
		_, dt := regType[T]()
		_, err := (&static.StringSource{Data: doc, Decoder: dec}).Value(context.Background(), dt)
		return err
	}
}

// leaf follows field names through pointers; invalid if a pointer on the way is nil
func regLeaf(v reflect.Value, path ...string) reflect.Value {
	for _, p := range path {
		for v.Kind() == reflect.Ptr {
			if v.IsNil() {
				return reflect.Value{}
			}
			v = v.Elem()
		}
		v = v.FieldByName(p)
	}
	for v.IsValid() && v.Kind() == reflect.Ptr {
		if v.IsNil() {
			return reflect.Value{}
		}
		v = v.Elem()
	}
	return v
}

func wantInt(path []string, n int64) func(reflect.Value) error {
	return func(v reflect.Value) error {
		l := regLeaf(v, path...)
		if !l.IsValid() || !l.CanInt() || l.Int() != n {
			return fmt.Errorf("leaf %v is not %d", path, n)
		}
		return nil
	}
}

type c16RegCase struct {
	finding string
	what    string // type and input, as text for the report
	entry   string
	want    string // "ok": the repair makes it work; "err": an error is the repaired behaviour; "" : either
	run     func() error
}

var c16RegCases = []c16RegCase{
	{"P02", "struct{ P **struct{ A int } }, P_A=1", "env.Source.Value", "err", regEnv[c16RegP02a](map[string]string{"P_A": "1"}, nil)},
	{"P02", "struct{ P **struct{ X struct{ A *int } } }, P_X_A=7", "env.Source.Value", "ok", regEnv[c16RegP02b](map[string]string{"P_X_A": "7"}, wantInt([]string{"P", "X", "A"}, 7))},
	{"P02", "struct{ P **struct{ A int } }, -p-a=1", "flag.Set.Value", "err", regFlag[c16RegP02a]([]string{"-p-a=1"}, false)},
	{"P02", "struct{ P **struct{ A int } }, --p-a=1", "pflag.Set.Value", "err", regFlag[c16RegP02a]([]string{"--p-a=1"}, true)},
	{"P03", "type PInP *InP; struct{ F *PInP }, F_A=5", "env.Source.Value", "ok", regEnv[c16RegP03](map[string]string{"F_A": "5"}, wantInt([]string{"F", "A"}, 5))},
	{"P03", "type PInP *InP; struct{ F *PInP }, -f-a=5", "flag.Set.Value", "ok", regFlag[c16RegP03]([]string{"-f-a=5"}, false)},
	{"P03", "type PInP *InP; struct{ F *PInP }, --f-a=5", "pflag.Set.Value", "ok", regFlag[c16RegP03]([]string{"--f-a=5"}, true)},
	{"P04", "struct{ P **int }, -p=1", "flag.Set.Value", "", regFlag[c16RegP04a]([]string{"-p=1"}, false)},
	{"P04", "struct{ P **NBool }, -p=true", "flag.Set.Value", "", regFlag[c16RegP04b]([]string{"-p=true"}, false)},
	{"P04", "struct{ P **NBool }, --p=true", "pflag.Set.Value", "ok", regFlag[c16RegP04b]([]string{"--p=true"}, true)},
	{"P04", "struct{ P ***bool }, --p=true", "pflag.Set.Value", "", regFlag[c16RegP04c]([]string{"--p=true"}, true)},
	{"P04", "struct{ P ***bool }, -p=true", "flag.Set.Value", "", regFlag[c16RegP04c]([]string{"-p=true"}, false)},
	{"P05", "struct{ A int `dials:\"_\"` }, A=1", "env.Source.Value", "err", regEnv[c16RegP05a](map[string]string{"A": "1"}, nil)},
	{"P05", "struct{ A int `dialsenv:\"\"` }, A=1", "env.Source.Value", "err", regEnv[c16RegP05b](map[string]string{"A": "1"}, nil)},
	{"P06", "struct{ A int `dials:\"-x\"` }, no arguments", "flag.NewSetWithArgs", "err", regFlag[c16RegP06a](nil, false)},
	{"P06", "struct{ A int `dialsflag:\"a=b\"` }, no arguments", "flag.NewSetWithArgs", "err", regFlag[c16RegP06b](nil, false)},
	{"P07", "struct{ A int `dialspflagshort:\"ab\"` }, no arguments", "pflag.NewSetWithArgs", "err", regFlag[c16RegP07](nil, true)},
	{"P15", "struct{ A, B int `dialspflagshort:\"v\"` }, no arguments", "pflag.NewSetWithArgs", "err", regFlag[c16RegP15a](nil, true)},
	{"P15", "struct{ Log struct{ Level int `dialspflagshort:\"l\"` } `dialsalias:\"logging\"` }, -l 3", "pflag.NewSetWithArgs", "err", regFlag[c16RegP15b]([]string{"-l", "3"}, true)},
	{"P16", "struct{ Name string; Items []struct{ A int; hidden int; C string } }, JSON document with two elements", "decoder/json", "ok", regDecode[c16RegP16](&jsondec.Decoder{}, `{"Name":"x","Items":[{"A":1,"C":"c"},{"A":2}]}`)},
	{"P16", "the same type, YAML document with one element", "decoder/yaml", "ok", regDecode[c16RegP16](&yaml.Decoder{}, "name: x\nitems:\n- a: 1\n  c: c\n")},
	{"P18", "struct{ Addr string; C16Inner } with C16Inner = struct{ NInt8 } (embedded struct embedding a named scalar), ADDR=x", "env.Source.Value", "err", regEnv[C16EmbEmb](map[string]string{"ADDR": "x"}, nil)},
	{"P18", "the same type, no arguments", "flag.NewSetWithArgs", "err", regFlag[C16EmbEmb](nil, false)},
	{"P18", "the same type, no arguments", "pflag.NewSetWithArgs", "err", regFlag[C16EmbEmb](nil, true)},
	{"P13", "struct{ Sub struct{ NInt8; NStr } } (two embedded named scalars in a nested struct), no arguments", "flag.NewSetWithArgs", "err", regFlag[c16RegP13](nil, false)},
	{"P08", "struct{ NInt; B int } (embedded named scalar), yaml FlattenAnonymous, document `b: 1`", "decoder/yaml-flatten", "ok", regDecode[c16RegP08a](&yaml.Decoder{FlattenAnonymous: true}, "b: 1\n")},
	{"P08", "struct{ time.Time }, chain text-unmarshaler + anonymous-flatten + string-cast, nothing filled", "transform.ReverseTranslate", "", func() error {
		_, dt := regType[c16RegP08b]()
		tf := transform.NewTransformer(dt.Type(), &transform.TextUnmarshalerMangler{}, transform.AnonymousFlattenMangler{}, &transform.StringCastingMangler{})
		v, err := tf.Translate()
		if err != nil {
			return err
		}
		_, err = tf.ReverseTranslate(v)
		return err
	}},
	{"P10", "struct{ InV `dialsalias:\"old\"`; X int }, OLD_A=3", "env.Source.Value", "ok", regEnv[c16RegP10](map[string]string{"OLD_A": "3"}, wantInt([]string{"InV", "A"}, 3))},
	{"P10", "struct{ InV `dialsalias:\"old\"`; X int }, no arguments", "flag.NewSetWithArgs", "ok", regFlag[c16RegP10](nil, false)},
	{"P11", "type PNStr *NStr; struct{ F PNStr }, F=x", "env.Source.Value", "ok", regEnv[c16RegP11](map[string]string{"F": "x"}, func(v reflect.Value) error {
		l := regLeaf(v, "F")
		if !l.IsValid() || l.Kind() != reflect.String || l.String() != "x" {
			return fmt.Errorf("F is not \"x\"")
		}
		return nil
	})},
	{"P09", "struct{ L NInt8 }, TOML document `L = \"x\"`", "decoder/toml", "err", regDecode[c16RegP09a](&toml.Decoder{}, "L = \"x\"\n")},
	{"P09", "struct{ M map[int]bool }, TOML document `[M]\\n91 = false`", "decoder/toml", "", regDecode[c16RegP09b](&toml.Decoder{}, "[M]\n91 = false\n")},
	{"P14", "struct{ A string }, CUE document {\"A\": \"x\"*9223372036854775805}", "decoder/cue", "err", regDecode[c16RegP14](&cue.Decoder{}, `{"A": "x"*9223372036854775805}`)},
}

func (w *c16Worker) regressions() {
	for _, rc := range c16RegCases {
		cl, det := guard(rc.run)
		entry := "regression/" + rc.finding + "/" + rc.entry
		cs := map[string]any{"finding": rc.finding, "input": rc.what}
		w.report(entry, cl, det, nil, cs)
		if (cl == "ok" || cl == "err") && rc.want != "" && cl != rc.want {
			w.add(Finding{Kind: "violation", What: fmt.Sprintf("regression of the repair of %s: %s on %s: %s (%s), expected %s", rc.finding, rc.entry, rc.what, cl, det, rc.want),
				Case: cs, Expected: rc.want, Observed: cl})
		}
		w.caseDone("regression "+rc.what+rc.entry, true, cs)
	}
}

// ---------- probe for the listed finding P17 (runs alone in a child process: the overflow is fatal) ----------

type c16P17Node struct {
	Name string
	Kids []c16P17Node
}

type c16P17Cfg struct {
	Root c16P17Node
}

func c16ProbeP17(args []string) {
	debug.SetMaxStack(64 << 20)
	_, err := dials.Config(context.Background(), &c16P17Cfg{}, &static.StringSource{Data: `{"Root":{"Name":"x","Kids":[{"Name":"y"}]}}`, Decoder: &jsondec.Decoder{}})
	fmt.Println("PROBE-SURVIVED", err)
}

func init() { execOneHandlers["c16probe"] = c16ProbeP17 }

// c16RunProbes: each listed finding that can only be shown by a process that dies
func c16RunProbes(c *Ctx, self string) {
	if !isKnown("C16", "P17-self-containing-slice-type") {
		return
	}
	cmd := exec.Command(self, "exec-one", "c16probe", "P17")
	cmd.Env = append(os.Environ(), "GOMEMLIMIT=2GiB")
	outb, _ := cmd.CombinedOutput()
	if !strings.Contains(string(outb), "PROBE-SURVIVED") {
		c.Res.Add(Finding{Kind: "known", KnownID: "P17-self-containing-slice-type", What: "a config type that contains itself through a slice (type Node struct{ Kids []Node }) makes the Transformer recurse on the TYPE without end: fatal stack overflow in a child process (JSON decoder; every source with a recursing mangler)",
			Case: map[string]any{"probe": "struct{ Root Node }, Node = struct{ Name string; Kids []Node }, document {\"Root\":{\"Name\":\"x\",\"Kids\":[{\"Name\":\"y\"}]}}"}})
	}
}
