package main

// C03, references held INSIDE map keys (a struct key with pointer fields, an array-of-pointers key): oracle only (the
// heap model's maps have string keys).  The copy must be deeply equal, and a node referenced from a key is the same
// fresh node that the slice of nodes holds - so a lookup with a key built from the copy's own nodes finds its entry.

import (
	"context"
	"fmt"
	"reflect"

	"github.com/vimeo/dials"
)

type KN struct {
	Name string
	Next *KN
}

type KEdge struct{ From, To *KN }

type KCfg struct {
	Nodes   []*KN
	Weights map[KEdge]int
	Pairs   map[[2]*KN]string
	ByVal   map[struct {
		N *KN
		L string
	}]*KN
}

func c03KeyRefs(r *RNG, idx int) c03Line {
	line := c03Line{Idx: idx, Dist: []string{"via/map-key-references-oracle"}}
	n := 1 + r.Intn(5)
	in := &KCfg{Weights: map[KEdge]int{}, Pairs: map[[2]*KN]string{}, ByVal: map[struct {
		N *KN
		L string
	}]*KN{}}
	for i := 0; i < n; i++ {
		in.Nodes = append(in.Nodes, &KN{Name: fmt.Sprintf("k%d", i)})
	}
	pick := func() *KN { return in.Nodes[r.Intn(n)] }
	for _, nd := range in.Nodes {
		if r.Chance(50) {
			nd.Next = pick()
		}
	}
	for j := r.Intn(5); j > 0; j-- {
		in.Weights[KEdge{pick(), pick()}] = 1 + r.Intn(100)
	}
	for j := r.Intn(4); j > 0; j-- {
		a, b := pick(), pick()
		in.Pairs[[2]*KN{a, b}] = a.Name + b.Name
	}
	for j := r.Intn(3); j > 0; j-- {
		a := pick()
		in.ByVal[struct {
			N *KN
			L string
		}{a, "l" + a.Name}] = pick()
	}
	viaConfig := r.Chance(40)
	cs := map[string]any{"via": map[bool]string{true: "Config+View", false: "VerifDeepCopy"}[viaConfig], "nodes": n, "weights": len(in.Weights), "pairs": len(in.Pairs), "byval": len(in.ByVal)}
	line.Sample = cs
	line.Canon = fmt.Sprintf("K|%d|%v|%v|%v|%v", n, viaConfig, len(in.Weights), len(in.Pairs), len(in.ByVal))
	for _, nd := range in.Nodes {
		line.Canon += "|" + nd.Name
		if nd.Next != nil {
			line.Canon += ">" + nd.Next.Name
		}
	}
	line.Nontrivial = len(in.Weights)+len(in.Pairs) > 0 && n >= 2
	var out *KCfg
	var cerr error
	pn := catch(func() {
		if viaConfig {
			d, err := dials.Config(context.Background(), in)
			if err != nil {
				cerr = err
				return
			}
			out = d.View()
		} else {
			out = dials.VerifDeepCopy(reflect.ValueOf(in)).Interface().(*KCfg)
		}
	})
	bad := func(what string, exp, obs any) {
		line.Findings = append(line.Findings, Finding{Kind: "violation", What: what, Case: cs, Expected: exp, Observed: obs})
	}
	if pn != "" || cerr != nil {
		bad("copy failed: "+pn+fmt.Sprint(cerr), nil, nil)
		return line
	}
	if len(out.Nodes) != n || len(out.Weights) != len(in.Weights) || len(out.Pairs) != len(in.Pairs) || len(out.ByVal) != len(in.ByVal) {
		bad("the copy has a different number of nodes / entries", nil, nil)
		return line
	}
	index := map[*KN]int{}
	for i, nd := range in.Nodes {
		index[nd] = i
	}
	outIndex := map[*KN]int{}
	for i, nd := range out.Nodes {
		if _, isInput := index[nd]; isInput {
			bad(fmt.Sprintf("Nodes[%d] of the copy is the input's node: not fresh", i), nil, nil)
			return line
		}
		outIndex[nd] = i
	}
	same := func(o, i *KN) bool { // o (in the copy) corresponds to i (in the input)
		if o == nil || i == nil {
			return o == nil && i == nil
		}
		oi, ok := outIndex[o]
		return ok && oi == index[i]
	}
	for e, w := range in.Weights {
		k := KEdge{out.Nodes[index[e.From]], out.Nodes[index[e.To]]}
		if got, ok := out.Weights[k]; !ok || got != w {
			bad(fmt.Sprintf("Weights[%s->%s]: a key built from the copy's own nodes finds %v (present: %v), want %d: the references inside the key are not the copied nodes", e.From.Name, e.To.Name, got, ok, w), nil, nil)
			return line
		}
	}
	for p, s := range in.Pairs {
		k := [2]*KN{out.Nodes[index[p[0]]], out.Nodes[index[p[1]]]}
		if got, ok := out.Pairs[k]; !ok || got != s {
			bad(fmt.Sprintf("Pairs[{%s, %s}]: a key built from the copy's own nodes finds %q (present: %v), want %q", p[0].Name, p[1].Name, got, ok, s), nil, nil)
			return line
		}
	}
	for k, v := range in.ByVal {
		ok2 := struct {
			N *KN
			L string
		}{out.Nodes[index[k.N]], k.L}
		if got, ok := out.ByVal[ok2]; !ok || !same(got, v) {
			bad(fmt.Sprintf("ByVal[{%s, %s}]: key or value does not refer to the copied nodes", k.N.Name, k.L), nil, nil)
			return line
		}
	}
	for i, nd := range in.Nodes {
		if !same(out.Nodes[i].Next, nd.Next) || out.Nodes[i].Name != nd.Name {
			bad(fmt.Sprintf("node %d: Next / Name differ from the input", i), nil, nil)
			return line
		}
	}
	return line
}
