package main

// Controlled scheduler for the runtime properties (C04-C09, C18, C20).
//
// Every library goroutine parks at each verifPoint (and inside the harness-owned Verify method
// and callbacks); client goroutines run one API call at a time on request.  The scheduler
// releases one actor, waits until every goroutine of the process is parked or blocked again
// (runtime.Stack snapshot: no goroutine running or runnable), renders the implementation's
// observable state and asks the Lean model to make the same step.

import (
	"bytes"
	"context"
	"errors"
	"fmt"
	"os"
	"reflect"
	"runtime"
	"sort"
	"strconv"
	"strings"
	"sync"
	"sync/atomic"
	"time"

	"github.com/vimeo/dials"
)

// ---------- config type used by the runtime schedules ----------

type rtStringer interface{ RTString() string }

// RC: one field per source; I is an interface field used to make stacking fail.
type RC struct {
	S0, S1, S2 int
	I          rtStringer
	// N mirrors the slots inside a pointer-to-struct section with a non-nil default: overlay merges
	// such a section in place, so it is where a version that shares memory with another one shows
	N *RCN
	// a second mirror under an exported name whose first letter is not ASCII (three bytes of UTF-8): exported like N
	Ṅ *RCN
}

// RCN: every source writes its value v to S<i> and to N.M<i>
type RCN struct{ M0, M1, M2 int }

type rtNotStringer struct{ X int }

var rtCur *rtRun // the schedule being executed (one at a time)

func (c *RC) slots(n int) []int { return []int{c.S0, c.S1, c.S2}[:n] }

// Verify: a slot value v is invalid when v%4 == 1.
func (c *RC) Verify() error {
	r := rtCur
	ok := c.S0%4 != 1 && c.S1%4 != 1 && c.S2%4 != 1
	if r != nil {
		r.logf("verify %s %v goid=%d", r.cfgStr(c), ok, curGoid())
		r.verifyCalls = append(r.verifyCalls, rtVerify{cfg: r.cfgStr(c), ok: ok, step: r.stepNo, beforeEnableCall: !r.enableCalled})
		if a := r.actorOfGoroutine(); a != nil {
			a.park("verify", r.cfgStr(c))
		}
	}
	if !ok {
		return errInvalid
	}
	return nil
}

var errInvalid = errors.New("invalid config (a slot value is 1 mod 4)")

type rtVerify struct {
	cfg              string
	ok               bool
	step             int
	beforeEnableCall bool
}

// ---------- actors ----------

type actor struct {
	name     string
	goid     int64
	mu       sync.Mutex
	parked   bool
	point    string
	data     string
	finished bool
	release  chan struct{}
	run      *rtRun
}

func (a *actor) park(point, data string) {
	if a.run != nil && a.run.free.Load() {
		return
	}
	a.mu.Lock()
	a.parked, a.point, a.data = true, point, data
	a.mu.Unlock()
	<-a.release
}

func (a *actor) status() (parked bool, point, data string, finished bool) {
	a.mu.Lock()
	defer a.mu.Unlock()
	return a.parked, a.point, a.data, a.finished
}

func (a *actor) releaseNow() {
	a.mu.Lock()
	a.parked = false
	a.mu.Unlock()
	a.release <- struct{}{}
}

func curGoid() int64 {
	var buf [64]byte
	n := runtime.Stack(buf[:], false)
	// "goroutine 123 ["
	f := bytes.Fields(buf[:n])
	if len(f) < 2 {
		return -1
	}
	id, _ := strconv.ParseInt(string(f[1]), 10, 64)
	return id
}

// ---------- fake watching source ----------

type rtSource struct {
	idx  int
	run  *rtRun
	init int
	wa   dials.WatchArgs
	typ  *dials.Type
}

func (s *rtSource) valueFor(t *dials.Type, v int) reflect.Value {
	if v%4 == 2 {
		// unstackable: the interface field receives a pointer to a type that does not implement it
		bad := reflect.New(reflect.StructOf([]reflect.StructField{
			{Name: "S0", Type: reflect.TypeOf((*int)(nil))},
			{Name: "S1", Type: reflect.TypeOf((*int)(nil))},
			{Name: "S2", Type: reflect.TypeOf((*int)(nil))},
			{Name: "I", Type: reflect.TypeOf((*rtNotStringer)(nil))},
		}))
		bad.Elem().Field(3).Set(reflect.ValueOf(&rtNotStringer{X: v}))
		vv := v
		bad.Elem().Field(s.idx).Set(reflect.ValueOf(&vv))
		return bad
	}
	out := reflect.New(t.Type())
	vv := v
	out.Elem().Field(s.idx).Set(reflect.ValueOf(&vv))
	for _, fi := range []int{4, 5} { // the mirrored sections
		if fi >= out.Elem().NumField() {
			continue
		}
		if nf := out.Elem().Field(fi); nf.Kind() == reflect.Ptr {
			sec := reflect.New(nf.Type().Elem())
			mv := v
			sec.Elem().Field(s.idx).Set(reflect.ValueOf(&mv))
			nf.Set(sec)
		}
	}
	return out
}

func (s *rtSource) Value(ctx context.Context, t *dials.Type) (reflect.Value, error) {
	return s.valueFor(t, s.init), nil
}

func (s *rtSource) Watch(ctx context.Context, t *dials.Type, wa dials.WatchArgs) error {
	s.wa = wa
	s.typ = t
	return nil
}

// ---------- clients ----------

type rtOp struct {
	Kind     string // view events report reportErr done register unregister enable
	Src, V   int
	Blocking bool
	H        int
	Ser      uint64
	CfgIdx   int // register: index into the client's seen versions, -1 = no config (zero CfgSerial)
	Ctx      int
	Begin    int // the step in which the operation was begun
}

func (o rtOp) label(r *rtRun, c *rtClient) string {
	switch o.Kind {
	case "report":
		return fmt.Sprintf("report %d %d %s", o.Src, o.V, b01(o.Blocking))
	case "reportErr":
		return fmt.Sprintf("reportErr %d %d", o.Src, o.V)
	case "done":
		return fmt.Sprintf("done %d", o.Src)
	case "register":
		cfg := "-"
		if o.CfgIdx >= 0 {
			cfg = r.cfgStr(c.seen[o.CfgIdx].cfg)
		}
		return fmt.Sprintf("register %d %d %s", o.H, o.Ser, cfg)
	case "unregister":
		return fmt.Sprintf("unregister %d", o.H)
	}
	return o.Kind
}

func b01(b bool) string {
	if b {
		return "1"
	}
	return "0"
}

type seenVersion struct {
	cfg *RC
	tok dials.CfgSerial[RC]
	ser uint64
}

type rtClient struct {
	id      int
	status  string // idle ready running returned
	op      rtOp
	result  string
	cmd     chan rtOp
	seen    []seenVersion
	unreg   map[int]dials.UnregisterCBFunc
	mu      sync.Mutex
	lastRet string
	retAt   int
}

type rtDelivery struct {
	h          int // -1 = OnNewConfig, -2 = OnWatchedError
	old, new   string
	oldC, newC *RC
	err        string
	step       int
}

type rtRun struct {
	traceFile                 *os.File     // labels executed so far, for crash attribution
	mirrorBad                 []string     // configs whose nested section disagrees with their slots
	byDone                    bool         // the schedule ended by every source calling Done, not by cancelling
	monBlockedAt              string       // the monitor was found blocked somewhere else than in its top-level select
	doneOK                    map[int]bool // sources whose Done call returned nil
	monAfterAllDone           string       // the monitor came back to its select after every source's Done had been accepted
	c                         *Ctx
	nsrc                      int
	params                    dials.Params[RC]
	skipInit, delay, suppress bool
	d                         *dials.Dials[RC]
	sources                   []*rtSource
	actors                    map[string]*actor
	amu                       sync.Mutex
	clients                   []*rtClient
	ctxs                      map[int]context.Context
	cancels                   map[int]context.CancelFunc
	failedCfgLeak             string // a library goroutine alive after Config returned an error (Config context not yet cancelled)
	rootCancel                context.CancelFunc
	trace                     []string // labels executed (model protocol)
	log                       []string // free-form event log
	lmu                       sync.Mutex
	stepNo                    int
	// oracle material
	verifyCalls    []rtVerify
	enableCalled   bool
	deliveries     []rtDelivery
	installs       []rtInstall
	unregDone      map[int]int // handle -> step at which unregister returned true
	regSerial      map[int]uint64
	regHasCfg      map[int]bool
	enableOKStep   int
	panics         []string
	stuckHandle    int
	initCfg        string
	initPtr        *RC
	hang           string
	monSkip        bool
	handleIDs      map[any]int
	regOrder       []int
	seenCfgs       []rtObserved
	inCallback     int
	mismatch       string
	configErr      string
	nextCtx        int
	nextHandle     int
	rootCancelled  bool
	kindCount      map[string]int
	opCount        map[string]int
	returns        []rtReturn
	leak           string
	shutdownOK     bool
	cfg            rtConfig
	cbGot          []rtCbGot
	updates        []*rtUpdate
	curUpdate      *rtUpdate
	submits        []rtSubmit
	maxQueue       int
	free           atomic.Bool
	srcErrs        []rtSrcErrGot
	rootCancelStep int
	lateResults    []string
}

type rtSrcErrGot struct {
	code int
	skip bool
	step int
}

type rtCbGot struct {
	kind   string // new werr reg unreg
	h      int
	serial uint64
	supp   bool
	hasCfg bool
	step   int
}

type rtUpdate struct {
	src, v   int
	blocking bool
	outcome  string // installed stackErr verifyErr
	serial   uint64
	step     int
	skip     bool
}

type rtSubmit struct {
	kind     string
	qlen     int
	skip     bool
	step     int // arrival at the hook (before the send)
	doneStep int // the step in which the monitor left the hook, i.e. performed the send (0: never)
}

type rtInstall struct {
	serial uint64
	cfg    string
	ptr    *RC
	step   int
	skip   bool
}

func (r *rtRun) logf(f string, a ...any) {
	r.lmu.Lock()
	r.log = append(r.log, fmt.Sprintf("%d: ", r.stepNo)+fmt.Sprintf(f, a...))
	r.lmu.Unlock()
}

func (r *rtRun) cfgStr(c *RC) string {
	if c == nil {
		return "-"
	}
	if c.N == nil || c.N.M0 != c.S0 || c.N.M1 != c.S1 || c.N.M2 != c.S2 || c.Ṅ == nil || *c.Ṅ != *c.N {
		// no stack of source values produces this: each source writes the same value to both places
		r.mirrorBad = append(r.mirrorBad, fmt.Sprintf("step %d: slots %d.%d.%d but nested sections N=%+v Ṅ=%+v", r.stepNo, c.S0, c.S1, c.S2, c.N, c.Ṅ))
	}
	s := c.slots(r.nsrc)
	p := make([]string, len(s))
	for i, v := range s {
		p[i] = strconv.Itoa(v)
	}
	return strings.Join(p, ".")
}

func (r *rtRun) actor(name string) *actor {
	r.amu.Lock()
	defer r.amu.Unlock()
	a, ok := r.actors[name]
	if !ok {
		a = &actor{name: name, release: make(chan struct{}), run: r, goid: curGoid()}
		r.actors[name] = a
	}
	return a
}

func (r *rtRun) actorOfGoroutine() *actor {
	g := curGoid()
	r.amu.Lock()
	defer r.amu.Unlock()
	for _, a := range r.actors {
		if a.goid == g {
			return a
		}
	}
	return nil
}

// hook is installed with dials.SetVerifHook.
func (r *rtRun) hook(point string, args ...any) {
	dot := strings.IndexByte(point, '.')
	an, pt := point[:dot], point[dot+1:]
	a := r.actor(an)
	data := ""
	switch point {
	case "mon.top":
		data = b01(args[0].(bool))
	case "mon.got":
		kind := args[0].(string)
		switch kind {
		case "value":
			src := args[1].(*rtSource)
			val := args[2].(reflect.Value)
			data = fmt.Sprintf("value:%d:%d:%s", src.idx, r.valueOf(src, val), b01(args[3].(bool)))
			r.curUpdate = &rtUpdate{src: src.idx, v: r.valueOf(src, val), blocking: args[3].(bool), step: r.stepNo, skip: r.monSkip}
			r.updates = append(r.updates, r.curUpdate)
		case "error":
			e := args[2].(error)
			var se *rtSrcErr
			errors.As(e, &se)
			data = fmt.Sprintf("error:%d", se.code)
			r.srcErrs = append(r.srcErrs, rtSrcErrGot{code: se.code, skip: r.monSkip, step: r.stepNo})
		case "done":
			data = fmt.Sprintf("done:%d", args[1].(*rtSource).idx)
		case "enable":
			data = "enable"
		}
	case "mon.submit":
		kind := args[0].(string)
		data = kind
		r.submits = append(r.submits, rtSubmit{kind: kind, qlen: args[1].(int), skip: r.monSkip, step: r.stepNo})
		if args[1].(int) > r.maxQueue {
			r.maxQueue = args[1].(int)
		}
		if (kind == "stackErr" || kind == "verifyErr") && r.curUpdate != nil {
			r.curUpdate.outcome = kind
		}
	case "mon.reply", "mon.enableReply":
		data = args[0].(string)
	case "mon.store":
		cfg := args[1].(*RC)
		data = fmt.Sprintf("%d:%s", args[0].(uint64), r.cfgStr(cfg))
		r.installs = append(r.installs, rtInstall{serial: args[0].(uint64), cfg: r.cfgStr(cfg), ptr: cfg, step: r.stepNo, skip: r.monSkip})
		if r.curUpdate != nil {
			r.curUpdate.outcome, r.curUpdate.serial = "installed", args[0].(uint64)
		}
	case "mon.events":
		data = ""
	case "cb.got":
		ev := dials.VerifEventInfo[RC](args[0])
		switch ev.Kind {
		case "newConfig":
			data = fmt.Sprintf("new:%s:%d:%s:%s", r.cfgStr(ev.Old), ev.Serial, r.cfgStr(ev.New), b01(ev.Suppressed))
			r.cbGot = append(r.cbGot, rtCbGot{kind: "new", serial: ev.Serial, supp: ev.Suppressed, step: r.stepNo})
		case "watchErr":
			data = fmt.Sprintf("werr:%s:%s:%s", r.errClass(ev.Err), r.cfgStr(ev.Old), r.cfgStr(ev.New))
			r.cbGot = append(r.cbGot, rtCbGot{kind: "werr", step: r.stepNo})
		case "register":
			h := r.handleID(ev.Handle)
			cfg := "-"
			if ev.RegHasCfg {
				cfg = r.cfgStr(ev.Old)
			}
			data = fmt.Sprintf("reg:%d:%d:%s", h, ev.RegSerial, cfg)
			r.cbGot = append(r.cbGot, rtCbGot{kind: "reg", h: h, serial: ev.RegSerial, hasCfg: ev.RegHasCfg, step: r.stepNo})
		case "unregister":
			data = fmt.Sprintf("unreg:%d", r.handleID(ev.Handle))
			r.cbGot = append(r.cbGot, rtCbGot{kind: "unreg", h: r.handleID(ev.Handle), step: r.stepNo})
		default:
			data = "unknown"
		}
	}
	if an == "mon" && len(r.submits) > 0 && r.submits[len(r.submits)-1].doneStep == 0 && point != "mon.submit" {
		r.submits[len(r.submits)-1].doneStep = r.stepNo
	}
	if point == "mon.top" {
		r.monSkip = args[0].(bool)
	}
	r.logf("arrive %s %s", point, data)
	if pt == "exit" {
		// deferred hook: after release the goroutine ends
		a.park(pt, data)
		a.mu.Lock()
		a.finished = true
		a.mu.Unlock()
		return
	}
	a.park(pt, data)
}

func (r *rtRun) valueOf(src *rtSource, val reflect.Value) int {
	v := val
	if v.Kind() == reflect.Ptr {
		v = v.Elem()
	}
	f := v.Field(src.idx)
	if f.IsNil() {
		return 0
	}
	return int(f.Elem().Int())
}

type rtSrcErr struct{ code int }

func (e *rtSrcErr) Error() string { return fmt.Sprintf("source error %d", e.code) }

func (r *rtRun) errClass(e error) string {
	var se *rtSrcErr
	switch {
	case e == nil:
		return "nil"
	case errors.As(e, &se):
		return fmt.Sprintf("src%d", se.code)
	case errors.Is(e, errInvalid):
		return "verify"
	default:
		return "stack"
	}
}

// handle identities: the harness learns the library's handle pointer for a registration when the
// callback goroutine dequeues it; registrations are dequeued in the order they were enqueued.
func (r *rtRun) handleID(h any) int {
	r.amu.Lock()
	defer r.amu.Unlock()
	if id, ok := r.handleIDs[h]; ok {
		return id
	}
	if len(r.regOrder) == 0 {
		return -99
	}
	id := r.regOrder[0]
	r.regOrder = r.regOrder[1:]
	r.handleIDs[h] = id
	return id
}

// ---------- quiescence ----------

var goHdr = []byte("goroutine ")

var blockedStates = [][]byte{[]byte("chan receive"), []byte("chan send"), []byte("select"), []byte("IO wait"), []byte("sync.Cond.Wait"),
	[]byte("sync.WaitGroup.Wait"), []byte("finalizer wait"), []byte("GC worker (idle)"), []byte("GC sweep wait"), []byte("GC scavenge wait"),
	[]byte("force gc (idle)"), []byte("timer goroutine (idle)"), []byte("cleanup wait")}

// blockedState: the goroutine header state means "parked until another goroutine acts".  Anything
// else (running, runnable, preempted, syscall, GC assist, mutex wait, sleep, ...) counts as active.
func blockedState(st []byte) bool {
	for _, b := range blockedStates {
		if bytes.HasPrefix(st, b) {
			return true
		}
	}
	return false
}

// quiesce waits until no goroutine other than the caller is running or runnable.
func quiesce(maxWait time.Duration) (bool, string) {
	buf := make([]byte, 1<<18)
	deadline := time.Now().Add(maxWait)
	me := curGoid()
	for spins := 0; ; spins++ {
		runtime.Gosched()
		n := runtime.Stack(buf, true)
		for n == len(buf) {
			buf = make([]byte, 2*len(buf))
			n = runtime.Stack(buf, true)
		}
		active := false
		for _, blk := range bytes.Split(buf[:n], []byte("\n\n")) {
			if !bytes.HasPrefix(blk, goHdr) {
				continue
			}
			nl := bytes.IndexByte(blk, '\n')
			if nl < 0 {
				nl = len(blk)
			}
			hdr := blk[:nl] // goroutine 12 [chan receive]:
			lb := bytes.IndexByte(hdr, '[')
			if lb < 0 {
				continue
			}
			id, _ := strconv.ParseInt(string(bytes.TrimSpace(hdr[len(goHdr):lb])), 10, 64)
			if id == me {
				continue
			}
			st := hdr[lb+1:]
			if !blockedState(st) {
				active = true
				break
			}
		}
		if !active {
			return true, ""
		}
		if time.Now().After(deadline) {
			return false, string(buf[:n])
		}
		if spins > 50 {
			time.Sleep(20 * time.Microsecond)
		}
	}
}

// ---------- observation ----------

func (r *rtRun) actorStr(name string) string {
	r.amu.Lock()
	a := r.actors[name]
	r.amu.Unlock()
	if a == nil {
		return "blocked"
	}
	parked, point, data, fin := a.status()
	switch {
	case fin && !parked:
		return "finished"
	case !parked:
		return "blocked"
	case data == "":
		return point
	case point == "calling":
		return "call:" + data
	default:
		return point + ":" + data
	}
}

func (r *rtRun) obs() string {
	cfg, tok := r.d.ViewVersion()
	ev := "0"
	if len(r.d.Events()) > 0 {
		ev = "1"
	}
	var b strings.Builder
	qcb, qctl := dials.VerifQueueLens(r.d)
	fmt.Fprintf(&b, "mon=%s cb=%s view=%d:%s ev=%s q=%d/%d", r.actorStr("mon"), r.actorStr("cb"), dials.VerifCfgSerial(tok), r.cfgStr(cfg), ev, qcb, qctl)
	ids := make([]int, 0, len(r.clients))
	for _, c := range r.clients {
		ids = append(ids, c.id)
	}
	sort.Ints(ids)
	for _, id := range ids {
		c := r.clients[id-1]
		c.mu.Lock()
		st, res := c.status, c.result
		c.mu.Unlock()
		switch st {
		case "idle":
		case "ready":
			fmt.Fprintf(&b, " C%d=ready", id)
		case "running":
			fmt.Fprintf(&b, " C%d=blocked", id)
		case "returned":
			fmt.Fprintf(&b, " C%d=ret:%s", id, res)
		}
	}
	return b.String()
}
