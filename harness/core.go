// Command vh is the correspondence harness: it runs the real vimeo/dials packages (built from
// /repo's working tree with -tags verif) and the compiled Lean model driver on the same
// generated cases, diffs canonicalised outputs and evaluates a direct oracle per property.
package main

import (
	"bufio"
	"crypto/sha256"
	"encoding/hex"
	"encoding/json"
	"flag"
	"fmt"
	"io"
	"os"
	"os/exec"
	"path/filepath"
	"sort"
	"strings"
	"sync"
	"time"
)

// ---------- PRNG: one splitmix64 state per run ----------

type RNG struct{ s uint64 }

// NewRNG derives the stream's start from the seed through the splitmix finalizer, so that
// consecutive seeds give unrelated streams (seeding with multiples of the increment would only shift one stream).
func NewRNG(seed uint64) *RNG {
	z := (seed + 0x632BE59BD9B4E019) * 0xD6E8FEB86659FD93
	z = (z ^ (z >> 32)) * 0xD6E8FEB86659FD93
	z ^= z >> 32
	return &RNG{s: z}
}

func (r *RNG) U64() uint64 {
	r.s += 0x9E3779B97F4A7C15
	z := r.s
	z = (z ^ (z >> 30)) * 0xBF58476D1CE4E5B9
	z = (z ^ (z >> 27)) * 0x94D049BB133111EB
	return z ^ (z >> 31)
}
func (r *RNG) Intn(n int) int {
	if n <= 0 {
		return 0
	}
	return int(r.U64() % uint64(n))
}
func (r *RNG) Bool() bool        { return r.U64()&1 == 1 }
func (r *RNG) Chance(p int) bool { return r.Intn(100) < p } // p percent
func (r *RNG) Fork() *RNG        { return NewRNG(r.U64()) }

// ---------- driver ----------

type Driver struct {
	cmd *exec.Cmd
	in  io.WriteCloser
	out *bufio.Reader
	mu  sync.Mutex
	n   int
}

func StartDriver(path string) (*Driver, error) {
	cmd := exec.Command(path)
	in, err := cmd.StdinPipe()
	if err != nil {
		return nil, err
	}
	outp, err := cmd.StdoutPipe()
	if err != nil {
		return nil, err
	}
	cmd.Stderr = os.Stderr
	if err := cmd.Start(); err != nil {
		return nil, err
	}
	return &Driver{cmd: cmd, in: in, out: bufio.NewReaderSize(outp, 1<<20)}, nil
}

// Ask sends one request line and returns the reply line (without newline).
func (d *Driver) Ask(line string) string {
	d.mu.Lock()
	defer d.mu.Unlock()
	d.n++
	if _, err := io.WriteString(d.in, line+"\n"); err != nil {
		return "driver-dead"
	}
	rep, err := d.out.ReadString('\n')
	if err != nil {
		return "driver-dead"
	}
	return strings.TrimRight(rep, "\n")
}

func (d *Driver) Close() {
	d.in.Close()
	d.cmd.Wait()
}

// ---------- protocol helpers ----------

func hexEnc(s string) string {
	if s == "" {
		return "-"
	}
	return hex.EncodeToString([]byte(s))
}
func hexDec(s string) (string, bool) {
	if s == "-" {
		return "", true
	}
	b, err := hex.DecodeString(s)
	return string(b), err == nil
}
func hexList(ws []string) string {
	if len(ws) == 0 {
		return "."
	}
	o := make([]string, len(ws))
	for i, w := range ws {
		o[i] = hexEnc(w)
	}
	return strings.Join(o, ",")
}
func unhexList(s string) ([]string, bool) {
	if s == "." {
		return []string{}, true
	}
	parts := strings.Split(s, ",")
	o := make([]string, len(parts))
	for i, p := range parts {
		v, ok := hexDec(p)
		if !ok {
			return nil, false
		}
		o[i] = v
	}
	return o, true
}

func isASCII(s string) bool {
	for i := 0; i < len(s); i++ {
		if s[i] >= 128 {
			return false
		}
	}
	return true
}

// ---------- result record ----------

type Finding struct {
	Kind     string `json:"kind"` // "violation" (oracle failed on the implementation), "disagreement" (model != impl), "known"
	What     string `json:"what"`
	Case     any    `json:"case"`
	Expected any    `json:"expected,omitempty"`
	Observed any    `json:"observed,omitempty"`
	Model    any    `json:"model,omitempty"`
	KnownID  string `json:"known_id,omitempty"`
}

type Result struct {
	Property       string         `json:"property"`
	Tier           string         `json:"tier"`
	Seed           uint64         `json:"seed"`
	Evaluations    int            `json:"evaluations"`
	Distinct       int            `json:"distinct_nontrivial"`
	Rule           string         `json:"rule"`
	Samples        []any          `json:"samples"`
	Dist           map[string]int `json:"distribution"`
	OutOfDomain    int            `json:"out_of_model_domain"`
	ASCIIModel     bool           `json:"-"` // the check's model derives names by ASCII case conversion
	DriverRequests int            `json:"driver_requests"`
	TracesVsImpl   int            `json:"traces_validated_against_impl,omitempty"`
	Findings       []Finding      `json:"findings"`
	KnownSeen      map[string]int `json:"known_findings_seen"`
	WallS          float64        `json:"wall_s"`
	Notes          []string       `json:"notes,omitempty"`

	seen map[[32]byte]struct{}
	mu   sync.Mutex
}

func (r *Result) Count(key string) {
	r.mu.Lock()
	r.Dist[key]++
	r.mu.Unlock()
}

// Case registers one evaluated case; canon is its canonical text, nontrivial the verdict of the
// property's non-triviality rule.
func (r *Result) Case(canon string, nontrivial bool, sample any) {
	r.mu.Lock()
	defer r.mu.Unlock()
	r.Evaluations++
	if nontrivial {
		h := sha256.Sum256([]byte(canon))
		if _, ok := r.seen[h]; !ok {
			r.seen[h] = struct{}{}
			r.Distinct++
			if len(r.Samples) < 5 || (len(r.Samples) < 12 && r.Distinct%997 == 0) {
				r.Samples = append(r.Samples, sample)
			}
		}
	}
}

func (r *Result) Add(f Finding) {
	r.mu.Lock()
	defer r.mu.Unlock()
	if f.Kind == "known" {
		r.KnownSeen[f.KnownID]++
		if r.KnownSeen[f.KnownID] > 1 {
			return // one representative per listed finding
		}
	}
	if f.Kind == "disagreement" && r.ASCIIModel && caseTypeNonASCII(f.Case) {
		// the Lean case-conversion model is over ASCII (Model/CaseConv.lean): a type with a non-ASCII field name is
		// judged by the property's documentation oracle alone
		r.OutOfDomain++
		r.Dist["non-ASCII field name: outside the ASCII case-conversion model, oracle only"]++
		return
	}
	if len(r.Findings) < 200 {
		r.Findings = append(r.Findings, f)
		return
	}
	// the list is full (of disagreements, typically): a violation - the property's own oracle failing - is still kept,
	// it is what turns a broken tie into a concrete failing input
	if f.Kind == "violation" && len(r.Findings) < 230 {
		r.Findings = append(r.Findings, f)
	}
}

func caseTypeNonASCII(cs any) bool {
	m, ok := cs.(map[string]any)
	if !ok {
		return false
	}
	t, _ := m["type"].(string)
	for i := 0; i < len(t); i++ {
		if t[i] >= 0x80 {
			return true
		}
	}
	return false
}

func (r *Result) Bad() int {
	n := 0
	for _, f := range r.Findings {
		if f.Kind != "known" {
			n++
		}
	}
	return n
}

// ---------- known findings ----------

type Known struct {
	ID, Property, What string
}

var knownList []Known

func loadKnown(path string) {
	b, err := os.ReadFile(path)
	if err != nil {
		return
	}
	for _, l := range strings.Split(string(b), "\n") {
		l = strings.TrimSpace(l)
		if !strings.HasPrefix(l, "known:") {
			continue
		}
		// known: property=C19 id=D11-scan-order <what fails>
		fs := strings.Fields(strings.TrimPrefix(l, "known:"))
		k := Known{}
		var rest []string
		for _, f := range fs {
			switch {
			case strings.HasPrefix(f, "property=") && k.Property == "":
				k.Property = strings.TrimPrefix(f, "property=")
			case strings.HasPrefix(f, "id=") && k.ID == "":
				k.ID = strings.TrimPrefix(f, "id=")
			default:
				rest = append(rest, f)
			}
		}
		k.What = strings.Join(rest, " ")
		knownList = append(knownList, k)
	}
}

func isKnown(prop, id string) bool {
	for _, k := range knownList {
		if k.Property == prop && k.ID == id {
			return true
		}
	}
	return false
}

// ---------- main ----------

type Ctx struct {
	Prop    string
	Tier    string
	Seed    uint64
	N       int // case budget multiplier already applied
	Search  bool
	Drv     *Driver
	DrvPath string
	Res     *Result
	RNG     *RNG
	WorkDir string
	Replay  string
}

type checkFn func(c *Ctx)

var checks = map[string]checkFn{}

func register(id string, f checkFn) { checks[id] = f }

func main() {
	prop := flag.String("prop", "", "property id")
	tier := flag.String("tier", "quick", "quick|thorough")
	seed := flag.Uint64("seed", 1, "VERIF_SEED")
	driver := flag.String("driver", "", "path to dialsdriver")
	outp := flag.String("out", "", "result json")
	known := flag.String("known", "/verif/KNOWN_FINDINGS.txt", "known findings file")
	search := flag.Bool("search", false, "witness search: enlarged generated set, oracle only matters")
	work := flag.String("work", "", "scratch dir")
	replay := flag.String("replay", "", "replay file")
	flag.Parse()
	if sub := flag.Arg(0); sub == "exec-one" {
		execOne(flag.Args()[1:])
		return
	}
	f, ok := checks[*prop]
	if !ok {
		fmt.Fprintf(os.Stderr, "unknown property %q\n", *prop)
		os.Exit(2)
	}
	loadKnown(*known)
	res := &Result{Property: *prop, Tier: *tier, Seed: *seed, Dist: map[string]int{}, KnownSeen: map[string]int{},
		seen: map[[32]byte]struct{}{}, Samples: []any{}, Findings: []Finding{}}
	c := &Ctx{Prop: *prop, Tier: *tier, Seed: *seed, Search: *search, Res: res, RNG: NewRNG(*seed), WorkDir: *work, Replay: *replay, DrvPath: *driver}
	if *driver != "" {
		d, err := StartDriver(*driver)
		if err != nil {
			fmt.Fprintln(os.Stderr, "driver:", err)
			os.Exit(2)
		}
		c.Drv = d
		defer d.Close()
	}
	t0 := time.Now()
	f(c)
	res.WallS = time.Since(t0).Seconds()
	if c.Drv != nil {
		res.DriverRequests = c.Drv.n
	}
	b, _ := json.MarshalIndent(res, "", " ")
	if *outp != "" {
		os.MkdirAll(filepath.Dir(*outp), 0o755)
		os.WriteFile(*outp, b, 0o644)
	} else {
		os.Stdout.Write(b)
	}
	keys := make([]string, 0, len(res.Dist))
	for k := range res.Dist {
		keys = append(keys, k)
	}
	sort.Strings(keys)
	fmt.Fprintf(os.Stderr, "vh %s: %d evaluations, %d distinct non-trivial, %d findings (%d not known), %.1fs\n",
		*prop, res.Evaluations, res.Distinct, len(res.Findings), res.Bad(), res.WallS)
}

// scale returns the case budget for the tier (search = 10x).
// Current records the case that is about to run, so that a crash of the whole process (a panic on a goroutine
// of the library cannot be recovered by the harness) can be attributed to a concrete input by ./check.
func (c *Ctx) Current(v any) {
	if c.WorkDir == "" {
		return
	}
	b, _ := json.Marshal(v)
	os.WriteFile(filepath.Join(c.WorkDir, "current-case.json"), b, 0o644)
}

func (c *Ctx) scale(quick, thorough int) int {
	n := quick
	if c.Tier == "thorough" {
		n = thorough
	}
	if c.Search {
		n *= 10
	}
	return n
}

var execOneHandlers = map[string]func(args []string){}

func execOne(args []string) {
	if len(args) == 0 {
		os.Exit(2)
	}
	if h, ok := execOneHandlers[args[0]]; ok {
		h(args[1:])
		return
	}
	os.Exit(2)
}
