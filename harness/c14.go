package main

// C14: aliases.  Random config types with alias tags on random leaves at any depth (value, pointer
// and embedded structs); for every aliased leaf one of the four patterns neither / primary / alias /
// both; every other leaf randomly set.  The same case goes through every alias-capable source:
//   env    real env.Source under a real process environment (and the Lean model of the env chain)
//   json   static.StringSource + json.Decoder wrapped in the alias mangler the way ez wraps decoders
//   flag   flag.Set / pflag.Set over an argument list (c14_flags.go)
// oracle: primary or alias alone sets the field to that value, neither leaves it unset, both is an
// error naming the field; all other leaves hold exactly what was supplied for them.

import (
	"context"
	encjson "encoding/json"
	"fmt"
	"os"
	"reflect"
	"sort"
	"strconv"
	"strings"

	"github.com/vimeo/dials"
	"github.com/vimeo/dials/decoders/json"
	"github.com/vimeo/dials/ptrify"
	"github.com/vimeo/dials/sources/env"
	"github.com/vimeo/dials/sources/static"
	"github.com/vimeo/dials/sourcewrap"
	"github.com/vimeo/dials/transform"
)

func init() { register("C14", checkC14) }

type c14Leaf struct {
	envLeaf
	pattern int // 0 neither, 1 primary, 2 alias, 3 both (aliased leaves); 0 / 1 for the others
}

// c14Source runs one case through one source; it returns the outcome class ("ok" / "err" / "panic"),
// the error text and the resulting (pointerified) value
type c14Source struct {
	name string
	// supports says whether the source can carry this leaf type at all
	supports func(t reflect.Type) bool
	run      func(c *Ctx, T, PT reflect.Type, leaves []c14Leaf, cs map[string]any) (class, errText string, out reflect.Value, wants map[string]string, skip bool)
}

var c14Sources []c14Source

func leafKey(l envLeaf) string { return strings.Join(l.path, ".") }

func checkC14(c *Ctx) {
	r := c.RNG
	res := c.Res
	res.ASCIIModel = true
	res.Rule = "random config struct types as C11 plus embedded structs, alias tags (dialsalias) on ~40% of the leaves at any depth; per aliased leaf one of neither / primary / alias / both (both on at most one leaf in ~30% of the cases), other leaves set with 45%; " +
		"each case through env.Source (real environment; also vs the Lean model), an alias-wrapped JSON decoder as ez builds it, flag.Set and pflag.Set; oracle per leaf (primary or alias value, unset, error naming the field). " +
		"plus a stream of configs holding a slice / array of structs whose ELEMENT fields (by value: string, int, bool, struct, named scalar; pointer; slice) carry aliases, through the alias-wrapped JSON decoder, four patterns per element and field (set = non-zero there). " +
		"plus a stream of configs whose aliased fields are themselves collections ([]struct, []struct with aliased element fields, []string, []int, string maps), each supplied as a list of 0-3 entries (35% explicitly empty) under neither / primary / alias / both, same decoder. " +
		"plus ez itself (JSON / YAML entry points, private empty flag set): aliased leaves at two depths x four patterns x FileFieldNameEncoder none / lower_snake / kebab / UPPER_SNAKE / lowerCamel, file keys written in the file's naming convention. " +
		"plus 2-4 flag.Sets over ONE standard-library FlagSet (the flags exist from the second Set on; in 35% the application registered one alias or primary name by hand first): four patterns per aliased leaf at two depths, every round (oracle only). " +
		"field names include words ending in a multi-byte lower-case letter (CaféURL, MenüHTML): those types are outside the ASCII case-conversion model and judged by the oracle alone. " +
		"non-trivial: an aliased leaf below the top level or >= 2 aliased leaves; distinct = by type + pattern vector + source"
	n := c.scale(1500, 20000)
	c14Elements(c, n/3)
	c14Collections(c, n/3)
	c14Ez(c, c.scale(300, 4000))
	c14SameFlagSet(c, c.scale(300, 6000))
	c14SharedDecoder(c, c.scale(200, 5000))
	for i := 0; i < n; i++ {
		g := &envTypeGen{r: r, used: map[string]bool{}, alias: true, embed: r.Chance(40)}
		T := g.genStruct(1+r.Intn(3), nil, nil)
		if T.NumField() == 0 || len(g.leaves) == 0 {
			continue
		}
		nal := 0
		deep := false
		for _, l := range g.leaves {
			if l.aliasOf != "" {
				nal++
				deep = deep || len(l.path) > 1
			}
		}
		if nal == 0 {
			continue
		}
		PT := ptrify.Pointerify(T, reflect.New(T).Elem())
		wantBoth := r.Chance(30)
		bothLeft := 1
		leaves := make([]c14Leaf, len(g.leaves))
		pat := ""
		for k, l := range g.leaves {
			leaves[k].envLeaf = l
			if l.aliasOf != "" {
				p := r.Intn(3)
				if wantBoth && bothLeft > 0 && r.Chance(60) {
					p = 3
					bothLeft--
				}
				leaves[k].pattern = p
			} else if r.Chance(45) {
				leaves[k].pattern = 1
			}
			pat += strconv.Itoa(leaves[k].pattern)
		}
		for _, src := range c14Sources {
			cs := map[string]any{"type": T.String(), "source": src.name, "patterns": pat}
			sub := make([]c14Leaf, len(leaves))
			copy(sub, leaves)
			for k := range sub {
				if !src.supports(sub[k].typ) {
					sub[k].pattern = 0
				}
				if sub[k].envOnly && src.name != "env" {
					// `dialsenvalias` means nothing to this source: the leaf is an ordinary one here
					sub[k].pattern = []int{0, 1, 0, 1}[sub[k].pattern]
					sub[k].aliasOf = ""
				}
			}
			class, errText, out, wants, skip := src.run(c, T, PT, sub, cs)
			if skip {
				res.OutOfDomain++
				continue
			}
			res.Count("source/" + src.name + "/" + class)
			bothField := ""
			for _, l := range sub {
				if l.pattern == 3 {
					bothField = l.path[len(l.path)-1]
				}
				if l.aliasOf != "" {
					res.Count(fmt.Sprintf("pattern/%s/%d", src.name, l.pattern))
				}
			}
			switch {
			case class == "panic":
				res.Add(Finding{Kind: "violation", What: src.name + ": source panicked: " + errText, Case: cs})
			case bothField != "":
				if class != "err" {
					res.Add(Finding{Kind: "violation", What: fmt.Sprintf("%s: primary and alias of field %s both supplied, but no error", src.name, bothField), Case: cs, Observed: class})
				} else if !strings.Contains(errText, bothField) {
					res.Add(Finding{Kind: "violation", What: fmt.Sprintf("%s: the error for a doubly supplied field does not name it (%s)", src.name, bothField), Case: cs, Observed: errText})
				}
			case class == "err":
				res.Add(Finding{Kind: "violation", What: src.name + ": source failed although no field is supplied under both names", Case: cs, Observed: errText})
			default:
				for _, l := range sub {
					lv := leafOf(out, l.path)
					got := "n"
					if lv.IsValid() {
						got = tfVal(lv)
					}
					w := "n"
					if l.pattern != 0 {
						w = wants[leafKey(l.envLeaf)]
					}
					if got != w {
						kind := []string{"neither name", "the primary name", "the alias name", "both names"}[l.pattern]
						res.Add(Finding{Kind: "violation", What: fmt.Sprintf("%s: leaf %s supplied under %s: got %s, want %s", src.name, leafKey(l.envLeaf), kind, got, w), Case: cs})
						break
					}
				}
			}
			res.Case(T.String()+"|"+pat+"|"+src.name, deep || nal >= 2, cs)
		}
	}
}

// ---------- env ----------

func init() {
	c14Sources = append(c14Sources, c14Source{name: "env", supports: func(reflect.Type) bool { return true }, run: c14Env})
	c14Sources = append(c14Sources, c14Source{name: "json", supports: c14JSONSupports, run: c14JSON})
}

func c14Env(c *Ctx, T, PT reflect.Type, leaves []c14Leaf, cs map[string]any) (string, string, reflect.Value, map[string]string, bool) {
	r := c.RNG
	set := map[string]string{}
	wants := map[string]string{}
	value := func(t reflect.Type) (string, string) {
		for {
			txt, w := genEnvValue(r, t)
			if w != "" && !strings.ContainsRune(txt, 0) {
				return txt, w
			}
		}
	}
	primary := func(l envLeaf) string {
		if l.envTag != "" {
			return l.envTag
		}
		return strings.ToUpper(strings.Join(l.words, "_"))
	}
	for _, l := range leaves {
		if l.pattern == 0 {
			continue
		}
		txt, w := value(l.typ)
		wants[leafKey(l.envLeaf)] = w
		if l.pattern == 1 || l.pattern == 3 {
			set[primary(l.envLeaf)] = txt
		}
		if l.pattern == 2 || l.pattern == 3 {
			if l.pattern == 3 {
				txt, _ = value(l.typ)
			}
			set[l.aliasOf] = txt
		}
	}
	keys := make([]string, 0, len(set))
	for k := range set {
		keys = append(keys, k)
	}
	sort.Strings(keys)
	var entries []string
	for _, k := range keys {
		sl, mp := tokenStreams(set[k])
		e := []string{"E", hexEnc(k), hexEnc(set[k]), strconv.Itoa(len(sl))}
		e = append(e, sl...)
		e = append(e, strconv.Itoa(len(mp)))
		e = append(e, mp...)
		entries = append(entries, strings.Join(e, " "))
		os.Setenv(k, set[k])
	}
	cs["env"] = set
	var out reflect.Value
	var err error
	pn := catch(func() { out, err = (&env.Source{}).Value(context.Background(), dials.NewType(PT)) })
	for _, k := range keys {
		os.Unsetenv(k)
	}
	class, errText, impl := "ok", "", ""
	switch {
	case pn != "":
		class, errText, impl = "panic", pn, "panic"
	case err != nil:
		class, errText, impl = "err", err.Error(), "err"
	default:
		p := []string{}
		for k := 0; k < out.NumField(); k++ {
			p = append(p, tfVal(out.Field(k)))
		}
		impl = "ok " + strings.Join(p, " ")
	}
	// the Lean model of the env chain on the same environment
	req := fmt.Sprintf("tf env chainEnv %s %s %d %s", hexEnc(""), tfFields(PT), len(entries), strings.Join(entries, " "))
	model := strings.TrimSpace(c.Drv.Ask(req))
	if strings.HasPrefix(model, "panic") {
		model = "panic"
	}
	if strings.HasPrefix(model, "err") {
		model = "err"
	}
	if impl != model {
		cs2 := map[string]any{"type": cs["type"], "env": set, "request": req}
		c.Res.Add(Finding{Kind: "disagreement", What: "env source with aliases: model != implementation", Case: cs2, Observed: impl, Model: model})
	}
	return class, errText, out, wants, false
}

// ---------- alias-wrapped JSON decoder (ez's file path) ----------

func c14JSONSupports(t reflect.Type) bool {
	switch t.Kind() {
	case reflect.Complex64, reflect.Complex128:
		return false // encoding/json has no complex numbers
	case reflect.Ptr, reflect.Slice:
		return c14JSONSupports(t.Elem())
	case reflect.Map:
		return c14JSONSupports(t.Key()) && c14JSONSupports(t.Elem())
	}
	return true
}

// jsonKeys: the object keys along a leaf's path (dials tag, else the Go field name; an untagged embedded
// struct is inlined by encoding/json)
func jsonKeys(T reflect.Type, path []string) []string {
	var keys []string
	t := T
	for _, name := range path {
		for t.Kind() == reflect.Ptr {
			t = t.Elem()
		}
		f, _ := t.FieldByName(name)
		tag := f.Tag.Get("dials")
		switch {
		case tag != "":
			keys = append(keys, tag)
		case f.Anonymous:
		default:
			keys = append(keys, name)
		}
		t = f.Type
	}
	return keys
}

// jsonAmbiguous: two sibling members (after inlining untagged embedded structs) answer to the same JSON
// key, compared the way encoding/json does (case-insensitively): encoding/json then drops both, for any
// struct, with or without dials - distinct keys are a precondition of every file decoder
func jsonAmbiguous(t reflect.Type) bool {
	for t.Kind() == reflect.Ptr {
		t = t.Elem()
	}
	if t.Kind() != reflect.Struct {
		return false
	}
	seen := map[string]bool{}
	var walk func(t reflect.Type) bool
	walk = func(t reflect.Type) bool {
		for i := 0; i < t.NumField(); i++ {
			f := t.Field(i)
			tag := f.Tag.Get("dials")
			ft := f.Type
			for ft.Kind() == reflect.Ptr {
				ft = ft.Elem()
			}
			if tag == "" && f.Anonymous && ft.Kind() == reflect.Struct {
				if walk(ft) {
					return true
				}
				continue
			}
			keys := []string{tag}
			if tag == "" {
				keys[0] = f.Name
			}
			if a := f.Tag.Get("dialsalias"); a != "" {
				keys = append(keys, a)
			}
			for _, k := range keys {
				k = strings.ToLower(k)
				if seen[k] {
					return true
				}
				seen[k] = true
			}
			if ft.Kind() == reflect.Struct && jsonAmbiguous(ft) {
				return true
			}
		}
		return false
	}
	return walk(t)
}

func c14JSON(c *Ctx, T, PT reflect.Type, leaves []c14Leaf, cs map[string]any) (string, string, reflect.Value, map[string]string, bool) {
	r := c.RNG
	if jsonAmbiguous(T) {
		return "", "", reflect.Value{}, nil, true
	}
	doc := map[string]any{}
	wants := map[string]string{}
	put := func(keys []string, v any) bool {
		m := doc
		for _, k := range keys[:len(keys)-1] {
			nx, ok := m[k].(map[string]any)
			if !ok {
				if _, clash := m[k]; clash {
					return false
				}
				nx = map[string]any{}
				m[k] = nx
			}
			m = nx
		}
		if _, clash := m[keys[len(keys)-1]]; clash {
			return false
		}
		m[keys[len(keys)-1]] = v
		return true
	}
	value := func(t reflect.Type) reflect.Value {
		v := reflect.New(t).Elem()
		for tries := 0; tries < 20; tries++ {
			fillInner(r, v, 2)
			if !isZeroish(v) && !(v.Kind() == reflect.Ptr && v.IsNil()) {
				break
			}
		}
		return v
	}
	for _, l := range leaves {
		if l.pattern == 0 {
			continue
		}
		keys := jsonKeys(T, l.path)
		if len(keys) == 0 {
			return "", "", reflect.Value{}, nil, true
		}
		v := value(l.typ)
		pv := reflect.New(l.typ)
		pv.Elem().Set(v)
		w := tfVal(pv)
		if k := l.typ.Kind(); k == reflect.Slice || k == reflect.Map || k == reflect.Ptr {
			w = tfVal(v) // nil-able leaves are not wrapped in an extra pointer
		}
		wants[leafKey(l.envLeaf)] = w
		if l.pattern == 1 || l.pattern == 3 {
			if !put(keys, v.Interface()) {
				return "", "", reflect.Value{}, nil, true
			}
		}
		if l.pattern == 2 || l.pattern == 3 {
			av := v
			if l.pattern == 3 {
				av = value(l.typ)
			}
			akeys := append(append([]string{}, keys[:len(keys)-1]...), fmt.Sprintf("old_n%d", aliasIndex(l.envLeaf)))
			if !put(akeys, av.Interface()) {
				return "", "", reflect.Value{}, nil, true
			}
		}
	}
	text, merr := encjson.Marshal(doc)
	if merr != nil {
		return "", "", reflect.Value{}, nil, true
	}
	cs["json"] = string(text)
	src := &static.StringSource{Data: string(text), Decoder: sourcewrap.NewTransformingDecoder(&json.Decoder{}, transform.NewAliasMangler("dials"))}
	var out reflect.Value
	var err error
	pn := catch(func() { out, err = src.Value(context.Background(), dials.NewType(PT)) })
	switch {
	case pn != "":
		return "panic", pn, out, wants, false
	case err != nil:
		return "err", err.Error(), out, wants, false
	}
	return "ok", "", out, wants, false
}

// aliasIndex recovers the <k> of the generator's `dialsalias:"old_n<k>"` from the documented alias name
func aliasIndex(l envLeaf) int {
	i := strings.LastIndex(l.aliasOf, "_N")
	k, _ := strconv.Atoi(l.aliasOf[i+2:])
	return k
}

// ---------- aliases on the fields of slice / array elements (not pointerified: set = non-zero) ----------

// c14Elements: a config with a slice (or array) of structs whose element fields carry alias tags, read
// through the alias-wrapped JSON decoder; per element and aliased field one of the four patterns.
func c14Elements(c *Ctx, n int) {
	r := c.RNG
	res := c.Res
	type fspec struct {
		name, key, alias string
		typ              reflect.Type
	}
	pool := []fspec{
		{"Host", "host", "hostname", reflect.TypeOf("")}, {"Port", "port", "tcp_port", reflect.TypeOf(0)}, {"On", "on", "enabled", reflect.TypeOf(false)},
		{"Limits", "limits", "quota", reflect.TypeOf(struct{ Burst int }{})}, {"Weight", "weight", "prio", reflect.TypeOf((*int)(nil))},
		{"Tags", "tags", "labels", reflect.TypeOf([]string(nil))}, {"Level", "level", "lvl", reflect.TypeOf(Level(0))},
	}
	for i := 0; i < n; i++ {
		perm := r.Fork()
		var fs []fspec
		var sfs []reflect.StructField
		for _, f := range pool {
			if !perm.Chance(60) {
				continue
			}
			tag := fmt.Sprintf(`dials:%q`, f.key)
			if perm.Chance(65) {
				tag += fmt.Sprintf(` dialsalias:%q`, f.alias)
			} else {
				f.alias = ""
			}
			fs = append(fs, f)
			sfs = append(sfs, reflect.StructField{Name: f.name, Type: f.typ, Tag: reflect.StructTag(tag)})
		}
		if len(fs) == 0 {
			continue
		}
		elem := reflect.StructOf(sfs)
		coll := reflect.SliceOf(elem)
		nel := 1 + r.Intn(3)
		if r.Chance(12) {
			coll = reflect.ArrayOf(nel, elem)
		}
		T := reflect.StructOf([]reflect.StructField{
			{Name: "Title", Type: reflect.TypeOf(""), Tag: `dials:"title"`},
			{Name: "Items", Type: coll, Tag: `dials:"items"`},
		})
		PT := ptrify.Pointerify(T, reflect.New(T).Elem())
		nonzero := func(t reflect.Type) reflect.Value {
			v := reflect.New(t).Elem()
			for tries := 0; tries < 30; tries++ {
				fillInner(r, v, 2)
				if !v.IsZero() && !(v.Kind() == reflect.Slice && v.Len() == 0) {
					break
				}
			}
			return v
		}
		var items []any
		type want struct {
			el, f int
			v     reflect.Value // invalid: unset (zero)
		}
		var wants []want
		bothField := ""
		pats := ""
		usesAlias := false
		for e := 0; e < nel; e++ {
			obj := map[string]any{}
			for k, f := range fs {
				p := r.Intn(2) // neither / primary
				if f.alias != "" {
					p = r.Intn(3)
					if bothField == "" && r.Chance(8) {
						p = 3
						bothField = f.name
					}
				}
				pats += strconv.Itoa(p)
				usesAlias = usesAlias || p >= 2
				v := nonzero(f.typ)
				switch p {
				case 0:
					wants = append(wants, want{e, k, reflect.Value{}})
					continue
				case 1:
					obj[f.key] = v.Interface()
				case 2:
					obj[f.alias] = v.Interface()
				case 3:
					obj[f.key] = v.Interface()
					obj[f.alias] = nonzero(f.typ).Interface()
				}
				wants = append(wants, want{e, k, v})
			}
			items = append(items, obj)
		}
		text, merr := encjson.Marshal(map[string]any{"title": "t", "items": items})
		if merr != nil {
			res.OutOfDomain++
			continue
		}
		cs := map[string]any{"type": T.String(), "source": "json (slice elements)", "json": string(text), "patterns": pats}
		src := &static.StringSource{Data: string(text), Decoder: sourcewrap.NewTransformingDecoder(&json.Decoder{}, transform.NewAliasMangler("dials"))}
		var out reflect.Value
		var err error
		pn := catch(func() { out, err = src.Value(context.Background(), dials.NewType(PT)) })
		res.Count("source/json-elements/" + map[bool]string{true: "err", false: "ok"}[err != nil || pn != ""])
		// finding D31b: Pointerify turns an array field into a pointer to the array, and the Transformer recurses
		// into *struct, []struct and [n]struct only: no mangler (alias, tag copy) reaches the element type of a
		// config field of array type, so alias names inside array elements are ignored
		add := func(f Finding) {
			if coll.Kind() == reflect.Array && usesAlias && f.Kind == "violation" && !strings.Contains(f.What, "panicked") && isKnown("C14", "D31b-alias-in-array-elements") {
				f.Kind, f.KnownID = "known", "D31b-alias-in-array-elements"
			}
			res.Add(f)
		}
		switch {
		case pn != "":
			add(Finding{Kind: "violation", What: "json (slice elements): source panicked: " + pn, Case: cs})
		case bothField != "":
			if err == nil {
				add(Finding{Kind: "violation", What: fmt.Sprintf("json (slice elements): primary and alias of element field %s both supplied, but no error", bothField), Case: cs})
			} else if !strings.Contains(err.Error(), bothField) {
				add(Finding{Kind: "violation", What: fmt.Sprintf("json (slice elements): the error for a doubly supplied element field does not name it (%s)", bothField), Case: cs, Observed: err.Error()})
			}
		case err != nil:
			add(Finding{Kind: "violation", What: "json (slice elements): source failed although no field is supplied under both names", Case: cs, Observed: err.Error()})
		default:
			itemsV := out.FieldByName("Items")
			for itemsV.Kind() == reflect.Ptr && !itemsV.IsNil() {
				itemsV = itemsV.Elem()
			}
			if itemsV.Kind() == reflect.Ptr || itemsV.Len() != nel {
				add(Finding{Kind: "violation", What: "json (slice elements): the collection did not arrive", Case: cs, Observed: fmt.Sprint(itemsV)})
				break
			}
			for _, w := range wants {
				got := itemsV.Index(w.el).Field(w.f)
				exp := reflect.Zero(got.Type())
				if w.v.IsValid() {
					exp = w.v
				}
				if !reflect.DeepEqual(got.Interface(), exp.Interface()) {
					add(Finding{Kind: "violation", What: fmt.Sprintf("json (slice elements): element %d field %s: got %v, want %v", w.el, fs[w.f].name, got.Interface(), exp.Interface()), Case: cs})
					break
				}
			}
		}
		res.Case("E|"+T.String()+"|"+pats, nel >= 2 || len(fs) >= 3, cs)
	}
}
