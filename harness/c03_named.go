package main

// C03, two more direct-oracle streams.
//
// (a) declared pointer types: `type NRef *NNode` used as field, slice element and map value.  The copier's pointer memo
//     must work for them as for unnamed pointers: shared nodes stay shared, cycles terminate (VerifDeepCopy; the type is
//     pointer-recursive, so Config refuses it - listed finding D3).
// (b) a source sets an interface-typed field whose payload (a pointer, a map) is ALSO reachable from other fields of the
//     same source value: in the stacked config the interface's payload and the other references are one object (the
//     overlay of an interface over a nil base takes the value compose already copied - it must not copy it again).

import (
	"context"
	"fmt"
	"reflect"

	"github.com/vimeo/dials"
)

type NRef *NNode

type NNode struct {
	Name string
	Next NRef
	Kids []NRef
	M    map[string]NRef
}

type NCfg struct {
	A, B NRef
	All  []NRef
	Idx  map[string]NRef
}

func c03NamedPtr(r *RNG, idx int) c03Line {
	line := c03Line{Idx: idx, Dist: []string{"via/declared-pointer-type-oracle"}}
	n := 1 + r.Intn(5)
	in := &NCfg{Idx: map[string]NRef{}}
	for i := 0; i < n; i++ {
		in.All = append(in.All, &NNode{Name: fmt.Sprintf("n%d", i)})
	}
	pick := func() NRef { return in.All[r.Intn(n)] }
	canon := fmt.Sprintf("N|%d", n)
	for _, nd := range in.All {
		if r.Chance(60) {
			nd.Next = pick()
			canon += "|" + nd.Name + ">" + (*NNode)(nd.Next).Name
		}
		for j := r.Intn(3); j > 0; j-- {
			nd.Kids = append(nd.Kids, pick())
		}
		if r.Chance(40) {
			nd.M = map[string]NRef{"x": pick(), "y": pick()}
		}
		canon += fmt.Sprint("|", len(nd.Kids), len(nd.M))
	}
	in.A, in.B = pick(), pick()
	if r.Chance(50) {
		in.B = in.A
	}
	in.Idx["a"], in.Idx["b"] = in.A, pick()
	cs := map[string]any{"via": "VerifDeepCopy", "nodes": n, "shape": canon}
	line.Sample, line.Canon, line.Nontrivial = cs, canon, n >= 2
	var out *NCfg
	pn := catch(func() { out = dials.VerifDeepCopy(reflect.ValueOf(in)).Interface().(*NCfg) })
	bad := func(what string) {
		line.Findings = append(line.Findings, Finding{Kind: "violation", What: "declared pointer type (type NRef *NNode): " + what, Case: cs})
	}
	if pn != "" {
		bad("copy failed: " + pn)
		return line
	}
	if len(out.All) != n {
		bad("the copy has a different number of nodes")
		return line
	}
	index, outIndex := map[*NNode]int{}, map[*NNode]int{}
	for i, nd := range in.All {
		index[nd] = i
	}
	for i, nd := range out.All {
		if _, isInput := index[nd]; isInput {
			bad(fmt.Sprintf("All[%d] of the copy is the input's node: not fresh", i))
			return line
		}
		if _, dup := outIndex[nd]; dup && in.All[i] != in.All[outIndex[nd]] {
			bad(fmt.Sprintf("All[%d] of the copy is the same node as another element although the input's are distinct", i))
			return line
		}
		outIndex[nd] = i
	}
	same := func(o, i NRef) bool {
		if o == nil || i == nil {
			return o == nil && i == nil
		}
		oi, ok := outIndex[o]
		return ok && oi == index[i]
	}
	if !same(out.A, in.A) || !same(out.B, in.B) {
		bad("A / B of the copy are not the copies of the nodes they referred to (sharing split)")
	}
	for k, v := range in.Idx {
		if !same(out.Idx[k], v) {
			bad("Idx[" + k + "] of the copy is not the copy of the node it referred to (sharing split)")
		}
	}
	for i, nd := range in.All {
		o := (*NNode)(out.All[i])
		if o.Name != (*NNode)(nd).Name || !same(o.Next, (*NNode)(nd).Next) || len(o.Kids) != len((*NNode)(nd).Kids) || len(o.M) != len((*NNode)(nd).M) {
			bad(fmt.Sprintf("node %d: name / Next / sizes differ: Next is not the copy of the node it referred to (cycle or sharing lost)", i))
			continue
		}
		for j, kd := range (*NNode)(nd).Kids {
			if !same(o.Kids[j], kd) {
				bad(fmt.Sprintf("node %d: Kids[%d] is not the copy of the node it referred to", i, j))
			}
		}
		for k, v := range (*NNode)(nd).M {
			if !same(o.M[k], v) {
				bad(fmt.Sprintf("node %d: M[%s] is not the copy of the node it referred to", i, k))
			}
		}
	}
	return line
}

// (b)
type QCfg struct {
	Primary any
	Pool    []*PN
	Index   map[string]*PN
	Lookup  any
	Second  any
}

type qSource struct{ v *QCfg }

func (s qSource) Value(_ context.Context, t *dials.Type) (reflect.Value, error) {
	out := reflect.New(t.Type()).Elem()
	in := reflect.ValueOf(s.v).Elem()
	for i := 0; i < in.NumField(); i++ {
		f := in.Field(i)
		if f.IsNil() {
			continue
		}
		of := out.FieldByName(in.Type().Field(i).Name)
		if !of.IsValid() || !f.Type().AssignableTo(of.Type()) {
			return reflect.Value{}, fmt.Errorf("field %s: %s is not assignable to %s", in.Type().Field(i).Name, f.Type(), of.Type())
		}
		of.Set(f)
	}
	return out, nil
}

func c03IfacePayload(r *RNG, idx int) c03Line {
	line := c03Line{Idx: idx, Dist: []string{"via/Config+source (interface payload shared with other fields)"}}
	n := 1 + r.Intn(4)
	sv := &QCfg{Index: map[string]*PN{}}
	for i := 0; i < n; i++ {
		sv.Pool = append(sv.Pool, &PN{Name: fmt.Sprintf("q%d", i)})
	}
	pick := func() *PN { return sv.Pool[r.Intn(n)] }
	for _, nd := range sv.Pool {
		for j := r.Intn(3); j > 0; j-- {
			nd.Kids = append(nd.Kids, pick()) // cycles through slices
		}
		if r.Chance(40) {
			nd.M = map[string]*PN{"peer": pick()}
		}
	}
	pi, si := r.Intn(n), r.Intn(n)
	sv.Primary = sv.Pool[pi]
	sv.Index["p"], sv.Index["s"] = sv.Pool[pi], sv.Pool[si]
	lookupIsIndex := r.Chance(60)
	if lookupIsIndex {
		sv.Lookup = sv.Index
	} else {
		sv.Lookup = sv.Pool[si]
	}
	if r.Chance(50) {
		sv.Second = sv.Pool[si]
	}
	withDefaults := r.Chance(40)
	defaults := &QCfg{}
	if withDefaults {
		defaults.Pool = []*PN{{Name: "default"}}
	}
	cs := map[string]any{"via": "Config+source", "nodes": n, "primary": pi, "second": si, "lookup_is_index": lookupIsIndex, "second_set": sv.Second != nil, "defaults_pool": withDefaults}
	line.Sample = cs
	line.Canon = fmt.Sprint("Q|", n, pi, si, lookupIsIndex, sv.Second != nil, withDefaults)
	for _, nd := range sv.Pool {
		line.Canon += fmt.Sprint("|", len(nd.Kids), len(nd.M))
	}
	line.Nontrivial = true
	bad := func(what string) {
		line.Findings = append(line.Findings, Finding{Kind: "violation", What: "interface field set by a source: " + what, Case: cs})
	}
	var out *QCfg
	var cerr error
	ctx, cancel := context.WithCancel(context.Background())
	defer cancel()
	pn := catch(func() {
		d, err := dials.Config(ctx, defaults, qSource{sv})
		if err != nil {
			cerr = err
			return
		}
		out = d.View()
	})
	if pn != "" || cerr != nil {
		bad("Config failed: " + pn + fmt.Sprint(cerr))
		return line
	}
	if len(out.Pool) != n {
		bad(fmt.Sprintf("Pool has %d nodes, the source set %d", len(out.Pool), n))
		return line
	}
	srcNode := map[*PN]bool{}
	for _, nd := range sv.Pool {
		srcNode[nd] = true
	}
	for i, nd := range out.Pool {
		if srcNode[nd] {
			bad(fmt.Sprintf("Pool[%d] of the config is the source's own node", i))
			return line
		}
	}
	if p, ok := out.Primary.(*PN); !ok || p != out.Pool[pi] {
		bad(fmt.Sprintf("Primary (an interface holding the source's Pool[%d]) is not the config's Pool[%d]: the payload was copied apart from the rest of the value", pi, pi))
	}
	if out.Index["p"] != out.Pool[pi] || out.Index["s"] != out.Pool[si] {
		bad("Index entries are not the config's Pool nodes")
	}
	if lookupIsIndex {
		m, ok := out.Lookup.(map[string]*PN)
		if !ok || reflect.ValueOf(m).Pointer() != reflect.ValueOf(out.Index).Pointer() {
			bad("Lookup (an interface holding the source's Index map) is not the config's Index map")
		}
	} else if p, ok := out.Lookup.(*PN); !ok || p != out.Pool[si] {
		bad(fmt.Sprintf("Lookup (an interface holding the source's Pool[%d]) is not the config's Pool[%d]", si, si))
	}
	if sv.Second != nil {
		if p, ok := out.Second.(*PN); !ok || p != out.Pool[si] {
			bad(fmt.Sprintf("Second (an interface holding the source's Pool[%d]) is not the config's Pool[%d]", si, si))
		}
	}
	for i, nd := range sv.Pool {
		o := out.Pool[i]
		for j, kd := range nd.Kids {
			want := -1
			for q, x := range sv.Pool {
				if x == kd {
					want = q
				}
			}
			if j >= len(o.Kids) || o.Kids[j] != out.Pool[want] {
				bad(fmt.Sprintf("Pool[%d].Kids[%d] is not the config's Pool[%d]", i, j, want))
			}
		}
	}
	return line
}
