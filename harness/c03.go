package main

// C03 (and the copier half of C02): cyclic and shared object graphs through the real deep copier
// (hook VerifDeepCopy) and through Config (public API), compared with the Lean heap model and with
// direct oracles (DeepEqual, isomorphism incl. sharing, freshness, input untouched).
//
// A broken copier can overflow the stack, which kills the process, so cases run in child
// processes (`vh exec-one c03 …`) that report one JSON line per case; a child that dies is itself
// an observed outcome of the case it was working on.

import (
	"bufio"
	"context"
	"encoding/json"
	"fmt"
	"math"
	"os"
	"os/exec"
	"reflect"
	"runtime/debug"
	"sort"
	"strconv"
	"strings"
	"time"

	"github.com/vimeo/dials"
)

// node family for the copier (recursion through pointer, slice, map, array, interface)
type GEdge struct {
	Label string
	To    *GN
	Via   map[string]*GN
}

type GN struct {
	Name  string
	Edges [2]GEdge  // array of structs holding references
	Grid  [2][1]*GN // nested arrays

	Next   *GN
	Kids   []*GN
	M      map[string]*GN
	Arr    [2]*GN
	Any    any
	Shared map[string]int
	priv   *GN
	Tags   []string
	MM     map[string]map[string]int // maps as map values: the same inner map may sit under two keys
	ME     map[string]GEdge          // structs (holding a map and a pointer) as map values
	// exported but invisible to sources: still part of the config, so copied like any other reference
	Aside    *GN            `dials:"-"`
	AsideMap map[string]int `dials:"-"`
	// exported names whose first letter is not ASCII (two and three bytes of UTF-8): exported all the same
	Élan *GN
	Ṫail []*GN
	Ấux  map[string]int
}

type GCfg struct {
	Root  *GN
	Other any
	All   []*GN
	Idx   map[string]*GN
	Nums  []int
	Val   GN
	Spare *GN `dials:"-"`
}

// node family accepted by Pointerify (no pointer-recursive struct type, no interface value cycles)
type PEdge struct {
	Label string
	To    *PN
}

type PN struct {
	Name  string
	Edges [2]PEdge

	Kids   []*PN
	M      map[string]*PN
	Arr    [2]*PN
	Shared map[string]int
	Tags   []string
	MM     map[string]map[string]int
	Back   []*PN          `dials:"-"` // default-only references: no source can set them, the config still owns a copy
	Local  map[string]int `dials:"-"`
	Ṫail   []*PN
	Ấux    map[string]int
}

type PCfg struct {
	Kids  []*PN
	Idx   map[string]*PN
	Pair  [2]*PN
	Nums  []int
	Share map[string]int
	Spare map[string]*PN `dials:"-"`
}

// ---------- graph encoding (Go value -> model heap) and canonical rendering ----------

type gEnc struct {
	cells   []string        // cell text by address
	addr    map[uintptr]int // pointer/map identity -> address
	strs    map[string]int
	pending int
}

func (e *gEnc) str(s string) int {
	if s == "" {
		return 0
	}
	if id, ok := e.strs[s]; ok {
		return id
	}
	id := len(e.strs) + 1
	e.strs[s] = id
	return id
}

func (e *gEnc) alloc() int {
	e.cells = append(e.cells, "")
	return len(e.cells) - 1
}

func sortedKeys(v reflect.Value) []reflect.Value {
	ks := v.MapKeys()
	key := func(k reflect.Value) string {
		if k.Kind() == reflect.String {
			return k.String()
		}
		return fmt.Sprintf("%020d", k.Int())
	}
	sort.Slice(ks, func(i, j int) bool { return key(ks[i]) < key(ks[j]) })
	return ks
}

// enc returns the model token text of v, adding cells as needed.
func (e *gEnc) enc(v reflect.Value) string {
	switch v.Kind() {
	case reflect.Ptr:
		if v.IsNil() {
			return "n"
		}
		if a, ok := e.addr[v.Pointer()]; ok {
			return fmt.Sprintf("p%d", a)
		}
		a := e.alloc()
		e.addr[v.Pointer()] = a
		e.cells[a] = "V " + e.enc(v.Elem())
		return fmt.Sprintf("p%d", a)
	case reflect.Map:
		if v.IsNil() {
			return "n"
		}
		if a, ok := e.addr[v.Pointer()]; ok {
			return fmt.Sprintf("m%d", a)
		}
		a := e.alloc()
		e.addr[v.Pointer()] = a
		parts := []string{"M", "("}
		for _, k := range sortedKeys(v) {
			parts = append(parts, e.enc(k), e.enc(v.MapIndex(k)))
		}
		parts = append(parts, ")")
		e.cells[a] = strings.Join(parts, " ")
		return fmt.Sprintf("m%d", a)
	case reflect.Slice:
		if v.IsNil() {
			return "n"
		}
		// every slice value occurrence gets its own array cell (slices have no identity in the model's rendering)
		a := e.alloc()
		full := v.Slice(0, v.Cap())
		parts := []string{"A", "("}
		for i := 0; i < full.Len(); i++ {
			parts = append(parts, e.enc(full.Index(i)))
		}
		parts = append(parts, ")")
		e.cells[a] = strings.Join(parts, " ")
		return fmt.Sprintf("l%d:%d", a, v.Len())
	case reflect.Struct:
		parts := []string{"{"}
		for i := 0; i < v.NumField(); i++ {
			fl := "e"
			if v.Type().Field(i).PkgPath != "" {
				fl = "u"
			}
			parts = append(parts, fl, e.enc(v.Field(i)))
		}
		parts = append(parts, "}")
		return strings.Join(parts, " ")
	case reflect.Array:
		parts := []string{"["}
		for i := 0; i < v.Len(); i++ {
			parts = append(parts, e.enc(v.Index(i)))
		}
		parts = append(parts, "]")
		return strings.Join(parts, " ")
	case reflect.Interface:
		if v.IsNil() {
			return "n"
		}
		return "i " + e.enc(v.Elem())
	case reflect.String:
		return fmt.Sprintf("s%d", e.str(v.String()))
	case reflect.Int, reflect.Int64:
		return fmt.Sprintf("s%d", v.Int())
	}
	return "s0"
}

// canonGo renders a Go value exactly like the model's `canon` (first-visit numbering of pointee and
// map cells; slices inline with their whole capacity), and collects the addresses reachable through
// exported fields.
type gCanon struct {
	skipUnexported bool
	ov             bool            // C02 overlay streams: slices have identity (backing arrays are numbered), scalars of every kind are rendered
	seenSl         map[uintptr]int // ov: slice backing arrays by data pointer
	n              int             // next first-visit number
	seen           map[uintptr]int
	out            []string
	strs           map[string]int
	addrs          map[uintptr]bool // pointers, maps, slice arrays reachable through exported fields
}

func (c *gCanon) str(s string) int {
	if s == "" {
		return 0
	}
	if id, ok := c.strs[s]; ok {
		return id
	}
	id := len(c.strs) + 1
	c.strs[s] = id
	return id
}

func (c *gCanon) render(v reflect.Value, exported bool) {
	switch v.Kind() {
	case reflect.Ptr:
		if v.IsNil() {
			c.out = append(c.out, "n")
			return
		}
		if exported && v.Type().Elem().Size() > 0 { // zero-size objects all live at one address
			c.addrs[v.Pointer()] = true
		}
		if k, ok := c.seen[v.Pointer()]; ok {
			c.out = append(c.out, fmt.Sprintf("p#%d", k))
			return
		}
		k := c.n
		c.n++
		c.seen[v.Pointer()] = k
		c.out = append(c.out, fmt.Sprintf("p#%d=", k))
		c.render(v.Elem(), exported)
	case reflect.Map:
		if v.IsNil() {
			c.out = append(c.out, "n")
			return
		}
		if exported {
			c.addrs[v.Pointer()] = true
		}
		if k, ok := c.seen[v.Pointer()]; ok {
			c.out = append(c.out, fmt.Sprintf("m#%d", k))
			return
		}
		k := c.n
		c.n++
		c.seen[v.Pointer()] = k
		c.out = append(c.out, fmt.Sprintf("m#%d=(", k))
		for _, key := range sortedKeys(v) {
			c.render(key, exported)
			c.render(v.MapIndex(key), exported)
		}
		c.out = append(c.out, ")")
	case reflect.Slice:
		if v.IsNil() {
			c.out = append(c.out, "n")
			return
		}
		if exported && v.Cap() > 0 && v.Type().Elem().Size() > 0 {
			c.addrs[v.Pointer()] = true
		}
		if c.ov {
			if k, ok := c.seenSl[v.Pointer()]; ok && v.Cap() > 0 && v.Type().Elem().Size() > 0 {
				c.out = append(c.out, fmt.Sprintf("l#%d:%d", k, v.Len()))
				return
			}
			k := c.n
			c.n++
			c.seenSl[v.Pointer()] = k
			c.out = append(c.out, fmt.Sprintf("l#%d:%d=(", k, v.Len()))
		} else {
			c.out = append(c.out, fmt.Sprintf("l:%d=(", v.Len()))
		}
		full := v.Slice(0, v.Cap())
		for i := 0; i < full.Len(); i++ {
			c.render(full.Index(i), exported)
		}
		c.out = append(c.out, ")")
	case reflect.Struct:
		c.out = append(c.out, "{")
		for i := 0; i < v.NumField(); i++ {
			ex := v.Type().Field(i).PkgPath == ""
			if ex {
				c.out = append(c.out, "e")
			} else {
				c.out = append(c.out, "u")
				if c.skipUnexported {
					c.out = append(c.out, "~")
					continue
				}
			}
			c.render(v.Field(i), exported && ex)
		}
		c.out = append(c.out, "}")
	case reflect.Array:
		c.out = append(c.out, "[")
		for i := 0; i < v.Len(); i++ {
			c.render(v.Index(i), exported)
		}
		c.out = append(c.out, "]")
	case reflect.Interface:
		if v.IsNil() {
			c.out = append(c.out, "n")
			return
		}
		c.out = append(c.out, "i")
		c.render(v.Elem(), exported)
	case reflect.String:
		c.out = append(c.out, fmt.Sprintf("s%d", c.str(v.String())))
	case reflect.Int, reflect.Int64:
		if c.ov {
			c.out = append(c.out, fmt.Sprintf("s%d", scalarCode(v)))
			return
		}
		c.out = append(c.out, fmt.Sprintf("s%d", v.Int()))
	default:
		if c.ov {
			c.out = append(c.out, fmt.Sprintf("s%d", scalarCode(v)))
			return
		}
		c.out = append(c.out, "s0")
	}
}

// scalarCode: a natural number for a value of any reference-free kind other than string (C02 overlay streams)
func scalarCode(v reflect.Value) uint64 {
	switch v.Kind() {
	case reflect.Bool:
		if v.Bool() {
			return 1
		}
		return 0
	case reflect.Int, reflect.Int8, reflect.Int16, reflect.Int32, reflect.Int64:
		return uint64(v.Int())
	case reflect.Uint, reflect.Uint8, reflect.Uint16, reflect.Uint32, reflect.Uint64, reflect.Uintptr:
		return v.Uint()
	case reflect.Float32, reflect.Float64:
		return math.Float64bits(v.Float())
	case reflect.Chan, reflect.Func, reflect.UnsafePointer:
		if v.IsNil() {
			return 0
		}
		return 1
	}
	return 0
}

func canonGoExported(v reflect.Value, strs map[string]int) string {
	c := &gCanon{seen: map[uintptr]int{}, strs: strs, addrs: map[uintptr]bool{}, skipUnexported: true}
	c.render(v, true)
	return strings.Join(c.out, " ")
}

func canonGo(v reflect.Value, strs map[string]int) (string, map[uintptr]bool) {
	c := &gCanon{seen: map[uintptr]int{}, strs: strs, addrs: map[uintptr]bool{}}
	c.render(v, true)
	return strings.Join(c.out, " "), c.addrs
}

// ---------- graph generation ----------

func genGraph(r *RNG) *GCfg {
	n := 1 + r.Intn(12)
	if r.Chance(10) {
		n = 1
	}
	nodes := make([]*GN, n)
	for i := range nodes {
		nodes[i] = &GN{Name: fmt.Sprintf("n%d", i)}
	}
	shared := []map[string]int{{"a": 1}, {"b": 2, "c": 3}, nil}
	sharedM := map[string]*GN{}
	pick := func() *GN {
		if r.Chance(20) {
			return nil
		}
		return nodes[r.Intn(n)]
	}
	for i, nd := range nodes {
		if r.Chance(60) {
			nd.Next = pick()
		}
		if r.Chance(12) {
			nd.Next = nd // forced self-loop
		}
		if r.Chance(50) {
			k := r.Intn(4)
			nd.Kids = make([]*GN, k, k+r.Intn(3))
			for j := range nd.Kids {
				nd.Kids[j] = pick()
			}
			if cap(nd.Kids) > k && r.Chance(50) {
				nd.Kids[:cap(nd.Kids)][k] = pick() // beyond len, within cap
			}
		}
		if r.Chance(35) {
			if r.Chance(30) {
				nd.M = sharedM
			} else {
				nd.M = map[string]*GN{}
				for j := r.Intn(3); j >= 0; j-- {
					nd.M[fmt.Sprintf("k%d", r.Intn(4))] = pick()
				}
			}
		}
		if r.Chance(30) {
			nd.Arr = [2]*GN{pick(), pick()}
		}
		if r.Chance(35) {
			nd.Edges[0] = GEdge{Label: "e", To: pick()}
			if r.Chance(50) {
				nd.Edges[1] = GEdge{To: nd, Via: sharedM}
			}
		}
		if r.Chance(20) {
			nd.Grid = [2][1]*GN{{pick()}, {nd}}
		}
		switch x := r.Intn(100); {
		case x < 20:
			nd.Any = pick() // may be a typed nil pointer
		case x < 28:
			nd.Any = nd // interface back-reference
		case x < 34:
			nd.Any = *nodes[r.Intn(n)] // struct by value (shallow copy of the node)
		case x < 40:
			nd.Any = sharedM
		case x < 45:
			nd.Any = nd.Kids
		case x < 50:
			nd.Any = 7 + i
		case x < 54:
			nd.Any = shared[r.Intn(2)]
		case x < 57:
			nd.Any = [2]*GN{pick(), nd}
		}
		if r.Chance(40) {
			nd.Shared = shared[r.Intn(len(shared))]
		}
		if r.Chance(25) {
			a, b := shared[r.Intn(2)], shared[r.Intn(2)] // often the same map twice
			nd.MM = map[string]map[string]int{"a": a, "b": b}
			if r.Chance(30) {
				nd.MM["c"] = map[string]int{"own": i}
			}
		}
		if r.Chance(20) {
			nd.ME = map[string]GEdge{"x": {Label: "x", To: pick(), Via: sharedM}, "y": {To: nd, Via: sharedM}}
		}
		if r.Chance(25) {
			nd.priv = pick()
		}
		if r.Chance(25) {
			nd.Aside = pick()
		}
		if r.Chance(20) {
			nd.AsideMap = shared[r.Intn(len(shared))]
		}
		if r.Chance(25) {
			nd.Élan = pick()
		}
		if r.Chance(25) {
			nd.Ṫail = []*GN{pick(), nd}[:1+r.Intn(2)]
		}
		if r.Chance(20) {
			nd.Ấux = shared[r.Intn(len(shared))]
		}
		if r.Chance(25) {
			nd.Tags = []string{"t", fmt.Sprint(i)}[:1+r.Intn(2)]
		}
	}
	if r.Chance(40) && n > 1 { // forced 2-cycle
		nodes[0].Next, nodes[1].Next = nodes[1], nodes[0]
	}
	if r.Chance(40) { // diamond
		nodes[0].Kids = []*GN{nodes[n-1], nodes[n-1]}
	}
	for j := r.Intn(3); j > 0; j-- {
		sharedM[fmt.Sprintf("s%d", j)] = pick()
	}
	cfg := &GCfg{Root: nodes[0]}
	if r.Chance(50) {
		cfg.Other = nodes[r.Intn(n)]
	} else if r.Chance(30) {
		cfg.Other = sharedM
	}
	if r.Chance(60) {
		cfg.All = append([]*GN(nil), nodes...)
	}
	if r.Chance(40) {
		cfg.Idx = sharedM
	}
	if r.Chance(50) {
		cfg.Nums = make([]int, 2, 5)
		cfg.Nums[0], cfg.Nums[1] = 4, 5
		cfg.Nums[:5][3] = 9
	}
	if r.Chance(30) {
		cfg.Val = *nodes[r.Intn(n)]
	}
	if r.Chance(40) {
		cfg.Spare = nodes[r.Intn(n)]
	}
	return cfg
}

func genPGraph(r *RNG) *PCfg {
	n := 1 + r.Intn(10)
	nodes := make([]*PN, n)
	for i := range nodes {
		nodes[i] = &PN{Name: fmt.Sprintf("p%d", i)}
	}
	sh := map[string]int{"x": 1}
	shM := map[string]*PN{}
	pick := func() *PN {
		if r.Chance(15) {
			return nil
		}
		return nodes[r.Intn(n)]
	}
	for _, nd := range nodes {
		if r.Chance(60) {
			k := 1 + r.Intn(3)
			nd.Kids = make([]*PN, k, k+r.Intn(2))
			for j := range nd.Kids {
				nd.Kids[j] = pick()
			}
		}
		if r.Chance(15) {
			nd.Kids = []*PN{nd} // self-loop through a slice
		}
		if r.Chance(40) {
			if r.Chance(40) {
				nd.M = shM
			} else {
				nd.M = map[string]*PN{"a": pick(), "b": nd}
			}
		}
		if r.Chance(30) {
			nd.Arr = [2]*PN{pick(), pick()}
		}
		if r.Chance(35) {
			nd.Edges = [2]PEdge{{Label: "e", To: pick()}, {To: nd}}
		}
		if r.Chance(40) {
			nd.Shared = sh
		}
		if r.Chance(25) {
			nd.MM = map[string]map[string]int{"a": sh, "b": sh}
			if r.Chance(40) {
				nd.MM["b"] = map[string]int{"y": 2}
			}
		}
		if r.Chance(20) {
			nd.Tags = []string{"t"}
		}
		if r.Chance(25) {
			nd.Back = []*PN{pick(), nd}[:1+r.Intn(2)]
		}
		if r.Chance(20) {
			nd.Local = sh
		}
		if r.Chance(25) {
			nd.Ṫail = []*PN{pick(), nd}[:1+r.Intn(2)]
		}
		if r.Chance(20) {
			nd.Ấux = sh
		}
	}
	shM["s"] = pick()
	cfg := &PCfg{Kids: append([]*PN(nil), nodes[:1+r.Intn(n)]...)}
	if r.Chance(50) {
		cfg.Idx = shM
	}
	if r.Chance(50) {
		cfg.Pair = [2]*PN{pick(), pick()}
	}
	if r.Chance(50) {
		cfg.Nums = make([]int, 1, 4)
	}
	if r.Chance(50) {
		cfg.Share = sh
	}
	if r.Chance(40) {
		cfg.Spare = shM
		if r.Chance(50) {
			cfg.Spare = map[string]*PN{"first": nodes[0], "any": pick()}
		}
	}
	return cfg
}

// ---------- one case (runs in the child process) ----------

type c03Line struct {
	Idx        int       `json:"idx"`
	Start      bool      `json:"start,omitempty"`
	Canon      string    `json:"canon,omitempty"`
	Nontrivial bool      `json:"nontrivial,omitempty"`
	Sample     any       `json:"sample,omitempty"`
	Findings   []Finding `json:"findings,omitempty"`
	Dist       []string  `json:"dist,omitempty"`
}

// ---------- nodes stored by value (struct field, slice arena) with references into them ----------
//
// The heap model has no interior pointers, so this stream is judged by a direct oracle only.  The
// copier registers a by-value node when it starts copying it, so a reference is preserved when its
// target's copy has started before the reference is met: the generator only makes such references
// (a node refers to itself, to the head, or to arena nodes at or before its own index; the tail
// slice, copied last, refers to anything).
type INode struct {
	Name   string
	Next   *INode
	Peers  []*INode
	ByName map[string]*INode
}

type ICfg struct {
	Head  INode
	Arena []INode
	Tail  []*INode
}

func c03Interior(r *RNG, idx int) c03Line {
	line := c03Line{Idx: idx, Dist: []string{"via/interior-oracle"}}
	n := r.Intn(5)
	in := &ICfg{Arena: make([]INode, n, n+r.Intn(2))}
	in.Head.Name = "head"
	node := func(i int) *INode {
		if i < 0 {
			return &in.Head
		}
		return &in.Arena[i]
	}
	fill := func(self int) {
		x := node(self)
		pick := func() *INode {
			if r.Chance(20) {
				return nil
			}
			return node(r.Intn(self+2) - 1) // -1 (head) .. self
		}
		if self < 0 {
			pick = func() *INode {
				if r.Chance(30) {
					return nil
				}
				return &in.Head
			}
		}
		if r.Chance(60) {
			x.Next = pick()
		}
		if r.Chance(60) {
			k := 1 + r.Intn(3)
			x.Peers = make([]*INode, k)
			for j := range x.Peers {
				x.Peers[j] = pick()
			}
		}
		if r.Chance(40) {
			x.ByName = map[string]*INode{"a": pick(), "self": x}
		}
	}
	fill(-1)
	for i := 0; i < n; i++ {
		in.Arena[i].Name = fmt.Sprintf("n%d", i)
		fill(i)
	}
	for k := r.Intn(4); k > 0; k-- {
		in.Tail = append(in.Tail, node(r.Intn(n+1)-1))
	}
	idxOf := func(c *ICfg, p *INode) int {
		switch {
		case p == nil:
			return -2
		case p == &c.Head:
			return -1
		}
		for j := range c.Arena {
			if p == &c.Arena[j] {
				return j
			}
		}
		return -3 // a node outside the value: a detached duplicate
	}
	render := func(c *ICfg) string {
		var b strings.Builder
		one := func(x *INode) {
			fmt.Fprintf(&b, "%s next=%d peers=[", x.Name, idxOf(c, x.Next))
			for _, p := range x.Peers {
				fmt.Fprintf(&b, "%d ", idxOf(c, p))
			}
			b.WriteString("] byname={")
			keys := make([]string, 0, len(x.ByName))
			for k := range x.ByName {
				keys = append(keys, k)
			}
			sort.Strings(keys)
			for _, k := range keys {
				fmt.Fprintf(&b, "%s:%d ", k, idxOf(c, x.ByName[k]))
			}
			b.WriteString("}; ")
		}
		one(&c.Head)
		for j := range c.Arena {
			one(&c.Arena[j])
		}
		b.WriteString("tail=[")
		for _, p := range c.Tail {
			fmt.Fprintf(&b, "%d ", idxOf(c, p))
		}
		b.WriteString("]")
		return b.String()
	}
	before := render(in)
	cs := map[string]any{"via": "VerifDeepCopy (nodes stored by value)", "graph": before}
	line.Canon = "interior " + before
	line.Sample = cs
	line.Nontrivial = n >= 1 && strings.Contains(before, "-1")
	var out *ICfg
	pn := catch(func() { out = dials.VerifDeepCopy(reflect.ValueOf(in)).Interface().(*ICfg) })
	if pn != "" {
		line.Findings = append(line.Findings, Finding{Kind: "violation", What: "copy failed: " + pn, Case: cs})
		return line
	}
	if after := render(out); after != before {
		line.Findings = append(line.Findings, Finding{Kind: "violation", What: "references to nodes stored by value (struct field / slice arena) that were identical in the input are not identical in the copy (-3 = a detached duplicate node)", Case: cs, Expected: before, Observed: after})
	}
	if out == in || (n > 0 && &out.Arena[0] == &in.Arena[0]) {
		line.Findings = append(line.Findings, Finding{Kind: "violation", What: "the copy shares its by-value nodes with the input", Case: cs})
	}
	if render(in) != before {
		line.Findings = append(line.Findings, Finding{Kind: "violation", What: "the input was modified", Case: cs})
	}
	return line
}

// ---------- recursive nodes reachable through DIRECT pointer fields: a text-unmarshalable node type ----------
//
// Pointerify does not look inside a struct that implements encoding.TextUnmarshaler, so `*TN` can be a config field
// although TN is recursive.  Defaults and a source value both hold cyclic / shared TN graphs; the stacked config
// takes each field from the source if it set it, else from the defaults - with the identities inside each graph kept
// (a field taken from the source is the SAME node as the source's other references to it).  Direct oracle only.
type TN struct {
	Name string
	Next *TN
}

func (t *TN) UnmarshalText(b []byte) error { t.Name = string(b); return nil }

type TCfg struct {
	Head *TN
	Tail *TN
	All  []*TN
}

type tnSource struct{ v *TCfg }

func (s tnSource) Value(_ context.Context, t *dials.Type) (reflect.Value, error) {
	out := reflect.New(t.Type()).Elem()
	in := reflect.ValueOf(s.v).Elem()
	for i := 0; i < in.NumField(); i++ {
		f := in.Field(i)
		if (f.Kind() == reflect.Ptr || f.Kind() == reflect.Slice) && f.IsNil() {
			continue
		}
		out.Field(i).Set(f.Convert(out.Field(i).Type()))
	}
	return out, nil
}

func c03TUConfig(r *RNG, idx int) c03Line {
	line := c03Line{Idx: idx, Dist: []string{"via/Config+source (TextUnmarshaler nodes)"}}
	ring := func(prefix string, n int) []*TN {
		ns := make([]*TN, n)
		for i := range ns {
			ns[i] = &TN{Name: fmt.Sprintf("%s%d", prefix, i)}
		}
		for i := range ns {
			switch r.Intn(4) {
			case 0:
				ns[i].Next = ns[i] // self-loop
			case 1:
			default:
				ns[i].Next = ns[(i+1)%n]
			}
		}
		return ns
	}
	dn := ring("d", 1+r.Intn(3))
	def := &TCfg{}
	if r.Chance(75) {
		def.Head = dn[0]
	}
	if r.Chance(60) {
		def.Tail = dn[r.Intn(len(dn))] // may be the very node Head points to
	}
	if r.Chance(40) {
		def.All = append([]*TN(nil), dn...)
	}
	sn := ring("s", 1+r.Intn(3))
	src := &TCfg{}
	if r.Chance(75) {
		src.Head = sn[0]
	}
	if r.Chance(35) {
		src.Tail = sn[r.Intn(len(sn))]
	}
	if r.Chance(60) {
		src.All = append([]*TN(nil), sn[:1+r.Intn(len(sn))]...)
	}
	// the stack, field by field (the source's graph and the defaults' graph are disjoint)
	exp := &TCfg{Head: def.Head, Tail: def.Tail, All: def.All}
	if src.Head != nil {
		exp.Head = src.Head
	}
	if src.Tail != nil {
		exp.Tail = src.Tail
	}
	if src.All != nil {
		exp.All = src.All
	}
	strs := map[string]int{}
	want := canonGoExported(reflect.ValueOf(exp).Elem(), strs)
	defBefore := canonGoExported(reflect.ValueOf(def).Elem(), strs)
	srcBefore := canonGoExported(reflect.ValueOf(src).Elem(), strs)
	cs := map[string]any{"via": "Config with one source; recursive TextUnmarshaler nodes behind direct pointer fields", "defaults": defBefore, "source": srcBefore}
	line.Canon = "tu " + defBefore + " | " + srcBefore
	line.Sample = cs
	line.Nontrivial = def.Head != nil && src.Head != nil
	var out *TCfg
	var cerr error
	pn := catch(func() {
		d, err := dials.Config(context.Background(), def, tnSource{src})
		if err != nil {
			cerr = err
			return
		}
		out = d.View()
	})
	if pn != "" || cerr != nil {
		line.Findings = append(line.Findings, Finding{Kind: "violation", What: "Config failed: " + pn + fmt.Sprint(cerr), Case: cs})
		return line
	}
	if got := canonGoExported(reflect.ValueOf(out).Elem(), strs); got != want {
		line.Findings = append(line.Findings, Finding{Kind: "violation", What: "the stacked config is not isomorphic to the field-wise stack of the supplied graphs (values, identical references, cycles)", Case: cs, Expected: want, Observed: got})
	}
	if canonGoExported(reflect.ValueOf(def).Elem(), strs) != defBefore || canonGoExported(reflect.ValueOf(src).Elem(), strs) != srcBefore {
		line.Findings = append(line.Findings, Finding{Kind: "violation", What: "Config modified the defaults or the source's value", Case: cs})
	}
	_, inA := canonGo(reflect.ValueOf(def).Elem(), strs)
	_, inB := canonGo(reflect.ValueOf(src).Elem(), strs)
	_, outA := canonGo(reflect.ValueOf(out).Elem(), strs)
	for a := range outA {
		if inA[a] || inB[a] {
			line.Findings = append(line.Findings, Finding{Kind: "violation", What: "the stacked config shares memory with the defaults or the source's value", Case: cs})
			break
		}
	}
	return line
}

func c03Case(drv *Driver, r *RNG, idx int) c03Line {
	if r.Chance(10) {
		return c03Interior(r, idx)
	}
	if r.Chance(8) {
		return c03TUConfig(r, idx)
	}
	if r.Chance(8) {
		return c03KeyRefs(r, idx)
	}
	if r.Chance(7) {
		return c03NamedPtr(r, idx)
	}
	if r.Chance(7) {
		return c03IfacePayload(r, idx)
	}
	line := c03Line{Idx: idx}
	viaConfig := r.Chance(35)
	var in reflect.Value
	if viaConfig {
		in = reflect.ValueOf(genPGraph(r))
	} else {
		in = reflect.ValueOf(genGraph(r))
	}
	enc := &gEnc{addr: map[uintptr]int{}, strs: map[string]int{}}
	root := enc.enc(in.Elem())
	req := "hp copy " + strings.Join(enc.cells, " ") + " ; " + root
	strs := map[string]int{}
	for k, v := range enc.strs {
		strs[k] = v
	}
	before, inAddrs := canonGo(in.Elem(), strs)
	cs := map[string]any{"via": map[bool]string{true: "Config+View", false: "VerifDeepCopy"}[viaConfig], "graph": before, "cells": len(enc.cells)}
	var out reflect.Value
	var cerr error
	pn := catch(func() {
		if viaConfig {
			d, err := dials.Config(context.Background(), in.Interface().(*PCfg))
			if err != nil {
				cerr = err
				return
			}
			out = reflect.ValueOf(d.View())
		} else {
			out = dials.VerifDeepCopy(in)
		}
	})
	line.Dist = []string{"via/" + cs["via"].(string), fmt.Sprintf("cells=%d", min(len(enc.cells)/4*4, 40))}
	cyclic := strings.Count(before, "p#") > strings.Count(before, "=")+0 // some pointer rendered as a back/cross reference
	line.Nontrivial = len(enc.cells) >= 3 && cyclic
	line.Canon = req
	line.Sample = cs
	if pn != "" || cerr != nil {
		line.Findings = append(line.Findings, Finding{Kind: "violation", What: "copy failed: " + pn + fmt.Sprint(cerr), Case: cs})
		return line
	}
	after, outAddrs := canonGo(out.Elem(), strs)
	fresh := 1
	for a := range outAddrs {
		if inAddrs[a] {
			fresh = 0
		}
	}
	inAfter, _ := canonGo(in.Elem(), strs)
	frozen := 1
	if inAfter != before {
		frozen = 0
	}
	impl := fmt.Sprintf("ok %s fresh=%d frozen=%d", after, fresh, frozen)
	model := drv.Ask(req)
	if impl != model {
		line.Findings = append(line.Findings, Finding{Kind: "disagreement", What: "deep copy: model != implementation", Case: cs, Observed: impl, Model: model})
	}
	// direct oracles
	if be, ae := canonGoExported(in.Elem(), strs), canonGoExported(out.Elem(), strs); be != ae {
		line.Findings = append(line.Findings, Finding{Kind: "violation", What: "the copy is not isomorphic to the input (values, sharing of pointers/maps, cycles; exported part)", Case: cs, Expected: be, Observed: ae})
	}
	if !reflect.DeepEqual(in.Interface(), out.Interface()) {
		line.Findings = append(line.Findings, Finding{Kind: "violation", What: "the copy is not deeply equal to the input", Case: cs})
	}
	if fresh == 0 {
		line.Findings = append(line.Findings, Finding{Kind: "violation", What: "the copy shares memory with the input through exported fields", Case: cs})
	}
	if frozen == 0 {
		line.Findings = append(line.Findings, Finding{Kind: "violation", What: "the input was modified", Case: cs, Expected: before, Observed: inAfter})
	}
	return line
}

func init() {
	register("C03", checkC03)
	execOneHandlers["c03"] = c03Child
	execOneHandlers["c03probe"] = c03Probe
}

// child: vh exec-one c03 <driver> <seed> <from> <to>
func c03Child(args []string) {
	debug.SetMaxStack(256 << 20)
	drv, err := StartDriver(args[0])
	if err != nil {
		os.Exit(3)
	}
	seed, _ := strconv.ParseUint(args[1], 10, 64)
	from, _ := strconv.Atoi(args[2])
	to, _ := strconv.Atoi(args[3])
	w := bufio.NewWriter(os.Stdout)
	for i := from; i < to; i++ {
		b, _ := json.Marshal(c03Line{Idx: i, Start: true})
		w.Write(b)
		w.WriteByte('\n')
		w.Flush()
		r := NewRNG(seed*1000003 + uint64(i))
		b, _ = json.Marshal(c03Case(drv, r, i))
		w.Write(b)
		w.WriteByte('\n')
		w.Flush()
	}
	drv.Close()
}

// probes for the listed findings; each runs alone in a child and is expected to crash there
func c03Probe(args []string) {
	debug.SetMaxStack(64 << 20)
	switch args[0] {
	case "D3-ptr-recursive-type":
		type L struct {
			V    int
			Next *L
		}
		dials.Config(context.Background(), &struct{ Root *L }{Root: &L{V: 1}})
	case "D3b-iface-value-cycle":
		type A struct {
			Name string
			Any  any
		}
		a := &A{Name: "a"}
		a.Any = a
		dials.Config(context.Background(), &struct{ Root A }{Root: *a})
	case "D17-slice-self-cycle":
		s := make([]any, 1)
		s[0] = s
		dials.Config(context.Background(), &struct{ S []any }{S: s})
	}
	fmt.Println("PROBE-SURVIVED")
}

func checkC03(c *Ctx) {
	res := c.Res
	res.Rule = "random object graphs over a fixed family of recursive node types (1-12 nodes; edges through pointer, slice with spare capacity, map, array, interface, unexported field; " +
		"forced self-loops, 2-cycles, diamonds, shared maps, interface back-references, typed nil pointers in interfaces) through VerifDeepCopy, and over a Pointerify-compatible family through Config+View; " +
		"each case in a child process; implementation's copy vs the Lean heap model (canonical graph, freshness, input untouched) and vs direct oracles (isomorphism incl. sharing, DeepEqual, address disjointness). " +
		"non-trivial: >= 3 cells and at least one shared or cyclic reference; distinct = by encoded input heap"
	n := c.scale(1200, 40000)
	batch := 300
	self, _ := os.Executable()
	workers := 8
	type job struct{ from, to int }
	jobs := make(chan job, 1000)
	lines := make(chan c03Line, 1000)
	done := make(chan bool)
	for w := 0; w < workers; w++ {
		go func() {
			for j := range jobs {
				from := j.from
				for from < j.to {
					last, ok := runC03Child(self, c, from, j.to, lines)
					if ok {
						break
					}
					// the child died while working on case `last`
					lines <- c03Line{Idx: last, Canon: fmt.Sprintf("crash-%d", last), Findings: []Finding{{Kind: "violation",
						What: "the process died (stack overflow / fatal error) while copying this graph", Case: map[string]any{"seed": c.Seed, "index": last,
							"replay": fmt.Sprintf("vh exec-one c03 <driver> %d %d %d", c.Seed, last, last+1)}}}}
					from = last + 1
				}
			}
			done <- true
		}()
	}
	go func() {
		for f := 0; f < n; f += batch {
			t := f + batch
			if t > n {
				t = n
			}
			jobs <- job{f, t}
		}
		close(jobs)
	}()
	go func() {
		for w := 0; w < workers; w++ {
			<-done
		}
		close(lines)
	}()
	for l := range lines {
		for _, d := range l.Dist {
			res.Count(d)
		}
		res.Case(l.Canon, l.Nontrivial, l.Sample)
		for _, f := range l.Findings {
			res.Add(f)
		}
	}
	// listed findings: run each probe alone
	for _, id := range []string{"D3-ptr-recursive-type", "D3b-iface-value-cycle", "D17-slice-self-cycle"} {
		if !isKnown("C03", id) {
			continue
		}
		cmd := exec.Command(self, "exec-one", "c03probe", id)
		outb, _ := cmd.CombinedOutput()
		if !strings.Contains(string(outb), "PROBE-SURVIVED") {
			what := "Config never returns (fatal stack overflow in a child process)"
			res.Add(Finding{Kind: "known", KnownID: id, What: what, Case: map[string]any{"probe": id}})
		}
	}
}

func runC03Child(self string, c *Ctx, from, to int, lines chan<- c03Line) (last int, ok bool) {
	ctx, cancel := context.WithTimeout(context.Background(), 10*time.Minute)
	defer cancel()
	cmd := exec.CommandContext(ctx, self, "exec-one", "c03", c.DrvPath, fmt.Sprint(c.Seed), fmt.Sprint(from), fmt.Sprint(to))
	cmd.Env = append(os.Environ(), "GOMEMLIMIT=2GiB")
	outp, err := cmd.StdoutPipe()
	if err != nil {
		return from, false
	}
	if err := cmd.Start(); err != nil {
		return from, false
	}
	sc := bufio.NewScanner(outp)
	sc.Buffer(make([]byte, 1<<20), 1<<26)
	last = from
	finished := map[int]bool{}
	for sc.Scan() {
		var l c03Line
		if json.Unmarshal(sc.Bytes(), &l) != nil {
			continue
		}
		if l.Start {
			last = l.Idx
			continue
		}
		finished[l.Idx] = true
		lines <- l
	}
	err = cmd.Wait()
	if err == nil && finished[to-1] {
		return to - 1, true
	}
	if finished[last] {
		last++
	}
	return last, last >= to
}
