package main

// C14 through ez itself: "files read through alias-wrapped decoders as ez does".  ez builds the file decoder's
// mangler chain from its Params: the alias mangler first, then - when Params.FileFieldNameEncoder is set - a tag
// reformatting mangler, so that the PRIMARY name and the ALIAS name are both looked up in the file's own naming
// convention.  Cases: aliased leaves at two depths, the four patterns each, with and without FileFieldNameEncoder /
// DialsTagNameDecoder, in JSON and YAML; environment and flags contribute nothing (private empty flag set).

import (
	"context"
	encjson "encoding/json"
	"fmt"
	"os"
	"path/filepath"
	"strconv"
	"strings"

	"github.com/vimeo/dials"
	"github.com/vimeo/dials/ez"
	dflag "github.com/vimeo/dials/sources/flag"
	cc "github.com/vimeo/dials/tagformat/caseconversion"
)

type c14EzDB struct {
	MaxConns int `dials:"maxConns" dialsalias:"connLimit"`
	IdleSecs int `dials:"idleSecs"`
}

type c14EzCache struct {
	Host    string `dials:"host"`
	TTLSecs int    `dials:"ttlSecs"`
}

type c14EzCfg struct {
	Path       string  `dials:"cfgFileNine"` // (names chosen so that no variable of the real environment matches)
	ListenAddr string  `dials:"listenAddr" dialsalias:"bindAddr"`
	Region     string  `dials:"zoneNine"`
	DB         c14EzDB `dials:"dbSettings"`
	// the alias sits on the struct-typed field itself: a section may be present as an EMPTY object, which is still
	// "supplied under that name"
	Cache c14EzCache `dials:"cacheSettings" dialsalias:"cacheOld"`
}

func (c *c14EzCfg) ConfigPath() (string, bool) { return c.Path, c.Path != "" }

func c14Ez(c *Ctx, n int) {
	r := c.RNG
	res := c.Res
	dir := filepath.Join(c.WorkDir, "c14ez")
	if c.WorkDir == "" {
		dir, _ = os.MkdirTemp("", "c14ez")
	}
	os.RemoveAll(dir)
	os.MkdirAll(dir, 0o755)
	defer os.RemoveAll(dir)
	type enc struct {
		name string
		fn   cc.EncodeCasingFunc
	}
	encs := []enc{{"none", nil}, {"lower_snake", cc.EncodeLowerSnakeCase}, {"kebab", cc.EncodeKebabCase}, {"UPPER_SNAKE", cc.EncodeUpperSnakeCase}, {"lowerCamel", cc.EncodeLowerCamelCase}}
	words := func(camel string) []string {
		ws, _ := cc.DecodeLowerCamelCase(camel)
		return ws
	}
	for i := 0; i < n; i++ {
		e := encs[r.Intn(len(encs))]
		key := func(camel string) string {
			if e.fn == nil {
				return camel
			}
			return e.fn(words(camel))
		}
		format := []string{"json", "yaml"}[r.Intn(2)]
		pTop, pDeep := r.Intn(4), r.Intn(4)
		if pTop == 3 && pDeep == 3 {
			pDeep = r.Intn(3)
		}
		addr1, addr2 := fmt.Sprintf(":%d", 1000+r.Intn(9000)), fmt.Sprintf(":%d", 10000+r.Intn(9000))
		conns1, conns2 := 1+r.Intn(500), 1000+r.Intn(500)
		doc := map[string]any{key("zoneNine"): "file-region"}
		db := map[string]any{key("idleSecs"): 7}
		if pTop == 1 || pTop == 3 {
			doc[key("listenAddr")] = addr1
		}
		if pTop == 2 || pTop == 3 {
			doc[key("bindAddr")] = map[bool]string{true: addr2, false: addr1}[pTop == 3]
		}
		if pDeep == 1 || pDeep == 3 {
			db[key("maxConns")] = conns1
		}
		if pDeep == 2 || pDeep == 3 {
			db[key("connLimit")] = map[bool]int{true: conns2, false: conns1}[pDeep == 3]
		}
		doc[key("dbSettings")] = db
		pCache := r.Intn(4)
		if (pTop == 3 || pDeep == 3) && pCache == 3 {
			pCache = r.Intn(3)
		}
		section := func(host string) map[string]any {
			if r.Chance(40) {
				return map[string]any{} // present, empty
			}
			return map[string]any{key("host"): host}
		}
		var cachePrimary, cacheAlias map[string]any
		if pCache == 1 || pCache == 3 {
			cachePrimary = section("cache-primary")
			doc[key("cacheSettings")] = cachePrimary
		}
		if pCache == 2 || pCache == 3 {
			cacheAlias = section("cache-alias")
			doc[key("cacheOld")] = cacheAlias
		}
		text, _ := encjson.Marshal(doc) // JSON is also YAML
		path := filepath.Join(dir, fmt.Sprintf("cfg%d.%s", i, format))
		os.WriteFile(path, text, 0o644)
		cs := map[string]any{"source": "ez", "format": format, "FileFieldNameEncoder": e.name, "file": string(text), "patterns": strconv.Itoa(pTop) + strconv.Itoa(pDeep) + strconv.Itoa(pCache)}
		fs, ferr := dflag.NewSetWithArgs(dflag.DefaultFlagNameConfig(), &c14EzCfg{}, nil)
		if ferr != nil {
			res.Add(Finding{Kind: "violation", What: "ez stream: cannot build an empty flag set: " + ferr.Error(), Case: cs})
			continue
		}
		params := ez.Params[c14EzCfg]{FlagSource: fs, FileFieldNameEncoder: e.fn}
		if e.fn != nil {
			params.DialsTagNameDecoder = cc.DecodeLowerCamelCase
		}
		defaults := &c14EzCfg{Path: path, ListenAddr: "default-addr", Region: "default-region", DB: c14EzDB{MaxConns: -1, IdleSecs: -1}, Cache: c14EzCache{Host: "default-cache", TTLSecs: 30}}
		var d *dials.Dials[c14EzCfg]
		var err error
		pn := catch(func() {
			if format == "json" {
				d, err = ez.JSONConfigEnvFlag(context.Background(), defaults, params)
			} else {
				d, err = ez.YAMLConfigEnvFlag(context.Background(), defaults, params)
			}
		})
		os.Remove(path)
		res.Count("source/ez/" + format + "/encoder=" + e.name)
		both := ""
		if pTop == 3 {
			both = "ListenAddr"
		}
		if pDeep == 3 {
			both = "MaxConns"
		}
		if pCache == 3 {
			both = "Cache"
		}
		switch {
		case pn != "":
			res.Add(Finding{Kind: "violation", What: "ez: panicked: " + pn, Case: cs})
		case both != "":
			if err == nil {
				res.Add(Finding{Kind: "violation", What: fmt.Sprintf("ez: primary and alias of field %s both present in the file, but no error", both), Case: cs, Observed: fmt.Sprintf("%+v", *d.View())})
			} else if !strings.Contains(err.Error(), both) {
				res.Add(Finding{Kind: "violation", What: fmt.Sprintf("ez: the error for a doubly supplied field does not name it (%s)", both), Case: cs, Observed: err.Error()})
			}
		case err != nil:
			res.Add(Finding{Kind: "violation", What: "ez: failed although no field is supplied under both names", Case: cs, Observed: err.Error()})
		default:
			v := d.View()
			wantAddr, wantConns := "default-addr", -1
			if pTop != 0 {
				wantAddr = addr1
			}
			if pDeep != 0 {
				wantConns = conns1
			}
			wantCache := c14EzCache{Host: "default-cache", TTLSecs: 30}
			for _, sec := range []map[string]any{cachePrimary, cacheAlias} {
				if h, ok := sec[key("host")]; ok {
					wantCache.Host = h.(string)
				}
			}
			if v.Cache != wantCache {
				res.Add(Finding{Kind: "violation", What: fmt.Sprintf("ez: the aliased section Cache supplied under %s: wrong config", []string{"neither name", "the primary name", "the alias name"}[pCache]), Case: cs,
					Expected: fmt.Sprintf("%+v", wantCache), Observed: fmt.Sprintf("%+v", v.Cache)})
			}
			if v.ListenAddr != wantAddr || v.DB.MaxConns != wantConns || v.Region != "file-region" || v.DB.IdleSecs != 7 {
				kind := []string{"neither name", "the primary name", "the alias name"}
				res.Add(Finding{Kind: "violation", What: fmt.Sprintf("ez: ListenAddr supplied under %s, DB.MaxConns under %s (file keys in the file's naming convention): wrong config", kind[pTop], kind[pDeep]), Case: cs,
					Expected: fmt.Sprintf("ListenAddr=%s Region=file-region DB.MaxConns=%d DB.IdleSecs=7", wantAddr, wantConns), Observed: fmt.Sprintf("%+v", *v)})
			}
		}
		res.Case(fmt.Sprintf("Z|%s|%s|%d%d%d|%s", format, e.name, pTop, pDeep, pCache, text), true, cs)
	}
}
