package main

// C01: layer precedence.  Random config struct types (reflect.StructOf plus a static corpus of
// declared types with unexported / embedded fields), random defaults and layers; the real compose
// (hook VerifCompose) and the real Pointerify are compared with the Lean overlay model and with a
// leaf-wise oracle written directly from the property statement.

import (
	"encoding"
	"fmt"
	"reflect"
	"strings"
	"time"
	"unicode"
	"unicode/utf8"

	"github.com/vimeo/dials"
	"github.com/vimeo/dials/ptrify"
)

type tuPtr struct{ X int }

func (t *tuPtr) UnmarshalText(b []byte) error { _, err := fmt.Sscan(string(b), &t.X); return err }

type myInt int
type myStr string

var (
	theChan = make(chan int)
	theFunc = func() {}
	tuIface = reflect.TypeOf((*encoding.TextUnmarshaler)(nil)).Elem()
)

// typeTable assigns the model's type tags to Go types.
type typeTable struct {
	ids map[reflect.Type]int
}

func (tt *typeTable) id(t reflect.Type) int {
	if id, ok := tt.ids[t]; ok {
		return id
	}
	id := len(tt.ids) + 1
	tt.ids[t] = id
	return id
}

func isTUStruct(t reflect.Type) bool {
	return t.Kind() == reflect.Struct && (t.Implements(tuIface) || reflect.PtrTo(t).Implements(tuIface))
}

func fieldFlag(f reflect.StructField) string {
	if f.PkgPath != "" {
		return "u"
	}
	if v, ok := f.Tag.Lookup("dials"); ok && v == "-" {
		return "d"
	}
	return "e"
}

// tyDesc renders a Go type in the model's token syntax (harness-owned walker, independent of ptrify).
func (tt *typeTable) tyDesc(t reflect.Type) string {
	switch t.Kind() {
	case reflect.Struct:
		if isTUStruct(t) {
			return fmt.Sprintf("T%d", tt.id(t))
		}
		var b strings.Builder
		b.WriteString("{")
		for i := 0; i < t.NumField(); i++ {
			f := t.Field(i)
			b.WriteString(" " + fieldFlag(f) + " " + tt.tyDesc(f.Type))
		}
		b.WriteString(" }")
		return b.String()
	case reflect.Ptr:
		return "P " + tt.tyDesc(t.Elem())
	case reflect.Slice:
		return fmt.Sprintf("L%d", tt.id(t))
	case reflect.Map:
		return fmt.Sprintf("M%d", tt.id(t))
	case reflect.Chan:
		return "C"
	case reflect.Func:
		return "F"
	case reflect.Interface:
		return "I"
	default:
		return fmt.Sprintf("S%d", tt.id(t))
	}
}

// ---------- payload encoding: a Nat code <-> a Go value of a leaf type ----------

func encodeLeaf(t reflect.Type, x int) reflect.Value {
	v := reflect.New(t).Elem()
	switch t.Kind() {
	case reflect.Int, reflect.Int8, reflect.Int16, reflect.Int32, reflect.Int64:
		v.SetInt(int64(x))
	case reflect.Uint, reflect.Uint8, reflect.Uint16, reflect.Uint32, reflect.Uint64:
		v.SetUint(uint64(x))
	case reflect.Float32, reflect.Float64:
		v.SetFloat(float64(x))
	case reflect.Bool:
		v.SetBool(x != 0)
	case reflect.String:
		if x != 0 {
			v.SetString(fmt.Sprintf("s%d", x))
		}
	case reflect.Array:
		for i := 0; i < t.Len(); i++ {
			v.Index(i).Set(encodeLeaf(t.Elem(), x))
		}
	case reflect.Struct:
		switch t {
		case reflect.TypeOf(time.Time{}):
			if x != 0 {
				v.Set(reflect.ValueOf(time.Unix(int64(x), 0).UTC()))
			}
		case reflect.TypeOf(tuPtr{}):
			v.Field(0).SetInt(int64(x))
		case c01ExpiryTU:
			if x != 0 {
				v.Field(0).Set(reflect.ValueOf(time.Unix(int64(x), 0).UTC()))
			}
		}
	}
	return v
}

func decodeLeaf(v reflect.Value) int {
	t := v.Type()
	switch t.Kind() {
	case reflect.Int, reflect.Int8, reflect.Int16, reflect.Int32, reflect.Int64:
		return int(v.Int())
	case reflect.Uint, reflect.Uint8, reflect.Uint16, reflect.Uint32, reflect.Uint64:
		return int(v.Uint())
	case reflect.Float32, reflect.Float64:
		return int(v.Float())
	case reflect.Bool:
		if v.Bool() {
			return 1
		}
		return 0
	case reflect.String:
		var x int
		fmt.Sscanf(v.String(), "s%d", &x)
		return x
	case reflect.Array:
		if t.Len() == 0 {
			return 0
		}
		return decodeLeaf(v.Index(0))
	case reflect.Struct:
		switch t {
		case reflect.TypeOf(time.Time{}):
			tm := v.Interface().(time.Time)
			if tm.IsZero() {
				return 0
			}
			return int(tm.Unix())
		case reflect.TypeOf(tuPtr{}):
			return int(v.Field(0).Int())
		case c01ExpiryTU:
			tm := v.Field(0).Interface().(time.Time)
			if tm.IsZero() {
				return 0
			}
			return int(tm.Unix())
		}
	}
	return -1
}

func maxCode(t reflect.Type) int {
	switch t.Kind() {
	case reflect.Bool:
		return 1
	case reflect.Int8, reflect.Uint8:
		return 100
	case reflect.Array:
		return maxCode(t.Elem())
	}
	return 1000
}

// collections: contents id c  <->  a non-nil slice/map
func encodeColl(t reflect.Type, c int) reflect.Value {
	switch t.Kind() {
	case reflect.Slice:
		n := 1 + c%3
		s := reflect.MakeSlice(t, n, n+c%2)
		for i := 0; i < n; i++ {
			s.Index(i).Set(encodeLeaf(t.Elem(), c%(maxCode(t.Elem())+1)))
		}
		// the id is carried by the length and element together; keep it recoverable
		return s
	case reflect.Map:
		m := reflect.MakeMap(t)
		m.SetMapIndex(encodeLeaf(t.Key(), 1), encodeLeaf(t.Elem(), c))
		return m
	}
	panic("encodeColl")
}

func decodeColl(v reflect.Value) int {
	switch v.Kind() {
	case reflect.Slice:
		if v.Len() == 0 {
			return 0
		}
		return decodeLeaf(v.Index(0))*3 + (v.Len() - 1)
	case reflect.Map:
		it := v.MapRange()
		for it.Next() {
			return decodeLeaf(it.Value())*3 + v.Len()
		}
		return 0
	}
	return -1
}

// valDesc renders a Go value (of the base type or of the pointerified type) in the model's syntax.
func valDesc(v reflect.Value) string {
	t := v.Type()
	switch t.Kind() {
	case reflect.Struct:
		if isTUStruct(t) {
			return fmt.Sprint(decodeLeaf(v))
		}
		parts := []string{"("}
		for i := 0; i < t.NumField(); i++ {
			parts = append(parts, valDesc(v.Field(i)))
		}
		parts = append(parts, ")")
		return strings.Join(parts, " ")
	case reflect.Ptr:
		if v.IsNil() {
			return "-"
		}
		return "& " + valDesc(v.Elem())
	case reflect.Slice, reflect.Map:
		if v.IsNil() {
			return "-"
		}
		return fmt.Sprint(decodeColl(v))
	case reflect.Chan, reflect.Func:
		if v.IsNil() {
			return "0"
		}
		return "1"
	default:
		return fmt.Sprint(decodeLeaf(v))
	}
}

// ---------- type generation ----------

var c01Scalars = []reflect.Type{
	reflect.TypeOf(0), reflect.TypeOf(""), reflect.TypeOf(false), reflect.TypeOf(float64(0)), reflect.TypeOf(time.Duration(0)),
	reflect.TypeOf([2]int{}), reflect.TypeOf(uint8(0)), reflect.TypeOf(myInt(0)), reflect.TypeOf(myStr("")), reflect.TypeOf(int32(0)),
}
var c01Colls = []reflect.Type{reflect.TypeOf([]int(nil)), reflect.TypeOf([]string(nil)), reflect.TypeOf(map[string]int(nil)), reflect.TypeOf([]myInt(nil))}
var c01TUs = []reflect.Type{reflect.TypeOf(time.Time{}), reflect.TypeOf(tuPtr{})}

// declared types with unexported and embedded fields (reflect.StructOf cannot build these)
type c01Emb struct {
	EA int
	eb string
	EC *int
}
type C01Pub struct {
	PA string
	PB []int
}
type c01Static1 struct {
	A    int
	hid  int
	B    string `dials:"-"`
	C    *c01Emb
	done chan int
	D    []string
	c01Emb
}
type c01Static2 struct {
	x func()
	C01Pub
	T     time.Time
	PT    *time.Time
	P     *int
	Inner struct {
		y  int
		Z  float64
		Ch chan int
		W  *tuPtr
	}
}
type c01Static3 struct {
	N *struct {
		S []int
		M map[string]int
		P *int
	}
	PP **int
	E  struct{}
	PE *struct{}
	F  func()
	q  *c01Emb
	Z  myInt
}

// two DIFFERENT types that print alike ("main.Expiry"): one is a text-unmarshalable leaf (it embeds time.Time),
// the other an ordinary nested config struct that must be merged field by field
func c01MkExpiryTU() reflect.Type {
	type Expiry struct{ time.Time }
	return reflect.TypeOf(Expiry{})
}
func c01MkExpiryPlain() reflect.Type {
	type Expiry struct{ Soft, Hard int }
	return reflect.TypeOf(Expiry{})
}

var c01ExpiryTU, c01ExpiryPlain = c01MkExpiryTU(), c01MkExpiryPlain()

var c01Statics = []reflect.Type{reflect.TypeOf(c01Static1{}), reflect.TypeOf(c01Static2{}), reflect.TypeOf(c01Static3{})}

// aliasLeaves lets leaves of identical reference type (pointers to NON-struct types, maps, slices) inside v
// share their memory, as a caller who sets two fields from one variable does.  Such leaves are replaced
// wholesale by a layer that sets them, so the leaf-wise precedence rule is unaffected: setting one of them
// must not change the other.  (Pointers to structs are merged in place by design and are left alone.)
func aliasLeaves(r *RNG, v reflect.Value) {
	byType := map[reflect.Type][]reflect.Value{}
	var walk func(x reflect.Value, depth int)
	walk = func(x reflect.Value, depth int) {
		if depth > 5 {
			return
		}
		switch x.Kind() {
		case reflect.Struct:
			if isTUStruct(x.Type()) {
				return
			}
			for i := 0; i < x.NumField(); i++ {
				if x.Field(i).CanSet() {
					walk(x.Field(i), depth+1)
				}
			}
		case reflect.Ptr:
			if x.Type().Elem().Kind() == reflect.Struct && !isTUStruct(x.Type().Elem()) {
				if !x.IsNil() {
					walk(x.Elem(), depth+1)
				}
				return
			}
			byType[x.Type()] = append(byType[x.Type()], x)
		case reflect.Map, reflect.Slice:
			byType[x.Type()] = append(byType[x.Type()], x)
		}
	}
	walk(v, 0)
	for _, vs := range byType {
		if len(vs) >= 2 && r.Chance(40) {
			a, b := vs[r.Intn(len(vs))], vs[r.Intn(len(vs))]
			if a.CanSet() && !b.IsNil() {
				a.Set(b)
			}
		}
	}
}

func genFieldType(r *RNG, depth int) reflect.Type {
	x := r.Intn(100)
	switch {
	case x < 30:
		return c01Scalars[r.Intn(len(c01Scalars))]
	case x < 40:
		return c01Colls[r.Intn(len(c01Colls))]
	case x < 47:
		return c01TUs[r.Intn(len(c01TUs))]
	case x < 52:
		return reflect.PtrTo(c01TUs[r.Intn(len(c01TUs))])
	case x < 60:
		return reflect.PtrTo(c01Scalars[r.Intn(len(c01Scalars))])
	case x < 63:
		return reflect.PtrTo(reflect.PtrTo(c01Scalars[r.Intn(len(c01Scalars))]))
	case x < 66:
		return reflect.PtrTo(c01Colls[r.Intn(len(c01Colls))])
	case x < 68:
		return []reflect.Type{c01ExpiryTU, c01ExpiryPlain, reflect.PtrTo(c01ExpiryPlain), reflect.PtrTo(c01ExpiryTU)}[r.Intn(4)]
	case x < 70:
		return reflect.TypeOf((chan int)(nil))
	case x < 73:
		return reflect.TypeOf((func())(nil))
	case x < 86 && depth > 0:
		return genStructType(r, depth-1)
	case depth > 0:
		return reflect.PtrTo(genStructType(r, depth-1))
	default:
		return c01Scalars[r.Intn(len(c01Scalars))]
	}
}

func genStructType(r *RNG, depth int) reflect.Type {
	n := r.Intn(6)
	if r.Chance(5) {
		n = 0
	}
	fs := make([]reflect.StructField, n)
	for i := range fs {
		fs[i] = reflect.StructField{Name: fmt.Sprintf("%s%d", uniPrefix(r), i), Type: genFieldType(r, depth)}
		if r.Chance(12) {
			fs[i].Tag = `dials:"-"`
		} else if r.Chance(20) {
			fs[i].Tag = reflect.StructTag(fmt.Sprintf(`dials:"f%d"`, i))
		}
	}
	return reflect.StructOf(fs)
}

// genBase fills a value of a base type with random contents (settable fields only; declared types
// get their unexported fields through unsafe-free constructors below).
func genBase(r *RNG, v reflect.Value, depth int) {
	t := v.Type()
	switch t.Kind() {
	case reflect.Struct:
		if isTUStruct(t) {
			v.Set(encodeLeaf(t, r.Intn(40)))
			return
		}
		for i := 0; i < t.NumField(); i++ {
			if v.Field(i).CanSet() {
				genBase(r, v.Field(i), depth)
			}
		}
	case reflect.Ptr:
		if r.Chance(45) {
			return
		}
		p := reflect.New(t.Elem())
		genBase(r, p.Elem(), depth)
		v.Set(p)
	case reflect.Slice, reflect.Map:
		if r.Chance(40) {
			return
		}
		v.Set(encodeColl(t, r.Intn(30)))
	case reflect.Chan:
		if r.Chance(60) {
			v.Set(reflect.ValueOf(theChan))
		}
	case reflect.Func:
		if r.Chance(60) {
			v.Set(reflect.ValueOf(theFunc))
		}
	default:
		if r.Chance(70) {
			v.Set(encodeLeaf(t, r.Intn(maxCode(t)+1)))
		}
	}
}

// genLayer fills a value of the pointerified type: every field set or left nil.
func genLayer(r *RNG, v reflect.Value, pset int) {
	t := v.Type()
	for i := 0; i < t.NumField(); i++ {
		f := v.Field(i)
		if !f.CanSet() || !r.Chance(pset) {
			continue
		}
		switch f.Kind() {
		case reflect.Ptr:
			et := f.Type().Elem()
			p := reflect.New(et)
			if et.Kind() == reflect.Struct && !isTUStruct(et) {
				genLayer(r, p.Elem(), pset)
			} else {
				genBase(r, p.Elem(), 0)
				if et.Kind() != reflect.Ptr && et.Kind() != reflect.Slice && et.Kind() != reflect.Map && p.Elem().CanSet() && isLeafKind(et) {
					p.Elem().Set(encodeLeaf(et, 1+r.Intn(maxCode(et))))
				}
			}
			f.Set(p)
		case reflect.Slice, reflect.Map:
			f.Set(encodeColl(f.Type(), 1+r.Intn(30)))
		}
	}
}

func isLeafKind(t reflect.Type) bool {
	switch t.Kind() {
	case reflect.Chan, reflect.Func, reflect.Interface, reflect.Ptr, reflect.Slice, reflect.Map:
		return false
	case reflect.Struct:
		return isTUStruct(t)
	}
	return true
}

// ---------- direct oracle: the property statement evaluated by reflection ----------

func skippedGo(f reflect.StructField) bool {
	if f.PkgPath != "" {
		return true
	}
	if v, ok := f.Tag.Lookup("dials"); ok && v == "-" {
		return true
	}
	return f.Type.Kind() == reflect.Chan || f.Type.Kind() == reflect.Func
}

// expectStruct computes the expected description of the stacked struct: base is a value of struct
// type t (or invalid = all zero, below a nil pointer), layers are values of the corresponding
// pointerified struct (only those in which this struct is present).
func expectStruct(t reflect.Type, base reflect.Value, layers []reflect.Value) string {
	parts := []string{"("}
	j := 0
	for i := 0; i < t.NumField(); i++ {
		f := t.Field(i)
		var bf reflect.Value
		if base.IsValid() {
			bf = base.Field(i)
		} else {
			bf = reflect.Zero(f.Type)
		}
		if skippedGo(f) {
			parts = append(parts, valDesc(bf))
			continue
		}
		var lf []reflect.Value
		for _, l := range layers {
			lf = append(lf, l.Field(j))
		}
		j++
		parts = append(parts, expectField(f.Type, bf, lf))
	}
	parts = append(parts, ")")
	return strings.Join(parts, " ")
}

func expectField(t reflect.Type, base reflect.Value, layers []reflect.Value) string {
	isStructPtr := t.Kind() == reflect.Ptr && t.Elem().Kind() == reflect.Struct && !isTUStruct(t.Elem())
	isStruct := t.Kind() == reflect.Struct && !isTUStruct(t)
	switch {
	case isStruct:
		var present []reflect.Value
		for _, l := range layers {
			if !l.IsNil() {
				present = append(present, l.Elem())
			}
		}
		return expectStruct(t, base, present)
	case isStructPtr:
		var present []reflect.Value
		for _, l := range layers {
			if !l.IsNil() {
				present = append(present, l.Elem())
			}
		}
		if base.IsNil() && len(present) == 0 {
			return "-"
		}
		var b reflect.Value
		if !base.IsNil() {
			b = base.Elem()
		}
		return "& " + expectStruct(t.Elem(), b, present)
	default:
		// leaf: last layer that set it, else the default; replaced as a whole
		for k := len(layers) - 1; k >= 0; k-- {
			l := layers[k]
			if l.IsNil() {
				continue
			}
			if l.Type() == t {
				return valDesc(l) // nil-able leaf kept as is (slice, map, user pointer)
			}
			return valDesc(l.Elem()) // pointerified leaf
		}
		return valDesc(base)
	}
}

// ptFieldSets walks the config type and its pointerified counterpart in parallel: at every struct, the field names
// Pointerify kept against the ones it must keep.  Returns the path of the first struct where they differ.
func ptFieldSets(T, PT reflect.Type, path string) (string, []string, []string) {
	var wantNames, gotNames []string
	var wantFields []reflect.StructField
	for k := 0; k < T.NumField(); k++ {
		f := T.Field(k)
		first, _ := utf8.DecodeRuneInString(f.Name)
		if k := f.Type.Kind(); k == reflect.Chan || k == reflect.Func {
			continue // channels and functions are not configuration
		}
		if unicode.IsUpper(first) && f.Tag.Get("dials") != "-" {
			wantNames = append(wantNames, f.Name)
			wantFields = append(wantFields, f)
		}
	}
	for k := 0; k < PT.NumField(); k++ {
		gotNames = append(gotNames, PT.Field(k).Name)
	}
	if !reflect.DeepEqual(wantNames, gotNames) && (len(wantNames)+len(gotNames) > 0) {
		return path, wantNames, gotNames
	}
	for k, f := range wantFields {
		ft, pt := f.Type, PT.Field(k).Type
		if ft.Kind() == reflect.Ptr {
			ft = ft.Elem()
		}
		if ft.Kind() != reflect.Struct || isTUStruct(ft) || pt.Kind() != reflect.Ptr || pt.Elem().Kind() != reflect.Struct {
			continue
		}
		if w, a, b := ptFieldSets(ft, pt.Elem(), path+"."+f.Name); w != "" {
			return w, a, b
		}
	}
	return "", nil, nil
}

func init() { register("C01", checkC01) }

func checkC01(c *Ctx) {
	r := c.RNG
	res := c.Res
	res.Rule = "random config struct types (reflect.StructOf: depth <= 3, <= 5 fields per struct; scalars, arrays, strings, durations, named types, text-unmarshalers, slices, maps, " +
		"user pointers incl. **T, nested and pointer structs, chan/func and dials:\"-\" fields in any position) plus three declared types with unexported and embedded fields; random defaults; 0-5 layers " +
		"built on the real Pointerify output with random set/unset patterns, passed as struct or pointer; real compose (VerifCompose) vs Lean model, real Pointerify vs model ptrify, and a leaf-wise oracle. " +
		"plus (garbage collector switched off) the same defaults object handed to Config twice with an edit in between, and a watching source that sets map / slice / pointer leaves and then stops setting them (oracle only). " +
		"non-trivial: >= 2 layers and >= 1 skipped field or nested struct; distinct = by canonical case text"
	n := c.scale(2500, 80000)
	c01Reuse(c, c.scale(60, 1500))
	c01Deep(c, c.scale(100, 2500))
	for i := 0; i < n; i++ {
		tt := &typeTable{ids: map[reflect.Type]int{}}
		var T reflect.Type
		if r.Chance(12) {
			T = c01Statics[r.Intn(len(c01Statics))]
		} else {
			T = genStructType(r, 1+r.Intn(3))
		}
		def := reflect.New(T)
		genBase(r, def.Elem(), 3)
		aliasLeaves(r, def.Elem())
		defDesc := valDesc(def.Elem()) // before compose: inputs must not change (C02 checks that in depth)
		tDesc := tt.tyDesc(T)
		cs := map[string]any{"type": T.String(), "model_type": tDesc, "default": defDesc}
		var PT reflect.Type
		pErr := catch(func() { PT = ptrify.Pointerify(T, def.Elem()) })
		if pErr != "" {
			res.Add(Finding{Kind: "violation", What: "Pointerify panicked: " + pErr, Case: cs})
			continue
		}
		// regenerated tie for the type translation
		if rep := c.Drv.Ask("ov ptrify " + tDesc); rep != "ok "+tt.tyDesc(PT) {
			res.Add(Finding{Kind: "disagreement", What: "Pointerify: model != implementation", Case: cs, Observed: tt.tyDesc(PT), Model: rep})
		}
		// oracle (independent of the model): the pointerified type has one field, in order and under the same name, for
		// every exported field that is not tagged `dials:"-"` and is not a channel or function - exported meaning "the first LETTER is upper case"
		if PT != nil && PT.Kind() == reflect.Struct {
			if where, wantNames, gotNames := ptFieldSets(T, PT, T.String()); where != "" {
				cs["struct"] = where
				res.Add(Finding{Kind: "violation", What: "Pointerify dropped or added a field: a leaf no source can set always keeps its default, whatever the layers say", Case: cs, Expected: wantNames, Observed: gotNames})
				res.Case("PT|"+T.String(), false, cs)
				continue // the layers below are built on the pointerified type's positions: nothing to compare them with
			}
		}
		nl := r.Intn(6)
		pset := 15 + r.Intn(70)
		layers := make([]reflect.Value, nl)
		var layerStructs []reflect.Value
		req := "ov compose " + tDesc + " " + defDesc
		var ldescs []string
		for k := range layers {
			lv := reflect.New(PT)
			genLayer(r, lv.Elem(), pset)
			aliasLeaves(r, lv.Elem())
			layerStructs = append(layerStructs, lv.Elem())
			ld := valDesc(lv.Elem())
			ldescs = append(ldescs, ld)
			if r.Bool() {
				layers[k] = lv
				req += " P " + tt.tyDesc(PT) + " & " + ld
			} else {
				layers[k] = lv.Elem()
				req += " " + tt.tyDesc(PT) + " " + ld
			}
		}
		cs["layers"] = ldescs
		var out any
		var err error
		pn := catch(func() { out, err = dials.VerifCompose(def.Interface(), layers) })
		var implRes string
		switch {
		case pn != "":
			implRes = "panic"
			cs["panic"] = pn
		case err != nil:
			implRes = "err"
			cs["error"] = err.Error()
		default:
			implRes = "ok " + valDesc(reflect.ValueOf(out).Elem())
		}
		modelRes := c.Drv.Ask(req)
		nskip := strings.Count(tDesc, " u ") + strings.Count(tDesc, " d ") + strings.Count(tDesc, " C") + strings.Count(tDesc, " F")
		nested := strings.Count(tDesc, "{") - 1
		res.Count(fmt.Sprintf("layers=%d", nl))
		res.Count(fmt.Sprintf("nested_structs=%d", min(nested, 6)))
		res.Count(fmt.Sprintf("skipped_fields=%d", min(nskip, 6)))
		res.Count("outcome/" + strings.SplitN(implRes, " ", 2)[0])
		if implRes != modelRes {
			res.Add(Finding{Kind: "disagreement", What: "compose: model != implementation", Case: cs, Observed: implRes, Model: modelRes})
		}
		var want string
		if opn := catch(func() { want = "ok " + expectStruct(T, def.Elem(), layerStructs) }); opn != "" {
			// the oracle walks the layers by the positions the pointerified type must have
			want = "the pointerified type's fields do not line up with the config type's: " + opn
		}
		if implRes != want {
			res.Add(Finding{Kind: "violation", What: "stacked config differs from the leaf-wise precedence rule", Case: cs, Expected: want, Observed: implRes})
		}
		if after := valDesc(def.Elem()); after != defDesc {
			res.Add(Finding{Kind: "violation", What: "compose modified the caller's defaults", Case: cs, Expected: defDesc, Observed: after})
		}
		res.Case(req, nl >= 2 && (nskip > 0 || nested > 0), cs)
	}
}

func catch(f func()) (p string) {
	defer func() {
		if r := recover(); r != nil {
			p = fmt.Sprint(r)
		}
	}()
	f()
	return ""
}

// uniPrefix: the first letter of a generated field name.  Exported means "starts with an upper-case LETTER", not with
// A-Z: names whose initial takes two, three or four bytes of UTF-8 are as exported as the others (and every layer of the
// library - Pointerify, overlay, deep copy, the Transformer - has to agree on that).
func uniPrefix(r *RNG) string {
	if r.Chance(70) {
		return "F"
	}
	return []string{"É", "Ω", "Ṫ", "Ấ", "Ａ", "Ꭰ", "𐐀"}[r.Intn(7)]
}
