package main

// C10 (and C14 through the transformer): type manglers are lossless.  Random pointerified config types,
// the shipped chains and random sub-chains of the library's manglers through the PUBLIC transform API:
// TranslateType vs the model's translated field list (names, types, tags), then a random filling of the
// translated value and ReverseTranslate vs the model, plus direct oracles (an empty filling reverses to
// an entirely unset original; a filled flattened leaf lands at its `dialsfieldpath`; alias patterns).

import (
	"fmt"
	"reflect"
	"strconv"
	"strings"
	"time"

	"github.com/vimeo/dials/decoders/json/jsontypes"
	"github.com/vimeo/dials/ptrify"
	"github.com/vimeo/dials/tagformat"
	cc "github.com/vimeo/dials/tagformat/caseconversion"
	"github.com/vimeo/dials/transform"
)

type encSpec struct {
	name string
	f    cc.EncodeCasingFunc
}

var encoders = []encSpec{
	{"EncodeUpperCamelCase", cc.EncodeUpperCamelCase}, {"EncodeLowerCamelCase", cc.EncodeLowerCamelCase}, {"EncodeLowerSnakeCase", cc.EncodeLowerSnakeCase},
	{"EncodeUpperSnakeCase", cc.EncodeUpperSnakeCase}, {"EncodeKebabCase", cc.EncodeKebabCase}, {"EncodeCasePreservingSnakeCase", cc.EncodeCasePreservingSnakeCase},
}

type manglerSpecGo struct {
	spec string // model spec: words joined by ','
	m    transform.Mangler
	kind string
}

var durSub = func() transform.Mangler {
	m, err := transform.NewSingleTypeSubstitutionMangler[time.Duration, jsontypes.ParsingDuration]()
	if err != nil {
		panic(err)
	}
	return m
}()

func genMangler(r *RNG, kind string) manglerSpecGo {
	switch kind {
	case "alias":
		return manglerSpecGo{"alias,dials,dialsenv", transform.NewAliasMangler("dials", "dialsenv"), kind}
	case "flatten":
		// the name encoder must produce exported Go identifiers (reflect.StructOf rejects anything
		// else: a programming error of the chain's author, not an input)
		te := encoders[r.Intn(len(encoders))]
		ne := encoders[0]
		if r.Chance(30) {
			for _, e := range encoders {
				if e.name == "EncodeUpperSnakeCase" {
					ne = e
				}
			}
		}
		return manglerSpecGo{"flatten,dials," + ne.name + "," + te.name, transform.NewFlattenMangler("dials", ne.f, te.f), kind}
	case "setslice":
		return manglerSpecGo{"setslice", &transform.SetSliceMangler{}, kind}
	case "dursub":
		return manglerSpecGo{"dursub", durSub, kind}
	case "copy":
		nt := []string{"json", "yaml", "dialsenv", "x"}[r.Intn(4)]
		return manglerSpecGo{"copy,dials," + nt, &tagformat.TagCopyingMangler{SrcTag: "dials", NewTag: nt}, kind}
	case "reformat":
		e := encoders[r.Intn(len(encoders))]
		return manglerSpecGo{"reformat,dials,DecodeGoTags," + e.name, tagformat.NewTagReformattingMangler("dials", cc.DecodeGoTags, e.f), kind}
	case "stringcast":
		return manglerSpecGo{"stringcast", &transform.StringCastingMangler{}, kind}
	case "anonflatten":
		return manglerSpecGo{"anonflatten", transform.AnonymousFlattenMangler{}, kind}
	case "textunmarshaler":
		return manglerSpecGo{"textunmarshaler", &transform.TextUnmarshalerMangler{}, kind}
	}
	panic(kind)
}

// genChain: a shipped chain shape or a random sub-chain (string cast, when present, comes last: after it
// every field is a *string)
func genChain(r *RNG) []manglerSpecGo {
	switch r.Intn(5) {
	case 0: // env
		return []manglerSpecGo{genMangler(r, "alias"), {"flatten,dials,EncodeUpperCamelCase,EncodeCasePreservingSnakeCase", transform.NewFlattenMangler("dials", cc.EncodeUpperCamelCase, cc.EncodeCasePreservingSnakeCase), "flatten"},
			{"reformat,dials,DecodeGoTags,EncodeUpperSnakeCase", tagformat.NewTagReformattingMangler("dials", cc.DecodeGoTags, cc.EncodeUpperSnakeCase), "reformat"},
			{"copy,dials,dialsenv", &tagformat.TagCopyingMangler{SrcTag: "dials", NewTag: "dialsenv"}, "copy"}, genMangler(r, "stringcast")}
	case 1: // flag
		return []manglerSpecGo{genMangler(r, "alias"), {"flatten,dials,EncodeUpperCamelCase,EncodeKebabCase", transform.NewFlattenMangler("dials", cc.EncodeUpperCamelCase, cc.EncodeKebabCase), "flatten"}}
	case 2: // json-like decoder chain with the set→slice wrapper
		return []manglerSpecGo{genMangler(r, "setslice"), genMangler(r, "dursub"), {"copy,dials,json", &tagformat.TagCopyingMangler{SrcTag: "dials", NewTag: "json"}, "copy"}}
	}
	kinds := []string{"alias", "flatten", "setslice", "dursub", "copy", "reformat", "textunmarshaler", "anonflatten"}
	n := 1 + r.Intn(4)
	var out []manglerSpecGo
	flattened := false
	for i := 0; i < n; i++ {
		k := kinds[r.Intn(len(kinds))]
		if k == "flatten" {
			if flattened {
				continue
			}
			flattened = true
		}
		out = append(out, genMangler(r, k))
	}
	if r.Chance(25) {
		out = append(out, genMangler(r, "stringcast"))
	}
	if len(out) == 0 {
		out = append(out, genMangler(r, "copy"))
	}
	return out
}

var c10LeafTypes = append(append([]reflect.Type{}, envLeafTypes...),
	reflect.TypeOf(time.Time{}), reflect.TypeOf(map[string]struct{}(nil)), reflect.TypeOf([]time.Duration(nil)), reflect.TypeOf(map[string]time.Duration(nil)), reflect.TypeOf((*time.Duration)(nil)),
	reflect.TypeOf((**time.Duration)(nil)), reflect.TypeOf((*[]time.Duration)(nil)), reflect.TypeOf((*map[string]time.Duration)(nil)))

// fillValue sets a translated field (pointer / slice / map typed) to a random non-nil value and returns
// the text whose scanner tokens the model may need (for *string fills of a string-cast chain)
func fillValue(r *RNG, f reflect.Value, origLeaf reflect.Type) (text string) {
	t := f.Type()
	switch t.Kind() {
	case reflect.Ptr:
		if t.Elem().Kind() == reflect.String && origLeaf != nil {
			txt, w := genEnvValue(r, origLeaf)
			replaced := false
			if strings.ContainsRune(txt, 0) {
				txt, replaced = "x", true
			}
			if w == "" && hasExternalText(origLeaf) {
				c10ExtBad = true
			}
			if w == "" {
				c10AnyInvalid = true
			}
			c10LastWant = w
			if replaced {
				c10LastWant = "" // no expectation for the substitute text
			}
			f.Set(reflect.ValueOf(&txt))
			return txt
		}
		p := reflect.New(t.Elem())
		fillInner(r, p.Elem(), 2)
		f.Set(p)
	default:
		fillInner(r, f, 2)
	}
	return ""
}

func fillInner(r *RNG, v reflect.Value, depth int) {
	t := v.Type()
	switch t.Kind() {
	case reflect.Bool:
		v.SetBool(r.Bool())
	case reflect.String:
		switch {
		case c10TUText && r.Chance(50):
			v.SetString(time.Unix(int64(r.Intn(100000)), 0).UTC().Format(time.RFC3339))
		case c10TUText && r.Chance(50):
			v.SetString(strconv.Itoa(1 + r.Intn(999)))
		default:
			v.SetString(genStr(r))
		}
	case reflect.Int, reflect.Int8, reflect.Int16, reflect.Int32, reflect.Int64:
		v.SetInt(int64(r.Intn(100)))
	case reflect.Uint, reflect.Uint8, reflect.Uint16, reflect.Uint32, reflect.Uint64:
		v.SetUint(uint64(r.Intn(100)))
	case reflect.Float32, reflect.Float64:
		v.SetFloat(float64(r.Intn(1000)) / 8)
	case reflect.Complex64, reflect.Complex128:
		v.SetComplex(complex(float64(r.Intn(10)), float64(r.Intn(10))))
	case reflect.Ptr:
		if depth > 0 && r.Chance(80) {
			p := reflect.New(t.Elem())
			fillInner(r, p.Elem(), depth-1)
			v.Set(p)
		}
	case reflect.Slice:
		n := r.Intn(3)
		s := reflect.MakeSlice(t, n, n)
		for i := 0; i < n; i++ {
			fillInner(r, s.Index(i), depth-1)
		}
		v.Set(s)
	case reflect.Map:
		m := reflect.MakeMap(t)
		for i := r.Intn(3); i > 0; i-- {
			k := reflect.New(t.Key()).Elem()
			fillInner(r, k, 0)
			e := reflect.New(t.Elem()).Elem()
			fillInner(r, e, depth-1)
			m.SetMapIndex(k, e)
		}
		v.Set(m)
	case reflect.Struct:
		if t == reflect.TypeOf(time.Time{}) {
			v.Set(reflect.ValueOf(time.Unix(int64(r.Intn(100000)), 0).UTC()))
			return
		}
		for i := 0; i < t.NumField(); i++ {
			if v.Field(i).CanSet() && r.Chance(60) {
				fillInner(r, v.Field(i), depth-1)
			}
		}
	}
}

func tfTyC10(t reflect.Type) string {
	if t == reflect.TypeOf(jsontypes.ParsingDuration(0)) {
		return "PD"
	}
	switch t.Kind() {
	case reflect.Ptr:
		return "P " + tfTyC10(t.Elem())
	case reflect.Slice:
		return "L " + tfTyC10(t.Elem())
	case reflect.Array:
		return fmt.Sprintf("A%d %s", t.Len(), tfTyC10(t.Elem()))
	case reflect.Map:
		if t.Elem() == reflect.TypeOf(struct{}{}) {
			return "Z " + tfTyC10(t.Key())
		}
		return "M " + tfTyC10(t.Key()) + " " + tfTyC10(t.Elem())
	case reflect.Struct:
		if _, ok := tuTypeIDs[t]; ok {
			return tfTy(t)
		}
		parts := []string{"{"}
		for i := 0; i < t.NumField(); i++ {
			f := t.Field(i)
			tags := parseTagPairs(f.Tag)
			parts = append(parts, hexEnc(f.Name), b01(f.Anonymous), strconv.Itoa(len(tags)))
			for _, kv := range tags {
				parts = append(parts, hexEnc(kv[0]), hexEnc(kv[1]))
			}
			parts = append(parts, tfTyC10(f.Type))
		}
		return strings.Join(append(parts, "}"), " ")
	}
	return tfTy(t)
}

// durations as numbers in this stream (the substitution mangler converts between Duration and
// ParsingDuration: both are int64 nanoseconds); time.Time as its text
// c10TUText: the chain has the text-unmarshaler mangler and the type a TextUnmarshaler: UnmarshalText
// is external to the model, which keeps the text; fills are mostly texts those types accept, an
// implementation error is then outside the model's domain, and unmarshalled values are rendered by
// the text they came from
var c10TUText bool

// c10DurText: under a string-casting chain the model carries a duration as its (external) text
var c10DurText bool

func tfValC10(v reflect.Value) string {
	switch v.Kind() {
	case reflect.Int64:
		if c10DurText {
			break
		}
		if v.Type() == reflect.TypeOf(time.Duration(0)) || v.Type() == reflect.TypeOf(jsontypes.ParsingDuration(0)) {
			return fmt.Sprintf("i%d", v.Int())
		}
	case reflect.Ptr:
		if v.IsNil() {
			return "n"
		}
		return "& " + tfValC10(v.Elem())
	case reflect.Slice:
		if v.IsNil() {
			return "n"
		}
		p := []string{"["}
		for i := 0; i < v.Len(); i++ {
			p = append(p, tfValC10(v.Index(i)))
		}
		return strings.Join(append(p, "]"), " ")
	case reflect.Struct:
		if _, tu := tuTypeIDs[v.Type()]; tu && v.IsZero() {
			return "n" // the zero value of a non-pointer TextUnmarshaler (inside a collection element) is "unset"
		}
		if c10TUText {
			switch x := v.Interface().(type) {
			case time.Time:
				return "s" + hexEnc(x.Format(time.RFC3339))
			case tuPtr:
				return "s" + hexEnc(strconv.Itoa(x.X))
			}
		}
		if _, ok := tuTypeIDs[v.Type()]; !ok {
			p := []string{"{"}
			for i := 0; i < v.NumField(); i++ {
				p = append(p, tfValC10(v.Field(i)))
			}
			return strings.Join(append(p, "}"), " ")
		}
	case reflect.Map:
		if v.IsNil() {
			return "n"
		}
		if v.Type().Elem() != reflect.TypeOf(struct{}{}) && v.Type().Elem().Kind() != reflect.Slice {
			var kvs []string
			for _, k := range v.MapKeys() {
				kvs = append(kvs, tfValC10(k)+" "+tfValC10(v.MapIndex(k)))
			}
			sortStrings(kvs)
			return strings.Join(append(append([]string{"<"}, kvs...), ">"), " ")
		}
	}
	return tfVal(v)
}

func sortStrings(s []string) {
	for i := 1; i < len(s); i++ {
		for j := i; j > 0 && s[j] < s[j-1]; j-- {
			s[j], s[j-1] = s[j-1], s[j]
		}
	}
}

type c10TypeGen struct {
	envTypeGen
	aliases bool
}

func init() {
	register("C10", checkC10)
}

func checkC10(c *Ctx) {
	r := c.RNG
	res := c.Res
	res.Rule = "random pointerified config types (as C11, plus time.Time, duration slices/maps/pointers, sets, alias tags on random fields) x the shipped chains (env, flag, decoder+set wrapper) and random sub-chains " +
		"of alias / flatten (random name and tag encoders) / set-slice / duration substitution / tag copy / tag reformat / text-unmarshaler / string cast, through transform.NewTransformer: TranslateType vs the model's field list; " +
		"then an empty filling and a random filling of the translated value through ReverseTranslate vs the model; oracles: empty => entirely unset; error/ok class. non-trivial: chain length >= 2 and a nested struct; distinct = by request text"
	n := c.scale(1500, 50000)
	c10Boundaries(c)
	c10Unicode(c)
	c10OpaqueContainers(c)
	c10EmbeddedNested(c)
	for i := 0; i < n; i++ {
		g := &envTypeGen{r: r, used: map[string]bool{}, alias: r.Chance(40), embed: r.Chance(40), colls: r.Chance(40), empties: r.Chance(50), ascii: true}
		saved := envLeafTypes
		envLeafTypes = c10LeafTypes
		T := g.genStruct(1+r.Intn(3), nil, nil)
		if ts := T.String(); strings.Contains(ts, "struct {}") || strings.Contains(ts, "hidden int") {
			res.Count("types/with-a-struct-field-that-has-no-exported-field")
		}
		envLeafTypes = saved
		if T.NumField() == 0 {
			continue
		}
		PT := ptrify.Pointerify(T, reflect.New(T).Elem())
		chain := genChain(r)
		var specs []string
		ms := make([]transform.Mangler, len(chain))
		kinds := ""
		for k, m := range chain {
			specs = append(specs, m.spec)
			ms[k] = m.m
			kinds += m.kind + ","
		}
		chainArg := "custom:" + strings.Join(specs, "|")
		fields := tfTyC10(PT)
		cs := map[string]any{"type": T.String(), "chain": specs}
		res.Count("chain_len=" + strconv.Itoa(len(chain)))
		for _, m := range chain {
			res.Count("mangler/" + m.kind)
		}
		tf := transform.NewTransformer(PT, ms...)
		var TT reflect.Type
		var terr error
		pn := catch(func() { TT, terr = tf.TranslateType() })
		var implT string
		switch {
		case pn != "":
			implT = "panic"
			cs["panic"] = pn
		case terr != nil:
			implT = "err"
			cs["error"] = terr.Error()
		default:
			implT = "ok " + tfTyC10(TT)
		}
		modelT := c.Drv.Ask("tf translate " + chainArg + " " + fields)
		mt := modelT
		if strings.HasPrefix(mt, "err") {
			mt = "err"
		}
		if strings.HasPrefix(mt, "panic") {
			mt = "panic"
		}
		res.Count("translate/" + strings.SplitN(implT, " ", 2)[0])
		if c10TitleExternal(specs, cs["type"].(string)) {
			// golang.org/x/text's title caser capitalises after every word break inside a word
			// ("kebab-name" -> "Kebab-Name"); the model's words are alphanumeric (C19's domain)
			res.OutOfDomain++
			continue
		}
		if implT != mt {
			res.Add(Finding{Kind: "disagreement", What: "TranslateType: model != implementation", Case: cs, Observed: implT, Model: modelT})
			continue
		}
		if implT == "panic" {
			res.Add(Finding{Kind: "violation", What: "TranslateType panicked: " + pn, Case: cs})
		}
		if !strings.HasPrefix(implT, "ok") {
			res.Case("T|"+chainArg+"|"+fields, false, cs)
			continue
		}
		c10DurText = strings.Contains(kinds, "stringcast")
		c10TUText = strings.Contains(kinds, "textunmarshaler") && (strings.Contains(T.String(), "time.Time") || strings.Contains(T.String(), "tuPtr"))
		for round := 0; round < 2; round++ {
			val := reflect.New(TT).Elem()
			c10ExtBad, c10AnyInvalid = false, false
			envNonCanonOK, envNonCanon = true, false
			castWants := map[int]string{}
			var entries []string
			nfilled := 0
			if round == 1 {
				stringCast := strings.Contains(kinds, "stringcast")
				for k := 0; k < val.NumField(); k++ {
					if !val.Field(k).CanSet() || !r.Chance(55) {
						continue
					}
					var orig reflect.Type
					if stringCast {
						path := TT.Field(k).Tag.Get("dialsfieldpath")
						if path == "" { // no flatten mangler in the chain: top-level fields only
							path = TT.Field(k).Name
						}
						orig = leafTypeAt(PT, path)
						if orig == nil {
							orig = reflect.TypeOf("")
						}
					}
					c10LastWant = ""
					txt := fillValue(r, val.Field(k), orig)
					nfilled++
					if stringCast && c10LastWant != "" && val.Field(k).Kind() == reflect.Ptr && val.Field(k).Type().Elem().Kind() == reflect.String {
						castWants[k] = c10LastWant
					}
					if stringCast {
						sl, mp := tokenStreams(txt)
						e := []string{"E", hexEnc(fmt.Sprintf("f%d", k)), hexEnc(txt), strconv.Itoa(len(sl))}
						e = append(e, sl...)
						e = append(e, strconv.Itoa(len(mp)))
						e = append(e, mp...)
						entries = append(entries, strings.Join(e, " "))
					}
				}
			}
			var fill []string
			for k := 0; k < val.NumField(); k++ {
				fill = append(fill, tfValC10(val.Field(k)))
			}
			req := fmt.Sprintf("tf reverse %s %s { %s } %d %s", chainArg, fields, strings.Join(fill, " "), len(entries), strings.Join(entries, " "))
			req = strings.Join(strings.Fields(req), " ") // (a translated type without fields has an empty value list)
			var out reflect.Value
			var rerr error
			pn := catch(func() { out, rerr = tf.ReverseTranslate(val) })
			var impl string
			switch {
			case pn != "":
				impl = "panic"
				cs["panic"] = pn
			case rerr != nil:
				impl = "err"
				cs["error"] = rerr.Error()
			default:
				p := []string{}
				for k := 0; k < out.NumField(); k++ {
					p = append(p, tfValC10(out.Field(k)))
				}
				impl = "ok " + strings.Join(p, " ")
			}
			model := strings.TrimSpace(c.Drv.Ask(req))
			if strings.HasPrefix(model, "panic") {
				model = "panic"
			}
			cs2 := map[string]any{"type": cs["type"], "chain": specs, "filled": fill}
			res.Count(fmt.Sprintf("reverse/round%d/%s", round, strings.SplitN(impl, " ", 2)[0]))
			envNonCanonOK = false
			if round == 1 && impl == "err" && !c10AnyInvalid && !c10TUText && len(castWants) > 0 && strings.HasPrefix(model, "ok") {
				// oracle: every text written to a string-cast field is a valid text of its leaf's type, so the
				// conversion back must succeed (the model, which is proved to succeed there, agrees)
				cs2["request"] = req
				res.Add(Finding{Kind: "violation", What: "every filled string-cast field holds a valid text of its leaf type, but ReverseTranslate failed: " + fmt.Sprint(cs["error"]), Case: cs2, Observed: impl})
			}
			if extBadText(entries) || envNonCanon || (c10TUText && impl == "err") {
				res.OutOfDomain++
			} else if strings.TrimSpace(impl) != model {
				cs2["request"] = req
				res.Add(Finding{Kind: "disagreement", What: "ReverseTranslate: model != implementation", Case: cs2, Observed: impl, Model: model})
			}
			if impl == "panic" {
				res.Add(Finding{Kind: "violation", What: "ReverseTranslate panicked: " + pn, Case: cs2})
			}
			if round == 0 {
				// oracle: an empty translated value reverses to an entirely unset original
				if impl == "err" || impl == "panic" {
					res.Add(Finding{Kind: "violation", What: "reverse-translating an empty translated value failed", Case: cs2, Observed: impl})
				} else {
					for k := 0; k < out.NumField(); k++ {
						if !isZeroish(out.Field(k)) {
							res.Add(Finding{Kind: "violation", What: fmt.Sprintf("an empty translated value reverses to a value with field %s set", out.Type().Field(k).Name), Case: cs2, Observed: impl})
							break
						}
					}
				}
			}
			if round == 1 && impl != "err" && impl != "panic" {
				// oracle: a filled translated field whose type the chain left alone comes back as the value of
				// the original leaf it stands for (located by the flatten mangler's field path, else by name)
				for fi := 0; fi < val.NumField(); fi++ {
					k := fi
					fv := val.Field(k)
					if (fv.Kind() == reflect.Ptr || fv.Kind() == reflect.Slice || fv.Kind() == reflect.Map) && fv.IsNil() {
						continue
					}
					path := TT.Field(k).Tag.Get("dialsfieldpath")
					if path == "" {
						path = TT.Field(k).Name
					}
					names := strings.Split(path, ",")
					names[len(names)-1] = strings.TrimSuffix(names[len(names)-1], "_alias9wr876rw3")
					leaf := leafOf(out, names)
					if !leaf.IsValid() {
						res.Add(Finding{Kind: "violation", What: fmt.Sprintf("translated field %s was filled, but the original leaf %s is unset after ReverseTranslate", TT.Field(k).Name, path), Case: cs2, Observed: impl})
						break
					}
					if lk := leaf.Kind(); (lk == reflect.Ptr || lk == reflect.Map || lk == reflect.Slice) && leaf.IsNil() {
						res.Add(Finding{Kind: "violation", What: fmt.Sprintf("translated field %s was filled (%s), but the original leaf %s is unset (nil) after ReverseTranslate", TT.Field(fi).Name, tfValC10(fv), path), Case: cs2, Observed: impl})
						break
					}
					if w, ok := castWants[fi]; ok && !c10TUText && leaf.Type() != fv.Type() {
						// a string-cast field: the leaf holds the value its text stands for
						if got := tfVal(leaf); strings.TrimPrefix(got, "& ") != strings.TrimPrefix(w, "& ") {
							res.Add(Finding{Kind: "violation", What: fmt.Sprintf("string-cast field %s was filled with a valid text, but the original leaf %s holds a different value after ReverseTranslate", TT.Field(k).Name, path), Case: cs2, Expected: w, Observed: got})
							break
						}
					}
					if leaf.Type() != fv.Type() {
						continue // a type-changing mangler (string cast, set->slice, substitution, text) converted it: model-checked
					}
					if !reflect.DeepEqual(leaf.Interface(), fv.Interface()) {
						res.Add(Finding{Kind: "violation", What: fmt.Sprintf("translated field %s was filled, but the original leaf %s holds a different value after ReverseTranslate", TT.Field(k).Name, path), Case: cs2, Expected: tfValC10(fv), Observed: tfValC10(leaf)})
						break
					}
				}
			}
			if round == 1 && strings.HasPrefix(impl, "ok") && out.IsValid() {
				// oracle: a result belongs to its caller.  A LATER ReverseTranslate on the same Transformer (what a
				// watching source behind a wrapper does on every update) must leave the earlier result as it was.
				val2 := reflect.New(TT).Elem()
				for k := 0; k < val2.NumField(); k++ {
					if val2.Field(k).CanSet() && !(val2.Field(k).Kind() == reflect.Ptr && val2.Field(k).Type().Elem().Kind() == reflect.String) && r.Chance(70) {
						fillValue(r, val2.Field(k), nil)
					}
				}
				var rerr2 error
				pn2 := catch(func() { _, rerr2 = tf.ReverseTranslate(val2) })
				_ = rerr2
				if pn2 == "" {
					p := []string{}
					for k := 0; k < out.NumField(); k++ {
						p = append(p, tfValC10(out.Field(k)))
					}
					if again := "ok " + strings.Join(p, " "); again != impl {
						res.Add(Finding{Kind: "violation", What: "the result of a ReverseTranslate call changed when the same Transformer reverse-translated another value", Case: cs2, Expected: impl, Observed: again})
					}
				}
			}
			nested := strings.Count(fields, "{") > 1
			res.Case(req, len(chain) >= 2 && nested && nfilled > 0, cs2)
		}
	}
}

// c10ExtBad: a deliberately unparsable float / complex / duration text was filled in: strconv and
// time.ParseDuration are external to the model, which carries such texts as they are
var c10ExtBad bool

// c10AnyInvalid: some text filled in for a string-cast field is not a valid text of its leaf type;
// c10LastWant: the expected rendering of the leaf value for the text fillValue produced last ("" = invalid)
var c10AnyInvalid bool
var c10LastWant string

func extBadText(entries []string) bool { return c10ExtBad }

func c10TitleExternal(specs []string, typ string) bool {
	hyphen := strings.Contains(typ, "kebab-name")
	for _, s := range specs {
		w := strings.Split(s, ",")
		if w[0] == "reformat" && w[3] == "EncodeKebabCase" {
			hyphen = true
		}
		if w[0] == "flatten" && strings.Contains(w[3], "CamelCase") && hyphen {
			return true
		}
	}
	return false
}

func hasExternalText(t reflect.Type) bool {
	switch t.Kind() {
	case reflect.Float32, reflect.Float64, reflect.Complex64, reflect.Complex128:
		return true
	case reflect.Int64:
		return t == reflect.TypeOf(time.Duration(0)) || t == reflect.TypeOf(jsontypes.ParsingDuration(0))
	case reflect.Ptr, reflect.Slice, reflect.Array:
		return hasExternalText(t.Elem())
	case reflect.Map:
		return hasExternalText(t.Key()) || hasExternalText(t.Elem())
	}
	return false
}

func isZeroish(v reflect.Value) bool {
	switch v.Kind() {
	case reflect.Ptr, reflect.Slice, reflect.Map, reflect.Interface:
		return v.IsNil()
	}
	return v.IsZero()
}

// leafTypeAt: the (pointerified) type of the original leaf named by a dialsfieldpath tag, pointers stripped once
func leafTypeAt(pt reflect.Type, path string) reflect.Type {
	if path == "" {
		return nil
	}
	t := pt
	for _, name := range strings.Split(path, ",") {
		for t.Kind() == reflect.Ptr {
			t = t.Elem()
		}
		if t.Kind() != reflect.Struct {
			return nil
		}
		f, ok := t.FieldByName(strings.TrimSuffix(name, "_alias9wr876rw3")) // an alias field has its original's type
		if !ok {
			return nil
		}
		t = f.Type
	}
	if t.Kind() == reflect.Ptr {
		t = t.Elem()
	}
	return t
}
