package main

// C01, deep nesting: "nested structs merge field by field" at EVERY depth.  A chain of struct-typed fields 12 levels
// deep (by value and by pointer alternating), each level with a leaf of its own, a skipped field and the next level;
// layers set disjoint leaves at random levels.  Oracle only: leaf-wise precedence (last layer that sets it, else the
// default).

import (
	"context"
	"fmt"
	"reflect"
	"strings"

	"github.com/vimeo/dials"
	jsondec "github.com/vimeo/dials/decoders/json"
	"github.com/vimeo/dials/sources/static"
)

type d12 struct {
	A, B int
	Skip int `dials:"-"`
}
type d11 struct {
	A, B int
	Next *d12
}
type d10 struct {
	A, B int
	Next d11
}
type d9 struct {
	A, B int
	Next *d10
}
type d8 struct {
	A, B int
	Next d9
}
type d7 struct {
	A, B int
	Next *d8
}
type d6 struct {
	A, B int
	Next d7
}
type d5 struct {
	A, B int
	Next *d6
}
type d4 struct {
	A, B int
	Next d5
}
type d3 struct {
	A, B int
	Next *d4
}
type d2 struct {
	A, B int
	Next d3
}
type d1 struct {
	A, B int
	Next *d2
}
type d0 struct {
	Name string
	Next d1
}

const c01DeepLevels = 12

// leaf (level 1..12, "A"|"B") of a d0 value; nil pointers on the way are allocated when alloc is set
func c01DeepLeaf(v reflect.Value, level int, name string, alloc bool) reflect.Value {
	cur := v.FieldByName("Next")
	for l := 1; ; l++ {
		if cur.Kind() == reflect.Ptr {
			if cur.IsNil() {
				if !alloc {
					return reflect.Value{}
				}
				cur.Set(reflect.New(cur.Type().Elem()))
			}
			cur = cur.Elem()
		}
		if l == level {
			return cur.FieldByName(name)
		}
		cur = cur.FieldByName("Next")
	}
}

func c01Deep(c *Ctx, n int) {
	r := c.RNG
	res := c.Res
	for i := 0; i < n; i++ {
		defaults := &d0{Name: "dflt"}
		want := map[string]int{}
		key := func(l int, nm string) string { return fmt.Sprintf("%d%s", l, nm) }
		// defaults on some leaves
		for l := 1; l <= c01DeepLevels; l++ {
			for _, nm := range []string{"A", "B"} {
				if r.Chance(40) {
					v := 1000 + l*10 + r.Intn(9)
					c01DeepLeaf(reflect.ValueOf(defaults).Elem(), l, nm, true).SetInt(int64(v))
					want[key(l, nm)] = v
				}
			}
		}
		nl := 1 + r.Intn(3)
		var srcs []dials.Source
		var docs []string
		for k := 0; k < nl; k++ {
			// one JSON document per layer: nested objects down to the deepest leaf the layer sets
			set := map[string]int{}
			for m := 1 + r.Intn(3); m > 0; m-- {
				l, nm := 1+r.Intn(c01DeepLevels), []string{"A", "B"}[r.Intn(2)]
				if r.Chance(50) {
					l = c01DeepLevels - r.Intn(4) // mostly near the bottom
				}
				v := (k+2)*10000 + l*10 + r.Intn(9)
				set[key(l, nm)] = v
				want[key(l, nm)] = v
			}
			var b strings.Builder
			b.WriteString("{")
			for l := 1; l <= c01DeepLevels; l++ {
				b.WriteString(`"Next":{`)
				for _, nm := range []string{"A", "B"} {
					if v, ok := set[key(l, nm)]; ok {
						fmt.Fprintf(&b, `"%s":%d,`, nm, v)
					}
				}
			}
			doc := strings.TrimRight(b.String(), ",")
			// close: remove a trailing `"Next":{` chain that sets nothing is fine (empty objects)
			doc = strings.ReplaceAll(doc+strings.Repeat("}", c01DeepLevels+1), ",}", "}")
			docs = append(docs, doc)
			srcs = append(srcs, &static.StringSource{Data: doc, Decoder: &jsondec.Decoder{}})
		}
		cs := map[string]any{"stream": "12 levels of nested structs", "layers": docs}
		d, err := dials.Config(context.Background(), defaults, srcs...)
		if err != nil {
			res.Add(Finding{Kind: "violation", What: "Config failed on a deeply nested config type: " + err.Error(), Case: cs})
			continue
		}
		got := reflect.ValueOf(d.View()).Elem()
		for l := 1; l <= c01DeepLevels; l++ {
			for _, nm := range []string{"A", "B"} {
				lf := c01DeepLeaf(got, l, nm, false)
				g := 0
				if lf.IsValid() {
					g = int(lf.Int())
				}
				if g != want[key(l, nm)] {
					res.Add(Finding{Kind: "violation", What: fmt.Sprintf("leaf %s at nesting level %d: got %d, want %d (last layer that sets it, else the default): nested structs merge field by field at every depth", nm, l, g, want[key(l, nm)]), Case: cs})
					l = c01DeepLevels + 1
					break
				}
			}
		}
		res.Count("deep-nesting")
		res.Case(fmt.Sprint("DEEP|", docs), nl >= 2, cs)
	}
}
