package main

// C20, part (ii): random SetSource / Done / Value / Watch sequences on a real sourcewrap.Blank inside a real
// dials.Config (SkipInitialVerification), next to a keep-alive watching source in the second slot.
// Every operation's result and the calls the Blank makes (inner Value, blocking report, inner Watch, Done
// forwarded — the last two seen inside the monitor through the verif hook) are compared with the Lean Blank
// state machine, and with an independent history-level oracle (who holds the slot, who may be replaced,
// when Done may be forwarded, nil only after an accepted blocking report).

import (
	"context"
	"errors"
	"fmt"
	"reflect"
	"strings"
	"sync"
	"time"

	"github.com/vimeo/dials"
	"github.com/vimeo/dials/ptrify"
	"github.com/vimeo/dials/sourcewrap"
)

type c20BCfg struct {
	A       int
	K       int
	Invalid bool
}

func (c *c20BCfg) Verify() error {
	if c.Invalid {
		return errC20Invalid
	}
	return nil
}

var c20BPType = ptrify.Pointerify(reflect.TypeOf(c20BCfg{}), reflect.ValueOf(c20BCfg{}))

func c20BValue(a int, invalid bool) reflect.Value {
	v := reflect.New(c20BPType).Elem()
	v.Field(0).Set(reflect.ValueOf(&a))
	if invalid {
		t := true
		v.Field(2).Set(reflect.ValueOf(&t))
	} else {
		f := false
		v.Field(2).Set(reflect.ValueOf(&f))
	}
	return v
}

type c20BLog struct {
	mu   sync.Mutex
	evs  []string
	open bool
}

func (l *c20BLog) add(e string) {
	l.mu.Lock()
	if l.open {
		l.evs = append(l.evs, e)
	}
	l.mu.Unlock()
}
func (l *c20BLog) take() []string {
	l.mu.Lock()
	defer l.mu.Unlock()
	o := l.evs
	l.evs = nil
	return o
}
func (l *c20BLog) setOpen(b bool) { l.mu.Lock(); l.open = b; l.mu.Unlock() }

var errC20BValue = errors.New("c20 blank: inner Value failure")
var errC20BWatch = errors.New("c20 blank: inner Watch failure")

// c20BSrc is a non-watching inner source; c20BWatcher adds Watch.
type c20BSrc struct {
	id      int
	valueOk bool
	invalid bool
	log     *c20BLog
	gotType []*dials.Type
}

func (s *c20BSrc) Value(_ context.Context, t *dials.Type) (reflect.Value, error) {
	s.log.add(fmt.Sprintf("V%d", s.id))
	s.gotType = append(s.gotType, t)
	if !s.valueOk {
		return reflect.Value{}, errC20BValue
	}
	return c20BValue(s.id*1000, s.invalid), nil
}

type c20BWatcher struct {
	c20BSrc
	watchOk bool
	args    dials.WatchArgs
	wctx    context.Context
	wtype   *dials.Type
}

func (s *c20BWatcher) Watch(ctx context.Context, t *dials.Type, a dials.WatchArgs) error {
	s.log.add(fmt.Sprintf("W%d", s.id))
	s.wctx, s.wtype = ctx, t
	if !s.watchOk {
		return errC20BWatch
	}
	s.args = a
	return nil
}

// keep-alive watcher of the second slot
type c20Keep struct {
	args dials.WatchArgs
	typ  *dials.Type
	k    int
}

func (s *c20Keep) val() reflect.Value {
	v := reflect.New(c20BPType).Elem()
	k := s.k
	v.Field(1).Set(reflect.ValueOf(&k))
	return v
}
func (s *c20Keep) Value(_ context.Context, t *dials.Type) (reflect.Value, error) {
	s.typ = t
	return s.val(), nil
}
func (s *c20Keep) Watch(_ context.Context, _ *dials.Type, a dials.WatchArgs) error {
	s.args = a
	return nil
}

type c20BOp struct {
	Kind    string `json:"op"` // v w d s
	ID      int    `json:"id,omitempty"`
	Nil     bool   `json:"nil_source,omitempty"`
	Watcher bool   `json:"watcher,omitempty"`
	ValueOk bool   `json:"value_ok,omitempty"`
	WatchOk bool   `json:"watch_ok,omitempty"`
	Invalid bool   `json:"invalid,omitempty"`
	Config  bool   `json:"by_config,omitempty"` // the Value / Watch calls made by dials.Config itself
}

func (o c20BOp) proto() string {
	b := func(x bool) string {
		if x {
			return "1"
		}
		return "0"
	}
	switch o.Kind {
	case "s":
		if o.Nil {
			return "s:nil:1"
		}
		return fmt.Sprintf("s:%d:%s%s%s:%s", o.ID, b(o.Watcher), b(o.ValueOk), b(o.WatchOk), b(!o.Invalid))
	}
	return o.Kind
}

func c20GenBOp(r *RNG, nextID *int) c20BOp {
	switch x := r.Intn(100); {
	case x < 50:
		*nextID++
		o := c20BOp{Kind: "s", ID: *nextID, ValueOk: !r.Chance(15), WatchOk: true}
		if r.Chance(5) {
			return c20BOp{Kind: "s", Nil: true}
		}
		o.Watcher = r.Chance(30)
		if o.Watcher {
			o.WatchOk = !r.Chance(20)
		}
		o.Invalid = r.Chance(12)
		return o
	case x < 70:
		return c20BOp{Kind: "d"}
	case x < 95:
		return c20BOp{Kind: "v"}
	default:
		return c20BOp{Kind: "w"}
	}
}

func c20Blank(c *Ctx, r *RNG) {
	res := c.Res
	nextID := 0
	var pre, post []c20BOp
	if r.Chance(15) {
		for i, n := 0, 1+r.Intn(2); i < n; i++ {
			o := c20GenBOp(r, &nextID)
			if o.Kind == "w" {
				o.Kind = "d"
			}
			pre = append(pre, o)
		}
	}
	for i, n := 0, 1+r.Intn(12); i < n; i++ {
		post = append(post, c20GenBOp(r, &nextID))
	}
	all := append(append(append([]c20BOp{}, pre...), c20BOp{Kind: "v", Config: true}, c20BOp{Kind: "w", Config: true}), post...)
	var protos []string
	nSet, nOther := 0, 0
	for _, o := range all {
		protos = append(protos, o.proto())
		if o.Config {
			continue
		}
		if o.Kind == "s" {
			nSet++
		} else if o.Kind == "d" || o.Kind == "v" {
			nOther++
		}
		res.Count("blank.op=" + o.Kind)
	}
	canon := "blank " + strings.Join(protos, " ")
	cs := map[string]any{"blank_ops": all, "proto": canon}
	res.Case(canon, nSet > 0 && nOther > 0, cs)
	if len(pre) > 0 {
		res.Count("blank.ops-before-config")
	}

	// ---- model ----
	reply := c.Drv.Ask("bk " + strings.Join(protos, " "))
	parts := strings.SplitN(reply, " ;", 2)
	model := strings.Fields(parts[0])
	if len(model) != len(all) {
		res.Add(Finding{Kind: "disagreement", What: "driver did not answer the Blank sequence", Case: cs, Model: reply})
		return
	}

	// ---- independent history-level oracle ----
	type want struct {
		refuse bool // SetSource must be refused (a watcher holds the slot)
		fwd    bool // Done must be forwarded
		holder int  // Value must delegate to this source id (0: zero value)
	}
	wants := make([]want, len(all))
	{
		watched := false
		var cands []c20BOp
		for i, o := range all {
			firstW, last := 0, 0
			for _, cnd := range cands {
				if cnd.Watcher && firstW == 0 {
					firstW = cnd.ID
				}
				last = cnd.ID
			}
			h := last
			if firstW != 0 {
				h = firstW
			}
			wants[i] = want{refuse: firstW != 0, fwd: watched && firstW == 0, holder: h}
			switch o.Kind {
			case "w":
				watched = true
			case "s":
				if !o.Nil && o.ValueOk {
					cands = append(cands, o)
				}
			}
		}
	}

	// ---- implementation ----
	log := &c20BLog{}
	b := &sourcewrap.Blank{}
	keep := &c20Keep{}
	ctx, cancel := context.WithCancel(context.Background())
	defer cancel()
	dials.SetVerifHook(func(point string, args ...any) {
		if point != "mon.got" || len(args) < 2 {
			return
		}
		src, _ := args[1].(dials.Source)
		if src != dials.Source(b) {
			return
		}
		switch args[0] {
		case "done":
			log.add("D")
		case "value":
			v, _ := args[2].(reflect.Value)
			blocking, _ := args[3].(bool)
			id := -1
			if v.IsValid() && v.Type() == c20BPType && !v.Field(0).IsNil() {
				id = int(v.Field(0).Elem().Int()) / 1000
			}
			log.add(fmt.Sprintf("R%d%s", id, map[bool]string{true: "b", false: "n"}[blocking]))
		}
	})
	defer dials.SetVerifHook(nil)

	var d *dials.Dials[c20BCfg]
	typ := dials.NewType(c20BPType)
	srcs := map[int]dials.Source{}
	watchers := map[int]*c20BWatcher{}
	bad := false
	viol := func(i int, what string, exp, obs any) {
		bad = true
		res.Add(Finding{Kind: "violation", What: what, Case: map[string]any{"blank_ops": all, "proto": canon, "at_op": i}, Expected: exp, Observed: obs})
	}
	barrier := func() bool {
		if keep.args == nil {
			return true
		}
		bctx, bcancel := context.WithTimeout(ctx, 3*time.Second)
		defer bcancel()
		keep.k++
		err := keep.args.BlockingReportNewValue(bctx, keep.val())
		return err == nil || !errors.Is(err, context.DeadlineExceeded)
	}
	accepted := 0    // A of the last accepted report of the Blank's slot
	slotBad := false // the Blank's slot holds a value Verify rejects
	i := 0
	for i < len(all) && !bad {
		o := all[i]
		log.take()
		log.setOpen(true)
		ret := ""
		if o.Config {
			// dials.Config performs Value then Watch on the Blank
			var err error
			func() {
				defer func() {
					if p := recover(); p != nil {
						err = fmt.Errorf("panic: %v", p)
					}
				}()
				d, err = dials.Params[c20BCfg]{SkipInitialVerification: true}.Config(ctx, &c20BCfg{}, b, keep)
			}()
			log.setOpen(false)
			evs := log.take()
			// model: all[i] = v, all[i+1] = w
			mv := strings.SplitN(model[i], "|", 2)
			mw := strings.SplitN(model[i+1], "|", 2)
			obsV := "zero"
			if len(evs) > 0 {
				var id int
				fmt.Sscanf(evs[0], "V%d", &id)
				obsV = fmt.Sprintf("inner:%d:%s", id, map[bool]string{true: "1", false: "0"}[err == nil])
			}
			if mv[0] != obsV {
				res.Add(Finding{Kind: "disagreement", What: "Blank.Value during Config: delegation differs from the model", Case: cs, Model: model[i], Observed: obsV})
				bad = true
			}
			if err != nil || mw[0] != "nil" {
				res.Add(Finding{Kind: "disagreement", What: "dials.Config with a Blank failed / model's Watch failed", Case: cs, Model: model[i+1], Observed: fmt.Sprint(err)})
				return
			}
			if wants[i].holder != 0 {
				if len(evs) == 0 || evs[0] != fmt.Sprintf("V%d", wants[i].holder) {
					viol(i, "Blank.Value (called by Config) did not delegate to the inner source set before", wants[i].holder, evs)
				}
				accepted = d.View().A // the pre-set source's value is the Blank's initial value
			}
			i += 2
			continue
		}
		switch o.Kind {
		case "v":
			v, err := b.Value(ctx, typ)
			log.setOpen(false)
			evs := log.take()
			switch {
			case len(evs) == 0:
				ret = "zero"
				if err != nil || v.Kind() != reflect.Ptr || v.Type().Elem() != c20BPType || !v.Elem().IsZero() {
					viol(i, "Blank.Value without an inner source is not the zero value of the requested type", "new(T), nil", fmt.Sprint(v, err))
				}
			default:
				var id int
				fmt.Sscanf(evs[0], "V%d", &id)
				ret = fmt.Sprintf("inner:%d:%s", id, map[bool]string{true: "1", false: "0"}[err == nil])
				if err == nil && (v.Type() != c20BPType || int(v.Field(0).Elem().Int()) != id*1000) {
					viol(i, "Blank.Value did not return the inner source's value", id*1000, fmt.Sprint(v))
				}
			}
			if h := wants[i].holder; (h == 0) != (len(evs) == 0) || (h != 0 && evs[0] != fmt.Sprintf("V%d", h)) {
				viol(i, "Blank.Value did not delegate to the most recently set inner source (first watcher, else latest whose Value succeeded)", h, evs)
			}
			ret += "|" + c20Join(evs)
		case "w":
			err := b.Watch(ctx, typ, &c20Rec{})
			log.setOpen(false)
			ret = map[bool]string{true: "nil", false: "err"}[err == nil] + "|" + c20Join(log.take())
			if d != nil && err == nil {
				viol(i, "a second Blank.Watch succeeded (it would replace the WatchArgs dials gave)", "error", "nil")
			}
		case "d":
			var p any
			func() {
				defer func() { p = recover() }()
				dctx, dcancel := context.WithTimeout(ctx, 3*time.Second)
				defer dcancel()
				b.Done(dctx)
			}()
			if !barrier() {
				res.Notes = append(res.Notes, "blank: barrier timed out")
				return
			}
			log.setOpen(false)
			evs := log.take()
			ret = map[bool]string{true: "nil", false: "panic"}[p == nil] + "|" + c20Join(evs)
			fwd := len(evs) == 1 && evs[0] == "D"
			if p != nil {
				viol(i, "Blank.Done panicked", "return", fmt.Sprint(p))
			} else if fwd != wants[i].fwd {
				viol(i, "Blank.Done forwarded Done to dials iff Watch was called and no watcher holds the slot", wants[i].fwd, fwd)
			}
		case "s":
			var s dials.Source
			if !o.Nil {
				base := c20BSrc{id: o.ID, valueOk: o.ValueOk, invalid: o.Invalid, log: log}
				if o.Watcher {
					w := &c20BWatcher{c20BSrc: base, watchOk: o.WatchOk}
					watchers[o.ID] = w
					s = w
				} else {
					s = &base
				}
				srcs[o.ID] = s
			}
			var err error
			var p any
			func() {
				defer func() { p = recover() }()
				sctx, scancel := context.WithTimeout(ctx, 3*time.Second)
				defer scancel()
				err = b.SetSource(sctx, s)
			}()
			if errors.Is(err, context.DeadlineExceeded) {
				res.Notes = append(res.Notes, "blank: SetSource timed out")
				return
			}
			log.setOpen(false)
			evs := log.take()
			switch {
			case p != nil:
				ret = "panic"
			case err != nil:
				ret = "err"
			default:
				ret = "nil"
			}
			ret += "|" + c20Join(evs)
			// direct oracles
			reported := false
			for _, e := range evs {
				if !o.Nil && e == fmt.Sprintf("R%db", o.ID) {
					reported = true
				}
			}
			if wants[i].refuse {
				if (err == nil && p == nil) || len(evs) != 0 {
					viol(i, "SetSource while a watcher holds the slot must fail and call nothing", "error, no calls", ret)
				}
			}
			if err == nil && p == nil {
				if !reported {
					viol(i, "SetSource returned nil without a blocking report of the new source's value having been handled by dials", fmt.Sprintf("R%db", o.ID), evs)
				} else if o.Invalid {
					viol(i, "SetSource returned nil although dials rejected the value", "error", "nil")
				} else if d != nil {
					if a := d.View().A; a != o.ID*1000 {
						viol(i, "SetSource returned nil but View() does not show the new inner source's value", o.ID*1000, a)
					}
					accepted = o.ID * 1000
					slotBad = false
				}
			} else if d != nil {
				if reported && o.Invalid {
					slotBad = true
				}
				if reported && !o.Invalid {
					// the report was accepted; only the new watcher's Watch failed afterwards
					accepted = o.ID * 1000
					slotBad = false
				}
				if a := d.View().A; a != accepted {
					viol(i, "a SetSource whose value dials did not accept changed View()", accepted, a)
				}
			}
			// a watcher that was started reports through the Blank's WatchArgs: its updates reach the view
			if w := watchers[o.ID]; o.Watcher && w != nil && w.args != nil && err == nil && d != nil {
				if w.wtype != keep.typ {
					viol(i, "the inner watcher's Watch did not get the *dials.Type dials gave the Blank", fmt.Sprint(keep.typ), fmt.Sprint(w.wtype))
				}
				if w.wctx == nil || w.wctx.Err() != nil {
					// the SetSource call's own context has been cancelled by now; the Config context is alive
					viol(i, "the inner watcher's Watch context ended with the SetSource call (it must live as long as the Blank's own Watch context)", "live context", fmt.Sprint(w.wctx.Err()))
				}
				a := o.ID*1000 + 1 + r.Intn(900)
				uctx, ucancel := context.WithTimeout(ctx, 3*time.Second)
				uerr := w.args.BlockingReportNewValue(uctx, c20BValue(a, false))
				ucancel()
				if uerr != nil || d.View().A != a {
					viol(i, "an update reported by the watcher set into the Blank did not reach View()", a, fmt.Sprint(d.View().A, uerr))
				}
				accepted = a
				res.Count("blank.inner-watcher-update")
			}
		}
		if !bad && ret != model[i] {
			res.Add(Finding{Kind: "disagreement", What: fmt.Sprintf("Blank operation %d (%s): result / calls differ from the model", i, o.proto()), Case: cs, Model: model[i], Observed: ret})
			bad = true
		}
		i++
	}
	_ = slotBad
	if bad || d == nil {
		return
	}
	res.TracesVsImpl++
	// ---- end of the history: does the monitor exit when the keep-alive watcher is done? ----
	anyFwd := false
	for i, o := range all {
		if o.Kind == "d" && wants[i].fwd {
			anyFwd = true
		}
	}
	kctx, kcancel := context.WithTimeout(ctx, 3*time.Second)
	keep.args.Done(kctx)
	kcancel()
	if anyFwd {
		res.Count("blank.end=monitor-exits")
		deadline := time.Now().Add(3 * time.Second)
		for {
			_, s := d.ViewVersion()
			if d.RegisterCallback(ctx, s, func(context.Context, *c20BCfg, *c20BCfg) {}) == nil {
				break
			}
			if time.Now().After(deadline) {
				viol(len(all), "Blank forwarded Done and the other watcher is done, but the monitor keeps running", "monitor exits", "still running")
				break
			}
			time.Sleep(100 * time.Microsecond)
		}
	} else {
		res.Count("blank.end=monitor-stays")
		if !barrier() {
			viol(len(all), "the monitor exited although the Blank never gave up its watch slot (Done forwarded when it must not be)", "monitor alive", "blocking report timed out")
		}
	}
}

func c20Join(evs []string) string {
	if len(evs) == 0 {
		return "-"
	}
	return strings.Join(evs, ",")
}

// ---------- a watcher that reports while it is being started ----------

// c20EagerWatcher: Value() returns a snapshot; Watch() re-reads and reports a newer value through the
// WatchArgs it was given, waiting for that report to be handled before it returns.  Natively dials stacks the
// Value() result first and calls Watch() afterwards, so the newer value wins; behind a Blank the same must
// hold after SetSource returned.
type c20EagerWatcher struct {
	init, newer int
	fail        bool
	reportErr   error
}

func (s *c20EagerWatcher) Value(context.Context, *dials.Type) (reflect.Value, error) {
	return c20BValue(s.init, false), nil
}

func (s *c20EagerWatcher) Watch(ctx context.Context, _ *dials.Type, a dials.WatchArgs) error {
	done := make(chan error, 1)
	go func() { done <- a.BlockingReportNewValue(ctx, c20BValue(s.newer, false)) }()
	select {
	case s.reportErr = <-done:
	case <-time.After(3 * time.Second):
		s.reportErr = errors.New("harness: the report made inside Watch was not handled within 3s")
	}
	return nil
}

func c20BlankEager(c *Ctx, r *RNG, n int) {
	res := c.Res
	for i := 0; i < n; i++ {
		w := &c20EagerWatcher{init: 1000 + r.Intn(1000), newer: 5000 + r.Intn(1000)}
		native := false // natively the monitor only starts after every Watch returned: a report made inside Watch would wait for it
		cs := map[string]any{"stream": "a watcher that reports a newer value while Watch runs", "value()": w.init, "reported_in_watch": w.newer, "native": native}
		ctx, cancel := context.WithCancel(context.Background())
		var d *dials.Dials[c20BCfg]
		var err, setErr error
		pn := catch(func() {
			if native {
				d, err = dials.Params[c20BCfg]{SkipInitialVerification: true}.Config(ctx, &c20BCfg{}, w)
				return
			}
			b := &sourcewrap.Blank{}
			d, err = dials.Params[c20BCfg]{SkipInitialVerification: true}.Config(ctx, &c20BCfg{}, b)
			if err == nil {
				sctx, sc := context.WithTimeout(ctx, 5*time.Second)
				setErr = b.SetSource(sctx, w)
				sc()
			}
		})
		switch {
		case pn != "" || err != nil:
			res.Add(Finding{Kind: "violation", What: fmt.Sprintf("Config with an eagerly reporting watcher failed: %s %v", pn, err), Case: cs})
		case setErr != nil:
			res.Add(Finding{Kind: "violation", What: "Blank.SetSource failed for a watcher that reports while it is started: " + setErr.Error(), Case: cs})
		case w.reportErr != nil:
			res.Add(Finding{Kind: "violation", What: "the report made inside Watch failed: " + w.reportErr.Error(), Case: cs})
		default:
			if got := d.View().A; got != w.newer {
				res.Add(Finding{Kind: "violation", What: fmt.Sprintf("after the watcher was started the config holds %d; its latest report was %d (the snapshot taken by Value() must not overwrite a later report)", got, w.newer), Case: cs})
			}
		}
		cancel()
		res.Count("blank.eager-watcher")
		res.Case(fmt.Sprintf("eager|%v|%d|%d", native, w.init, w.newer), true, cs)
	}
}
