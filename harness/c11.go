package main

// C11 (and the transformer half of C10/C14/C16 for the env chain): the environment source on random
// config types.  Real env.Source.Value on the real Pointerify output vs the Lean transformer/mangler/
// source model (translated field list incl. names and tags; variable names; resulting value) and vs a
// direct oracle written from the documentation (name = dialsenv tag or UPPER_SNAKE join of the words
// along the path; value = parsed text; everything else unset; unparsable => error).

import (
	"context"
	"fmt"
	"math"
	"math/big"
	"os"
	"reflect"
	"sort"
	"strconv"
	"strings"
	"time"

	"github.com/vimeo/dials"
	"github.com/vimeo/dials/parse"
	"github.com/vimeo/dials/ptrify"
	"github.com/vimeo/dials/sources/env"
	"github.com/vimeo/dials/sources/flag/flaghelper"
)

type Level uint8
type NameStr string

// ---------- type descriptors in the Tf grammar ----------

func parseTagPairs(tag reflect.StructTag) [][2]string {
	var out [][2]string
	s := string(tag)
	for s != "" {
		s = strings.TrimLeft(s, " ")
		i := strings.IndexByte(s, ':')
		if i <= 0 || i+1 >= len(s) || s[i+1] != '"' {
			break
		}
		key := s[:i]
		rest := s[i+1:]
		j := 1
		for j < len(rest) && rest[j] != '"' {
			if rest[j] == '\\' {
				j++
			}
			j++
		}
		if j >= len(rest) {
			break
		}
		val, err := strconv.Unquote(rest[:j+1])
		if err != nil {
			break
		}
		// structtag: Name is the part before the first comma
		// (the flatten mangler's own field-path tag is a comma-joined path and is kept whole)
		if c := strings.IndexByte(val, ','); c >= 0 && key != "dialsfieldpath" {
			val = val[:c]
		}
		out = append(out, [2]string{key, val})
		s = rest[j+1:]
	}
	sort.Slice(out, func(a, b int) bool { return out[a][0] < out[b][0] })
	return out
}

var tuTypeIDs = map[reflect.Type]int{reflect.TypeOf(time.Time{}): 1, reflect.TypeOf(tuPtr{}): 2}

func tfTy(t reflect.Type) string {
	named := t.PkgPath() != "" && t.Name() != ""
	n := ""
	if named {
		n = "N"
	}
	switch t.Kind() {
	case reflect.Bool:
		return n + "b"
	case reflect.String:
		return n + "s"
	case reflect.Float32:
		return n + "f32"
	case reflect.Float64:
		return n + "f64"
	case reflect.Complex64:
		return n + "c64"
	case reflect.Complex128:
		return n + "c128"
	case reflect.Int8:
		return n + "i8"
	case reflect.Int16:
		return n + "i16"
	case reflect.Int32:
		return n + "i32"
	case reflect.Int64:
		if t == reflect.TypeOf(time.Duration(0)) {
			return "D"
		}
		return n + "i64"
	case reflect.Int:
		return n + "int"
	case reflect.Uint8:
		return n + "u8"
	case reflect.Uint16:
		return n + "u16"
	case reflect.Uint32:
		return n + "u32"
	case reflect.Uint64:
		return n + "u64"
	case reflect.Uint:
		return n + "uint"
	case reflect.Uintptr:
		return n + "uintptr"
	case reflect.Ptr:
		return "P " + tfTy(t.Elem())
	case reflect.Slice:
		return "L " + tfTy(t.Elem())
	case reflect.Array:
		return fmt.Sprintf("A%d %s", t.Len(), tfTy(t.Elem()))
	case reflect.Map:
		if t.Elem() == reflect.TypeOf(struct{}{}) {
			return "Z " + tfTy(t.Key())
		}
		return "M " + tfTy(t.Key()) + " " + tfTy(t.Elem())
	case reflect.Struct:
		if id, ok := tuTypeIDs[t]; ok {
			return fmt.Sprintf("T%d", id)
		}
		return tfFields(t)
	}
	return "?"
}

func tfFields(t reflect.Type) string {
	parts := []string{"{"}
	for i := 0; i < t.NumField(); i++ {
		f := t.Field(i)
		tags := parseTagPairs(f.Tag)
		parts = append(parts, hexEnc(f.Name), b01(f.Anonymous), strconv.Itoa(len(tags)))
		for _, kv := range tags {
			parts = append(parts, hexEnc(kv[0]), hexEnc(kv[1]))
		}
		parts = append(parts, tfTy(f.Type))
	}
	parts = append(parts, "}")
	return strings.Join(parts, " ")
}

// tfVal renders a Go value in the model's value syntax
func tfVal(v reflect.Value) string {
	switch v.Kind() {
	case reflect.Bool:
		if v.Bool() {
			return "b1"
		}
		return "b0"
	case reflect.String:
		return "s" + hexEnc(v.String())
	case reflect.Int, reflect.Int8, reflect.Int16, reflect.Int32, reflect.Int64:
		if v.Type() == reflect.TypeOf(time.Duration(0)) {
			return "s" + hexEnc(time.Duration(v.Int()).String())
		}
		return fmt.Sprintf("i%d", v.Int())
	case reflect.Uint, reflect.Uint8, reflect.Uint16, reflect.Uint32, reflect.Uint64, reflect.Uintptr:
		return fmt.Sprintf("i%d", v.Uint())
	case reflect.Float32:
		return "s" + hexEnc(strconv.FormatFloat(v.Float(), 'g', -1, 32))
	case reflect.Float64:
		return "s" + hexEnc(strconv.FormatFloat(v.Float(), 'g', -1, 64))
	case reflect.Complex64:
		return "s" + hexEnc(strconv.FormatComplex(v.Complex(), 'g', -1, 64))
	case reflect.Complex128:
		return "s" + hexEnc(strconv.FormatComplex(v.Complex(), 'g', -1, 128))
	case reflect.Ptr:
		if v.IsNil() {
			return "n"
		}
		return "& " + tfVal(v.Elem())
	case reflect.Slice:
		if v.IsNil() {
			return "n"
		}
		fallthrough
	case reflect.Array:
		p := []string{"["}
		for i := 0; i < v.Len(); i++ {
			p = append(p, tfVal(v.Index(i)))
		}
		return strings.Join(append(p, "]"), " ")
	case reflect.Map:
		if v.IsNil() {
			return "n"
		}
		if v.Type().Elem() == reflect.TypeOf(struct{}{}) {
			var ks []string
			for _, k := range v.MapKeys() {
				ks = append(ks, tfVal(k))
			}
			sort.Strings(ks)
			return strings.Join(append(append([]string{"("}, ks...), ")"), " ")
		}
		var kvs []string
		for _, k := range v.MapKeys() {
			mv := v.MapIndex(k)
			if mv.Kind() == reflect.Slice {
				// map[string][]string: the model lists one pair per element
				for i := 0; i < mv.Len(); i++ {
					kvs = append(kvs, tfVal(k)+" "+tfVal(mv.Index(i)))
				}
				continue
			}
			kvs = append(kvs, tfVal(k)+" "+tfVal(mv))
		}
		sort.Strings(kvs)
		return strings.Join(append(append([]string{"<"}, kvs...), ">"), " ")
	case reflect.Struct:
		if _, ok := tuTypeIDs[v.Type()]; ok {
			return "s" + hexEnc(fmt.Sprint(v.Interface()))
		}
		p := []string{"{"}
		for i := 0; i < v.NumField(); i++ {
			p = append(p, tfVal(v.Field(i)))
		}
		return strings.Join(append(p, "}"), " ")
	}
	return "?"
}

// ---------- generation ----------

type nameSpec struct {
	name  string
	words []string
}

var fieldNames = []nameSpec{
	{"Port", []string{"port"}}, {"UserID", []string{"user", "id"}}, {"JSONFile", []string{"json", "file"}}, {"HTTPPort", []string{"http", "port"}},
	{"MaxRetries", []string{"max", "retries"}}, {"A", []string{"a"}}, {"B", []string{"b"}}, {"DB", []string{"db"}}, {"Name", []string{"name"}},
	{"APIKey", []string{"api", "key"}}, {"EnableTLS", []string{"enable", "tls"}}, {"Timeout", []string{"timeout"}}, {"LogLevel", []string{"log", "level"}},
	{"URL", []string{"url"}}, {"Hosts", []string{"hosts"}}, {"Labels", []string{"labels"}}, {"Verbose", []string{"verbose"}}, {"RateLimit", []string{"rate", "limit"}},
	{"Inner", []string{"inner"}}, {"Server", []string{"server"}}, {"Cache", []string{"cache"}}, {"XMLPath", []string{"xml", "path"}},
	// pluralised initialisms at the end of a name
	// words ending in a lower-case letter of more than one byte, before another word, an initialism, or at the end
	{"CaféURL", []string{"café", "url"}}, {"JoséID", []string{"josé", "id"}}, {"MenüHTML", []string{"menü", "html"}}, {"CaféBar", []string{"café", "bar"}}, {"Señor", []string{"señor"}},
	{"UserIDs", []string{"user", "ids"}}, {"AllowedIPs", []string{"allowed", "ips"}}, {"BackendURLs", []string{"backend", "urls"}}, {"VMs", []string{"vms"}},
}

var tagSpecs = []nameSpec{
	{"some_tag", []string{"some", "tag"}}, {"someTag", []string{"some", "tag"}}, {"kebab-name", []string{"kebab", "name"}}, {"URL", []string{"url"}},
	{"DB", []string{"db"}}, {"x", []string{"x"}}, {"listenAddr", []string{"listen", "addr"}}, {"TLS_cert", []string{"tls", "cert"}},
}

type leafSpec struct {
	t reflect.Type
}

var envLeafTypes = []reflect.Type{
	reflect.TypeOf(false), reflect.TypeOf(""), reflect.TypeOf(int(0)), reflect.TypeOf(int8(0)), reflect.TypeOf(int16(0)), reflect.TypeOf(int32(0)), reflect.TypeOf(int64(0)),
	reflect.TypeOf(uint(0)), reflect.TypeOf(uint8(0)), reflect.TypeOf(uint16(0)), reflect.TypeOf(uint32(0)), reflect.TypeOf(uint64(0)),
	reflect.TypeOf(float32(0)), reflect.TypeOf(float64(0)), reflect.TypeOf(complex128(0)), reflect.TypeOf(complex64(0)), reflect.TypeOf(time.Duration(0)),
	reflect.TypeOf(Level(0)), reflect.TypeOf(NameStr("")), reflect.TypeOf(myInt(0)),
	reflect.TypeOf([]string(nil)), reflect.TypeOf([]int(nil)), reflect.TypeOf([]uint8(nil)), reflect.TypeOf([]Level(nil)), reflect.TypeOf([]NameStr(nil)), reflect.TypeOf([]float64(nil)),
	reflect.TypeOf(map[string]string(nil)), reflect.TypeOf(map[string]int(nil)), reflect.TypeOf(map[Level]bool(nil)), reflect.TypeOf(map[string][]string(nil)),
	reflect.TypeOf(map[string]struct{}(nil)), reflect.TypeOf((*int)(nil)), reflect.TypeOf((*string)(nil)),
}

type envLeaf struct {
	path    []string // Go field names along the path
	words   []string // intended words (for the documented name)
	envTag  string   // dialsenv tag on the leaf ("" if none)
	typ     reflect.Type
	aliasOf string
	envOnly bool // the alias comes from a `dialsenvalias` tag: only the environment source knows it
}

type envTypeGen struct {
	r         *RNG
	leaves    []envLeaf
	used      map[string]bool // documented names used so far (distinct flattened names are a precondition)
	alias     bool
	embed     bool            // embedded (anonymous) struct fields: their name adds no word unless tagged
	colls     bool            // slices / arrays / maps of structs (sub-transformers)
	np        []string        // names of the enclosing non-embedded fields
	flat      map[string]bool // flattened Go names used so far (embedded structs share their parent's name space)
	shorts    int             // pflag shorthand letters handed out
	empties   bool            // keep struct-typed fields whose struct has no exported field
	emptyTags bool            // `dials:""` on struct-typed fields
	ascii     bool            // ASCII field names only (the caller compares name derivations with the ASCII case-conversion model)
}

func (g *envTypeGen) genStruct(depth int, path, words []string) reflect.Type {
	r := g.r
	n := 1 + r.Intn(4)
	var fs []reflect.StructField
	usedNames := map[string]bool{}
	for i := 0; i < n; i++ {
		ns := fieldNames[r.Intn(len(fieldNames))]
		for g.ascii && caseTypeNonASCII(map[string]any{"type": ns.name}) {
			ns = fieldNames[r.Intn(len(fieldNames))]
		}
		if usedNames[ns.name] {
			continue
		}
		usedNames[ns.name] = true
		f := reflect.StructField{Name: ns.name}
		w := ns.words
		var tagParts []string
		if r.Chance(30) {
			ts := tagSpecs[r.Intn(len(tagSpecs))]
			tagParts = append(tagParts, fmt.Sprintf(`dials:%q`, ts.name))
			w = ts.words
		}
		fpath := append(append([]string{}, path...), ns.name)
		fwords := append(append([]string{}, words...), w...)
		if depth > 0 && g.colls && r.Chance(12) {
			// a collection of structs: not a leaf of any source; its element type is translated by a
			// sub-transformer
			sub := &envTypeGen{r: r, used: map[string]bool{}, alias: g.alias, ascii: g.ascii}
			inner := sub.genStruct(depth-1, nil, nil)
			if inner.NumField() == 0 {
				if !g.empties || f.Anonymous || !r.Chance(50) {
					continue
				}
				// a struct without (exported) fields: it has no leaf and takes no flattened value - the fields around
				// it, and in particular a parent that ENDS with it, must work as if it were not there
				inner = []reflect.Type{reflect.TypeOf(struct{}{}), reflect.TypeOf(struct{ hidden int }{})}[r.Intn(2)]
			}
			switch r.Intn(4) {
			case 0:
				f.Type = reflect.SliceOf(inner)
			case 1:
				f.Type = reflect.ArrayOf(1+r.Intn(2), inner)
			case 2:
				f.Type = reflect.SliceOf(reflect.PtrTo(inner))
			default:
				f.Type = reflect.MapOf(reflect.TypeOf(""), inner)
			}
			flatName := strings.Join(append(append([]string{}, g.np...), ns.name), ".")
			if g.flat == nil {
				g.flat = map[string]bool{}
			}
			if g.flat[flatName] {
				continue
			}
			g.flat[flatName] = true
			f.Tag = reflect.StructTag(strings.Join(tagParts, " "))
			fs = append(fs, f)
			continue
		}
		if g.empties && r.Chance(10) {
			// a struct-typed field whose struct has no exported field: no leaf, no flattened value; the fields around
			// it - and a parent that ENDS with it - must work as if it were not there
			f.Type = []reflect.Type{reflect.TypeOf(struct{}{}), reflect.TypeOf(struct{ hidden int }{}), reflect.TypeOf(&struct{}{})}[r.Intn(3)]
			flatName := strings.Join(append(append([]string{}, g.np...), ns.name), ".")
			if g.flat == nil {
				g.flat = map[string]bool{}
			}
			if g.flat[flatName] {
				continue
			}
			g.flat[flatName] = true
			f.Tag = reflect.StructTag(strings.Join(tagParts, " "))
			fs = append(fs, f)
			continue
		}
		if depth > 0 && r.Chance(30) {
			if g.embed && r.Chance(35) {
				f.Anonymous = true
				if len(tagParts) == 0 {
					fwords = append([]string{}, words...)
				}
			}
			if g.emptyTags && !f.Anonymous && r.Chance(12) {
				// an explicitly EMPTY dials tag on a struct field: the tag is there and contributes no word, so the
				// struct's leaves are named as if they belonged to the parent (not by the Go field name)
				tagParts = []string{`dials:""`}
				fwords = append([]string{}, words...)
			}
			saveNP, nLeaves := g.np, len(g.leaves)
			if !f.Anonymous {
				g.np = append(append([]string{}, g.np...), ns.name)
			}
			inner := g.genStruct(depth-1, fpath, fwords)
			g.np = saveNP
			if inner.NumField() == 0 {
				if !g.empties || f.Anonymous || !r.Chance(50) {
					continue
				}
				// a struct without (exported) fields: no leaf, no flattened value - a parent that ENDS with it
				// must work as if it were not there
				inner = []reflect.Type{reflect.TypeOf(struct{}{}), reflect.TypeOf(struct{ hidden int }{})}[r.Intn(2)]
			}
			if g.embed {
				flatName := strings.Join(append(append([]string{}, g.np...), ns.name), ".")
				if g.flat == nil {
					g.flat = map[string]bool{}
				}
				if g.flat[flatName] {
					g.leaves = g.leaves[:nLeaves] // the dropped struct's leaves go with it
					continue
				}
				g.flat[flatName] = true
			}
			if r.Chance(40) {
				f.Type = reflect.PtrTo(inner)
			} else {
				f.Type = inner
			}
		} else {
			lt := envLeafTypes[r.Intn(len(envLeafTypes))]
			envTag := ""
			if r.Chance(12) {
				envTag = fmt.Sprintf("CUSTOM_%d", len(g.leaves))
				tagParts = append(tagParts, fmt.Sprintf(`dialsenv:%q`, envTag))
			}
			doc := strings.ToUpper(strings.Join(fwords, "_"))
			if envTag != "" {
				doc = envTag
			}
			flatName := strings.Join(append(append([]string{}, g.np...), ns.name), ".")
			if g.used[doc] || g.flat[flatName] {
				continue
			}
			g.used[doc] = true
			if g.flat == nil {
				g.flat = map[string]bool{}
			}
			g.flat[flatName] = true
			f.Type = lt
			leaf := envLeaf{path: fpath, words: fwords, envTag: envTag, typ: lt}
			if g.alias && r.Chance(30) {
				// alias on the dials tag: the alias name replaces this path element's words
				aw := []string{"old", fmt.Sprintf("n%d", len(g.leaves))}
				adoc := strings.ToUpper(strings.Join(append(append([]string{}, words...), aw...), "_"))
				if !g.used[adoc] {
					g.used[adoc] = true
					tagParts = append(tagParts, fmt.Sprintf(`dialsalias:"old_n%d"`, len(g.leaves)))
					leaf.aliasOf = adoc
				}
			}
			if g.alias && leaf.aliasOf == "" && r.Chance(9) {
				// a source-specific alias: the variable named by the tag, verbatim, is the alias - in the environment
				// source only; next to fields with a plain `dialsalias` it must not leak into THEIR alias names
				adoc := fmt.Sprintf("LEGACY_%d", len(g.leaves))
				if !g.used[adoc] {
					g.used[adoc] = true
					tagParts = append(tagParts, fmt.Sprintf(`dialsenvalias:%q`, adoc))
					leaf.aliasOf, leaf.envOnly = adoc, true
				}
			}
			if g.alias && g.shorts < 20 && r.Chance(12) {
				// a pflag shorthand (distinct within the type), with or without an alias on the same leaf: the
				// alias copy of the field must not claim the shorthand a second time
				tagParts = append(tagParts, fmt.Sprintf(`dialspflagshort:"%c"`, "abcdefgijklmnopqrstu"[g.shorts]))
				g.shorts++
			}
			g.leaves = append(g.leaves, leaf)
		}
		f.Tag = reflect.StructTag(strings.Join(tagParts, " "))
		fs = append(fs, f)
	}
	return reflect.StructOf(fs)
}

// genEnvValue: a text for the leaf type, the expected parsed value rendered in the model syntax ("" = must be an error)
func genEnvValue(r *RNG, t reflect.Type) (text string, want string) {
	bad := r.Chance(8)
	switch t.Kind() {
	case reflect.Bool:
		if bad {
			return "maybe", ""
		}
		opts := []string{"true", "false", "1", "0", "T", "F", "True", "FALSE"}
		s := opts[r.Intn(len(opts))]
		b, _ := strconv.ParseBool(s)
		return s, "& " + tfVal(reflect.ValueOf(b))
	case reflect.String:
		s := genStr(r)
		return s, "& s" + hexEnc(s)
	case reflect.Int, reflect.Int8, reflect.Int16, reflect.Int32, reflect.Int64:
		if t == reflect.TypeOf(time.Duration(0)) {
			if bad {
				return "10 parsecs", ""
			}
			d := time.Duration(r.Intn(100000)) * time.Millisecond
			return d.String(), "& s" + hexEnc(d.String())
		}
		k := intKind{signed: true, bits: t.Bits()}
		v := genNear(r, k)
		lo, hi := k.rng()
		if v.Cmp(lo) < 0 || v.Cmp(hi) > 0 {
			return v.String(), ""
		}
		return v.String(), "& i" + v.String()
	case reflect.Uint, reflect.Uint8, reflect.Uint16, reflect.Uint32, reflect.Uint64:
		k := intKind{signed: false, bits: t.Bits()}
		v := genNear(r, k)
		lo, hi := k.rng()
		if v.Cmp(lo) < 0 || v.Cmp(hi) > 0 {
			return v.String(), ""
		}
		return v.String(), "& i" + v.String()
	case reflect.Float32, reflect.Float64:
		if bad {
			if r.Bool() { // outside the type's range: an error, not an infinity
				return map[int]string{32: "1e39", 64: "1e400"}[t.Bits()], ""
			}
			return "1.2.3", ""
		}
		x := float64(r.Intn(100000)) / 64
		switch r.Intn(10) {
		case 0: // the ends of the type's range: the largest finite value is a valid text, not an overflow
			if t.Bits() == 32 {
				x = []float64{math.MaxFloat32, -math.MaxFloat32, math.SmallestNonzeroFloat32}[r.Intn(3)]
			} else {
				x = []float64{math.MaxFloat64, -math.MaxFloat64, math.SmallestNonzeroFloat64}[r.Intn(3)]
			}
		case 1: // any finite bit pattern
			if t.Bits() == 32 {
				f := math.Float32frombits(uint32(r.U64()))
				if !math.IsInf(float64(f), 0) && !math.IsNaN(float64(f)) {
					x = float64(f)
				}
			} else if f := math.Float64frombits(r.U64()); !math.IsInf(f, 0) && !math.IsNaN(f) {
				x = f
			}
		case 2:
			if t.Bits() == 32 && envNonCanonOK {
				// a decimal text a hair above the midpoint of two adjacent float32 values: the nearest float32
				// is the upper one (converting through float64 first rounds to the midpoint and then to even)
				lo := math.Float32frombits(0x3f800000 | uint32(r.Intn(1<<22))<<1) // in [1,2), even mantissa
				hi := math.Float32frombits(math.Float32bits(lo) + 1)
				mid := new(big.Float).SetPrec(200).Add(big.NewFloat(float64(lo)), big.NewFloat(float64(hi)))
				mid.Quo(mid, big.NewFloat(2))
				txt := mid.Text('f', 30) + "0000000001"
				envNonCanon = true
				return txt, "& s" + hexEnc(strconv.FormatFloat(float64(hi), 'g', -1, 32))
			}
		}
		s := strconv.FormatFloat(x, 'g', -1, t.Bits())
		return s, "& s" + hexEnc(s)
	case reflect.Complex128:
		x := complex(float64(r.Intn(100)), float64(r.Intn(100)))
		s := strconv.FormatComplex(x, 'g', -1, 128)
		return s, "& s" + hexEnc(s)
	case reflect.Complex64:
		if bad {
			// a part outside the float32 range (inside the float64 range): must be an error, not an infinity
			return []string{"1e39", "(1-3.5e38i)", "(4e38+1i)", "-1e39i"}[r.Intn(4)], ""
		}
		x := complex(float32(r.Intn(100)), float32(r.Intn(100))/4)
		s := strconv.FormatComplex(complex128(x), 'g', -1, 64)
		return s, "& s" + hexEnc(s)
	case reflect.Ptr:
		txt, w := genEnvValue(r, t.Elem())
		return txt, w
	case reflect.Slice:
		n := r.Intn(4)
		switch t.Elem().Kind() {
		case reflect.String:
			v := make([]string, n)
			for i := range v {
				v[i] = genStr(r)
			}
			txt := flaghelper.NewStringSliceFlag(&v).String()
			rv := reflect.MakeSlice(t, n, n)
			for i := range v {
				rv.Index(i).SetString(v[i])
			}
			return txt, tfVal(rv)
		default:
			var parts, wants []string
			for i := 0; i < n; i++ {
				txt, w := genEnvValue(r, t.Elem())
				if w == "" || strings.ContainsAny(txt, ",\"' ") {
					txt, w = "7", "& i7"
					if t.Elem().Kind() == reflect.Float64 {
						w = "& s" + hexEnc("7")
					}
					if t.Elem() == reflect.TypeOf(time.Duration(0)) {
						txt, w = "7s", "& s"+hexEnc("7s")
					}
				}
				parts = append(parts, txt)
				wants = append(wants, strings.TrimPrefix(w, "& "))
			}
			if bad && n > 0 {
				parts[r.Intn(n)] = "nope"
				return strings.Join(parts, ","), ""
			}
			return strings.Join(parts, ","), strings.Join(append(append([]string{"["}, wants...), "]"), " ")
		}
	case reflect.Map:
		switch t {
		case reflect.TypeOf(map[string]struct{}(nil)):
			m := map[string]struct{}{}
			for i := r.Intn(4); i > 0; i-- {
				m[genStr(r)] = struct{}{}
			}
			return flaghelper.NewStringSetFlag(&m).String(), tfVal(reflect.ValueOf(m))
		case reflect.TypeOf(map[string][]string(nil)):
			m := map[string][]string{}
			for i := r.Intn(3); i > 0; i-- {
				m["k"+genWord(r)] = []string{genStr(r), genStr(r)}[:1+r.Intn(2)]
			}
			if txt := flaghelper.NewMapStringStringSliceFlag(&m).String(); len(m) > 0 && r.Chance(25) && m["zlast"] == nil {
				// a pair without a value after pairs with values: the key maps to one empty string
				m["zlast"] = []string{""}
				return txt + ",zlast:", tfVal(reflect.ValueOf(m))
			}
			return flaghelper.NewMapStringStringSliceFlag(&m).String(), tfVal(reflect.ValueOf(m))
		case reflect.TypeOf(map[string]string(nil)):
			m := map[string]string{}
			for i := r.Intn(4); i > 0; i-- {
				m["k"+genWord(r)] = genStr(r)
			}
			if txt := flaghelper.NewMapStringStringFlag(&m).String(); len(m) > 0 && r.Chance(25) {
				// a pair without a value ("key" or "key:") after pairs with values: the key maps to ""
				if _, dup := m["zlast"]; !dup {
					m["zlast"] = ""
					return txt + []string{",zlast", ",zlast:"}[r.Intn(2)], tfVal(reflect.ValueOf(m))
				}
			}
			return flaghelper.NewMapStringStringFlag(&m).String(), tfVal(reflect.ValueOf(m))
		case reflect.TypeOf(map[string]int(nil)):
			if bad {
				// (a missing number after a pair that has one is unparsable too: it must not inherit anything)
				return []string{"a:1,b:x", "a:5,b:", "a:5,b", "b:,a:5"}[r.Intn(4)], ""
			}
			m := map[string]int{}
			var parts []string
			for i := r.Intn(4); i > 0; i-- {
				k := "k" + genWord(r)
				if _, dup := m[k]; dup {
					continue
				}
				m[k] = r.Intn(1000) - 500
				parts = append(parts, fmt.Sprintf("%s:%d", k, m[k]))
			}
			return strings.Join(parts, ","), tfVal(reflect.ValueOf(m))
		case reflect.TypeOf(map[string]time.Duration(nil)):
			if bad {
				return "a:1s,b:soon", ""
			}
			seen := map[string]bool{}
			var parts, wants []string
			for i := r.Intn(4); i > 0; i-- {
				k := "k" + genWord(r)
				if seen[k] {
					continue
				}
				seen[k] = true
				d := time.Duration(r.Intn(100000)) * time.Millisecond
				parts = append(parts, k+":"+d.String())
				wants = append(wants, "s"+hexEnc(k)+" s"+hexEnc(d.String()))
			}
			sort.Strings(wants)
			return strings.Join(parts, ","), strings.Join(append(append([]string{"<"}, wants...), ">"), " ")
		default: // map[Level]bool
			m := map[Level]bool{}
			var parts []string
			for i := r.Intn(3); i > 0; i-- {
				k := Level(r.Intn(200))
				if _, dup := m[k]; dup {
					continue
				}
				m[k] = r.Bool()
				parts = append(parts, fmt.Sprintf("%d:%v", k, m[k]))
			}
			return strings.Join(parts, ","), tfVal(reflect.ValueOf(m))
		}
	}
	return "", ""
}

// tokenStreams runs the real scanners over the text (slice mode and map mode)
// envNonCanonOK: the caller can cope with float texts that are not the shortest form of their value (the model
// carries float texts as they are, so such a case is compared with the oracle only); envNonCanon reports that one
// was generated since the caller last cleared it
var envNonCanonOK, envNonCanon bool

func tokenStreams(text string) (sl, mp []string) {
	tl := &tokLog{}
	parse.SetVerifTokenHook(tl.hook)
	defer parse.SetVerifTokenHook(nil)
	catch(func() { parse.StringSlice(text) })
	sl = tl.toks
	tl.toks = nil
	catch(func() { parse.StringStringSliceMap(text) })
	mp = tl.toks
	return
}

func leafOf(v reflect.Value, path []string) (leaf reflect.Value) {
	// FieldByName panics when the name is promoted through a nil embedded pointer: such a leaf is unset
	defer func() {
		if recover() != nil {
			leaf = reflect.Value{}
		}
	}()
	for _, p := range path {
		for v.Kind() == reflect.Ptr {
			if v.IsNil() {
				return reflect.Value{}
			}
			v = v.Elem()
		}
		v = v.FieldByName(p)
	}
	return v
}

func init() { register("C11", checkC11) }

func checkC11(c *Ctx) {
	r := c.RNG
	res := c.Res
	res.ASCIIModel = true
	res.Rule = "random config struct types (reflect.StructOf: depth <= 3, field names from a vocabulary of capitalised words and initialisms with known word lists (incl. words ending in a multi-byte lower-case letter: CaféURL, JoséID, MenüHTML - outside the ASCII case-conversion model, judged by the documentation oracle alone), dials tags in snake/camel/kebab/upper case on any level, dialsenv tags, " +
		"value and pointer structs; leaves: bool, string, all integer widths, floats, complex, duration, user-defined named scalars, string/int/named/float slices, string maps, int-valued and named-key maps, map[string][]string, sets, user pointers) with distinct documented names; " +
		"random subset of the documented variables set (plus decoys: near-miss names, other prefixes, lower-case variants), values incl. out-of-range numbers and quoting-heavy strings; with and without prefix. " +
		"real Pointerify + env.Source.Value vs Lean model (translated field list with names and tags, variable names, value) and vs the documentation oracle. non-trivial: >= 2 variables set and a nested struct or tag; distinct = by request text"
	n := c.scale(1500, 50000)
	c11Boundaries(c)
	c11Nameless(c)
	for i := 0; i < n; i++ {
		g := &envTypeGen{r: r, used: map[string]bool{}, emptyTags: true}
		T := g.genStruct(1+r.Intn(3), nil, nil)
		if strings.Contains(T.String(), `dials:\"\"`) {
			res.Count("types/with-an-empty-dials-tag-on-a-struct-field")
		}
		if T.NumField() == 0 || len(g.leaves) == 0 {
			continue
		}
		PT := ptrify.Pointerify(T, reflect.New(T).Elem())
		fields := tfFields(PT)
		pfx := ""
		if r.Chance(40) {
			pfx = []string{"APP", "MY_SVC", "x"}[r.Intn(3)]
			if r.Chance(30) {
				// the prefix equals the first word of some leaf's own name: the variable is still PREFIX_<name>,
				// i.e. it spells the word twice
				l := g.leaves[r.Intn(len(g.leaves))]
				first := ""
				if l.envTag != "" {
					first = strings.SplitN(l.envTag, "_", 2)[0]
				} else if len(l.words) > 0 {
					first = strings.ToUpper(l.words[0])
				}
				if first != "" && !strings.ContainsAny(first, "=\x00") {
					pfx = first
				}
			}
		}
		cs := map[string]any{"type": T.String(), "prefix": pfx}
		// names: model vs documentation
		namesRep := c.Drv.Ask("tf envnames chainEnv " + hexEnc(pfx) + " " + fields)
		var modelNames []string
		if strings.HasPrefix(namesRep, "ok") {
			for _, h := range strings.Fields(namesRep)[1:] {
				s, _ := hexDec(h)
				modelNames = append(modelNames, s)
			}
		}
		docName := func(l envLeaf) string {
			name := strings.ToUpper(strings.Join(l.words, "_"))
			if l.envTag != "" {
				name = l.envTag
			}
			if pfx != "" {
				name = pfx + "_" + name
			}
			return name
		}
		// environment
		var entries []string
		set := map[string]string{}
		wants := map[string]string{} // documented name -> expected value rendering ("" = error expected)
		nset := 0
		expectErr := false
		extBad := false // an unparsable float / duration: strconv and time are external to the model
		envNonCanonOK, envNonCanon = true, false
		for _, l := range g.leaves {
			if !r.Chance(55) {
				continue
			}
			txt, w := genEnvValue(r, l.typ)
			if strings.ContainsRune(txt, 0) {
				continue // the OS cannot hold a NUL byte in an environment value
			}
			set[docName(l)] = txt
			wants[docName(l)] = w
			if w == "" {
				expectErr = true
				switch l.typ.Kind() {
				case reflect.Float32, reflect.Float64, reflect.Complex128, reflect.Complex64:
					extBad = true
				case reflect.Int64:
					extBad = extBad || l.typ == reflect.TypeOf(time.Duration(0))
				case reflect.Slice:
					extBad = extBad || l.typ.Elem().Kind() == reflect.Float64
				}
			}
			nset++
		}
		for d := r.Intn(3); d > 0 && len(g.leaves) > 0; d-- { // decoys
			l := g.leaves[r.Intn(len(g.leaves))]
			dn := docName(l)
			decoy := []string{strings.ToLower(dn), dn + "_X", "OTHER_" + dn, strings.ReplaceAll(dn, "_", "")}[r.Intn(4)]
			if pfx != "" && r.Chance(40) {
				decoy = strings.TrimPrefix(dn, pfx+"_") // the name without its prefix names no leaf
			}
			if _, clash := set[decoy]; !clash && decoy != dn {
				isDoc := false
				for _, l2 := range g.leaves {
					if docName(l2) == decoy {
						isDoc = true
					}
				}
				if !isDoc {
					set[decoy] = "999"
				}
			}
		}
		keys := make([]string, 0, len(set))
		for k := range set {
			keys = append(keys, k)
		}
		sort.Strings(keys)
		for _, k := range keys {
			sl, mp := tokenStreams(set[k])
			e := []string{"E", hexEnc(k), hexEnc(set[k]), strconv.Itoa(len(sl))}
			e = append(e, sl...)
			e = append(e, strconv.Itoa(len(mp)))
			e = append(e, mp...)
			entries = append(entries, strings.Join(e, " "))
			os.Setenv(k, set[k])
		}
		cs["env"] = set
		req := fmt.Sprintf("tf env chainEnv %s %s %d %s", hexEnc(pfx), fields, len(entries), strings.Join(entries, " "))
		var out reflect.Value
		var err error
		pn := catch(func() { out, err = (&env.Source{Prefix: pfx}).Value(context.Background(), dials.NewType(PT)) })
		for _, k := range keys {
			os.Unsetenv(k)
		}
		var impl string
		switch {
		case pn != "":
			impl = "panic"
			cs["panic"] = pn
		case err != nil:
			impl = "err"
			cs["error"] = err.Error()
		default:
			p := []string{}
			for k := 0; k < out.NumField(); k++ {
				p = append(p, tfVal(out.Field(k)))
			}
			impl = "ok " + strings.Join(p, " ")
		}
		model := strings.TrimSpace(c.Drv.Ask(req))
		if strings.HasPrefix(model, "panic") {
			model = "panic"
		}
		res.Count("outcome/" + strings.SplitN(impl, " ", 2)[0])
		res.Count(fmt.Sprintf("vars_set=%d", min(nset, 6)))
		envNonCanonOK = false
		if envNonCanon {
			res.Count("float32 text just above a midpoint (oracle only)")
		}
		if extBad || envNonCanon {
			res.OutOfDomain++
		} else if strings.TrimSpace(impl) != model {
			cs["request"] = req
			res.Add(Finding{Kind: "disagreement", What: "env source: model != implementation", Case: cs, Observed: impl, Model: model})
		}
		if impl == "panic" {
			res.Add(Finding{Kind: "violation", What: "env source panicked: " + pn, Case: cs})
		}
		// documentation oracle: names
		for _, l := range g.leaves {
			found := false
			for _, mn := range modelNames {
				if mn == docName(l) {
					found = true
				}
			}
			if !found && strings.HasPrefix(namesRep, "ok") {
				res.Add(Finding{Kind: "disagreement", What: "model's variable names differ from the documented derivation", Case: cs, Expected: docName(l), Model: modelNames})
				break
			}
		}
		// values
		if expectErr {
			if impl != "err" {
				res.Add(Finding{Kind: "violation", What: "an unparsable or out-of-range variable did not make the env source fail", Case: cs, Observed: impl})
			}
		} else if impl == "err" || impl == "panic" {
			res.Add(Finding{Kind: "violation", What: "env source failed although every variable is parsable", Case: cs, Observed: impl})
		} else {
			for _, l := range g.leaves {
				lv := leafOf(out, l.path)
				w, isSet := wants[docName(l)]
				got := "n"
				if lv.IsValid() {
					got = tfVal(lv)
				}
				if !isSet {
					w = "n"
				}
				// nil-able leaves (slices, maps, user pointers) are not wrapped in an extra pointer
				if got != w {
					res.Add(Finding{Kind: "violation", What: fmt.Sprintf("leaf %s (variable %s): got %s, want %s", strings.Join(l.path, "."), docName(l), got, w), Case: cs})
					break
				}
			}
		}
		nested := strings.Count(fields, "{") > 1 || strings.Contains(T.String(), "dials:")
		res.Case(req, nset >= 2 && nested, cs)
	}
}
