package main

// C07 / C20: a WATCHING inner source set on a Blank.  Blank.SetSource hands the source's current value over with a
// blocking report: when it returns nil the value is what View shows, when the re-stack refuses the value (Verify) it
// returns that error and the view is unchanged - for a watching inner source exactly as for a static one; the watcher
// is then started with the Dials' own WatchArgs, and its later blocking reports behave the same way.

import (
	"context"
	"errors"
	"fmt"
	"reflect"
	"time"

	"github.com/vimeo/dials"
	"github.com/vimeo/dials/sourcewrap"
)

type c20VCfg struct{ A int }

var errC20VOdd = errors.New("A must not be a multiple of seven")

func (c *c20VCfg) Verify() error {
	if c.A%7 == 0 {
		return errC20VOdd
	}
	return nil
}

type c20VWatcher struct {
	a   int
	wa  dials.WatchArgs
	typ *dials.Type
}

func (w *c20VWatcher) Value(_ context.Context, t *dials.Type) (reflect.Value, error) {
	v := reflect.New(t.Type()).Elem()
	a := w.a
	v.Field(0).Set(reflect.ValueOf(&a))
	return v, nil
}

func (w *c20VWatcher) Watch(_ context.Context, t *dials.Type, wa dials.WatchArgs) error {
	w.wa, w.typ = wa, t
	return nil
}

func c20BlankWatcherInner(c *Ctx, r *RNG, n int) {
	res := c.Res
	good := func() int {
		for {
			if v := 1 + r.Intn(100000); v%7 != 0 {
				return v
			}
		}
	}
	for i := 0; i < n; i++ {
		first, later := good(), good()
		firstBad, laterBad := r.Chance(40), r.Chance(40)
		if firstBad {
			first = 7 * (1 + r.Intn(1000))
		}
		if laterBad {
			later = 7 * (1 + r.Intn(1000))
		}
		staticFirst := r.Chance(40)
		cs := map[string]any{"stream": "a watching inner source set on a Blank", "value()": first, "value_is_valid": !firstBad, "later_report": later,
			"later_is_valid": !laterBad, "static_source_set_before": staticFirst}
		ctx, cancel := context.WithCancel(context.Background())
		b := &sourcewrap.Blank{}
		d, err := dials.Config(ctx, &c20VCfg{A: 1}, b)
		if err != nil {
			res.Add(Finding{Kind: "violation", What: "Config with a Blank failed: " + err.Error(), Case: cs})
			cancel()
			continue
		}
		shown := 1
		if staticFirst {
			shown = good()
			sc, c1 := context.WithTimeout(ctx, 5*time.Second)
			if err := b.SetSource(sc, c20GStatic{shown}); err != nil {
				res.Add(Finding{Kind: "violation", What: "SetSource(static source) failed: " + err.Error(), Case: cs})
			}
			c1()
		}
		w := &c20VWatcher{a: first}
		sc, c1 := context.WithTimeout(ctx, 5*time.Second)
		err = b.SetSource(sc, w)
		c1()
		got := d.View().A
		switch {
		case firstBad && err == nil:
			res.Add(Finding{Kind: "violation", What: fmt.Sprintf("SetSource(watcher) returned nil although the re-stack with its value %d is refused by Verify: the blocking report's answer was lost", first), Case: cs})
		case firstBad && !errors.Is(err, errC20VOdd):
			res.Add(Finding{Kind: "violation", What: "SetSource(watcher) failed, but not with the Verify error of the refused value: " + err.Error(), Case: cs})
		case firstBad && got != shown:
			res.Add(Finding{Kind: "violation", What: fmt.Sprintf("a refused value changed the view: View() shows %d, the last accepted value is %d", got, shown), Case: cs})
		case !firstBad && err != nil:
			res.Add(Finding{Kind: "violation", What: "SetSource(watcher) failed for a valid value: " + err.Error(), Case: cs})
		case !firstBad && got != first:
			res.Add(Finding{Kind: "violation", What: fmt.Sprintf("SetSource(watcher) returned nil, but View() shows %d; the watcher's value is %d (returned before the value was stacked)", got, first), Case: cs})
		}
		if !firstBad && err == nil {
			shown = first
			if w.wa == nil {
				res.Add(Finding{Kind: "violation", What: "SetSource(watcher) returned nil without starting the watcher (Watch was not called)", Case: cs})
			} else {
				v := reflect.New(w.typ.Type()).Elem()
				a := later
				v.Field(0).Set(reflect.ValueOf(&a))
				sc, c1 := context.WithTimeout(ctx, 5*time.Second)
				rerr := w.wa.BlockingReportNewValue(sc, v)
				c1()
				got := d.View().A
				switch {
				case laterBad && (rerr == nil || !errors.Is(rerr, errC20VOdd)):
					res.Add(Finding{Kind: "violation", What: fmt.Sprintf("the watcher's blocking report of the invalid value %d did not return the Verify error: %v", later, rerr), Case: cs})
				case laterBad && got != shown:
					res.Add(Finding{Kind: "violation", What: fmt.Sprintf("a refused report changed the view: %d, want %d", got, shown), Case: cs})
				case !laterBad && rerr != nil:
					res.Add(Finding{Kind: "violation", What: "the watcher's blocking report of a valid value failed: " + rerr.Error(), Case: cs})
				case !laterBad && got != later:
					res.Add(Finding{Kind: "violation", What: fmt.Sprintf("the watcher's blocking report returned nil, but View() shows %d, not %d", got, later), Case: cs})
				}
			}
		}
		cancel()
		res.Count("blank.watching-inner-source")
		res.Case(fmt.Sprintf("winner|%d|%v|%d|%v|%v", first, firstBad, later, laterBad, staticFirst), true, cs)
	}
}
