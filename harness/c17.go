package main

// C17 — watched files: the view converges to the file's final content.
//
// The REAL file source (sources/file, public API only) is driven in private temp directories.
//   direct modes : Watch gets the harness's own dials.WatchArgs (logs reports / errors) and the source gets the
//                  harness's own dials.Decoder (logs the bytes every iteration read; decodability is decided by
//                  content) and logger (logs failed watch calls), so that every real loop iteration leaves
//                  (Read, Actions) in ONE totally ordered log, which the Lean driver must reproduce.
//     free       : purely event driven (inotify), operations race with the watcher's reads (pauses 0 / 1 ms / 20 ms).
//     step       : additionally the public Reload channel is used as a rendezvous after every operation, which makes
//                  the model state (watchingFile, resolved path, watch table) exactly trackable; the kernel's watch
//                  table is read back from /proc/self/fdinfo and compared with the model's.
//   e2e mode     : dials.Config with the real file source and the real JSON decoder; View()/ViewVersion() observed.
//   r25/r26/r27  : deterministic regression streams for the three repaired defects D25 (..data swap whose old target stays),
//                  D26 (regular file becomes a symlink, then the entry is replaced), D27 (write between the loop's read and
//                  its Add of the new directory's watch, window held open through the harness's decoder): all must converge.
//   ovf          : the loop is parked inside a pass (blocking decoder), the kernel's inotify queue is overflowed with unrelated
//                  mkdir/rmdir pairs in the config's directory, the config is rewritten (its event is lost), the loop is
//                  released: the overflow error must wake the loop into a read of the final content.
// Everything timing dependent polls an OBSERVATION until a generous deadline; no sleep is ever an expectation.

import (
	"bufio"
	"bytes"
	"context"
	"crypto/sha256"
	"encoding/hex"
	"encoding/json"
	"errors"
	"flag"
	"fmt"
	"io"
	iofs "io/fs"
	"os"
	"os/exec"
	"path/filepath"
	"reflect"
	"runtime/pprof"
	"sort"
	"strconv"
	"strings"
	"sync"
	"sync/atomic"
	"syscall"
	"time"

	"github.com/vimeo/dials"
	djson "github.com/vimeo/dials/decoders/json"
	"github.com/vimeo/dials/sources/file"
)

func init() { register("C17", checkC17) }

const (
	c17Deadline     = 10 * time.Second // "once changes stop": generous convergence deadline
	c17ReleaseLimit = 5 * time.Second
	c17Poll         = 2 * time.Millisecond
)

// ---------- histories ----------

type c17Op struct {
	Mech    string `json:"mech"` // inplace | inplace2 | rename | swap | swapkeep (old target stays) | delrec | tosymlink
	What    string `json:"what"` // new | same | bad
	Content string `json:"content"`
	Valid   bool   `json:"valid"`
	PauseUS int    `json:"pause_us"` // pause before the operation
	MidUS   int    `json:"mid_us"`   // pause inside (between unlink and re-creation / between the two chunks)
}

type c17Hist struct {
	ID        string  `json:"id"`
	Mode      string  `json:"mode"`   // free | step | e2e | r25 | r26 | r27
	Layout    string  `json:"layout"` // plain | k8s
	Init      string  `json:"init"`
	InitValid bool    `json:"init_valid"`
	Ops       []c17Op `json:"ops"`
}

var c17Pauses = []int{0, 1000, 20000}

func c17ValidText(b []byte) bool {
	return bytes.HasPrefix(b, []byte("K=")) && bytes.HasSuffix(b, []byte(";"))
}

type c17JSONCfg struct {
	A string
	N int
}

func c17ValidJSON(b []byte) bool {
	var v c17JSONCfg
	return json.Unmarshal(b, &v) == nil
}

func c17GenContent(r *RNG, id string, seq int, what string, asJSON bool) string {
	pad := strings.Repeat("x", r.Intn(40))
	if r.Chance(10) {
		pad = strings.Repeat("y", 200+r.Intn(4000))
	}
	if asJSON {
		if what == "bad" {
			if r.Bool() {
				return fmt.Sprintf(`{"A":"%s.%d%s","N":`, id, seq, pad)
			}
			return fmt.Sprintf(`{"A":"%s.%d","N":"notanumber%s"}`, id, seq, pad)
		}
		return fmt.Sprintf(`{"A":"%s.%d%s","N":%d}`, id, seq, pad, seq)
	}
	if what == "bad" {
		if r.Bool() {
			return fmt.Sprintf("K=%s.%d:%s", id, seq, pad) // looks like a truncated write
		}
		return fmt.Sprintf("!%s.%d:%s;", id, seq, pad)
	}
	return fmt.Sprintf("K=%s.%d:%s;", id, seq, pad)
}

// c17GenHist generates one history of 1-12 operations for the given mode.  The layout changes k8s -> plain when the
// user-visible symlink is renamed over by a regular file and plain -> k8s when the regular file is replaced by a symlink
// into a timestamped directory (tosymlink).
func c17GenHist(r *RNG, id, mode string) c17Hist {
	asJSON := mode == "e2e"
	valid := c17ValidText
	if asJSON {
		valid = c17ValidJSON
	}
	h := c17Hist{ID: id, Mode: mode, Layout: "plain"}
	if r.Chance(45) {
		h.Layout = "k8s"
	}
	seq := 0
	initWhat := "new"
	if !asJSON && r.Chance(8) {
		initWhat = "bad"
	}
	h.Init = c17GenContent(r, id, seq, initWhat, asJSON)
	h.InitValid = valid([]byte(h.Init))
	cur := h.Init
	layout := h.Layout
	n := 1 + r.Intn(12)
	for i := 0; i < n; i++ {
		op := c17Op{PauseUS: c17Pauses[r.Intn(3)], MidUS: c17Pauses[r.Intn(3)]}
		if layout == "k8s" {
			switch x := r.Intn(100); {
			case x < 45:
				op.Mech = "swap"
			case x < 55:
				op.Mech = "swapkeep"
			case x < 70:
				op.Mech = "inplace"
			case x < 78:
				op.Mech = "inplace2"
			case x < 90:
				op.Mech = "delrec"
			default:
				op.Mech = "rename"
			}
		} else {
			switch x := r.Intn(100); {
			case x < 30:
				op.Mech = "inplace"
			case x < 42:
				op.Mech = "inplace2"
			case x < 70:
				op.Mech = "rename"
			case x < 79:
				op.Mech = "tosymlink"
			default:
				op.Mech = "delrec"
			}
		}
		switch x := r.Intn(100); {
		case x < 55:
			op.What = "new"
		case x < 78:
			op.What = "same"
		default:
			op.What = "bad"
		}
		if op.What == "same" {
			op.Content = cur
		} else {
			seq++
			op.Content = c17GenContent(r, id, seq, op.What, asJSON)
		}
		op.Valid = valid([]byte(op.Content))
		cur = op.Content
		switch op.Mech {
		case "rename":
			layout = "plain"
		case "tosymlink":
			layout = "k8s"
		}
		h.Ops = append(h.Ops, op)
	}
	return h
}

// ---------- the file system side ----------

type c17FS struct {
	dir, cfg string
	layout   string
	tsN      int
	curTS    string
	tmpN     int
	fileGen  int  // incremented whenever the object the config path resolves to is replaced
	oldAlive bool // the previous object still exists (k8s -> plain rename keeps the old target)
}

func c17NewFS(base string, h c17Hist) (*c17FS, error) {
	dir, err := os.MkdirTemp(base, "c17-"+h.ID+"-")
	if err != nil {
		return nil, err
	}
	if dir, err = filepath.EvalSymlinks(dir); err != nil {
		return nil, err
	}
	f := &c17FS{dir: dir, cfg: filepath.Join(dir, "cfg"), layout: h.Layout}
	if h.Layout == "k8s" {
		if err := f.newTS([]byte(h.Init)); err != nil {
			return nil, err
		}
		if err := f.pointData(); err != nil {
			return nil, err
		}
		if err := os.Symlink("..data/cfg", f.cfg); err != nil {
			return nil, err
		}
	} else if err := os.WriteFile(f.cfg, []byte(h.Init), 0o644); err != nil {
		return nil, err
	}
	return f, nil
}

func (f *c17FS) newTS(b []byte) error {
	f.tsN++
	f.curTS = fmt.Sprintf("..2026_09_28_%04d", f.tsN)
	if err := os.Mkdir(filepath.Join(f.dir, f.curTS), 0o755); err != nil {
		return err
	}
	return os.WriteFile(filepath.Join(f.dir, f.curTS, "cfg"), b, 0o644)
}

// pointData is the AtomicWriter's commit: symlink ..data_tmp -> <ts dir>, rename ..data_tmp -> ..data
func (f *c17FS) pointData() error {
	tmp := filepath.Join(f.dir, "..data_tmp")
	os.Remove(tmp)
	if err := os.Symlink(f.curTS, tmp); err != nil {
		return err
	}
	return os.Rename(tmp, filepath.Join(f.dir, "..data"))
}

func (f *c17FS) swap(b []byte, cleanup bool) error {
	old := f.curTS
	if err := f.newTS(b); err != nil {
		return err
	}
	if err := f.pointData(); err != nil {
		return err
	}
	if cleanup && old != "" {
		return os.RemoveAll(filepath.Join(f.dir, old))
	}
	return nil
}

func c17Sleep(us int) {
	if us > 0 {
		time.Sleep(time.Duration(us) * time.Microsecond)
	}
}

// apply performs one operation.  mid is called between the unlink and the re-creation of a delete-and-recreate
// (free mode: sleeps MidUS; step mode: rendezvous with the loop).
func (f *c17FS) apply(op c17Op, mid func()) error {
	b := []byte(op.Content)
	switch op.Mech {
	case "inplace":
		return os.WriteFile(f.cfg, b, 0o644)
	case "inplace2":
		fh, err := os.OpenFile(f.cfg, os.O_WRONLY|os.O_TRUNC|os.O_CREATE, 0o644)
		if err != nil {
			return err
		}
		half := len(b) / 2
		fh.Write(b[:half])
		c17Sleep(op.MidUS)
		fh.Write(b[half:])
		return fh.Close()
	case "rename":
		f.tmpN++
		tmp := filepath.Join(f.dir, fmt.Sprintf(".cfg.tmp%d", f.tmpN))
		if err := os.WriteFile(tmp, b, 0o644); err != nil {
			return err
		}
		f.oldAlive = f.layout == "k8s"
		f.layout = "plain"
		f.fileGen++
		return os.Rename(tmp, f.cfg)
	case "swap", "swapkeep":
		if f.layout != "k8s" {
			return errors.New("swap outside the k8s layout")
		}
		f.fileGen++
		f.oldAlive = op.Mech == "swapkeep"
		return f.swap(b, op.Mech == "swap")
	case "delrec":
		if err := os.Remove(f.cfg); err != nil {
			return err
		}
		mid()
		if f.layout == "k8s" {
			if op.What != "same" {
				f.fileGen++
				f.oldAlive = false
				if err := f.swap(b, true); err != nil {
					return err
				}
			}
			return os.Symlink("..data/cfg", f.cfg)
		}
		f.fileGen++
		f.oldAlive = false
		return os.WriteFile(f.cfg, b, 0o644)
	case "tosymlink": // plain -> k8s layout
		if err := f.newTS(b); err != nil {
			return err
		}
		if err := f.pointData(); err != nil {
			return err
		}
		tmp := filepath.Join(f.dir, ".cfg.lnk")
		if err := os.Symlink("..data/cfg", tmp); err != nil {
			return err
		}
		f.layout = "k8s"
		f.fileGen++
		f.oldAlive = false
		return os.Rename(tmp, f.cfg)
	}
	return fmt.Errorf("unknown mechanism %q", op.Mech)
}

func c17Ino(p string) (uint64, bool) {
	st, err := os.Stat(p)
	if err != nil {
		return 0, false
	}
	if s, ok := st.Sys().(*syscall.Stat_t); ok {
		return s.Ino, true
	}
	return 0, false
}

// ---------- the kernel's view of the watches (/proc/self/fdinfo) ----------

func c17InotifyFDs() map[int]map[uint64]bool {
	out := map[int]map[uint64]bool{}
	ents, err := os.ReadDir("/proc/self/fd")
	if err != nil {
		return out
	}
	for _, e := range ents {
		l, err := os.Readlink("/proc/self/fd/" + e.Name())
		if err != nil || !strings.Contains(l, "inotify") {
			continue
		}
		n, _ := strconv.Atoi(e.Name())
		if set, ok := c17FDInfo(n); ok {
			out[n] = set
		}
	}
	return out
}

func c17FDInfo(fd int) (map[uint64]bool, bool) {
	b, err := os.ReadFile(fmt.Sprintf("/proc/self/fdinfo/%d", fd))
	if err != nil {
		return nil, false
	}
	set := map[uint64]bool{}
	isInotify := false
	for _, ln := range strings.Split(string(b), "\n") {
		if !strings.HasPrefix(ln, "inotify ") {
			continue
		}
		isInotify = true
		for _, f := range strings.Fields(ln) {
			if strings.HasPrefix(f, "ino:") {
				if v, err := strconv.ParseUint(f[4:], 16, 64); err == nil {
					set[v] = true
				}
			}
		}
	}
	_ = isInotify
	return set, true
}

// fdsWatching returns the inotify descriptors of this process that hold a watch on the inode.
func c17FDsWatching(ino uint64) []int {
	var fds []int
	for fd, set := range c17InotifyFDs() {
		if set[ino] {
			fds = append(fds, fd)
		}
	}
	sort.Ints(fds)
	return fds
}

// ---------- goroutine attribution through pprof labels ----------

func c17LabelledLeftovers(id string) []string {
	var buf bytes.Buffer
	pprof.Lookup("goroutine").WriteTo(&buf, 1)
	var bad []string
	for _, blk := range strings.Split(buf.String(), "\n\n") {
		if !strings.Contains(blk, `"c17":"`+id+`"`) {
			continue
		}
		if strings.Contains(blk, "dials/sources/file.") || strings.Contains(blk, "fsnotify/fsnotify.") {
			bad = append(bad, blk)
		}
	}
	return bad
}

// ---------- the harness's own Decoder / WatchArgs / logger: one ordered log ----------

type c17Ent struct {
	K string `json:"k"` // read | readerr | report | errd | erro | log:<class> | done
	D string `json:"d,omitempty"`
	V bool   `json:"v,omitempty"`
}

type c17Sess struct {
	mu   sync.Mutex
	ents []c17Ent

	// gate at the entry of Decode (step mode): while armed, an iteration that reaches the decoder blocks BEFORE it
	// logs anything, so that a snapshot of the log consists of complete iterations only
	gmu     sync.Mutex
	gcond   *sync.Cond
	armed   bool
	waiting int
}

func (s *c17Sess) gatePass() {
	s.gmu.Lock()
	for s.armed {
		s.waiting++
		s.gcond.Wait()
		s.waiting--
	}
	s.gmu.Unlock()
}

func (s *c17Sess) gateArm(on bool) {
	s.gmu.Lock()
	s.armed = on
	if !on {
		s.gcond.Broadcast()
	}
	s.gmu.Unlock()
}

func (s *c17Sess) gateWaiting() int {
	s.gmu.Lock()
	defer s.gmu.Unlock()
	return s.waiting
}

func c17NewSess() *c17Sess {
	s := &c17Sess{}
	s.gcond = sync.NewCond(&s.gmu)
	return s
}

func (s *c17Sess) add(e c17Ent) {
	s.mu.Lock()
	s.ents = append(s.ents, e)
	s.mu.Unlock()
}

func (s *c17Sess) snapshot() []c17Ent {
	s.mu.Lock()
	defer s.mu.Unlock()
	return append([]c17Ent(nil), s.ents...)
}

func (s *c17Sess) length() int {
	s.mu.Lock()
	defer s.mu.Unlock()
	return len(s.ents)
}

type c17Dec struct {
	s *c17Sess
	// afterRead (r27 / ovf streams only) is called with the bytes just read, before Decode returns to Value
	afterRead atomic.Pointer[func(b []byte)]
}

func (d *c17Dec) Decode(r io.Reader, _ *dials.Type) (reflect.Value, error) {
	d.s.gatePass()
	b, err := io.ReadAll(r)
	if f := d.afterRead.Load(); err == nil && f != nil {
		(*f)(b)
	}
	if err != nil {
		d.s.add(c17Ent{K: "readerr", D: err.Error()})
		return reflect.Value{}, err
	}
	ok := c17ValidText(b)
	d.s.add(c17Ent{K: "read", D: string(b), V: ok})
	if !ok {
		if len(b)%2 == 0 {
			// a decoder's error may well wrap "no such file" (a field naming a certificate that is not there, an
			// include that cannot be resolved): the CONFIG file exists all the same and the content is invalid
			return reflect.Value{}, fmt.Errorf("c17: content does not decode: %w", &iofs.PathError{Op: "stat", Path: "referenced.pem", Err: syscall.ENOENT})
		}
		return reflect.Value{}, errors.New("c17: content does not decode")
	}
	v := string(b)
	return reflect.ValueOf(&v), nil
}

type c17Args struct{ s *c17Sess }

func (a c17Args) ReportNewValue(_ context.Context, v reflect.Value) error {
	d := "<not a *string>"
	if v.IsValid() && v.CanInterface() {
		if p, ok := v.Interface().(*string); ok && p != nil {
			d = *p
		}
	}
	a.s.add(c17Ent{K: "report", D: d})
	return nil
}
func (a c17Args) BlockingReportNewValue(ctx context.Context, v reflect.Value) error {
	return a.ReportNewValue(ctx, v)
}
func (a c17Args) Done(context.Context) { a.s.add(c17Ent{K: "done"}) }
func (a c17Args) ReportError(_ context.Context, err error) error {
	var de *file.DecoderErr
	if errors.As(err, &de) {
		a.s.add(c17Ent{K: "errd", D: err.Error()})
	} else {
		a.s.add(c17Ent{K: "erro", D: fmt.Sprintf("%T: %v", err, err)})
	}
	return nil
}

type c17Logger struct{ s *c17Sess }

func (l c17Logger) Print(a ...interface{}) { l.s.add(c17Ent{K: "log:other", D: fmt.Sprint(a...)}) }
func (l c17Logger) Printf(f string, a ...interface{}) {
	cls := "other"
	switch {
	case strings.HasPrefix(f, "failed to remove watcher for existing path"):
		cls = "rmfile"
	case strings.HasPrefix(f, "failed to add watcher for path"):
		cls = "addfile"
	case strings.HasPrefix(f, "failed to add new watch for symlink-resolved directory"):
		cls = "adddir"
	case strings.HasPrefix(f, "failed to remove old watch for old symlink-resolved directory"):
		cls = "rmdir"
	}
	l.s.add(c17Ent{K: "log:" + cls, D: fmt.Sprintf(f, a...)})
}

// one (visible) loop iteration reconstructed from the log
type c17Iter struct {
	HasRead                                        bool
	Content                                        string
	Valid                                          bool
	Missing                                        bool // "file missing" iteration that left a trace (its Remove failed)
	RmFileFail, AddFileFail, AddDirFail, RmDirFail bool
	Report                                         *string
	Err                                            string // "", "d" (DecoderErr), "o" (error of os.Open)
	done                                           bool
}

// c17Parse splits the log into iterations: read, then failed watch calls, then at most one report / error (F15j).
func c17Parse(ents []c17Ent) (its []c17Iter, anomalies []string) {
	var cur *c17Iter
	flush := func() {
		if cur != nil {
			its = append(its, *cur)
			cur = nil
		}
	}
	for i, e := range ents {
		switch {
		case e.K == "read":
			flush()
			cur = &c17Iter{HasRead: true, Content: e.D, Valid: e.V}
		case e.K == "readerr":
			flush()
			anomalies = append(anomalies, fmt.Sprintf("entry %d: reader failed: %s", i, e.D))
			cur = &c17Iter{HasRead: true, Content: "", Valid: false}
		case e.K == "log:rmfile":
			flush()
			its = append(its, c17Iter{Missing: true, RmFileFail: true})
		case strings.HasPrefix(e.K, "log:"):
			if cur == nil || cur.done {
				flush()
				cur = &c17Iter{}
			}
			switch e.K {
			case "log:addfile":
				cur.AddFileFail = true
			case "log:adddir":
				cur.AddDirFail = true
			case "log:rmdir":
				cur.RmDirFail = true
			default:
				anomalies = append(anomalies, fmt.Sprintf("entry %d: unclassified log line %q", i, e.D))
			}
		case e.K == "report":
			if cur == nil || !cur.HasRead || cur.done {
				anomalies = append(anomalies, fmt.Sprintf("entry %d: report %q without a read in the same iteration", i, e.D))
				flush()
				cur = &c17Iter{}
			}
			d := e.D
			cur.Report = &d
			cur.done = true
		case e.K == "errd":
			if cur == nil || !cur.HasRead || cur.done {
				anomalies = append(anomalies, fmt.Sprintf("entry %d: decoder error without a read in the same iteration", i))
				flush()
				cur = &c17Iter{}
			}
			cur.Err = "d"
			cur.done = true
		case e.K == "erro":
			if cur != nil && (cur.HasRead || cur.done) {
				flush()
			}
			if cur == nil {
				cur = &c17Iter{}
			}
			cur.Err = "o"
			cur.done = true
		case e.K == "done":
		}
	}
	flush()
	return
}

func c17Tok(s string) string {
	h := sha256.Sum256([]byte(s))
	return hex.EncodeToString(h[:8])
}

func (it c17Iter) observed() string {
	switch {
	case it.Report != nil:
		return "R" + c17Tok(*it.Report)
	case it.Err == "d":
		return "Ed"
	case it.Err == "o":
		return "Eo"
	}
	return ""
}

func c17RE(actions string) string {
	if actions == "." {
		return ""
	}
	var keep []string
	for _, a := range strings.Split(actions, ",") {
		if strings.HasPrefix(a, "R") || strings.HasPrefix(a, "E") {
			keep = append(keep, a)
		}
	}
	return strings.Join(keep, ",")
}

func bit(b bool) string {
	if b {
		return "1"
	}
	return "0"
}

// model state threaded through the driver
type c17Model struct {
	cleaned                     string // hex
	last, wf, resolved, watches string
	dead                        bool // a mismatch was already reported: continue implementation-only
	reread                      bool // verdict of the last step
}

func (m *c17Model) step(c *Ctx, it c17Iter, resolvedNow string, missing bool) (actions string, ok bool) {
	m.reread = false
	read := "E10"
	decok := "0"
	switch {
	case missing || it.Missing:
	case it.HasRead:
		read, decok = "C"+c17Tok(it.Content), bit(it.Valid)
	default:
		read = "E00"
	}
	envres := "N"
	if resolvedNow != "" {
		envres = "S" + hexEnc(resolvedNow)
	}
	flags := bit(!it.RmFileFail) + bit(!it.AddFileFail) + bit(!it.AddDirFail) + bit(!it.RmDirFail)
	rep := c.Drv.Ask(strings.Join([]string{"wt iter", m.cleaned, m.last, m.wf, m.resolved, m.watches, read, decok, envres, flags}, " "))
	fs := strings.Fields(rep)
	if len(fs) != 7 || fs[0] != "ok" {
		return rep, false
	}
	m.last, m.wf, m.resolved, m.watches = fs[1], fs[2], fs[3], fs[4]
	m.reread = fs[6] == "1" // the model's loop goes back to REREAD after this pass
	return fs[5], true
}

// ---------- running one direct-mode history ----------

type c17Out struct {
	hist       c17Hist
	findings   []Finding
	counts     map[string]int
	iters      int
	converged  time.Duration
	nontrivial bool
	canon      string
}

func (o *c17Out) count(k string) { o.counts[k]++ }
func (o *c17Out) add(kind, what string, exp, obs, model any) {
	o.findings = append(o.findings, Finding{Kind: kind, What: what, Case: o.hist, Expected: exp, Observed: obs, Model: model})
}

func c17Tail(ents []c17Ent, n int) []c17Ent {
	if len(ents) > n {
		ents = ents[len(ents)-n:]
	}
	out := make([]c17Ent, len(ents))
	for i, e := range ents {
		if len(e.D) > 60 {
			e.D = e.D[:60] + fmt.Sprintf("…(%d bytes)", len(e.D))
		}
		out[i] = e
	}
	return out
}

// lastGood: the value a consumer holds: the last reported one, else the initial Value (if it decoded)
func c17LastGood(ents []c17Ent, init string, initValid bool) (string, bool) {
	v, ok := init, initValid
	for _, e := range ents {
		if e.K == "report" {
			v, ok = e.D, true
		}
	}
	return v, ok
}

// converged: the observation the property promises once changes stop
func c17Converged(ents []c17Ent, init string, initValid bool, final string, finalValid bool) bool {
	if finalValid {
		v, ok := c17LastGood(ents, init, initValid)
		return ok && v == final
	}
	// invalid final content: the last read saw it and its error was reported
	for i := len(ents) - 1; i >= 0; i-- {
		if ents[i].K == "read" {
			if ents[i].D != final {
				return false
			}
			for _, e := range ents[i+1:] {
				if e.K == "errd" {
					return true
				}
			}
			return false
		}
	}
	return false
}

type c17Live struct {
	dec    *c17Dec
	sess   *c17Sess
	ws     *file.WatchingSource
	cancel context.CancelFunc
	reload chan os.Signal
	fs     *c17FS
	fd     int // the inotify descriptor of this source
	dirIno uint64
	skip   int // log entries of the initial Value call (not part of the loop)
}

// entries of the watch loop (the read of the initial Value call is not one of its iterations)
func (l *c17Live) entries() []c17Ent { return l.sess.snapshot()[l.skip:] }

// rendezvous with the loop through the public Reload channel: the first send is taken when the loop is back at its
// select (every earlier iteration is complete) and starts an iteration; the second one is taken when that iteration
// is complete.  Only used in step mode.
func (l *c17Live) sync() bool {
	for i := 0; i < 2; i++ {
		select {
		case l.reload <- syscall.SIGHUP:
		case <-time.After(c17Deadline):
			return false
		}
	}
	return true
}

// quiesce: after sync (an iteration that started after the operation is complete) arm the decoder gate and wait until
// either one more reload signal was taken (every earlier iteration is complete; the new one will stop at the gate
// before logging, or ends without reading because the file is missing) or an iteration already waits at the gate.
// Until release() the log consists of complete iterations only.
func (l *c17Live) quiesce() bool {
	if !l.sync() {
		return false
	}
	l.sess.gateArm(true)
	deadline := time.Now().Add(c17Deadline)
	for {
		select {
		case l.reload <- syscall.SIGHUP:
			return true
		case <-time.After(500 * time.Microsecond):
		}
		if l.sess.gateWaiting() > 0 {
			return true
		}
		if time.Now().After(deadline) {
			l.sess.gateArm(false)
			return false
		}
	}
}

func (l *c17Live) release() { l.sess.gateArm(false) }

func c17Start(o *c17Out, base string, stepMode bool) *c17Live {
	h := o.hist
	fs, err := c17NewFS(base, h)
	if err != nil {
		o.add("violation", "harness: cannot set up the temp directory: "+err.Error(), nil, nil, nil)
		return nil
	}
	l := &c17Live{sess: c17NewSess(), fs: fs}
	opts := []file.WatchOpt{file.WithLogger(c17Logger{l.sess})}
	if stepMode {
		l.reload = make(chan os.Signal)
		opts = append(opts, file.WithSignalChannel(l.reload))
	}
	l.dec = &c17Dec{s: l.sess}
	ws, err := file.NewWatchingSource(fs.cfg, l.dec, opts...)
	if err != nil {
		o.add("violation", "NewWatchingSource failed: "+err.Error(), nil, nil, nil)
		return nil
	}
	l.ws = ws
	ctx, cancel := context.WithCancel(context.Background())
	l.cancel = cancel
	typ := dials.NewType(reflect.TypeOf(""))
	_, verr := ws.Value(ctx, typ)
	l.skip = l.sess.length()
	if (verr == nil) != h.InitValid {
		o.add("violation", "initial Value: error does not match the decodability of the initial content", h.InitValid, fmt.Sprint(verr), nil)
	}
	var werr error
	pprof.Do(ctx, pprof.Labels("c17", h.ID), func(ctx context.Context) {
		werr = ws.Watch(ctx, typ, c17Args{l.sess})
	})
	if werr != nil {
		o.add("violation", "Watch failed: "+werr.Error(), nil, nil, nil)
		cancel()
		return nil
	}
	l.dirIno, _ = c17Ino(fs.dir)
	fds := c17FDsWatching(l.dirIno)
	if len(fds) != 1 {
		o.add("violation", "after Watch exactly one inotify descriptor must watch the config's directory", 1, fds, nil)
		l.fd = -1
	} else {
		l.fd = fds[0]
	}
	return l
}

// release oracle: after cancel the loop goroutine and fsnotify's reader are gone and no inotify descriptor of this
// process watches the history's directory any more.
func (l *c17Live) stop(o *c17Out) {
	l.sess.gateArm(false)
	l.cancel()
	done := make(chan struct{})
	go func() { l.ws.WG.Wait(); close(done) }()
	select {
	case <-done:
	case <-time.After(c17ReleaseLimit):
		o.add("violation", "after cancel WatchingSource.WG was not released within the limit", "WG.Wait returns", "still waiting after "+c17ReleaseLimit.String(), nil)
	}
	deadline := time.Now().Add(c17ReleaseLimit)
	for {
		left := c17LabelledLeftovers(o.hist.ID)
		fds := c17FDsWatching(l.dirIno)
		if len(left) == 0 && len(fds) == 0 {
			break
		}
		if time.Now().After(deadline) {
			if len(left) > 0 {
				o.add("violation", "after cancel a goroutine of the file source / fsnotify is still alive", "none", left[0], nil)
			}
			if len(fds) > 0 {
				o.add("violation", "after cancel an inotify descriptor still watches the config's directory (OS watches not released)", "none", fds, nil)
			}
			break
		}
		time.Sleep(5 * time.Millisecond)
	}
	os.RemoveAll(l.fs.dir)
}

// nonConvergence files a history that did not converge within the deadline.
func (o *c17Out) nonConvergence(what string, finalReadSeen bool, exp, obs any) {
	o.add("violation", what, exp, map[string]any{"final_content_was_read": finalReadSeen, "detail": obs}, nil)
}

// direct oracles on the complete log (independent of the model)
func c17LogOracles(o *c17Out, its []c17Iter, anomalies []string) {
	h := o.hist
	for _, a := range anomalies {
		o.add("violation", "ordered log is not a sequence of loop iterations: "+a, nil, nil, nil)
	}
	lastDecoded, have := h.Init, h.InitValid
	for i, it := range its {
		if !it.HasRead {
			continue
		}
		if it.Report != nil {
			if !it.Valid || *it.Report != it.Content {
				o.add("violation", fmt.Sprintf("iteration %d reported a value that is not the decoding of what it read", i), c17Tok(it.Content), c17Tok(*it.Report), nil)
			}
			if have && lastDecoded == it.Content {
				o.add("violation", fmt.Sprintf("iteration %d: identical content produced a new version", i), "no report", "report of "+c17Tok(it.Content), nil)
			}
		}
		if it.Valid {
			lastDecoded, have = it.Content, true
		}
	}
}

// correspondence on reports / errors (free and step mode): the model, fed with the reads, must produce the same
// reports and errors iteration by iteration.
func c17Correspond(c *Ctx, o *c17Out, its []c17Iter) {
	h := o.hist
	cleaned := hexEnc("/cfg")
	rep := c.Drv.Ask("wt value N C" + c17Tok(h.Init) + " " + bit(h.InitValid))
	fs := strings.Fields(rep)
	if len(fs) != 3 || fs[0] != "ok" {
		o.add("disagreement", "driver: wt value", nil, nil, rep)
		return
	}
	wantRes := "decerr"
	if h.InitValid {
		wantRes = "ok"
	}
	if fs[2] != wantRes {
		o.add("disagreement", "initial Value: model result differs", wantRes, nil, fs[2])
	}
	m := &c17Model{cleaned: cleaned, last: fs[1], wf: "1", resolved: cleaned, watches: "."}
	for i, it := range its {
		act, ok := m.step(c, it, "", false)
		if !ok {
			o.add("disagreement", "driver: wt iter", nil, nil, act)
			return
		}
		if got, want := it.observed(), c17RE(act); got != want {
			o.add("disagreement", fmt.Sprintf("iteration %d: reports/errors of the model differ from the implementation's", i),
				nil, map[string]any{"read": c17Tok(it.Content), "decodes": it.Valid, "missing": it.Missing, "observed": got}, want)
			return
		}
		o.count("iter/" + map[string]string{"": "silent", "E": "error", "R": "report"}[firstByte(it.observed())])
	}
}

func firstByte(s string) string {
	if s == "" {
		return ""
	}
	return s[:1]
}

func c17RunFree(c *Ctx, h c17Hist, base string) *c17Out {
	o := &c17Out{hist: h, counts: map[string]int{}}
	l := c17Start(o, base, false)
	if l == nil {
		return o
	}
	final, finalValid := h.Init, h.InitValid
	for _, op := range h.Ops {
		c17Sleep(op.PauseUS)
		if err := l.fs.apply(op, func() { c17Sleep(op.MidUS) }); err != nil {
			o.add("violation", "harness: file operation failed: "+err.Error(), nil, nil, nil)
			l.stop(o)
			return o
		}
		final, finalValid = op.Content, op.Valid
		o.count("op/" + op.Mech + "/" + op.What)
	}
	t0 := time.Now()
	ok := false
	for time.Since(t0) < c17Deadline {
		if c17Converged(l.entries(), h.Init, h.InitValid, final, finalValid) {
			ok = true
			break
		}
		time.Sleep(c17Poll)
	}
	o.converged = time.Since(t0)
	// let the trailing iterations finish: observe until the log is quiet (bounded), then look again
	for q, n := 0, l.sess.length(); q < 15; {
		time.Sleep(2 * time.Millisecond)
		if m := l.sess.length(); m != n {
			n, q = m, 0
		} else {
			q++
		}
	}
	ents := l.entries()
	if !ok || !c17Converged(ents, h.Init, h.InitValid, final, finalValid) {
		good, _ := c17LastGood(ents, h.Init, h.InitValid)
		what := "once changes stopped the last reported value is not the decoding of the final content within the deadline"
		if !finalValid {
			what = "final content is invalid but its error was not reported for the final content within the deadline"
		}
		seen := false
		for _, e := range ents {
			seen = seen || (e.K == "read" && e.D == final)
		}
		o.nonConvergence(what, seen, map[string]any{"final": c17Tok(final), "final_decodes": finalValid},
			map[string]any{"last_good": c17Tok(good), "log_tail": c17Tail(ents, 12), "waited": o.converged.String()})
	}
	l.stop(o)
	// the loop goroutine is gone: the log is complete (no iteration is cut in the middle)
	its, anomalies := c17Parse(l.entries())
	o.iters = len(its)
	c17LogOracles(o, its, anomalies)
	c17Correspond(c, o, its)
	o.finish(its)
	return o
}

func (o *c17Out) finish(its []c17Iter) {
	h := o.hist
	kinds := map[string]bool{}
	var sb strings.Builder
	sb.WriteString(h.Mode + "|" + h.Layout + "|" + bit(h.InitValid))
	for _, op := range h.Ops {
		kinds[op.Mech+"/"+op.What] = true
		fmt.Fprintf(&sb, "|%s/%s/%d/%d", op.Mech, op.What, op.PauseUS, op.MidUS)
	}
	reps := 0
	for _, it := range its {
		if it.Report != nil {
			reps++
		}
		fmt.Fprintf(&sb, ";%s", it.observed())
	}
	o.canon = sb.String()
	o.nontrivial = len(h.Ops) >= 2 && len(kinds) >= 2 && reps >= 1
}

// ---------- step mode: exact model state, kernel watch table ----------

func c17RunStep(c *Ctx, h c17Hist, base string) *c17Out {
	o := &c17Out{hist: h, counts: map[string]int{}}
	l := c17Start(o, base, true)
	if l == nil {
		return o
	}
	fs := l.fs
	cleanedHex := hexEnc(fs.cfg)
	// model: initial Value, then Watch
	rep := c.Drv.Ask("wt value N C" + c17Tok(h.Init) + " " + bit(h.InitValid))
	f3 := strings.Fields(rep)
	res0, _ := filepath.EvalSymlinks(fs.cfg)
	m := &c17Model{cleaned: cleanedHex}
	if len(f3) == 3 && f3[0] == "ok" {
		rep = c.Drv.Ask("wt init " + cleanedHex + " " + f3[1] + " " + hexEnc(res0))
		f5 := strings.Fields(rep)
		if len(f5) == 5 && f5[0] == "ok" {
			m.last, m.wf, m.resolved, m.watches = f5[1], f5[2], f5[3], f5[4]
		} else {
			m.dead = true
		}
	} else {
		m.dead = true
	}
	if m.dead {
		o.add("disagreement", "driver: wt value / wt init", nil, nil, rep)
	}
	// the object the file's watch was added for: generation, inode and real path (to see whether it still exists)
	watchedGen, watchedIno, watchedReal := fs.fileGen, uint64(0), res0
	watchedIno, _ = c17Ino(fs.cfg)
	consumed := 0
	final, finalValid := h.Init, h.InitValid
	allIts := []c17Iter{}

	// endOfStep: the loop has completed an iteration that started after the operation; feed the new log entries to
	// the model, then compare reports/errors and the watch table.
	endOfStep := func(label string, fileMissing bool) bool {
		defer l.release()
		if !l.quiesce() {
			o.add("violation", "the watch loop did not take a reload signal within the deadline ("+label+")", nil, map[string]any{"log_tail": c17Tail(l.entries(), 12)}, nil)
			return false
		}
		ents := l.entries()
		// only complete iterations: any iteration in flight is held at the decoder gate before its first log entry
		its, anomalies := c17Parse(ents[consumed:])
		consumed = len(ents)
		for _, a := range anomalies {
			o.add("violation", "ordered log is not a sequence of loop iterations ("+label+"): "+a, nil, nil, nil)
		}
		allIts = append(allIts, its...)
		resNow, _ := filepath.EvalSymlinks(fs.cfg)
		if !m.dead {
			sawMissing := false
			for i, it := range its {
				act, ok := m.step(c, it, resNow, false)
				if !ok {
					o.add("disagreement", "driver: wt iter", nil, nil, act)
					m.dead = true
					break
				}
				sawMissing = sawMissing || it.Missing
				if m.reread {
					o.count("iter/model-asks-for-reread")
				}
				if strings.Contains(act, "D1"+cleanedHex) || strings.Contains(act, "D0"+cleanedHex) {
					watchedIno = 0
				}
				if strings.Contains(act, "A1"+cleanedHex) {
					watchedGen = fs.fileGen
					watchedIno, _ = c17Ino(fs.cfg)
					watchedReal = resNow
				}
				if got, want := it.observed(), c17RE(act); got != want {
					o.add("disagreement", fmt.Sprintf("%s, iteration %d: reports/errors of the model differ from the implementation's", label, i),
						nil, map[string]any{"read": c17Tok(it.Content), "decodes": it.Valid, "missing": it.Missing, "observed": got}, want)
					m.dead = true
					break
				}
				o.count("iter/" + map[string]string{"": "silent", "E": "error", "R": "report"}[firstByte(it.observed())])
			}
			if fileMissing && !sawMissing && !m.dead {
				// the iterations that found the file missing left no trace (their Remove succeeded or the watch was
				// already dropped); they are idempotent (C17_stutter), one of them is applied to the model
				act, ok := m.step(c, c17Iter{}, "", true)
				if !ok {
					m.dead = true
				}
				if strings.Contains(act, "D1"+cleanedHex) {
					watchedIno = 0
				}
				o.count("iter/missing(hidden)")
			} else if sawMissing {
				o.count("iter/missing(remove failed)")
			}
		}
		// convergence is immediate here: an iteration that started after the operation is complete
		if !fileMissing && !c17Converged(ents, h.Init, h.InitValid, final, finalValid) {
			good, _ := c17LastGood(ents, h.Init, h.InitValid)
			o.add("violation", "after an iteration that started after the operation ("+label+") the last reported value / reported error does not match the content on disk",
				map[string]any{"content": c17Tok(final), "decodes": finalValid}, map[string]any{"last_good": c17Tok(good), "log_tail": c17Tail(ents, 12)}, nil)
			return false
		}
		// the kernel's watch table against the model's
		if !m.dead && l.fd >= 0 {
			var why string
			deadline := time.Now().Add(2 * time.Second)
			for {
				why = c17CompareWatches(m, l, watchedGen, watchedIno, watchedReal)
				if why == "" || time.Now().After(deadline) {
					break
				}
				time.Sleep(5 * time.Millisecond)
			}
			if why != "" {
				ws, _ := unhexList(m.watches)
				o.add("disagreement", "kernel watch table differs from the model's after "+label+": "+why, nil, nil, map[string]any{"model_watches": ws, "watchingFile": m.wf})
				m.dead = true
			}
		}
		return true
	}

	if !endOfStep("start", false) {
		l.stop(o)
		return o
	}
	for i, op := range h.Ops {
		c17Sleep(op.PauseUS)
		label := fmt.Sprintf("op %d (%s/%s)", i, op.Mech, op.What)
		okStep := true
		err := fs.apply(op, func() {
			// between unlink and re-creation: the loop must have seen the file missing
			okStep = endOfStep(label+" after unlink", true)
		})
		if err != nil {
			o.add("violation", "harness: file operation failed: "+err.Error(), nil, nil, nil)
			break
		}
		before := 0
		if op.What == "same" {
			for _, e := range l.entries()[:consumed] {
				if e.K == "report" {
					before++
				}
			}
		}
		final, finalValid = op.Content, op.Valid
		o.count("op/" + op.Mech + "/" + op.What)
		if !okStep || !endOfStep(label, false) {
			break
		}
		if op.What == "same" && op.Mech != "delrec" && op.Mech != "inplace" && op.Mech != "inplace2" && op.Valid {
			after := 0
			for _, e := range l.entries() {
				if e.K == "report" {
					after++
				}
			}
			o.count("identical-atomic-replacement")
			if after != before {
				o.add("violation", "atomic replacement with identical content produced a new report ("+label+")", before, after, nil)
			}
		}
	}
	l.stop(o)
	c17LogOracles(o, allIts, nil)
	o.iters = len(allIts)
	o.finish(allIts)
	return o
}

// c17CompareWatches: must ⊆ kernel ⊆ allowed.  must = inodes of the directories in the model's table and of the file
// if the object it was added for is still the current one; allowed = inodes of everything in the model's table plus
// the object the file watch was added for (if it still exists).
func c17CompareWatches(m *c17Model, l *c17Live, watchedGen int, watchedIno uint64, watchedReal string) string {
	kernel, ok := c17FDInfo(l.fd)
	if !ok {
		return "cannot read fdinfo of the source's inotify descriptor"
	}
	ws, _ := unhexList(m.watches)
	must, allowed := map[uint64]string{}, map[uint64]bool{}
	for _, p := range ws {
		ino, ok := c17Ino(p)
		if !ok {
			continue
		}
		allowed[ino] = true
		if p != l.fs.cfg {
			must[ino] = p
		} else if watchedGen == l.fs.fileGen && ino == watchedIno {
			must[ino] = p
		}
	}
	if ino, ok := c17Ino(watchedReal); ok && watchedIno != 0 && ino == watchedIno {
		allowed[watchedIno] = true // the object the file watch was added for still exists (e.g. the old symlink target)
	}
	for ino, p := range must {
		if !kernel[ino] {
			return fmt.Sprintf("the model holds a watch on %s (inode %x) but the kernel does not", strings.TrimPrefix(p, l.fs.dir), ino)
		}
	}
	for ino := range kernel {
		if !allowed[ino] {
			return fmt.Sprintf("the kernel holds a watch on inode %x that the model's table does not explain (stale watch)", ino)
		}
	}
	return ""
}

// ---------- e2e: dials.Config + real file source + real JSON decoder ----------

// c17JSONDec wraps the REAL JSON decoder: it hands it exactly the bytes it read and logs them with the decoder's verdict,
// so that the number of versions the watcher must have produced is known (decoded content different from the last decoded one).
type c17JSONDec struct {
	inner djson.Decoder
	s     *c17Sess
}

func (d *c17JSONDec) Decode(r io.Reader, t *dials.Type) (reflect.Value, error) {
	b, err := io.ReadAll(r)
	if err != nil {
		d.s.add(c17Ent{K: "readerr", D: err.Error()})
		return reflect.Value{}, err
	}
	v, derr := d.inner.Decode(bytes.NewReader(b), t)
	d.s.add(c17Ent{K: "read", D: string(b), V: derr == nil})
	return v, derr
}

// versions the watcher must have reported: reads that decoded and differ from the last decoded read (the first read is
// the initial Value of dials.Config)
func c17ExpectedVersions(ents []c17Ent) int {
	n, last, have := 0, "", false
	for _, e := range ents {
		if e.K != "read" || !e.V {
			continue
		}
		if have && e.D != last {
			n++
		}
		last, have = e.D, true
	}
	return n
}

func c17RunE2E(c *Ctx, h c17Hist, base string) *c17Out {
	o := &c17Out{hist: h, counts: map[string]int{}}
	fs, err := c17NewFS(base, h)
	if err != nil {
		o.add("violation", "harness: cannot set up the temp directory: "+err.Error(), nil, nil, nil)
		return o
	}
	sess := c17NewSess()
	reload := make(chan os.Signal)
	ws, err := file.NewWatchingSource(fs.cfg, &c17JSONDec{s: sess}, file.WithSignalChannel(reload))
	if err != nil {
		o.add("violation", "NewWatchingSource failed: "+err.Error(), nil, nil, nil)
		return o
	}
	var errs atomic.Int64
	var lastErrDecoder atomic.Bool
	var imu sync.Mutex
	var installed []c17JSONCfg // configs handed to OnNewConfig, in order
	nInstalled := func() int { imu.Lock(); defer imu.Unlock(); return len(installed) }
	ctx, cancel := context.WithCancel(context.Background())
	var d *dials.Dials[c17JSONCfg]
	pprof.Do(ctx, pprof.Labels("c17", h.ID), func(ctx context.Context) {
		d, err = dials.Params[c17JSONCfg]{
			OnWatchedError: func(_ context.Context, e error, _, _ *c17JSONCfg) {
				var de *file.DecoderErr
				lastErrDecoder.Store(errors.As(e, &de))
				errs.Add(1)
			},
			OnNewConfig: func(_ context.Context, _, n *c17JSONCfg) {
				imu.Lock()
				installed = append(installed, *n)
				imu.Unlock()
			},
		}.Config(ctx, &c17JSONCfg{}, ws)
	})
	if err != nil {
		o.add("violation", "dials.Config failed on a valid initial file: "+err.Error(), nil, nil, nil)
		cancel()
		return o
	}
	dirIno, _ := c17Ino(fs.dir)
	want := func(s string) c17JSONCfg {
		var v c17JSONCfg
		json.Unmarshal([]byte(s), &v)
		return v
	}
	sync2 := func() bool {
		for i := 0; i < 2; i++ {
			select {
			case reload <- syscall.SIGHUP:
			case <-time.After(c17Deadline):
				return false
			}
		}
		return true
	}
	waitView := func(v c17JSONCfg) bool {
		t0 := time.Now()
		for time.Since(t0) < c17Deadline {
			if *d.View() == v {
				return true
			}
			time.Sleep(c17Poll)
		}
		return *d.View() == v
	}
	// every version the watcher reported so far is installed and announced (observation with a deadline)
	settled := func() bool {
		t0 := time.Now()
		for time.Since(t0) < c17Deadline {
			if nInstalled() >= c17ExpectedVersions(sess.snapshot()) {
				return true
			}
			time.Sleep(c17Poll)
		}
		return false
	}
	lastGood := want(h.Init)
	if *d.View() != lastGood {
		o.add("violation", "initial view is not the decoding of the initial file", lastGood, *d.View(), nil)
	}
	validSeen := map[c17JSONCfg]bool{lastGood: true}
	final, finalValid := h.Init, true
	failed := false
	for i, op := range h.Ops {
		c17Sleep(op.PauseUS)
		// identical atomic replacement is checked from a quiescent state: two complete iterations on the stable
		// content, everything reported so far installed; then the serial must not move
		checkSerial := op.What == "same" && op.Valid && (op.Mech == "rename" || op.Mech == "swap")
		var serBefore dials.CfgSerial[c17JSONCfg]
		if checkSerial {
			if !sync2() {
				o.add("violation", "the watch loop did not take a reload signal within the deadline", nil, nil, nil)
				failed = true
				break
			}
			if !settled() || *d.View() != want(final) {
				checkSerial = false // not converged: judged by the final convergence oracle
			}
			_, serBefore = d.ViewVersion()
		}
		if err := fs.apply(op, func() { c17Sleep(op.MidUS) }); err != nil {
			o.add("violation", "harness: file operation failed: "+err.Error(), nil, nil, nil)
			failed = true
			break
		}
		final, finalValid = op.Content, op.Valid
		if op.Valid {
			validSeen[want(op.Content)] = true
		}
		o.count("op/" + op.Mech + "/" + op.What)
		if checkSerial {
			if !sync2() {
				o.add("violation", "the watch loop did not take a reload signal within the deadline", nil, nil, nil)
				failed = true
				break
			}
			_, serAfter := d.ViewVersion()
			o.count("identical-atomic-replacement")
			if serAfter != serBefore {
				o.add("violation", fmt.Sprintf("op %d: atomic replacement with identical content changed the serial", i), "serial unchanged", "new version", nil)
			}
		}
	}
	if !failed {
		if finalValid {
			if !waitView(want(final)) {
				seen := false
				for _, e := range sess.snapshot() {
					seen = seen || (e.K == "read" && e.D == final)
				}
				o.nonConvergence("e2e: View() did not converge to the decoding of the final content within the deadline", seen, want(final), *d.View())
			}
		} else {
			// the error for the final content: after a rendezvous (two complete iterations on the final, invalid
			// content) at least one more decoder error reaches OnWatchedError
			t0 := time.Now()
			okErr := false
			for time.Since(t0) < c17Deadline {
				n := errs.Load()
				if !sync2() {
					break
				}
				t1 := time.Now()
				for errs.Load() == n && time.Since(t1) < 2*time.Second {
					time.Sleep(c17Poll)
				}
				if errs.Load() > n && lastErrDecoder.Load() {
					okErr = true
					break
				}
			}
			if !okErr {
				o.add("violation", "e2e: final content is invalid but no decoder error reached OnWatchedError", "DecoderErr", fmt.Sprintf("%d errors", errs.Load()), nil)
			}
			if v := *d.View(); !validSeen[v] {
				o.add("violation", "e2e: final content is invalid and the view is not one of the valid configs of the history", nil, v, nil)
			}
		}
		// versions: exactly one install per change of decoded content seen by the watcher; never two equal in a row
		if sync2() {
			settled()
			time.Sleep(2 * time.Millisecond)
			exp := c17ExpectedVersions(sess.snapshot())
			imu.Lock()
			got := append([]c17JSONCfg(nil), installed...)
			imu.Unlock()
			if len(got) > exp {
				o.add("violation", "e2e: more versions were installed than the watcher saw changes of decoded content", exp, len(got), nil)
			} else if len(got) < exp {
				o.count("e2e/fewer-callbacks-than-reports")
			}
			for k := 1; k < len(got); k++ {
				if got[k] == got[k-1] {
					o.add("violation", "e2e: two consecutive versions carry the same config (identical content produced a version)", nil, got[k], nil)
					break
				}
			}
			if len(got) > 0 && finalValid && got[len(got)-1] != want(final) && len(got) == exp {
				o.add("violation", "e2e: the last announced version is not the decoding of the final content", want(final), got[len(got)-1], nil)
			}
		}
	}
	cancel()
	done := make(chan struct{})
	go func() { ws.WG.Wait(); close(done) }()
	select {
	case <-done:
	case <-time.After(c17ReleaseLimit):
		o.add("violation", "e2e: after cancel WatchingSource.WG was not released within the limit", nil, nil, nil)
	}
	deadline := time.Now().Add(c17ReleaseLimit)
	for {
		left, fds := c17LabelledLeftovers(h.ID), c17FDsWatching(dirIno)
		if len(left) == 0 && len(fds) == 0 {
			break
		}
		if time.Now().After(deadline) {
			if len(left) > 0 {
				o.add("violation", "e2e: after cancel a goroutine of the file source / fsnotify is still alive", "none", left[0], nil)
			}
			if len(fds) > 0 {
				o.add("violation", "e2e: after cancel an inotify descriptor still watches the config's directory", "none", fds, nil)
			}
			break
		}
		time.Sleep(5 * time.Millisecond)
	}
	os.RemoveAll(fs.dir)
	o.iters = len(sess.snapshot())
	o.finish(nil)
	o.nontrivial = len(h.Ops) >= 2
	return o
}

// ---------- the two listed findings ----------

// waitConverged polls the log until the last reported value is the decoding of content (deadline: c17Deadline).
func (l *c17Live) waitConverged(h c17Hist, content string) bool {
	t0 := time.Now()
	for time.Since(t0) < c17Deadline {
		if c17Converged(l.entries(), h.Init, h.InitValid, content, true) {
			return true
		}
		time.Sleep(c17Poll)
	}
	return c17Converged(l.entries(), h.Init, h.InitValid, content, true)
}

// r25 (repaired defect D25): a ..data swap whose old target directory stays in place must be noticed through the swap's
// own event (<dir>/..data passes the loop's filter).
func c17RunR25(c *Ctx, h c17Hist, base string) *c17Out {
	o := &c17Out{hist: h, counts: map[string]int{}}
	l := c17Start(o, base, false)
	if l == nil {
		return o
	}
	op := h.Ops[0]
	if err := l.fs.apply(op, func() {}); err != nil {
		o.add("violation", "harness: file operation failed: "+err.Error(), nil, nil, nil)
		l.stop(o)
		return o
	}
	if l.waitConverged(h, op.Content) {
		o.count("r25/converged")
	} else {
		o.add("violation", "a Kubernetes-style ..data swap whose old timestamped directory stays in place was not picked up within the deadline (no event of the swap itself triggers a read)",
			"last reported value = decoding of the new target", map[string]any{"log_tail": c17Tail(l.entries(), 6), "waited": c17Deadline.String()}, nil)
	}
	l.stop(o)
	o.finish(nil)
	return o
}

// r26 (repaired defect D26): a regular config file is replaced by a symlink into another directory; the watch on the
// config's own directory must stay, and a later rename-over of the config must be noticed.
func c17RunR26(c *Ctx, h c17Hist, base string) *c17Out {
	o := &c17Out{hist: h, counts: map[string]int{}}
	l := c17Start(o, base, false)
	if l == nil {
		return o
	}
	for i, op := range h.Ops {
		if err := l.fs.apply(op, func() {}); err != nil {
			o.add("violation", "harness: file operation failed: "+err.Error(), nil, nil, nil)
			break
		}
		if !l.waitConverged(h, op.Content) {
			what := "replacing the regular config file by a symlink was not picked up within the deadline"
			if i > 0 {
				what = "after the regular config file had been replaced by a symlink into another directory, a rename-over of the config was not picked up within the deadline"
			}
			kernel, _ := c17FDInfo(l.fd)
			o.add("violation", what, "last reported value = decoding of the content on disk",
				map[string]any{"own_directory_watched_by_kernel": l.fd >= 0 && kernel[l.dirIno], "log_tail": c17Tail(l.entries(), 6), "waited": c17Deadline.String()}, nil)
			break
		}
		if i == 0 && l.fd >= 0 {
			// the kernel must still hold the watch on the config's own directory (observation retried)
			deadline := time.Now().Add(2 * time.Second)
			held := false
			for !held && time.Now().Before(deadline) {
				kernel, _ := c17FDInfo(l.fd)
				held = kernel[l.dirIno]
				if !held {
					time.Sleep(5 * time.Millisecond)
				}
			}
			if !held {
				o.add("violation", "after the regular config file was replaced by a symlink into another directory the watch on the config's own directory is gone", "watched", "not in /proc/self/fdinfo of the source's inotify descriptor", nil)
			}
		}
		o.count(fmt.Sprintf("r26/converged-after-op-%d", i))
	}
	l.stop(o)
	o.finish(nil)
	return o
}

// r27 (repaired defect D27): the loop reads the new symlink target BEFORE it adds the watch on the target's directory; an
// in-place write that lands in between produces no event, so the loop must read again after adding the watch.  The
// window is held open deterministically through the harness's decoder.
func c17RunR27(c *Ctx, h c17Hist, base string) *c17Out {
	o := &c17Out{hist: h, counts: map[string]int{}}
	hit, resume := make(chan struct{}), make(chan struct{})
	var once sync.Once
	l := c17Start(o, base, false)
	if l == nil {
		return o
	}
	swapContent := h.Ops[0].Content
	hook := func(b []byte) {
		if string(b) == swapContent {
			once.Do(func() {
				close(hit)
				<-resume
			})
		}
	}
	l.dec.afterRead.Store(&hook)
	if err := l.fs.apply(h.Ops[0], func() {}); err != nil {
		o.add("violation", "harness: file operation failed: "+err.Error(), nil, nil, nil)
		close(resume)
		l.stop(o)
		return o
	}
	select {
	case <-hit: // the loop has read the new target and has not yet touched its watches
	case <-time.After(c17Deadline):
		o.add("violation", "the ..data swap was not picked up within the deadline", c17Tok(swapContent), map[string]any{"log_tail": c17Tail(l.entries(), 8)}, nil)
		close(resume)
		l.stop(o)
		return o
	}
	err := l.fs.apply(h.Ops[1], func() {}) // in-place write through the symlink, inside the window
	close(resume)
	if err != nil {
		o.add("violation", "harness: file operation failed: "+err.Error(), nil, nil, nil)
		l.stop(o)
		return o
	}
	if l.waitConverged(h, h.Ops[1].Content) {
		o.count("r27/converged")
	} else {
		o.add("violation", "an in-place write to the new symlink target that landed between the loop's read and its Add of the new directory's watch was never read (no re-read after the watch was added)",
			"last reported value = decoding of the final content", map[string]any{"log_tail": c17Tail(l.entries(), 6), "waited": c17Deadline.String()}, nil)
	}
	l.stop(o)
	o.finish(nil)
	return o
}

// c17OverflowPairs: number of mkdir/rmdir pairs (two events each that do not coalesce) needed to overflow the kernel's
// inotify queue of this source while nobody drains it (0: the limit cannot be read or is too large for a regression run).
func c17OverflowPairs() int {
	b, err := os.ReadFile("/proc/sys/fs/inotify/max_queued_events")
	if err != nil {
		return 0
	}
	n, err := strconv.Atoi(strings.TrimSpace(string(b)))
	if err != nil || n <= 0 || n > 200000 {
		return 0
	}
	return n/2 + 4096 + 3000 // the queue itself, what fsnotify's reader may already hold (4096-event buffer), a margin
}

const c17OverflowDeadline = 40 * time.Second // draining ~30 000 filtered events takes seconds; generous under load

// ovf (seeded change: the Errors arm of the select must fall through to the read): park the loop inside a pass, overflow
// the inotify queue with unrelated names in the config's directory, rewrite the config in place (its event is dropped by
// the full queue), release the loop.  Once changes stop the last reported value must be the decoding of the final content:
// the only wake-up that can lead there is fsnotify's ErrEventOverflow.
func c17RunOvf(c *Ctx, h c17Hist, base string) *c17Out {
	o := &c17Out{hist: h, counts: map[string]int{}}
	pairs := c17OverflowPairs()
	if pairs == 0 {
		o.count("ovf/skipped(max_queued_events unreadable or too large)")
		o.finish(nil)
		return o
	}
	hit, resume := make(chan struct{}), make(chan struct{})
	var once sync.Once
	l := c17Start(o, base, false)
	if l == nil {
		return o
	}
	fail := func(kind, what string, exp, obs any) *c17Out {
		l.dec.afterRead.Store(nil)
		select {
		case <-resume:
		default:
			close(resume)
		}
		o.add(kind, what, exp, obs, nil)
		l.stop(o)
		return o
	}
	// 1. a first change, picked up; then the loop must be idle with no passing event left in its queue (observed: the
	//    log stays quiet), otherwise such an event - not the overflow error - would lead to the final read
	if err := l.fs.apply(h.Ops[0], func() {}); err != nil {
		return fail("violation", "harness: file operation failed: "+err.Error(), nil, nil)
	}
	if !l.waitConverged(h, h.Ops[0].Content) {
		return fail("violation", "the first rewrite was not picked up within the deadline", c17Tok(h.Ops[0].Content), map[string]any{"log_tail": c17Tail(l.entries(), 8)})
	}
	for q, n := 0, l.sess.length(); q < 25; {
		time.Sleep(2 * time.Millisecond)
		if m := l.sess.length(); m != n {
			n, q = m, 0
		} else {
			q++
		}
	}
	// 2. park the loop inside a pass: ONE event that passes the filter (a directory named like the Kubernetes link is
	//    created in the config's directory: a single IN_CREATE), the decoder holds the pass after its read
	hook := func(b []byte) {
		once.Do(func() {
			close(hit)
			<-resume
		})
	}
	l.dec.afterRead.Store(&hook)
	wakeName := map[string]string{"plain": "..data", "k8s": "..dir"}[l.fs.layout]
	if err := os.Mkdir(filepath.Join(l.fs.dir, wakeName), 0o755); err != nil {
		return fail("violation", "harness: mkdir failed: "+err.Error(), nil, nil)
	}
	select {
	case <-hit: // nobody takes events from fsnotify any more
	case <-time.After(c17Deadline):
		return fail("disagreement", "an event named <dir>/"+wakeName+" did not wake the loop into a read within the deadline (C17_events_pass)", "a read", map[string]any{"log_tail": c17Tail(l.entries(), 8)})
	}
	l.dec.afterRead.Store(nil)
	// 3. overflow the queue with unrelated names, then the change whose event is lost, then the release
	t0 := time.Now()
	for i := 0; i < pairs; i++ {
		p := filepath.Join(l.fs.dir, "junk"+strconv.Itoa(i))
		if err := os.Mkdir(p, 0o755); err != nil {
			return fail("violation", "harness: mkdir failed: "+err.Error(), nil, nil)
		}
		os.Remove(p)
	}
	o.count("ovf/unrelated-events-in-thousands/" + strconv.Itoa(2*pairs/1000))
	final := h.Ops[1]
	if err := l.fs.apply(final, func() {}); err != nil {
		return fail("violation", "harness: file operation failed: "+err.Error(), nil, nil)
	}
	burst := time.Since(t0)
	close(resume)
	t1 := time.Now()
	ok := false
	for time.Since(t1) < c17OverflowDeadline {
		if c17Converged(l.entries(), h.Init, h.InitValid, final.Content, final.Valid) {
			ok = true
			break
		}
		time.Sleep(5 * time.Millisecond)
	}
	o.converged = time.Since(t1)
	if ok {
		o.count("ovf/converged")
	} else {
		ents := l.entries()
		good, _ := c17LastGood(ents, h.Init, h.InitValid)
		seen := false
		for _, e := range ents {
			seen = seen || (e.K == "read" && e.D == final.Content)
		}
		o.add("violation", "after the inotify queue overflowed while the loop was busy, a rewrite of the config made during the overflow was never read: the view does not converge to the final content (the overflow error did not lead to a read)",
			map[string]any{"final": c17Tok(final.Content), "final_decodes": final.Valid},
			map[string]any{"last_good": c17Tok(good), "final_content_was_read": seen, "unrelated_events": 2 * pairs, "burst_took": burst.String(),
				"waited": c17OverflowDeadline.String(), "log_tail": c17Tail(ents, 6)}, nil)
	}
	l.stop(o)
	its, anomalies := c17Parse(l.entries())
	o.iters = len(its)
	c17LogOracles(o, its, anomalies)
	c17Correspond(c, o, its)
	o.finish(its)
	o.nontrivial = true
	return o
}

// ---------- event filter: model vs names the kernel really produced is environment; the filter itself is tied here ----------

func c17FilterCorrespondence(c *Ctx) {
	res := c.Res
	// at most three findings per kind: the list of findings is bounded and must keep room for the histories
	filed := map[string]int{}
	add := func(f Finding) {
		if filed[f.What]++; filed[f.What] <= 3 {
			res.Add(f)
		}
	}
	r := c.RNG.Fork()
	n := c.scale(200, 2000)
	for i := 0; i < n; i++ {
		dir := "/" + []string{"etc", "d", "var/run/cm", "a/b"}[r.Intn(4)]
		cleaned := dir + "/" + []string{"cfg", "config.json", "c"}[r.Intn(3)]
		resolved := cleaned
		if r.Chance(60) {
			resolved = dir + "/..2026_" + strconv.Itoa(r.Intn(5)) + "/" + filepath.Base(cleaned)
		}
		names := []string{cleaned, resolved, dir, filepath.Dir(resolved), dir + "/..dir", dir + "/..data", dir + "/..data", dir + "/..data_tmp", dir + "/other",
			filepath.Dir(resolved) + "/other", dir + "/..2026_9", "/", cleaned + "x"}
		name := names[r.Intn(len(names))]
		// reference: the names that must trigger a read (harness-owned copy): the file, its resolved path, both
		// directories, Kubernetes' ..data link and the legacy ..dir
		want := name == resolved || name == cleaned || name == filepath.Dir(cleaned) ||
			name == filepath.Join(filepath.Dir(cleaned), "..data") || name == filepath.Join(filepath.Dir(cleaned), "..dir") || name == filepath.Dir(resolved)
		rep := c.Drv.Ask("wt pass " + hexEnc(cleaned) + " " + hexEnc(resolved) + " " + hexEnc(name))
		if rep != "ok "+bit(want) {
			add(Finding{Kind: "disagreement", What: "event filter: model differs from the reference list of names", Case: map[string]string{"cleaned": cleaned, "resolved": resolved, "name": name}, Expected: bit(want), Model: rep})
		}
		// the select arm for this event, and for the wake-ups that carry no name
		arm := map[bool]string{true: "ok pass", false: "ok skip"}[want]
		if rep := c.Drv.Ask("wt arm " + hexEnc(cleaned) + " " + hexEnc(resolved) + " N" + hexEnc(name)); rep != arm {
			add(Finding{Kind: "disagreement", What: "select arm for an event: model differs from the reference", Case: map[string]string{"cleaned": cleaned, "resolved": resolved, "name": name}, Expected: arm, Model: rep})
		}
		for wk, wantArm := range map[string]string{"T": "ok pass", "L": "ok pass", "X": "ok pass", "D": "ok exit"} {
			if rep := c.Drv.Ask("wt arm " + hexEnc(cleaned) + " " + hexEnc(resolved) + " " + wk); rep != wantArm {
				add(Finding{Kind: "disagreement", What: "select arm for ticker / reload / watcher error / done context: model differs from the reference (all but the last must lead to a read)", Case: map[string]string{"wakeup": wk}, Expected: wantArm, Model: rep})
			}
		}
		res.Count("filter/" + bit(want))
		res.Case("filter|"+cleaned+"|"+resolved+"|"+name, name != cleaned, nil)
	}
}

// ---------- main ----------

func c17RunOne(c *Ctx, h c17Hist, base string) *c17Out {
	switch h.Mode {
	case "step":
		return c17RunStep(c, h, base)
	case "e2e":
		return c17RunE2E(c, h, base)
	case "r25":
		return c17RunR25(c, h, base)
	case "r26":
		return c17RunR26(c, h, base)
	case "r27":
		return c17RunR27(c, h, base)
	case "ovf":
		return c17RunOvf(c, h, base)
	case "two":
		return c17RunTwo(c, h, base)
	case "poll":
		return c17RunPoll(c, h, base)
	case "samedir":
		return c17RunSameDir(c, h, base)
	case "blank":
		return c17RunBlank(c, h, base)
	}
	return c17RunFree(c, h, base)
}

// one line per finished history from a child process (the last line of a batch has Done set)
type c17Line struct {
	ID         string         `json:"id"`
	Mode       string         `json:"mode"`
	Layout     string         `json:"layout"`
	NOps       int            `json:"n_ops"`
	Counts     map[string]int `json:"counts,omitempty"`
	Findings   []Finding      `json:"findings,omitempty"`
	Canon      string         `json:"canon"`
	Nontrivial bool           `json:"nontrivial"`
	Iters      int            `json:"iters"`
	ConvNS     int64          `json:"conv_ns"`
	Requests   int            `json:"requests,omitempty"`
	Done       bool           `json:"done,omitempty"`
}

// child: vh exec-one c17 <driver> <known findings file> <scratch dir> <batch file>
// Histories run in a child process because a listed finding (D28: unsynchronised map access inside fsnotify) can kill
// the whole process; the parent keeps what was finished and continues with the rest in a new child.
func c17Child(args []string) {
	if len(args) != 4 {
		os.Exit(2)
	}
	drv, err := StartDriver(args[0])
	if err != nil {
		os.Exit(3)
	}
	loadKnown(args[1])
	base := args[2]
	var hs []c17Hist
	b, err := os.ReadFile(args[3])
	if err != nil || json.Unmarshal(b, &hs) != nil {
		os.Exit(4)
	}
	c := &Ctx{Prop: "C17", Drv: drv, Res: &Result{Dist: map[string]int{}, KnownSeen: map[string]int{}}}
	var omu sync.Mutex
	w := bufio.NewWriter(os.Stdout)
	emit := func(l c17Line) {
		bs, _ := json.Marshal(l)
		omu.Lock()
		w.Write(bs)
		w.WriteByte('\n')
		w.Flush()
		omu.Unlock()
	}
	jobs := make(chan c17Hist)
	var wg sync.WaitGroup
	var bad atomic.Int64
	for k := 0; k < 10; k++ {
		wg.Add(1)
		go func() {
			defer wg.Done()
			for h := range jobs {
				if bad.Load() >= 3 {
					continue // enough failing histories: each one costs a full deadline
				}
				o := c17RunOne(c, h, base)
				for _, f := range o.findings {
					if f.Kind != "known" {
						bad.Add(1)
						break
					}
				}
				emit(c17Line{ID: h.ID, Mode: h.Mode, Layout: h.Layout, NOps: len(h.Ops), Counts: o.counts, Findings: o.findings,
					Canon: o.canon, Nontrivial: o.nontrivial, Iters: o.iters, ConvNS: int64(o.converged)})
			}
		}()
	}
	for _, h := range hs {
		jobs <- h
	}
	close(jobs)
	wg.Wait()
	// nothing of the file source may be left in this process (observation retried until a limit)
	fin := c17Line{Done: true, Requests: drv.n}
	if bad.Load() == 0 {
		leftG := func() bool {
			var buf bytes.Buffer
			pprof.Lookup("goroutine").WriteTo(&buf, 1)
			return strings.Contains(buf.String(), "dials/sources/file.") || strings.Contains(buf.String(), "fsnotify/fsnotify.")
		}
		deadline := time.Now().Add(c17ReleaseLimit)
		for (leftG() || len(c17InotifyFDs()) != 0) && time.Now().Before(deadline) {
			time.Sleep(10 * time.Millisecond)
		}
		if leftG() {
			var buf bytes.Buffer
			pprof.Lookup("goroutine").WriteTo(&buf, 1)
			fin.Findings = append(fin.Findings, Finding{Kind: "violation", What: "after all histories were cancelled goroutines of the file source / fsnotify are still alive", Observed: buf.String()[:min(buf.Len(), 2000)]})
		}
		if n := len(c17InotifyFDs()); n != 0 {
			fin.Findings = append(fin.Findings, Finding{Kind: "violation", What: "after all histories were cancelled inotify descriptors are still open", Expected: 0, Observed: n})
		}
	}
	emit(fin)
	drv.Close()
}

func init() { execOneHandlers["c17"] = c17Child }

// c17RunBatch runs the histories in a child process and feeds the lines to sink; it returns the ids that finished,
// whether the child completed the batch, and the child's stderr.
func c17RunBatch(c *Ctx, self, base string, hs []c17Hist, sink func(c17Line)) (finished map[string]bool, done bool, stderr string) {
	finished = map[string]bool{}
	bf := filepath.Join(base, "batch.json")
	b, _ := json.Marshal(hs)
	if err := os.WriteFile(bf, b, 0o644); err != nil {
		return finished, false, err.Error()
	}
	known := os.Getenv("VERIF_DIR")
	if known == "" {
		known = "/verif"
	}
	known = filepath.Join(known, "KNOWN_FINDINGS.txt")
	if c17KnownPath != "" {
		known = c17KnownPath
	}
	ctx, cancel := context.WithTimeout(context.Background(), 45*time.Minute)
	defer cancel()
	cmd := exec.CommandContext(ctx, self, "exec-one", "c17", c.DrvPath, known, base, bf)
	var eb bytes.Buffer
	cmd.Stderr = &eb
	outp, err := cmd.StdoutPipe()
	if err != nil {
		return finished, false, err.Error()
	}
	if err := cmd.Start(); err != nil {
		return finished, false, err.Error()
	}
	sc := bufio.NewScanner(outp)
	sc.Buffer(make([]byte, 1<<20), 1<<28)
	for sc.Scan() {
		var l c17Line
		if json.Unmarshal(sc.Bytes(), &l) != nil {
			continue
		}
		if l.Done {
			done = true
		} else {
			finished[l.ID] = true
		}
		sink(l)
	}
	cmd.Wait()
	return finished, done, eb.String()
}

// the known-findings file the run was started with (vh -known), for the children
var c17KnownPath string

func checkC17(c *Ctx) {
	res := c.Res
	res.Rule = "histories of 1-12 operations over {in-place rewrite (one write / two chunks), atomic rename-over, Kubernetes-style ..data symlink swap incl. removal of the old timestamped directory, " +
		"delete-and-recreate} x {new valid content, identical bytes, malformed content}, pauses from {0, 1 ms, 20 ms} before and inside operations, plain and Kubernetes layouts (k8s -> plain by renaming over the symlink), " +
		"8% invalid initial files; modes: free (event driven, racing), step (rendezvous through the Reload channel, exact model state, kernel watch table from /proc/self/fdinfo), e2e (dials.Config + JSON decoder), " +
		"two (two watched files stacked under a Verify that relates them: a file's final content rejected when reported must still be part of the view once the other file makes the whole valid), " +
		"poll (source built WithPollInterval(40ms): the config's directory is removed and recreated 3-6 intervals later with new content, 2-3 times: only the fallback poll can see it), " +
		"samedir (the watched path is a symlink retargeted to sibling files of ONE directory, each followed by in-place rewrites of the new target), " +
		"the direct modes' decoder fails on malformed content with a plain error or with one that wraps ENOENT (the config file exists all the same); " +
		"plus ..data swaps whose old target stays in place and regular-file-to-symlink transitions, the deterministic regression streams r25/r26/r27 of the repaired defects D25-D27, the inotify-queue-overflow stream ovf (loop parked in the decoder, ~2*(max_queued_events/2+7096) unrelated mkdir/rmdir events, config rewritten, loop released) and an event-filter / select-arm stream; histories run in child processes (listed finding D28 can kill the process); " +
		"non-trivial: at least 2 operations of at least 2 different (mechanism, content) kinds and at least one reported version; distinct = by operation list and observed report/error sequence"
	base := c.WorkDir
	if base == "" {
		base = os.TempDir()
	}
	base, _ = filepath.Abs(filepath.Join(base, "c17tmp"))
	os.RemoveAll(base)
	if err := os.MkdirAll(base, 0o755); err != nil {
		res.Add(Finding{Kind: "violation", What: "harness: cannot create scratch directory: " + err.Error()})
		return
	}
	defer os.RemoveAll(base)
	if f := flag.Lookup("known"); f != nil {
		c17KnownPath = f.Value.String()
	}

	if c.Replay != "" {
		c17Replay(c, base)
		return
	}

	c17FilterCorrespondence(c)

	nFree, nStep, nE2E, nKnown := c.scale(1500, 12000), c.scale(1500, 12000), c.scale(300, 2500), 2
	if c.Search { // real time dominates: the witness search enlarges moderately
		nFree, nStep, nE2E = nFree/4, nStep/4, nE2E/4
	}
	var hs []c17Hist
	r := c.RNG
	for i := 0; i < nFree; i++ {
		hs = append(hs, c17GenHist(r.Fork(), fmt.Sprintf("f%d", i), "free"))
	}
	for i := 0; i < nStep; i++ {
		hs = append(hs, c17GenHist(r.Fork(), fmt.Sprintf("s%d", i), "step"))
	}
	for i := 0; i < nE2E; i++ {
		hs = append(hs, c17GenHist(r.Fork(), fmt.Sprintf("e%d", i), "e2e"))
	}
	nTwo := c.scale(60, 600)
	if c.Search {
		nTwo /= 2
	}
	for i := 0; i < nTwo; i++ {
		hs = append(hs, c17GenTwo(r.Fork(), fmt.Sprintf("t%d", i)))
	}
	for i := c.scale(12, 100); i > 0; i-- {
		hs = append(hs, c17GenPoll(r.Fork(), fmt.Sprintf("p%d", i)))
	}
	for i := c.scale(40, 400); i > 0; i-- {
		hs = append(hs, c17GenSameDir(r.Fork(), fmt.Sprintf("d%d", i)))
	}
	for i := c.scale(30, 300); i > 0; i-- {
		hs = append(hs, c17GenBlank(r.Fork(), fmt.Sprintf("b%d", i)))
	}
	for i := 0; i < nKnown; i++ {
		id := fmt.Sprintf("k%d", i)
		hs = append(hs, c17Hist{ID: "r25" + id, Mode: "r25", Layout: "k8s", Init: "K=" + id + ".0:;", InitValid: true,
			Ops: []c17Op{{Mech: "swapkeep", What: "new", Content: "K=" + id + ".1:;", Valid: true}}})
		hs = append(hs, c17Hist{ID: "r26" + id, Mode: "r26", Layout: "plain", Init: "K=" + id + ".0:;", InitValid: true,
			Ops: []c17Op{{Mech: "tosymlink", What: "new", Content: "K=" + id + ".1:;", Valid: true}, {Mech: "rename", What: "new", Content: "K=" + id + ".2:;", Valid: true}}})
		hs = append(hs, c17Hist{ID: "r27" + id, Mode: "r27", Layout: "k8s", Init: "K=" + id + ".0:;", InitValid: true,
			// the old target stays in place: the rename onto ..data is the only event of the swap that passes the filter
			Ops: []c17Op{{Mech: "swapkeep", What: "new", Content: "K=" + id + ".1:;", Valid: true}, {Mech: "inplace", What: "new", Content: "K=" + id + ".2:;", Valid: true}}})
	}
	// deterministic interaction histories: a ..data swap to a generation with IDENTICAL bytes (no new version - but the
	// loop must still follow the symlink to the new directory), then an in-place rewrite of the file the path now
	// resolves to: seen only if the watch moved with the swap
	for i, mech := range []string{"swap", "swapkeep", "swap"} {
		for _, mode := range []string{"step", "free", "e2e"} {
			id := fmt.Sprintf("%s%d", mode[:1], 900000+i)
			rr := r.Fork()
			c0 := c17GenContent(rr, id, 0, "new", mode == "e2e")
			c1 := c17GenContent(rr, id, 1, "new", mode == "e2e")
			hs = append(hs, c17Hist{ID: id, Mode: mode, Layout: "k8s", Init: c0, InitValid: true,
				Ops: []c17Op{{Mech: mech, What: "same", Content: c0, Valid: true, PauseUS: c17Pauses[i%3]}, {Mech: "inplace", What: "new", Content: c1, Valid: true, PauseUS: c17Pauses[(i+1)%3]}}})
		}
	}
	// overflow regression stream (slow: tens of thousands of file system events per history)
	nOvf := c.scale(4, 16)
	if c.Search {
		nOvf = 4
	}
	for i := 0; i < nOvf; i++ {
		rr := r.Fork()
		id := fmt.Sprintf("o%d", i)
		h := c17Hist{ID: id, Mode: "ovf", Layout: []string{"plain", "k8s"}[i%2], Init: "K=" + id + ".0:;", InitValid: true}
		last := c17Op{Mech: "inplace", What: "new", Valid: true}
		if rr.Chance(50) {
			last.Mech = map[string]string{"plain": "rename", "k8s": "swap"}[h.Layout]
		}
		if rr.Chance(25) {
			last.What = "bad"
		}
		last.Content = c17GenContent(rr, id, 2, last.What, false)
		last.Valid = c17ValidText([]byte(last.Content))
		h.Ops = []c17Op{{Mech: "inplace", What: "new", Content: c17GenContent(rr, id, 1, "new", false), Valid: true}, last}
		hs = append(hs, h)
	}
	// interleave the modes so that an early stop still saw all of them
	sort.SliceStable(hs, func(i, j int) bool { return c17Order(hs[i].ID) < c17Order(hs[j].ID) })

	self, _ := os.Executable()
	bad, convMax, iters, requests, crashes := 0, int64(0), 0, 0, 0
	sink := func(l c17Line) {
		for _, f := range l.Findings {
			res.Add(f)
			if f.Kind != "known" {
				bad++
			}
		}
		if l.Done {
			requests += l.Requests
			return
		}
		for k, n := range l.Counts {
			for i := 0; i < n; i++ {
				res.Count(k)
			}
		}
		res.Count("history/" + l.Mode + "/" + l.Layout)
		if l.ConvNS > convMax {
			convMax = l.ConvNS
		}
		iters += l.Iters
		res.Case(l.Canon+"|"+l.ID[:1], l.Nontrivial, map[string]any{"mode": l.Mode, "layout": l.Layout, "ops": l.NOps, "iterations": l.Iters})
	}
	const batch = 700
	for from := 0; from < len(hs) && bad < 3; from += batch {
		todo := hs[from:min(from+batch, len(hs))]
		for attempt := 0; len(todo) > 0 && bad < 3; attempt++ {
			finished, done, stderr := c17RunBatch(c, self, base, todo, sink)
			if done {
				break
			}
			// the child died
			crashes++
			var rest []c17Hist
			for _, h := range todo {
				if !finished[h.ID] {
					rest = append(rest, h)
				}
			}
			head := stderr
			if len(head) > 1500 {
				head = head[:1500]
			}
			if strings.Contains(stderr, "concurrent map") && strings.Contains(stderr, "fsnotify.(*inotify).readEvents") {
				kind := "violation"
				if isKnown("C17", "D28-fsnotify-unlocked-map-read") {
					kind = "known"
				}
				res.Add(Finding{Kind: kind, KnownID: "D28-fsnotify-unlocked-map-read", Case: map[string]any{"histories_in_flight": len(rest), "seed": c.Seed},
					What:     "the process died with `fatal error: concurrent map read and map write`: fsnotify's event reader looks a path up in its watch table without the lock (IN_DELETE_SELF handling) while the watch loop adds / removes a watch",
					Observed: head})
				if kind != "known" {
					bad++
				}
			} else {
				res.Add(Finding{Kind: "violation", What: "the process running the watcher histories died", Case: map[string]any{"histories_in_flight": len(rest), "seed": c.Seed}, Observed: head})
				bad++
			}
			if attempt >= 3 {
				res.Add(Finding{Kind: "violation", What: "the process running the watcher histories died four times on the same batch", Case: map[string]any{"seed": c.Seed}})
				bad++
				break
			}
			todo = rest
		}
	}
	res.TracesVsImpl = iters
	c.Drv.n += requests
	res.Count(fmt.Sprintf("child-process-crashes/%d", crashes))
	res.Notes = append(res.Notes, fmt.Sprintf("loop iterations reproduced by the driver: %d; slowest convergence after the last operation (free mode): %s; deadline %s; child processes that died: %d",
		iters, time.Duration(convMax).Round(time.Millisecond), c17Deadline, crashes))
}

func c17Order(id string) int {
	// f12 -> 12*4+0, s12 -> 12*4+1, e12 -> 12*4+2, d1x -> early
	if strings.HasPrefix(id, "r2") || strings.HasPrefix(id, "o") {
		return 0 // the slow deterministic streams start first and overlap with the rest
	}
	n, _ := strconv.Atoi(id[1:])
	if n >= 900000 {
		return 0 // the deterministic interaction histories run first as well
	}
	return n*4 + strings.Index("fse", id[:1]) + 1
}

// c17Replay re-runs the history of a replay file (several times: the property is about races).
func c17Replay(c *Ctx, base string) {
	b, err := os.ReadFile(c.Replay)
	if err != nil {
		c.Res.Add(Finding{Kind: "violation", What: "cannot read replay file: " + err.Error()})
		return
	}
	var rp struct {
		Violation struct {
			Case c17Hist `json:"case"`
		} `json:"violation"`
	}
	if err := json.Unmarshal(b, &rp); err != nil || rp.Violation.Case.ID == "" {
		c.Res.Add(Finding{Kind: "violation", What: "replay file carries no C17 history"})
		return
	}
	h := rp.Violation.Case
	for i := 0; i < 5; i++ {
		h.ID = fmt.Sprintf("r%d", i)
		o := c17RunOne(c, h, base)
		for _, f := range o.findings {
			c.Res.Add(f)
		}
		c.Res.Case(o.canon+fmt.Sprint(i), true, h)
	}
}
